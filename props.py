"""Per-property configuration of the orchestrator (modules whose theorems are the obligations,
trusted base additions, assumptions, evidence rule text)."""

SP_TB = [
    "modelled, not verified: XML tokenisation/unmarshalling (encoding/xml, etree, xml-roundtrip-validator), "
    "goxmldsig signature validation and xmlenc decryption are inputs of the struct-level model (SigState, Wrap, Option fields); "
    "the harness constructs them with real crypto so that the real code computes them itself",
]

PROPS = {
    "C02": {
        "modules": ["SamlVerif.Props.C02", "SamlVerif.Props.TransSP", "SamlVerif.Props.TransParse", "SamlVerif.Props.PureSaml"],
        "trusted_base": SP_TB,
        "assumptions": ["instants are integers (ms); Go time.Time saturation is not reachable for parsed years 0..9999 and |tolerance| < 2^63 ns",
                        "signature states are as constructed by the harness (signed by a trusted key = valid, by another key = invalid)"],
        "rule": "5^5 boundary lattice {on, 1ms inside, 1ms outside, far inside, far outside} for response/assertion IssueInstant, "
                "NotBefore, NotOnOrAfter, confirmation NotOnOrAfter (thorough: x 9 tolerance configurations incl. zero/negative/asymmetric), plus random "
                "multi-assertion / multi-confirmation cases with varying lexical time forms; every case is rendered to signed XML and parsed by the real "
                "ServiceProvider.ParseXMLResponse under a controlled TimeNow; distinct = distinct abstract case lines",
    },
    "C03": {
        "modules": ["SamlVerif.Props.C03", "SamlVerif.Props.TransSP", "SamlVerif.Props.TransParse", "SamlVerif.Props.PureSaml"],
        "trusted_base": SP_TB,
        "assumptions": ["string comparison in Go is byte equality; model strings are Unicode strings (cases are valid UTF-8)"],
        "rule": "near-miss lattice {correct, wrong, upper-cased, trailing slash, query, proper prefix, extension, empty, absent} for Response Issuer, "
                "Assertion Issuer, Recipient, Destination, StatusCode, 0..3 audiences x signed/unsigned Response x entity ID set/unset x custom audience "
                "validator x received-at URL =/!= ACS; single perturbations exhaustively, 2-3-fold sampled",
    },
    "C04": {
        "modules": ["SamlVerif.Props.C04", "SamlVerif.Props.TransBinding", "SamlVerif.Props.TransSP", "SamlVerif.Props.TransParse", "SamlVerif.Props.TransArtifact", "SamlVerif.Props.TransMiddleware", "SamlVerif.Props.PureSaml", "SamlVerif.Props.PureSamlsp"],
        "trusted_base": SP_TB,
        "assumptions": [],
        "rule": "outstanding-ID sets {empty, one, several, containing \"\", near-miss} x InResponseTo {match, other, empty, prefix, extension} at response "
                "and confirmation level x AllowIDPInitiated x custom validator x entry points ParseXMLResponse / ParseResponse(POST) / "
                "ParseXMLArtifactResponse / ParseResponse(SAMLart via a RoundTripper that answers the real ArtifactResolve); since the seeded-change rounds: shape lattice: every instant x boundary position x message shapes (Response without Issuer, several assertions / confirmations, non-bearer confirmations); since the seeded-change rounds: the single-perturbation lattice crossed with AllowIDPInitiated; other-identifier audiences; relative received-at URLs; nested status codes; since the seeded-change rounds: middleware scenario: unsolicited / foreign / extended InResponseTo while flows are pending, a session token presented as tracking cookie",
    },
}

PROPS["C09"] = {
    "modules": ["SamlVerif.Props.C09", "SamlVerif.Props.TransBinding", "SamlVerif.Props.PureSaml"],
    "trusted_base": SP_TB + ["termination and allocation of xrv, encoding/xml and etree on arbitrary bytes are not modelled (partial): "
                             "the model covers the library's own logic after parsing plus the inflate bound"],
    "assumptions": [],
    "rule": "schema-valid responses with every subset of 8 optional parts removed x 4 signing layouts, valid IdP signature re-applied (struct-level model); "
            "byte-level mutation (bit flips, deletions, duplications, truncation, markup tokens, element drop/duplicate) of the repository's fixtures through 8 entry points "
            "(ParseXMLResponse, ParseResponse, ParseXMLArtifactResponse, logout form/redirect, NewIdpAuthnRequest+Validate, samlsp.ParseMetadata, samlidp PUT /services) with recover and a 10 s watchdog; "
            "deflate bombs of 1 KB..100 MB through both inflating entry points with allocation measurement; 11 artifact-resolver fault modes; 17 key-descriptor layouts through the IdP; since the seeded-change rounds: ciphertexts that yield no assertion element (undecryptable in eight ways, element-free plaintext) under signed/unsigned Responses through xml and POST entry points; resolver answers framed with Content-Length -1 / 0 / too small / 2 GiB; deflated payloads through the POST-binding entry points; structure-aware metadata (attribute subsets x nesting x 4 entry points); fingerprint totality cases",
}

PROPS["C15"] = {
    "modules": ["SamlVerif.Props.C15", "SamlVerif.Proofs.Time", "SamlVerif.Props.PureSaml"],
    "trusted_base": ["modelled, not verified: Go's regexp engine (the two duration regexps are replaced by a deterministic recogniser, tied by correspondence), "
                     "strconv; Go's time package is an implementation of the proleptic Gregorian calendar, which the model computes by the era / day-of-era decomposition "
                     "(the inverse and the validity of every computed date are proved: one kernel computation over the 146097 days of an era, 366 days of a year)",
                     "metadata: the fields C15 names (entity ID, validity instant, cache duration, endpoints, key descriptors) are modelled through write/read (Model/Metadata.lean, tied by mdnorm); encoding/xml's traversal of the alias structs and every other part of a descriptor are NOT modelled and are checked by the direct oracles only (testing)"],
    "assumptions": ["Go int64 arithmetic wraps modulo 2^64 (language specification)",
                    "instants: the rounded instant lies in a year of at most four digits (the excluded half millisecond at the end of 9999 is the known finding c15-year-10000-rounding, with a counterexample theorem)"],
    "rule": "durations: boundary classes exhaustively (each sub-second digit count, carries at 60 s / 60 min, negatives, +-1 around every unit, MinInt64/MaxInt64) "
            "+ random int64; duration strings: fixed list of documented/undocumented forms + grammar-generated + single-position mutations; "
            "instants: 31 years around era/century/leap borders x 9 month-days x 3 clock times x 12 nanosecond values around the rounding boundary + random instants in years 1..9999 with random zones (MarshalText vs model, read-back oracle); "
            "instant strings: 47 listed valid/invalid forms + generated forms in 7 lexical styles with single-position mutations (UnmarshalText vs model); "
            "metadata: generated EntityDescriptor values (SP/IdP descriptors, endpoints incl. unknown bindings, key descriptors, validity, cache duration, organisation) and the library's own sp.Metadata()/idp.Metadata() "
            "through two marshal/unmarshal generations (direct oracle: fixed point, preservation, equality); since the seeded-change rounds: grammar-generated duration strings with the value the generator assembled them from (leading zeros up to 0000); EntitiesDescriptor aggregates (nested, by value and by pointer); mdnorm: the model's normal form against xml.Unmarshal(xml.Marshal(ed))",
}

XMLENC_TB = ["modelled, not verified: AES/DES/RSA/GCM primitives (abstract Block/Aead/rsaDec parameters of the theorems; in the correspondence they are "
             "a ledger computed with the standard library independently of xmlenc), etree path lookup, base64",
             "hook: xmlenc/verif_hooks.go (toy block cipher for byte-exact CBC framing comparison)"]
PROPS["C10"] = {
    "modules": ["SamlVerif.Props.C10", "SamlVerif.Props.TransPad", "SamlVerif.Props.TransCBC", "SamlVerif.Props.PureXmlenc"],
    "trusted_base": XMLENC_TB,
    "assumptions": ["block ciphers are length-preserving permutations of blocks; AEAD open(seal) = id (hypotheses Block.Good / Aead.Good)",
                    "interoperation is tested against a reference written from the W3C text with the standard library (testing, not proof); "
                    "the reference uses the same hash for OAEP's MGF as Go's rsa.EncryptOAEP does"],
    "rule": "toy cipher byte-exact for every plaintext length 0..4 blocks+1 (block sizes 8, 16) + random; every offered block cipher x direct key and x "
            "every key transport/digest, plaintext lengths 0..4 blocks+1, Encrypt -> harness's reading of the element -> real registry dispatch vs model "
            "with stdlib-computed ledger; reference interop both directions; AES-GCM decrypt of reference values and the GCM encryption known finding; since the seeded-change rounds: decrypt hold-and-compare sequence across the CBC ciphers; reference-made GCM values at every length 0..65 with every kind of final byte at block-aligned lengths",
}
PROPS["C11"] = {
    "modules": ["SamlVerif.Props.C11", "SamlVerif.Props.TransPad", "SamlVerif.Props.TransCBC", "SamlVerif.Props.PureXmlenc"],
    "trusted_base": XMLENC_TB,
    "assumptions": ["AEAD authenticity (Aead.Good.auth) for the GCM tamper theorem"],
    "rule": "cipher-value lengths 0..4 blocks+1 exhaustively for the toy cipher and every registered algorithm; wrong key sizes and Go key types; "
            "every single-byte flip and every truncation of a valid GCM value; structure-aware mutation (0-3 dimensions) of valid two-layer elements "
            "(algorithm/digest identifiers, certificates, cipher values absent/bad base64/truncated/extended/flipped, nested or removed EncryptedKey); since the seeded-change rounds: relabelled messages (encrypted under R, renamed to another AES size, key wrapped by OAEP / PKCS1v15); KeyInfo written with prefixes ds / dsig / x / default namespace x every kind of embedded certificate",
}

PROPS["C05"] = {
    "modules": ["SamlVerif.Props.C05", "SamlVerif.Props.TransRegistry", "SamlVerif.Props.TransServe", "SamlVerif.Props.TransIdP", "SamlVerif.Props.TransIdpInit", "SamlVerif.Props.PureSaml"],
    "trusted_base": ["modelled, not verified: base64/inflate decoding and encoding/xml unmarshalling of the AuthnRequest (the model starts from the unmarshalled "
                     "fields; the harness sends real GET-deflate and POST encodings through NewIdpAuthnRequest + Validate)"],
    "assumptions": ["freshness is read one-sidedly (now <= IssueInstant + MaxIssueDelay), as the anchored code words it"],
    "rule": "random requests over present/absent/forged Issuer, Destination, Version, IssueInstant (freshness boundary lattice), ACS URL and index (incl. "
            "non-canonical index spellings) against registries with 0-3 SPSSODescriptors x 0-4 endpoints (bindings POST/Redirect/Artifact/unknown, duplicate "
            "and negative indices, isDefault none/true/false, duplicate locations), registry errors; GET-deflate and POST; IdP-initiated launches through ServeIDPInitiated; since the seeded-change rounds: 24 near misses of the SSO URL as Destination alone on a valid request (port, query, fragment, userinfo, escapes, case, dot segments); completeness oracle for IdP-initiated launches",
}

PROPS["C18"] = {
    "modules": ["SamlVerif.Props.C18", "SamlVerif.Props.TransSP", "SamlVerif.Props.TransTrust", "SamlVerif.Props.TransLogout", "SamlVerif.Props.PureSaml"],
    "trusted_base": SP_TB + ["the validator reads time.Now(), not the library clock: freshness cases keep a 5 s guard band around the boundary"],
    "assumptions": ["inflate(deflate b) = b for the encodings-agree theorem"],
    "rule": "both encodings x 4 entry points x signature transformations (valid, none, untrusted key, edited after signing, relocated, duplicated, other trusted-looking key) "
            "x decoding failures (base64, XML, round-trip validator, no root, other root element, bad deflate) x {correct, wrong, near-miss, absent} Destination/Issuer/Status x IssueInstant around the boundary; since the seeded-change rounds: nested status codes; IdP key rotation on one kept ServiceProvider (metadata replaced, same entity ID); fingerprint pinning and two-certificate KeyInfo; the SP's own other URLs as wrong Destinations",
}

BIND_TB = ["modelled, not verified: compress/flate (abstract; exercised end to end by the harness), url.Parse / URL.String on the IdP endpoint "
           "(the model takes the endpoint's raw query as given), etree serialisation of the message"]
PROPS["C12"] = {
    "modules": ["SamlVerif.Props.C12", "SamlVerif.Props.TransMiddleware", "SamlVerif.Props.TransBinding", "SamlVerif.Props.PureSaml"],
    "trusted_base": BIND_TB,
    "assumptions": ["inflate(deflate b) = b", "POST forms: C12_post_form is stated over the template skeleton that C14_form_skeletons / C12_post_templates tie to the source"],
    "rule": "24 fixed hostile relay states/name IDs (& = # + % ; ? blanks quotes NUL-free controls, non-ASCII, >80 bytes) x 4 IdP endpoints (with/without query) "
            "x AuthnRequest/LogoutRequest/LogoutResponse redirects + random strings over a metacharacter alphabet; emitted RawQuery compared byte for byte with the model; "
            "the real IdP parses every AuthnRequest; codec models (QueryEscape/Unescape, ParseQuery, base64 incl. mutated encodings) against net/url and encoding/base64; "
            "message IDs under a recording RandReader; since the seeded-change rounds: POST forms: sequences of 1-6 creations on one SP with every form read after the last creation; hostile strings (]]> CR LF TAB < & quotes) in attribute positions (InResponseTo, entity IDs, endpoint queries) x three message kinds x both bindings; short-read RandReader",
}
PROPS["C13"] = {
    "modules": ["SamlVerif.Props.C13", "SamlVerif.Props.TransMiddleware", "SamlVerif.Props.TransBinding", "SamlVerif.Props.PureSaml"],
    "trusted_base": BIND_TB + ["RSA/ECDSA signing and goxmldsig enveloped signing are primitives (parameter `sign`); verification in the harness uses crypto/rsa, "
                              "crypto/ecdsa directly for the redirect binding and a fresh goxmldsig validation context for XML signatures"],
    "assumptions": [],
    "rule": "10 method URIs (8 known + 2 unknown) x RSA 1024/2048/3072/4096 and ECDSA P-256/384/521 keys x endpoints with/without query x relay states, redirect binding; "
            "POST AuthnRequest, POST/redirect logout messages and ArtifactResolve verified as enveloped signatures; method/key table; since the seeded-change rounds: key / method rotation on one SP value, each message verified under the certificate Metadata() publishes at that moment; ArtifactResolve as it arrives at the IdP through the real ParseResponse(SAMLart) with a transport that lets the process serialise other XML first; IdPs without SLO endpoints",
}

PROPS["C14"] = {
    "modules": ["SamlVerif.Props.C14", "SamlVerif.Proofs.HtmlForm", "SamlVerif.Props.PureSaml"],
    "trusted_base": ["modelled, not verified: html/template's context analysis (replaced by the decidable predicate templateOK over the template text extracted from the current source) "
                     "and its escaper functions (re-implemented byte for byte; rendered output compared byte for byte with the real template execution)",
                     "the WHATWG tokenizer is represented by the two states the templates use (double-quoted attribute value, data); the harness parses every real output with golang.org/x/net/html",
                     "net/url.Parse beyond scheme scanning, fragment cut and control-byte rejection (one-directional relation: code accepts => model accepts the same value)"],
    "assumptions": [],
    "rule": "hostile strings (HTML/JS metacharacters, quotes, NUL, U+2028/9, template delimiters, tag/comment/CDATA look-alikes) and hostile URLs (javascript:, data:, vbscript:, case/blank/tab tricks, relative, malformed) "
            "in every interpolated position of the SP request/logout forms, IdP response form, samlidp login form and middleware POST page; rendered bytes compared with the model's rendering of the extracted template; "
            "metadata Location/ResponseLocation x known and unknown bindings x every endpoint-bearing element through xml.Unmarshal and samlsp.ParseMetadata; since the seeded-change rounds: Location x ResponseLocation for Endpoint and IndexedEndpoint with a direct oracle; form-stability sequence over the three SP renderers; regenerated template-data types",
}

PROPS["C16"] = {
    "modules": ["SamlVerif.Props.C16", "SamlVerif.Props.TransSession", "SamlVerif.Props.PureSamlsp"],
    "trusted_base": ["modelled, not verified: golang-jwt parsing and validation order (re-implemented as `parse`; tied by structure-aware token mutation), JSON encoding of claims, net/http cookie handling",
                     "signatures are symbolic (Mac): a signature verifies under (alg, key) iff it was made with that alg and key over these bytes"],
    "assumptions": ["whole-second comparison of exp/nbf/iat as golang-jwt does for StandardClaims"],
    "rule": "valid session tokens x clock lattice around iat/nbf/exp, attribute gates (present/absent/near-miss values), no cookie, malformed/truncated/extended strings, payload or signature altered without re-signing, "
            "algorithm substitution (none, HS256 keyed with the public key PEM, RS512, other key family), other keys, correctly signed tokens with edited claims (audience/issuer/markers/time claims), "
            "tracking tokens of the same SP, cross-deployment replay with a shared key; RSA and ECDSA deployments with custom lifetime and cookie name; tokens minted by the real codec from random assertions "
            "(friendly names, repeated attributes, several statements, absent Subject/NameID) — observed through RequireAccount/RequireAttribute; since the seeded-change rounds: one handler chain per gate kept for the life of the deployment and a gate sequence (privileged, then unprivileged sessions, no cookie); deployments differing only in the path of their URL",
}

PROPS["C17"] = {
    "modules": ["SamlVerif.Props.C17", "SamlVerif.Props.TransMiddleware", "SamlVerif.Props.TransSession", "SamlVerif.Props.PureSamlsp"],
    "trusted_base": ["modelled, not verified: net/http cookie parsing and Set-Cookie semantics, the SAML response validation itself (abstracted to valid/InResponseTo here; it is C01-C04's subject), golang-jwt (see C16)",
                     "cookie names are abstracted to tracking(index) / session / other (strings.HasPrefix / TrimPrefix with the fixed prefix \"saml_\")"],
    "assumptions": ["browser jars hold at most one cookie per name (hypothesis of the completion theorems; the refusal/binding theorems hold for arbitrary cookie lists)"],
    "rule": "histories over 1-3 (thorough: 1-5) concurrent flows in one browser, redirect and POST request bindings, http and https deployments: every flow start, then per flow 12 adversarial deliveries "
            "(no cookies, only other flows' cookies, renamed, tampered, forged by another key, session token as tracker, foreign InResponseTo, invalid response, no RelayState, URL as RelayState, other flow's RelayState), "
            "then faithful completion in a random order with clock moves around the tracking lifetime and replays; each ACS reply (status, Location, session cookie and flags, cleared cookies) compared with the model; since the seeded-change rounds: jars that hold the authentic cookies plus a bad cookie named by RelayState (tampered / renamed / forged / session token / garbage / expired); unsolicited responses while flows are pending",
}

PROPS["C19"] = {
    "modules": ["SamlVerif.Props.C19", "SamlVerif.Props.TransRegistry", "SamlVerif.Props.TransServe", "SamlVerif.Props.TransSession", "SamlVerif.Props.PureSamlidp"],
    "trusted_base": ["modelled, not verified: bcrypt (symbolic: compare(H p, p') iff p = p'), JSON encoding of stored values, http.ServeMux routing, the MemoryStore (covered by C20)",
                     "'exactly one HTTP reply' is by construction in the model and measured on the real server by a counting ResponseWriter (testing)"],
    "assumptions": ["stored services have pairwise distinct entity IDs (with duplicates the registry a restart builds depends on Go map iteration order)",
                    "the backing store does not answer not-found for a key it holds (hypothesis of the registry/restart theorems only; the authentication theorems hold for every fault pattern)"],
    "rule": "random histories of 45 (thorough: 120) requests over the full alphabet (users with/without password, services overwritten under other entity IDs and without POST ACS, shortcuts to registered/unregistered SPs, "
            "logins, SSO by redirect and by POST with credentials, IdP-initiated launches, session get/delete, clock advances past the session lifetime, restarts at random positions) with I/O-error and not-found faults "
            "injected into individual store calls; every reply (status, kind, user/profile/entity/relay of an issued assertion, session cookie) compared with the model's; since the seeded-change rounds: PUT /users bodies carrying a name (same / another user's); the empty password and a deterministic password-replacement prefix; oracles: GET /users/<id> returns user <id>, a form login as u yields an assertion about u, the response is addressed to the service the request / shortcut was for, logins need the current password; the duplicate-entity restart witness (known finding)",
}

PROPS["C20"] = {
    "modules": ["SamlVerif.Props.C20", "SamlVerif.Props.PureSamlidp"],
    "race_stress": True,
    "trusted_base": ["the lock-program extractor (go/ast over samlidp; conditionals are flattened, calls inside the package and the IdentityProvider callbacks are inlined); "
                     "validated dynamically: what each real handler does to the store must be a subsequence of its extracted program",
                     "modelled, not verified: the Go memory model and scheduler (interleaving at event granularity; RLock is blocked by a waiting writer); races on state other than "
                     "MemoryStore.data and Server.serviceProviders are only sampled by the -race stress run"],
    "assumptions": ["fair scheduling for 'every request completes'"],
    "rule": "19 handler invocations against a recording store (subsequence check against the extracted programs); the model's deadlock witness replayed on the real server with a scheduling store (3 trials); "
            "40 (thorough: 600) recorded concurrent histories of 2-4 clients x 6 store operations checked with porcupine against the key-value specification; 4 goroutines x all handlers free-running stress, "
            "repeated under the race detector; since the seeded-change rounds: stall schedules: every handler stalled while its body is read / inside each of its store calls, a registry writer started, the handler resumed (58 trials)",
}

IDP_TB = ["modelled, not verified: XML serialisation of the struct (schema.go Element builders), goxmldsig signing, RSA-OAEP/AES-CBC encryption; "
          "the harness decodes every emitted form with the library's unmarshaller, verifies both enveloped signatures with goxmldsig under the IdP certificate "
          "and decrypts with the SP key (testing, not proof)",
          "the extractor's reading of the Assertion/Response composite literals (Facts.idpFieldSources): a field whose source expression changes breaks an obligation"]

PROPS["C06"] = {
    "modules": ["SamlVerif.Props.C06", "SamlVerif.Props.TransServe", "SamlVerif.Props.PureSaml"],
    "trusted_base": IDP_TB,
    "assumptions": ["instants are integers (ms); the session provider returns the same session whatever the request (the provider is the deployment's code)",
                    "request validation and endpoint selection are the C05 model (validate / selectACS)"],
    "rule": "registries of 1-3 SPs x 1-2 SPSSO descriptors x 1-4 endpoints (POST/Redirect/Artifact/unknown, colliding locations and indexes, isDefault) x 0-3 key descriptors x 0-2 attribute consuming services "
            "(20 requested names incl. punctuation/case variants, 4 name formats); requests selecting the ACS by URL / index / both / default, IssueInstant placed +-2 ms around receipt-skew and receipt-delay; "
            "IdP-initiated launches; RSA key or opaque crypto.Signer x 5 signature methods x intermediates; MaxIssueDelay/MaxClockSkew incl. zero; a stepping TimeNow separates receipt from issuance; "
            "every emitted form decoded and compared field by field with the model; since the seeded-change rounds: RequestedAttribute entries with listed values; requests whose IssueInstant carries a zone offset",
}

PROPS["C07"] = {
    "modules": ["SamlVerif.Props.C07", "SamlVerif.Props.PureSaml"],
    "trusted_base": IDP_TB + ["modelled, not verified: the UTF-8 layer of etree's writer and encoding/xml's reader (the model works on code points); exclusive canonicalisation",
                              "metadata XML marshal/parse is exercised (real Metadata() -> XML -> samlsp.ParseMetadata on both sides) and compared with the model's projection, not proved"],
    "assumptions": ["both sides run with the same MaxIssueDelay / MaxClockSkew (package variables of one library) and skew >= 0",
                    "SP consumes within MaxIssueDelay of the IdP's receipt; the request's IssueInstant is not ahead of the consumer's clock by more than the skew"],
    "rule": "writer: etree in its three modes on generated strings (45 hostile pieces, arbitrary code points incl. non-characters) vs model escape; reader: encoding/xml on 45 pieces of references "
            "(valid, unterminated, overflowing, surrogate, out-of-range), raw CR/CRLF, ]]>, illegal characters in text and attribute position vs model scan; "
            "round trips: real SP (entity ID set/unset, RSA/ECDSA/no key, redirect/POST, signed/unsigned) -> real IdP (5 methods, key/signer) registered with the SP's published metadata -> real SP configured from the IdP's published metadata, "
            "sessions over hostile strings; every hostile piece alone in NameID / attribute value / group, encrypted and not; since the seeded-change rounds: writer-stability sequence through the hook (bytes returned earlier must not change)",
}

PROPS["C08"] = {
    "modules": ["SamlVerif.Props.C08", "SamlVerif.Props.TransRegistry", "SamlVerif.Props.TransEncCert", "SamlVerif.Props.PureSaml", "SamlVerif.Props.PureXmlenc"],
    "trusted_base": IDP_TB + SP_TB + ["confidentiality of RSA-OAEP / AES-CBC is not claimed; 'recoverable with no other key' is tested by trying the other keys of the harness",
                                       "draw order from RandReader (responseDraws) is hand-written from identity_provider.go / xmlenc and tied by the counting-reader correspondence"],
    "assumptions": ["RandReader yields independent uniform bytes: disjoint segments of the stream are then independent (freshness is stated as disjointness of segments)"],
    "rule": "key-descriptor layouts: every (use in encryption/omitted/signing) x (9 certificate strings: two RSA certs, line-wrapped, EC, empty, blank, bad base64, bad DER, truncated) x (one or two certificates), "
            "all ordered pairs of an 8-descriptor basis, plus random layouts of 0-3 descriptors; per layout a real response is served for a session of unique SECRET-tagged strings, "
            "the emitted bytes are scanned for every session string in raw / XML / HTML / URL-escaped / base64 form, decrypted with the SP key and tried with three foreign keys; "
            "runs of 2-6 encrypted responses under a counting RandReader locate each content key and IV in the stream (vs model layout); key/IV distinctness under crypto/rand; "
            "SP side: responses with assertions encrypted by the IdP, by an attacker, to a foreign key, signed/unsigned at both levels with perturbed conditions vs the struct-level model; since the seeded-change rounds: malformed content cipher values and element-free plaintexts under an intact key (b-* / b-noroot-* / b-key-*); two role descriptors with different key layouts; the same IdpAuthnRequest asked three times after a failure",
}

PROPS["C01"] = {
    "modules": ["SamlVerif.Props.C01", "SamlVerif.Proofs.Tree", "SamlVerif.Props.TransParse", "SamlVerif.Props.TransArtifact", "SamlVerif.Props.TransTrust", "SamlVerif.Props.PureSaml"],
    "trusted_base": ["symbolic cryptography: signature values, digest values and certificates are tokens; a ledger (built by the harness from every real signing event, honest or attacker) says which key signed which canonical SignedInfo "
                     "and which canonical content a digest token stands for (unforgeability + collision resistance are the hypothesis HonestLedger of C01_no_forgery)",
                     "modelled, not verified: XML tokenisation (xrv, encoding/xml, etree reader) - the model starts from the parsed tree; what encoding/xml extracts from an element (struct views of the Response header, of each candidate Assertion "
                     "and of each ds:Signature) and what xmlenc decrypts are inputs computed by the library's own code in the harness (hook verif_hooks.go exposes unmarshalElement / decryptElement); "
                     "that a struct view is a function of the element's canonical form without the removed Signature is NOT proved (tested by comment / CDATA / processing-instruction / prefix / white-space operations and the forgery oracle)",
                     "exclusive canonicalisation is modelled by an injective rendering of exactly the information the bytes carry (Model/Tree.lean header); other canonicalisation algorithms are outside the model (honest signers use exc-c14n)",
                     "the HTTP leg of artifact resolution (ParseResponse with SAMLart) is covered at struct level (C04); ParseXMLArtifactResponse is modelled at tree level"],
    "assumptions": ["honest signers sign with enveloped-signature + exclusive c14n and one Reference per SignedInfo (what this library's IdP and the harness do)",
                    "certificates are within their validity period at the validation clock"],
    "rule": "construction scripts: honest phase (assertion for alice signed / Response signed / both / neither, by idp / idp2 / attacker key, plaintext or encrypted to the SP) x trust configuration "
            "(metadata with one or two signing certificates, with encryption-use attacker certificate, use omitted, encryption-only, pinned certificate, sha256/sha512 fingerprint) x attacker phase of 0-3 operations from 32 "
            "(evil assertion as sibling before/after, replacing the original and keeping a copy of its Signature with the original inside ds:Object, original nested inside the evil one, evil inside the original Signature's Object, "
            "signed Response wrapped in an evil Response with or without its Signature copied up, signatures stripped or duplicated, NameID edited, comments / CDATA / processing instructions / white space inserted, ID and Reference URI edits, "
            "KeyInfo removed / attacker certificate / second certificate / KeyValue only, foreign-namespace Signature naming the trusted certificate, foreign-namespace Assertion, prefix renamed or re-declared, unused and undeclared prefixes, "
            "nested Signature inside signed content, re-encryption of the evil or the original assertion to the SP, Conditions dropped, evil assertion signed by the attacker); every single operation on all six valid bases, "
            "(thorough: every ordered pair); the real ParseXMLResponse decides the bytes, the model decides the dumped tree + ledger + views; since the seeded-change rounds: one ServiceProvider value across in-place trust changes (stateful sequences); genuine and same-length forged messages judged one at a time and then by eight goroutines on one ServiceProvider (concurrentParses)",
}

# ---- per-property notes on the depth actually reached (shown in MANIFEST.json) ----
BASE_NOTE = ("Trusted: Lean kernel (axioms propext, Classical.choice, Quot.sound only), the theorem statements as a reading of the property, "
             "the correspondence harness and fact extractor; modelled-not-verified parts are listed in DESIGN.md §7.6/§7.7 and in the evidence's trusted_base. ")
NOTES = {
    "C01": "Depth: tree level. Struct views (encoding/xml), ds:Signature views and decryption are inputs computed by the real code; that identity is a function of the canonical form is tested, not proved; "
           "only exclusive c14n + enveloped transform.",
    "C07": "Character data and attribute values are proved to round-trip for every XML character (writer = etree + the package's carriage-return escaper, tied by facts and by the xmlesc correspondence through hook VerifXMLToBytes); "
           "the struct-level composition and the published-metadata theorems carry the rest; signatures and encryption bytes are exercised, not modelled.",
    "C09": "Partial: totality of the library's own logic after parsing, and the inflate bound, are proved; termination/allocation of third-party parsers on arbitrary bytes is only sampled.",
    "C10": "Partial: C10_all_offered is proved for every offered combination except AES-GCM encryption (known findings gcm-encrypt-*; counterexample theorem).",
    "C15": "Durations (every int64) and instants (every instant whose rounded year has at most four digits, with the calendar inverse proved) are theorems; "
           "the metadata fixed point is checked by a direct oracle on generated and library-published values only (testing, no model of encoding/xml).",
    "C19": "'Exactly one HTTP reply' is by construction in the model and measured on the real server.",
    "C20": "Race- and deadlock-freedom are proved for any number of threads running the lock programs regenerated from the source; the Go memory model and scheduler are not modelled (sampled under -race).",
}
for _p, _c in PROPS.items():
    _c.setdefault("level_note", BASE_NOTE + NOTES.get(_p, ""))
    _c.setdefault("design_ref", "DESIGN.md §2 " + _p + " (plan) and §7.2/§7.6 (as built)")


# ---- the Go -> Lean translator (DESIGN §7.8): which properties have theorems about regenerated definitions
TRANS_TECH = ("Lean 4 machine-checked proof: (a) theorems about definitions a translator (extract/trans.go) regenerates from the current Go source of {fns} "
              "on every run, (b) theorems over a hand-written model; both tied to the code: (a) by regeneration, (b) by a differential correspondence check against the Go code")
TRANS_TB = ("the Go->Lean translator (extract/trans.go: go/ast + go/types over a subset of Go; conventions in its header and in Model/GoSem.lean: errors as values, nil "
            "dereference = panic, receivers non-nil, time as integers, url.URL.String() opaque, untranslated callees as arbitrary functions in Env; arguments of fmt.Errorf are not evaluated)")
for pid, fns in {"C01": "parseResponse / parseAssertion / parseEncryptedAssertion / parseArtifactResponse / the trust configuration of validateSignature",
                 "C02": "validateAssertion / parseResponse", "C03": "validateAssertion / validateAudienceRestriction / parseResponse",
                 "C04": "validateRequestID / validateAssertion / parseResponse / parseArtifactResponse / samlsp Middleware.ServeACS (the outstanding request IDs)", "C05": "IdpAuthnRequest.Validate (from the Destination check on) / getACSEndpoint / the endpoint selection of ServeIDPInitiated / the gate of ServeSSO",
                 "C18": "validateLogoutResponse / ValidateLogoutResponseForm and ValidateLogoutResponseRedirect (from the signature check on) / the trust configuration of validateSignature",
                 "C08": "IdpAuthnRequest.getSPEncryptionCert (the selection of the certificate string, up to its decoding)",
                 "C10": "xmlenc appendPadding / stripPadding / the framing of CBC.Decrypt", "C11": "xmlenc stripPadding / the framing of CBC.Decrypt",
                 "C09": "ServiceProvider.GetArtifactBindingLocation (where artifacts are resolved)",
                 "C16": "samlsp CookieSessionProvider.GetSession / JWTSessionCodec.Decode and JWTTrackedRequestCodec.Decode (the claim checks after the JWT library's parse)",
                 "C12": "samlsp Middleware.HandleStartAuthFlow (the choice of binding and location) / ServiceProvider.GetSSOBindingLocation / GetSLOBindingLocation",
                 "C13": "samlsp Middleware.HandleStartAuthFlow (the choice of binding and location)",
                 "C06": "IdentityProvider.ServeSSO (the gate before the assertion is made)",
                 "C19": "samlidp Server.GetSession (the credential guards and the branch for requests without credentials) / Server.HandlePutService / IdentityProvider.ServeSSO (the gate)",
                 "C17": "samlsp Middleware.ServeACS / CreateSessionFromAssertion (as effect traces) / CookieRequestTracker.GetTrackedRequest"}.items():
    PROPS[pid]["technique"] = TRANS_TECH.format(fns=fns)
    PROPS[pid]["trusted_base"] = list(PROPS[pid].get("trusted_base", [])) + [TRANS_TB]
