"""Per-property configuration of the orchestrator (modules whose theorems are the obligations,
trusted base additions, assumptions, evidence rule text)."""

SP_TB = [
    "modelled, not verified: XML tokenisation/unmarshalling (encoding/xml, etree, xml-roundtrip-validator), "
    "goxmldsig signature validation and xmlenc decryption are inputs of the struct-level model (SigState, Wrap, Option fields); "
    "the harness constructs them with real crypto so that the real code computes them itself",
]

PROPS = {
    "C02": {
        "modules": ["SamlVerif.Props.C02"],
        "trusted_base": SP_TB,
        "assumptions": ["instants are integers (ms); Go time.Time saturation is not reachable for parsed years 0..9999 and |tolerance| < 2^63 ns",
                        "signature states are as constructed by the harness (signed by a trusted key = valid, by another key = invalid)"],
        "rule": "5^5 boundary lattice {on, 1ms inside, 1ms outside, far inside, far outside} for response/assertion IssueInstant, "
                "NotBefore, NotOnOrAfter, confirmation NotOnOrAfter (thorough: x 9 tolerance configurations incl. zero/negative/asymmetric), plus random "
                "multi-assertion / multi-confirmation cases with varying lexical time forms; every case is rendered to signed XML and parsed by the real "
                "ServiceProvider.ParseXMLResponse under a controlled TimeNow; distinct = distinct abstract case lines",
    },
    "C03": {
        "modules": ["SamlVerif.Props.C03"],
        "trusted_base": SP_TB,
        "assumptions": ["string comparison in Go is byte equality; model strings are Unicode strings (cases are valid UTF-8)"],
        "rule": "near-miss lattice {correct, wrong, upper-cased, trailing slash, query, proper prefix, extension, empty, absent} for Response Issuer, "
                "Assertion Issuer, Recipient, Destination, StatusCode, 0..3 audiences x signed/unsigned Response x entity ID set/unset x custom audience "
                "validator x received-at URL =/!= ACS; single perturbations exhaustively, 2-3-fold sampled",
    },
    "C04": {
        "modules": ["SamlVerif.Props.C04"],
        "trusted_base": SP_TB,
        "assumptions": [],
        "rule": "outstanding-ID sets {empty, one, several, containing \"\", near-miss} x InResponseTo {match, other, empty, prefix, extension} at response "
                "and confirmation level x AllowIDPInitiated x custom validator x entry points ParseXMLResponse / ParseResponse(POST) / "
                "ParseXMLArtifactResponse / ParseResponse(SAMLart via a RoundTripper that answers the real ArtifactResolve)",
    },
}

PROPS["C09"] = {
    "modules": ["SamlVerif.Props.C09"],
    "trusted_base": SP_TB + ["termination and allocation of xrv, encoding/xml and etree on arbitrary bytes are not modelled (partial): "
                             "the model covers the library's own logic after parsing plus the inflate bound"],
    "assumptions": [],
    "rule": "schema-valid responses with every subset of optional parts removed x 4 signing layouts, valid IdP signature re-applied",
}

PROPS["C15"] = {
    "modules": ["SamlVerif.Props.C15"],
    "trusted_base": ["modelled, not verified: Go's regexp engine (the two duration regexps are replaced by a deterministic recogniser, tied by correspondence), "
                     "strconv, and the time package's calendar (parameter of the instant theorems)"],
    "assumptions": ["Go int64 arithmetic wraps modulo 2^64 (language specification)"],
    "rule": "durations: boundary classes exhaustively (each sub-second digit count, carries at 60 s / 60 min, negatives, +-1 around every unit, MinInt64/MaxInt64) "
            "+ random int64; duration strings: fixed list of documented/undocumented forms + grammar-generated + single-position mutations",
}
