import SamlVerif.Props.C02
import SamlVerif.Props.C03
import SamlVerif.Props.C04
import SamlVerif.Props.C05
import SamlVerif.Props.C09
import SamlVerif.Props.C10
import SamlVerif.Props.C11
import SamlVerif.Props.C15
