import SamlVerif.Model.Prelude
import SamlVerif.Model.SPStruct
import SamlVerif.Proofs.SPStruct
