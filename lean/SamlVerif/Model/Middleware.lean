/-
  samlsp middleware pieces shared by C04 / C16 / C17.
-/
import SamlVerif.Model.Prelude

namespace SamlVerif.MW

/-- `samlsp.TrackedRequest` -/
structure TrackedRequest where
  index : String
  samlRequestID : String
  uri : String
  deriving DecidableEq, Repr

/-- `Middleware.ServeACS`: the IDs handed to `ParseResponse`. -/
def possibleRequestIDs (allowIdP : Bool) (tracked : List TrackedRequest) : List String :=
  (if allowIdP then [""] else []) ++ tracked.map (·.samlRequestID)

end SamlVerif.MW
