/-
  identity_provider.go — what the IdP emits: `DefaultAssertionMaker.MakeAssertion`, `MakeResponse`,
  `PostBinding` as functions from (configuration, routing, request, session, clocks) to the fields of
  the response; plus the translation of an emitted response into what the SP-side model consumes.
  Signing and encryption are symbolic here (`SigState`, `Wrap`); the byte level is the harness's job.
-/
import SamlVerif.Model.IdP
import SamlVerif.Model.SPStruct

namespace SamlVerif.IdPOut
open SamlVerif.IdP

structure AttrS where
  friendlyName : String
  name : String
  nameFormat : String
  values : List String
  deriving DecidableEq, Repr

structure Session where
  nameID : String
  nameIDFormat : String
  index : String
  subjectID : String
  groups : List String
  userName : String
  userEmail : String
  userCommonName : String
  userSurname : String
  userGivenName : String
  userScopedAffiliation : String
  eduPersonPrincipalName : String
  custom : List AttrS
  deriving DecidableEq, Repr

structure IdpCfg where
  /-- `IDP.MetadataURL` = the IdP's entity ID -/
  entityID : String
  delay : Int
  skew : Int
  deriving Repr

structure Request where
  /-- empty for IdP-initiated -/
  id : String
  issueInstant : Int
  deriving DecidableEq, Repr

structure Confirmation where
  method : String
  inResponseTo : String
  recipient : String
  notOnOrAfter : Int
  deriving DecidableEq, Repr

structure AssertionOut where
  issueInstant : Int
  issuer : String
  nameID : String
  nameIDFormat : String
  nameQualifier : String
  spNameQualifier : String
  confirmations : List Confirmation
  notBefore : Int
  notOnOrAfter : Int
  audiences : List String
  sessionIndex : String
  attrs : List AttrS
  deriving DecidableEq, Repr

structure ResponseOut where
  /-- form action -/
  url : String
  destination : String
  inResponseTo : String
  issueInstant : Int
  issuer : String
  status : String
  assertion : AssertionOut
  /-- the assertion travels inside an EncryptedAssertion -/
  encrypted : Bool
  deriving DecidableEq, Repr

def basicFormat : String := "urn:oasis:names:tc:SAML:2.0:attrname-format:basic"
def unspecFormat : String := "urn:oasis:names:tc:SAML:2.0:attrname-format:unspecified"
def uriFormat : String := "urn:oasis:names:tc:SAML:2.0:attrname-format:uri"

/-- `regexp.MustCompile("[^A-Za-z0-9]+").ReplaceAllString(name, "")` -/
def alnumOnly (s : String) : String := String.ofList (s.toList.filter Char.isAlphanum)

/-- the switch on the squeezed requested-attribute name -/
def requestedValue (s : Session) (n : String) : Option String :=
  if n = "email" ∨ n = "emailaddress" then some s.userEmail
  else if n = "name" ∨ n = "fullname" ∨ n = "cn" ∨ n = "commonname" then some s.userCommonName
  else if n = "givenname" ∨ n = "firstname" then some s.userGivenName
  else if n = "surname" ∨ n = "lastname" ∨ n = "familyname" then some s.userSurname
  else if n = "uid" ∨ n = "user" ∨ n = "userid" then some s.userName
  else none

def requestedAttrs (s : Session) (ras : List ReqAttr) : List AttrS :=
  ras.filterMap fun ra =>
    if ra.nameFormat = basicFormat ∨ ra.nameFormat = unspecFormat then
      (requestedValue s (alnumOnly ra.name)).map fun v => ⟨ra.friendlyName, ra.name, ra.nameFormat, [v]⟩
    else none

def optAttr (cond : Bool) (a : AttrS) : List AttrS := if cond then [a] else []

/-- the fixed part of the attribute statement -/
def standardAttrs (s : Session) : List AttrS :=
  optAttr (s.userName ≠ "") ⟨"uid", "urn:oid:0.9.2342.19200300.100.1.1", uriFormat, [s.userName]⟩ ++
  optAttr (s.userEmail ≠ "") ⟨"mail", "urn:oid:0.9.2342.19200300.100.1.3", uriFormat, [s.userEmail]⟩ ++
  optAttr (s.eduPersonPrincipalName ≠ "" || s.userEmail ≠ "")
    ⟨"eduPersonPrincipalName", "urn:oid:1.3.6.1.4.1.5923.1.1.1.6", uriFormat,
     [if s.eduPersonPrincipalName = "" then s.userEmail else s.eduPersonPrincipalName]⟩ ++
  optAttr (s.userSurname ≠ "") ⟨"sn", "urn:oid:2.5.4.4", uriFormat, [s.userSurname]⟩ ++
  optAttr (s.userGivenName ≠ "") ⟨"givenName", "urn:oid:2.5.4.42", uriFormat, [s.userGivenName]⟩ ++
  optAttr (s.userCommonName ≠ "") ⟨"cn", "urn:oid:2.5.4.3", uriFormat, [s.userCommonName]⟩ ++
  optAttr (s.userScopedAffiliation ≠ "") ⟨"scopedAffiliation", "urn:oid:1.3.6.1.4.1.5923.1.1.1.9", uriFormat, [s.userScopedAffiliation]⟩ ++
  s.custom ++
  optAttr (!s.groups.isEmpty) ⟨"eduPersonAffiliation", "urn:oid:1.3.6.1.4.1.5923.1.1.1.1", uriFormat, s.groups⟩ ++
  optAttr (s.subjectID ≠ "") ⟨"", "urn:oasis:names:tc:SAML:attribute:subject-id", uriFormat, [s.subjectID]⟩

/-- `DefaultAssertionMaker.MakeAssertion`.  `reqNow` is `req.Now` (clock when the request arrived),
    `now` the clock when the assertion is made. -/
def makeAssertion (cfg : IdpCfg) (spEntity acsLocation : String) (ras : List ReqAttr) (req : Request)
    (s : Session) (reqNow now : Int) : AssertionOut :=
  let nb0 := reqNow - cfg.skew
  let nb := if nb0 < req.issueInstant then req.issueInstant else nb0
  let noa := if nb0 < req.issueInstant then req.issueInstant + cfg.delay else reqNow + cfg.delay
  { issueInstant := now, issuer := cfg.entityID,
    nameID := s.nameID,
    nameIDFormat := if s.nameIDFormat = "" then "urn:oasis:names:tc:SAML:2.0:nameid-format:transient" else s.nameIDFormat,
    nameQualifier := cfg.entityID, spNameQualifier := spEntity,
    confirmations := [⟨"urn:oasis:names:tc:SAML:2.0:cm:bearer", req.id, acsLocation, reqNow + cfg.delay⟩],
    notBefore := nb, notOnOrAfter := noa, audiences := [spEntity], sessionIndex := s.index,
    attrs := requestedAttrs s ras ++ standardAttrs s }

/-- `MakeResponse` + `PostBinding`: only HTTP-POST endpoints can be answered -/
def respond (cfg : IdpCfg) (md : EntityDesc) (acs : Endpoint) (ras : List ReqAttr) (req : Request) (s : Session)
    (reqNow now : Int) (encrypted : Bool) : Outcome ResponseOut :=
  if acs.binding ≠ postBinding then .err "unsupported-binding"
  else .ok
    { url := acs.location, destination := acs.location, inResponseTo := req.id, issueInstant := reqNow,
      issuer := cfg.entityID, status := "urn:oasis:names:tc:SAML:2.0:status:Success",
      assertion := makeAssertion cfg md.entityID acs.location ras req s reqNow now, encrypted := encrypted }

/-- the attribute consuming service `MakeAssertion` reads: the first marked default, else the first -/
def chooseReqAttrs (svcs : List AttrSvc) : List ReqAttr :=
  match svcs.find? (fun a => a.isDefault = some true) with
  | some a => a.requested
  | none =>
    match svcs with
    | a :: _ => a.requested
    | [] => []

/-- `MakeAssertionEl`'s use of `getSPEncryptionCert`: `usable c` says whether the certificate string
    decodes (white space stripped, base64, DER) to a certificate the key transport can use -/
def encryptionOf (usable : String → Bool) (keys : List KeyDesc) : Outcome Bool :=
  match selectEncCert keys with
  | .ok .none => .ok false
  | .ok (.cert c) => if usable c then .ok true else .err "bad-encryption-certificate"
  | .err s => .err s
  | .panic w => .panic w

/-- everything after routing: `MakeAssertion`, `MakeAssertionEl`, `MakeResponse`, `PostBinding` -/
def produce (cfg : IdpCfg) (usable : String → Bool) (ρ : Routing) (req : Request) (s : Session)
    (reqNow now : Int) : Outcome ResponseOut :=
  match encryptionOf usable ρ.desc.keys with
  | .ok enc => respond cfg ρ.md ρ.acs (chooseReqAttrs ρ.desc.attrSvcs) req s reqNow now enc
  | .err e => .err e
  | .panic w => .panic w

/-- `ServeSSO` with a session provider that answers `s` -/
def serveSSO (vcfg : Cfg) (cfg : IdpCfg) (usable : String → Bool) (registry : String → Lookup)
    (areq : AuthnRequestS) (s : Session) (reqNow now : Int) : Outcome ResponseOut :=
  match validate vcfg reqNow registry areq with
  | .ok ρ => produce cfg usable ρ ⟨areq.id, areq.issueInstant⟩ s reqNow now
  | .err e => .err e
  | .panic w => .panic w

/-- the zero `time.Time` of an IdP-initiated request's `IssueInstant`, in ms since the epoch -/
def zeroTime : Int := -62135596800000

/-- `ServeIDPInitiated` -/
def serveInit (cfg : IdpCfg) (usable : String → Bool) (registry : String → Lookup) (spID : String)
    (s : Session) (reqNow now : Int) : Outcome ResponseOut :=
  match registry spID with
  | .notExist => .err "unknown-sp"
  | .ioErr => .err "registry-error"
  | .found md =>
    match selectIdpInitiated md with
    | none => .err "no-post-acs"
    | some (d, e) => produce cfg usable ⟨md, d, e⟩ ⟨"", zeroTime⟩ s reqNow now

/-- every string of the session that can appear in an assertion -/
def sessionStrings (s : Session) : List String :=
  [s.nameID, s.userName, s.userEmail, s.userCommonName, s.userSurname, s.userGivenName, s.userScopedAffiliation,
   s.eduPersonPrincipalName, s.subjectID, s.index] ++ s.groups ++ s.custom.flatMap (·.values)

/-! ### what the SP-side model sees of an emitted response -/

/-- identity-bearing content as one token (NameID and the attribute names/values in order) -/
def identOf (a : AssertionOut) : String :=
  a.nameID ++ "\u0001" ++ String.intercalate "\u0002"
    (a.attrs.map fun x => x.friendlyName ++ "\u0003" ++ x.name ++ "\u0003" ++ String.intercalate "\u0004" x.values)

def toSPAssertion (a : AssertionOut) : SP.AssertionS :=
  { issueInstant := a.issueInstant, issuer := a.issuer,
    subject := some (a.confirmations.map fun c => ⟨some ⟨c.inResponseTo, c.recipient, c.notOnOrAfter⟩⟩),
    conditions := some ⟨a.notBefore, a.notOnOrAfter, a.audiences⟩, ident := identOf a }

/-- both layers are signed by the IdP; `encrypted` selects the wrapper -/
def toSPResponse (r : ResponseOut) : SP.ResponseS :=
  { destination := r.destination, inResponseTo := r.inResponseTo, issueInstant := r.issueInstant,
    issuer := some r.issuer, status := r.status,
    entries := [⟨if r.encrypted then .encOk else .plain, .valid, toSPAssertion r.assertion⟩] }

/-! ### the SP's side of registration (service_provider.go `Metadata`, `MakeAuthenticationRequest`) -/

def success : String := "urn:oasis:names:tc:SAML:2.0:status:Success"

def artifactBinding : String := "urn:oasis:names:tc:SAML:2.0:bindings:HTTP-Artifact"

/-- what `ServiceProvider.Metadata()` reads from the SP's configuration -/
structure SPPub where
  entityID : String
  metadataURL : String
  acsURL : String
  /-- base64 of the certificate (and intermediates), when a certificate is configured -/
  cert : Option String
  /-- the certificate's public key is an RSA key -/
  certIsRSA : Bool
  /-- `len(sp.SignatureMethod) > 0` -/
  signs : Bool
  deriving Repr

def SPPub.id (p : SPPub) : String := SP.firstSet p.entityID p.metadataURL

/-- the key descriptors `Metadata()` publishes: the certificate for encryption when it holds an RSA
    key, and for signing when the SP signs its requests -/
def publishedKeys (p : SPPub) : List KeyDesc :=
  match p.cert with
  | none => []
  | some c => (if p.certIsRSA then [⟨"encryption", [c]⟩] else []) ++ (if p.signs then [⟨"signing", [c]⟩] else [])

/-- `ServiceProvider.Metadata()` projected to what the IdP reads -/
def spMetadata (p : SPPub) : EntityDesc :=
  ⟨p.id,
   [{ acs := [⟨postBinding, p.acsURL, 1, none⟩, ⟨artifactBinding, p.acsURL, 2, none⟩],
      keys := publishedKeys p,
      attrSvcs := [] }]⟩

/-- `MakeAuthenticationRequest` projected to what the IdP validates -/
def authnRequestOf (p : SPPub) (id : String) (issueInstant : Int) (dest : String) : AuthnRequestS :=
  ⟨id, some p.id, dest, "2.0", issueInstant, p.acsURL, ""⟩

def postEndpoint (p : SPPub) : Endpoint := ⟨postBinding, p.acsURL, 1, none⟩

/-- the SP configured with the same values it published -/
def spCfgOf (p : SPPub) (icfg : IdpCfg) (allowIdP : Bool) : SP.Cfg :=
  { idpEntityID := icfg.entityID, acsURL := p.acsURL, entityID := p.entityID, metadataURL := p.metadataURL,
    allowIdP := allowIdP, reqIdValidator := none, audValidator := none, delay := icfg.delay, skew := icfg.skew,
    statusSuccess := success }

/-! ### draws from `RandReader` while producing one encrypted response -/

/-- one draw from `RandReader`: who draws, how many bytes -/
structure Draw where
  label : String
  size : Nat
  deriving DecidableEq, Repr

/-- the draws of one encrypted response, in program order (`MakeAssertion`, `RSA.Encrypt`,
    `CBC.Encrypt`, `MakeResponse`); `kt` is whatever the key transport reads (OAEP seed, …) -/
def responseDraws (kt : Nat) : List Draw :=
  [⟨"assertion-id", 20⟩, ⟨"content-key", 16⟩, ⟨"encrypted-key-id", 16⟩, ⟨"key-transport", kt⟩,
   ⟨"encrypted-data-id", 16⟩, ⟨"iv", 16⟩, ⟨"response-id", 20⟩]

/-- lay draws out over a stream starting at `off`: (label, start, size) -/
def layout : Nat → List Draw → List (String × Nat × Nat)
  | _, [] => []
  | off, d :: rest => (d.label, off, d.size) :: layout (off + d.size) rest

def total (ds : List Draw) : Nat := (ds.map (·.size)).sum

/-- draws of a run of responses (each with its own key-transport consumption) -/
def runDraws (kts : List Nat) : List Draw := kts.flatMap responseDraws

end SamlVerif.IdPOut
