/-
  time.go — `RelaxedTime`: `MarshalText` (round to the millisecond, UTC, layout
  "2006-01-02T15:04:05.999Z07:00") and `UnmarshalText` (time.RFC3339, time.RFC3339Nano, then
  "2006-01-02T15:04:05.999999999"; result rounded to the millisecond).

  Instants are integers: nanoseconds (`ns`) or milliseconds (`ms`) since the Unix epoch.  The civil
  calendar is the proleptic Gregorian one, computed by the era / day-of-era decomposition (days since
  1970-01-01 ↔ year, month, day).  Go's `time` package is an *implementation* of that calendar; the
  correspondence check compares the two on generated instants.
-/
import SamlVerif.Model.Prelude

namespace SamlVerif.TimeM

/-! ### calendar -/

/-- within one 400-year era (146097 days, years starting on 1 March) -/
def yoeOf (doe : Int) : Int := (doe - doe / 1460 + doe / 36524 - doe / 146096) / 365
def doyOf (doe : Int) : Int := doe - (365 * yoeOf doe + yoeOf doe / 4 - yoeOf doe / 100)
def mpOf (doy : Int) : Int := (5 * doy + 2) / 153
def domOf (doy : Int) : Int := doy - (153 * mpOf doy + 2) / 5 + 1

structure Civil where
  year : Int
  month : Int
  day : Int
  deriving DecidableEq, Repr

/-- days since 1970-01-01 ↦ civil date -/
def civilFromDays (z0 : Int) : Civil :=
  let z := z0 + 719468
  let era := z / 146097
  let doe := z - era * 146097
  let yoe := yoeOf doe
  let doy := doyOf doe
  let mp := mpOf doy
  let m := if mp < 10 then mp + 3 else mp - 9
  ⟨yoe + era * 400 + (if m ≤ 2 then 1 else 0), m, domOf doy⟩

/-- civil date ↦ days since 1970-01-01 -/
def daysFromCivil (c : Civil) : Int :=
  let y := if c.month ≤ 2 then c.year - 1 else c.year
  let era := y / 400
  let yoe := y - era * 400
  let mp := if c.month > 2 then c.month - 3 else c.month + 9
  let doy := (153 * mp + 2) / 5 + c.day - 1
  era * 146097 + (yoe * 365 + yoe / 4 - yoe / 100 + doy) - 719468

def isLeap (y : Int) : Bool := y % 4 = 0 && (y % 100 ≠ 0 || y % 400 = 0)

def daysIn (y m : Int) : Int :=
  if m = 2 then (if isLeap y then 29 else 28)
  else if m = 4 ∨ m = 6 ∨ m = 9 ∨ m = 11 then 30 else 31

/-! ### rounding -/

/-- `Time.Round(time.Millisecond)` on nanoseconds since the epoch, in milliseconds: halfway rounds up.
    (Go rounds relative to year 1; the epoch offset is a whole number of milliseconds.) -/
def roundMs (ns : Int) : Int :=
  let r := ns % 1000000
  if 2 * r < 1000000 then (ns - r) / 1000000 else (ns - r) / 1000000 + 1

/-! ### writing -/

def dig (n : Int) : Char := Char.ofNat (48 + (n % 10).toNat)

def pad2 (n : Int) : List Char := [dig (n / 10), dig n]
def pad4 (n : Int) : List Char := [dig (n / 1000), dig (n / 100), dig (n / 10), dig n]

/-- the year: four digits, or all of them beyond 9999 (Go does not truncate) -/
def yearStr (y : Int) : List Char := if y ≤ 9999 then pad4 y else (toString y).toList

/-- ".999": up to three digits, trailing zeros dropped, nothing when zero -/
def fracStr (ms : Int) : List Char :=
  if ms = 0 then []
  else if ms % 100 = 0 then ['.', dig (ms / 100)]
  else if ms % 10 = 0 then ['.', dig (ms / 100), dig (ms / 10)]
  else ['.', dig (ms / 100), dig (ms / 10), dig ms]

/-- `RelaxedTime.String()` of the instant `ms` milliseconds after the epoch -/
def marshalMs (ms : Int) : List Char :=
  let days := ms / 86400000
  let rem := ms % 86400000
  let c := civilFromDays days
  yearStr c.year ++ ['-'] ++ pad2 c.month ++ ['-'] ++ pad2 c.day ++ ['T'] ++
    pad2 (rem / 3600000) ++ [':'] ++ pad2 (rem / 60000 % 60) ++ [':'] ++ pad2 (rem / 1000 % 60) ++
    fracStr (rem % 1000) ++ ['Z']

def marshal (ns : Int) : List Char := marshalMs (roundMs ns)

/-! ### reading -/

def digVal (c : Char) : Option Int :=
  if '0' ≤ c ∧ c ≤ '9' then some (Int.ofNat (c.toNat - 48)) else none

def num2 (a b : Char) : Option Int :=
  match digVal a, digVal b with
  | some x, some y => some (x * 10 + y)
  | _, _ => none

def num4 (a b c d : Char) : Option Int :=
  match num2 a b, num2 c d with
  | some x, some y => some (x * 100 + y)
  | _, _ => none

/-- digits of a fraction: value of the first nine, scaled to nanoseconds; the rest of the input.
    `k` counts the digits taken so far, `acc` their value. -/
def fracDigits (k : Nat) (acc : Int) : List Char → Int × List Char
  | [] => (acc * (10 ^ (9 - k) : Nat), [])
  | c :: rest =>
    match digVal c with
    | some d => if k < 9 then fracDigits (k + 1) (acc * 10 + d) rest else fracDigits k acc rest
    | none => (acc * (10 ^ (9 - k) : Nat), c :: rest)

/-- an optional fraction: `.` or `,` followed by at least one digit -/
def parseFrac : List Char → Int × List Char
  | s :: d :: rest =>
    if (s = '.' ∨ s = ',') ∧ (digVal d).isSome then fracDigits 0 0 (d :: rest) else (0, s :: d :: rest)
  | l => (0, l)

/-- zone designator: `Z`, `±hh:mm` (time.Parse allows hh ≤ 24 and mm ≤ 60), or nothing at all (third
    layout: read as UTC).  Returns the offset in seconds. -/
def parseZone : List Char → Option Int
  | [] => some 0
  | ['Z'] => some 0
  | [s, h1, h2, ':', m1, m2] =>
    if s = '+' ∨ s = '-' then
      match num2 h1 h2, num2 m1 m2 with
      | some h, some m =>
        if h ≤ 24 ∧ m ≤ 60 then some ((if s = '-' then -1 else 1) * (h * 3600 + m * 60)) else none
      | _, _ => none
    else none
  | _ => none

/-- `mm:ss[.fraction][zone]` after the hour and its colon: seconds since midnight minus the zone offset,
    and the fraction in nanoseconds -/
def parseMinSec (h : Int) : List Char → Option (Int × Int)
  | m1 :: m2 :: ':' :: s1 :: s2 :: rest =>
    match num2 m1 m2, num2 s1 s2 with
    | some mi, some s =>
      if h ≤ 23 ∧ mi ≤ 59 ∧ s ≤ 59 then
        let (fr, rest') := parseFrac rest
        match parseZone rest' with
        | some off => some (h * 3600 + mi * 60 + s - off, fr)
        | none => none
      else none
    | _, _ => none
  | _ => none

/-- the hour is the one field time.Parse reads with one *or* two digits (layout element "15") -/
def parseClock : List Char → Option (Int × Int)
  | h1 :: h2 :: rest =>
    match digVal h1, digVal h2 with
    | some a, some b => (match rest with | ':' :: r => parseMinSec (a * 10 + b) r | _ => none)
    | some a, none => if h2 = ':' then parseMinSec a rest else none
    | _, _ => none
  | _ => none

/-- `UnmarshalText` before rounding: nanoseconds since the epoch -/
def parseNs : List Char → Option Int
  | y1 :: y2 :: y3 :: y4 :: '-' :: o1 :: o2 :: '-' :: d1 :: d2 :: 'T' :: rest =>
    match num4 y1 y2 y3 y4, num2 o1 o2, num2 d1 d2 with
    | some y, some mo, some d =>
      if 1 ≤ mo ∧ mo ≤ 12 ∧ 1 ≤ d ∧ d ≤ daysIn y mo then
        match parseClock rest with
        | some (secs, fr) => some ((daysFromCivil ⟨y, mo, d⟩ * 86400 + secs) * 1000000000 + fr)
        | none => none
      else none
    | _, _, _ => none
  | _ => none

/-- `UnmarshalText`: the empty string is the zero time; otherwise parse and round to the millisecond -/
def unmarshal (text : List Char) : Option Int :=
  if text = [] then some zeroTimeMs else (parseNs text).map roundMs

end SamlVerif.TimeM
