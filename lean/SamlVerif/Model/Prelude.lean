/-
  Prelude: Go-semantics conventions shared by every model (DESIGN §1.7).
  Core Lean only — no Mathlib import anywhere under Model/, so the driver links as a lean_exe.
-/
namespace SamlVerif

/-- Result of running a Go entry point: a value, an error (with the site that rejected, which is
    informational only), or a run-time panic.  Totality of the Go code is a theorem `… ≠ .panic`,
    not an artefact of Lean's totality. -/
inductive Outcome (α : Type) where
  | ok (a : α)
  | err (site : String)
  | panic (why : String)
  deriving Repr, DecidableEq

namespace Outcome

def isOk {α} : Outcome α → Bool
  | .ok _ => true
  | _ => false

def isErr {α} : Outcome α → Bool
  | .err _ => true
  | _ => false

def isPanic {α} : Outcome α → Bool
  | .panic _ => true
  | _ => false

def bind {α β} (x : Outcome α) (f : α → Outcome β) : Outcome β :=
  match x with
  | .ok a => f a
  | .err s => .err s
  | .panic w => .panic w

def map {α β} (f : α → β) (x : Outcome α) : Outcome β :=
  match x with
  | .ok a => .ok (f a)
  | .err s => .err s
  | .panic w => .panic w

instance : Monad Outcome where
  pure := .ok
  bind := Outcome.bind

/-- Outcome class used by the correspondence (`ok|err|panic`). -/
def cls {α} : Outcome α → String
  | .ok _ => "ok"
  | .err _ => "err"
  | .panic _ => "panic"

@[simp] theorem bind_ok {α β} (a : α) (f : α → Outcome β) : (Outcome.ok a).bind f = f a := rfl
@[simp] theorem bind_err {α β} (s : String) (f : α → Outcome β) :
    (Outcome.err s : Outcome α).bind f = .err s := rfl
@[simp] theorem bind_panic {α β} (s : String) (f : α → Outcome β) :
    (Outcome.panic s : Outcome α).bind f = .panic s := rfl

end Outcome

/-- A guard in a Go validation chain: `if !c { return err }`. -/
def guard (c : Bool) (site : String) : Outcome Unit :=
  if c then .ok () else .err site

@[simp] theorem guard_true (s : String) : guard true s = .ok () := rfl
@[simp] theorem guard_false (s : String) : guard false s = .err s := rfl

/-- Go's zero `time.Time` (0001-01-01T00:00:00Z) in milliseconds since the Unix epoch. -/
def zeroTimeMs : Int := -62135596800000

abbrev Bytes := List UInt8

end SamlVerif
