/-
  service_provider.go — ValidateLogoutResponseForm / ValidateLogoutResponseRedirect /
  validateLogoutResponse.  Modelled tree: after the `fix:` commits (rootless document and missing
  Issuer are errors).
-/
import SamlVerif.Model.SPStruct

namespace SamlVerif.Logout
open SamlVerif.SP

structure LogoutRespS where
  destination : String
  issueInstant : Int
  issuer : Option String
  status : String
  deriving DecidableEq, Repr

/-- what the decoding pipeline (base64 [→ bounded inflate] → round-trip validation → etree) yields -/
inductive Doc where
  | undecodable            -- bad base64, inflate error / over the limit, XML the validators reject
  | noRoot                 -- well-formed but without a root element (e.g. only a comment)
  | root (sig : SigState) (r : Option LogoutRespS)   -- `r = none`: xml.Unmarshal into LogoutResponse fails
  deriving DecidableEq, Repr

structure Cfg where
  idpEntityID : String
  sloURL : String
  delay : Int
  statusSuccess : String

/-- `validateLogoutResponse` -/
def validateFields (cfg : Cfg) (now : Int) (r : LogoutRespS) : Outcome Unit :=
  if r.destination ≠ cfg.sloURL then .err "destination"
  else if r.issueInstant + cfg.delay < now then .err "expired"
  else match r.issuer with
    | none => .err "no-issuer"
    | some i =>
      if i ≠ cfg.idpEntityID then .err "issuer"
      else if r.status ≠ cfg.statusSuccess then .err "status"
      else .ok ()

/-- `ValidateLogoutResponseForm` / `…Redirect` after decoding -/
def validate (cfg : Cfg) (now : Int) (d : Doc) : Outcome Unit :=
  match d with
  | .undecodable => .err "decode"
  | .noRoot => .err "no-root"
  | .root sig r =>
    if sig ≠ .valid then .err "signature"
    else match r with
      | none => .err "unmarshal"
      | some r => validateFields cfg now r

/-- the pinned tree: `doc.Root()` and `resp.Issuer` dereferenced without a nil check -/
def validatePinned (cfg : Cfg) (now : Int) (d : Doc) : Outcome Unit :=
  match d with
  | .undecodable => .err "decode"
  | .noRoot => .panic "nil pointer dereference (doc.Root())"
  | .root sig r =>
    if sig ≠ .valid then .err "signature"
    else match r with
      | none => .err "unmarshal"
      | some r =>
        if r.destination ≠ cfg.sloURL then .err "destination"
        else if r.issueInstant + cfg.delay < now then .err "expired"
        else match r.issuer with
          | none => .panic "nil pointer dereference (resp.Issuer)"
          | some i =>
            if i ≠ cfg.idpEntityID then .err "issuer"
            else if r.status ≠ cfg.statusSuccess then .err "status"
            else .ok ()

end SamlVerif.Logout
