/-
  XML trees as the service provider sees them (etree), namespace contexts as goxmldsig's
  `etreeutils.NSContext` resolves them, child lookup (`findChildren` of service_provider.go),
  removal of an element, and an injective rendering of exclusive canonicalisation.

  Canonical form.  goxmldsig computes digests over `canonicalSerialize (TransformExcC14n el)`.  Those
  bytes determine, and are determined by: for every element its prefix, the URI the prefix resolves
  to, its local name, its non-declaration attributes (prefix, URI, local name, value) up to order,
  and the sequence of its children after comments are dropped and adjacent character data is
  joined; CDATA sections are written as CDATA (a goxmldsig/etree peculiarity), processing
  instructions and directives are kept.  `canonNode` renders exactly that information, with every
  string length-prefixed, so equality of renderings is equality of that information.
-/
import SamlVerif.Model.Prelude

namespace SamlVerif.Tree

structure Attr where
  space : String
  key : String
  value : String
  deriving DecidableEq, Repr

inductive Node where
  /-- `nid` is a label unique within one case (not part of the document) -/
  | elem (nid : Nat) (space tag : String) (attrs : List Attr) (children : List Node)
  | text (cdata : Bool) (s : String)
  /-- comment, processing instruction or directive -/
  | other (kind : String) (s : String)
  deriving Repr

def Node.isElem : Node → Bool
  | .elem .. => true
  | _ => false

def Node.nid : Node → Nat
  | .elem n .. => n
  | _ => 0

def Node.tag : Node → String
  | .elem _ _ t .. => t
  | _ => ""

def Node.space : Node → String
  | .elem _ s .. => s
  | _ => ""

def Node.attrs : Node → List Attr
  | .elem _ _ _ a _ => a
  | _ => []

def Node.children : Node → List Node
  | .elem _ _ _ _ c => c
  | _ => []

def Node.childElems (n : Node) : List Node := n.children.filter Node.isElem

/-- `etree.Element.SelectAttr(key)` with an unprefixed key: the first attribute with that local
    name, whatever its prefix -/
def Node.selectAttr (n : Node) (key : String) : Option String :=
  (n.attrs.find? (fun a => a.key = key)).map (·.value)

/-! ### namespace contexts (etreeutils/namespace.go) -/

abbrev NSCtx := List (String × String)

def xmlNS : String := "http://www.w3.org/XML/1998/namespace"
def xmlnsNS : String := "http://www.w3.org/2000/xmlns/"

/-- `NewDefaultNSContext` -/
def defaultCtx : NSCtx := [("", xmlNS), ("xml", xmlNS), ("xmlns", xmlnsNS)]

def NSCtx.lookup (ctx : NSCtx) (prefix_ : String) : Option String := List.lookup prefix_ ctx

def NSCtx.declare (ctx : NSCtx) (p ns : String) : NSCtx := (p, ns) :: ctx.filter (fun b => b.1 ≠ p)

/-- `SubContext`: the declarations on an element merged over the inherited ones; reserved-prefix
    violations are errors (`none`) -/
def subContext (ctx : NSCtx) : List Attr → Option NSCtx
  | [] => some ctx
  | a :: rest =>
    if a.space = "xmlns" then
      if a.key = "xml" ∧ a.value ≠ xmlNS then none
      else if a.key = "xmlns" then none
      else subContext (ctx.declare a.key a.value) rest
    else if a.space = "" ∧ a.key = "xmlns" then
      if a.value = xmlnsNS then none
      else subContext (ctx.declare "" a.value) rest
    else subContext ctx rest

def isNsDecl (a : Attr) : Bool := a.space = "xmlns" || (a.space = "" && a.key = "xmlns")

/-- namespace of an element in the context of its parent -/
def resolveElem (parentCtx : NSCtx) (n : Node) : Option (NSCtx × String) :=
  match subContext parentCtx n.attrs with
  | none => none
  | some c =>
    match c.lookup n.space with
    | none => none
    | some ns => some (c, ns)

/-- `findChildren(parentEl, ns, tag)`: `ctx` is the context *inside* the parent.  Children whose tag
    differs are skipped before any namespace work; a child with the right tag and an unresolvable
    prefix is an error. -/
def findChildren (ctx : NSCtx) (ns tag : String) : List Node → Option (List Node)
  | [] => some []
  | c :: rest =>
    if c.isElem ∧ c.tag = tag then
      match resolveElem ctx c with
      | none => none
      | some (_, cns) =>
        match findChildren ctx ns tag rest with
        | none => none
        | some l => some (if cns = ns then c :: l else l)
    else findChildren ctx ns tag rest

/-! ### rendering -/

/-- length-prefixed, hence self-delimiting -/
def lp (s : String) : String := toString s.length ++ ":" ++ s

def insertAttr (a : String × String × String × String) : List (String × String × String × String) →
    List (String × String × String × String)
  | [] => [a]
  | b :: rest =>
    if a.2.1 < b.2.1 ∨ (a.2.1 = b.2.1 ∧ (a.2.2.1 < b.2.2.1 ∨ (a.2.2.1 = b.2.2.1 ∧ a.1 ≤ b.1))) then a :: b :: rest
    else b :: insertAttr a rest

/-- non-declaration attributes with their resolved namespace, sorted by (URI, local name).  An
    unprefixed attribute is in no namespace; a prefixed one must resolve. -/
def canonAttrs (ctx : NSCtx) : List Attr → Option (List (String × String × String × String))
  | [] => some []
  | a :: rest =>
    if isNsDecl a then canonAttrs ctx rest
    else
      match canonAttrs ctx rest with
      | none => none
      | some l =>
        if a.space = "" then some (insertAttr ("", "", a.key, a.value) l)
        else
          match ctx.lookup a.space with
          | none => none
          | some ns => some (insertAttr (a.space, ns, a.key, a.value) l)

def renderAttrs (l : List (String × String × String × String)) : String :=
  String.join (l.map fun a => "@" ++ lp a.1 ++ lp a.2.1 ++ lp a.2.2.1 ++ lp a.2.2.2)

def flush (pending : String) : String := if pending = "" then "" else "T" ++ lp pending

mutual
/-- canonical rendering of one node in the scope `ctx` of its parent; `none` when a visibly used
    prefix does not resolve or a declaration is illegal (the transformation fails) -/
def canonNode (ctx : NSCtx) : Node → Option String
  | .text true s => some ("C" ++ lp s)
  | .text false s => some ("T" ++ lp s)
  | .other kind s => if kind = "comment" then some "" else some ("P" ++ lp kind ++ lp s)
  | .elem _ space tag attrs children =>
    match subContext ctx attrs with
    | none => none
    | some c =>
      match c.lookup space with
      | none => none
      | some ns =>
        match canonAttrs c attrs with
        | none => none
        | some as =>
          match canonList c "" children with
          | none => none
          | some body => some ("<" ++ lp space ++ lp ns ++ lp tag ++ renderAttrs as ++ ">" ++ body ++ "/")
/-- children in order; `pending` accumulates adjacent character data -/
def canonList (ctx : NSCtx) (pending : String) : List Node → Option String
  | [] => some (flush pending)
  | .text false s :: rest => canonList ctx (pending ++ s) rest
  | .other "comment" _ :: rest => canonList ctx pending rest
  | n :: rest =>
    match canonNode ctx n with
    | none => none
    | some r =>
      match canonList ctx "" rest with
      | none => none
      | some rs => some (flush pending ++ r ++ rs)
end

mutual
/-- the tree without the element labelled `nid` (the enveloped-signature transform) -/
def removeNid (nid : Nat) : Node → Node
  | .elem n s t a cs => .elem n s t a (removeNidList nid cs)
  | x => x
def removeNidList (nid : Nat) : List Node → List Node
  | [] => []
  | c :: rest =>
    if c.isElem ∧ c.nid = nid then removeNidList nid rest
    else removeNid nid c :: removeNidList nid rest
end

mutual
/-- every element of a tree in document order -/
def elems : Node → List Node
  | .elem n s t a cs => .elem n s t a cs :: elemsList cs
  | _ => []
def elemsList : List Node → List Node
  | [] => []
  | c :: rest => elems c ++ elemsList rest
end

end SamlVerif.Tree
