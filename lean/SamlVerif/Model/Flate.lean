/-
  flate.go — `saferFlateReader`: a reader that refuses to deliver more than `limit` inflated bytes.
  The underlying inflater is abstract: each `Read(p)` may deliver any `n ≤ len p` bytes.
-/
import SamlVerif.Model.Prelude

namespace SamlVerif.Flate

/-- one `Read` call: the caller's buffer length and how many bytes the inflater would deliver into it -/
structure Call where
  bufLen : Nat
  delivered : Nat
  deriving DecidableEq, Repr

/-- `saferFlateReader.Read`: (new count, bytes handed to the caller) or an error -/
def read (limit count : Nat) (c : Call) : Outcome (Nat × Nat) :=
  if count + c.bufLen > limit then .err "uncompress-limit"
  else
    let n := min c.delivered c.bufLen
    .ok (count + n, n)

/-- drive the reader through a sequence of calls (as `io.ReadAll` does); total bytes handed out, and
    whether the limit error was raised -/
def readAll (limit : Nat) : Nat → List Call → Nat × Bool
  | count, [] => (count, false)
  | count, c :: rest =>
    match read limit count c with
    | .ok (count', _) => readAll limit count' rest
    | _ => (count, true)

end SamlVerif.Flate
