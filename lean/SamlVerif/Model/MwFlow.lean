/-
  samlsp middleware login flow (middleware.go ServeACS / CreateSessionFromAssertion /
  HandleStartAuthFlow, request_tracker_cookie.go) over symbolic tokens and an abstract SAML response
  whose only varying dimension is InResponseTo (the other dimensions are C01–C04's).
-/
import SamlVerif.Model.Jwt

namespace SamlVerif.MW
open SamlVerif.Jwt

/-- cookie names as the tracker reads them: `NamePrefix ++ index`, the session cookie, anything else -/
inductive CName where
  | tracking (index : String)
  | session
  | other (n : String)
  deriving DecidableEq, Repr

structure Cookie where
  name : CName
  tok : Token
  deriving DecidableEq, Repr

structure Cfg where
  trackCodec : Codec
  sessCodec : Codec
  defaultURI : String
  allowIdP : Bool
  https : Bool
  deriving Repr

/-- the SAML response as the middleware sees it -/
structure SamlResp where
  /-- signed by the IdP, fresh, addressed to this SP … (everything but the request binding) -/
  valid : Bool
  inResponseTo : String
  assertion : AssertionA
  deriving DecidableEq, Repr

structure Reply where
  status : Nat
  location : String
  /-- session cookie set by this reply -/
  session : Option Token
  httpOnly : Bool
  secure : Bool
  /-- tracking cookies this reply clears (by index) -/
  cleared : List String
  /-- tracking cookie this reply sets -/
  tracked : Option Cookie
  deriving DecidableEq, Repr

def forbidden : Reply := ⟨403, "", none, false, false, [], none⟩

/-- a cookie counts as a tracked request iff its token is an authentic, unexpired tracking token
    *and* its name carries the index signed inside the token -/
def trackedOf (cfg : Cfg) (now : Int) (c : Cookie) : Option TrackedRequest :=
  match c.name with
  | .tracking i =>
    (match decodeTracker cfg.trackCodec now c.tok with
     | .ok tr => if tr.index = i then some tr else none
     | _ => none)
  | _ => none

/-- `CookieRequestTracker.GetTrackedRequests` -/
def getTrackedRequests (cfg : Cfg) (now : Int) (jar : List Cookie) : List TrackedRequest :=
  jar.filterMap (trackedOf cfg now)

/-- `CookieRequestTracker.GetTrackedRequest` (`r.Cookie(name)` is the first cookie of that name) -/
def getTrackedRequest (cfg : Cfg) (now : Int) (jar : List Cookie) (index : String) : Outcome TrackedRequest :=
  match jar.find? (fun c => c.name = .tracking index) with
  | none => .err "no-cookie"
  | some c =>
    match decodeTracker cfg.trackCodec now c.tok with
    | .ok tr => if tr.index = index then .ok tr else .err "index-mismatch"
    | .err e => .err e
    | .panic w => .panic w

/-- `Middleware.ServeACS` + `CreateSessionFromAssertion` -/
def serveACS (cfg : Cfg) (now : Int) (jar : List Cookie) (resp : SamlResp) (relay : String) : Reply :=
  let ids := possibleRequestIDs cfg.allowIdP (getTrackedRequests cfg now jar)
  if !(resp.valid && (cfg.allowIdP || ids.contains resp.inResponseTo)) then forbidden
  else
    let sess := encodeSession cfg.sessCodec (newSession cfg.sessCodec now resp.assertion)
    if relay = "" then ⟨302, cfg.defaultURI, some sess, true, cfg.https, [], none⟩
    else match getTrackedRequest cfg now jar relay with
      | .ok tr => ⟨302, tr.uri, some sess, true, cfg.https, [relay], none⟩
      | .err e =>
        if e = "no-cookie" ∧ cfg.allowIdP then ⟨302, relay, some sess, true, cfg.https, [], none⟩
        else forbidden
      | .panic _ => forbidden

/-- `HandleStartAuthFlow`: random index and request ID are inputs -/
def startFlow (cfg : Cfg) (now : Int) (index id uri : String) : Reply :=
  ⟨302, "idp", none, false, false, [], some ⟨.tracking index, encodeTracker cfg.trackCodec now ⟨index, id, uri⟩⟩⟩

/-- what a browser does with a reply -/
def applyReply (jar : List Cookie) (r : Reply) : List Cookie :=
  let j1 := jar.filter (fun c => match c.name with | .tracking i => !r.cleared.contains i | _ => true)
  let j2 := match r.session with
    | some t => ⟨.session, t⟩ :: j1.filter (fun c => c.name ≠ .session)
    | none => j1
  match r.tracked with
  | some c => c :: j2.filter (fun c' => c'.name ≠ c.name)
  | none => j2

end SamlVerif.MW
