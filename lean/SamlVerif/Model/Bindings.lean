/-
  SP outbound bindings (service_provider.go): redirect-binding query assembly for AuthnRequest
  (by hand, order matters for signing — modelled after the `fix:` commits) and for
  LogoutRequest/LogoutResponse (`Query().Set` + `Encode`), message-ID derivation.
-/
import SamlVerif.Model.Codec.Query
import SamlVerif.Model.Codec.Base64

namespace SamlVerif.Bindings
open SamlVerif.Codec

def str (s : String) : Bytes := s.toUTF8.toList

-- ASCII literals written out so that the kernel can evaluate them (`String.toUTF8` is opaque to `decide`)
def kSAMLRequest : Bytes := [83, 65, 77, 76, 82, 101, 113, 117, 101, 115, 116]
def kSAMLResponse : Bytes := [83, 65, 77, 76, 82, 101, 115, 112, 111, 110, 115, 101]
def kRelayState : Bytes := [82, 101, 108, 97, 121, 83, 116, 97, 116, 101]
def kSigAlg : Bytes := [83, 105, 103, 65, 108, 103]
def kSignature : Bytes := [83, 105, 103, 110, 97, 116, 117, 114, 101]
def idPrefix : Bytes := [105, 100, 45]

/-- the octets the redirect-binding signature covers:
    `SAMLRequest=value[&RelayState=value]&SigAlg=value` with url-encoded values -/
def signedOctets (msg relay sigAlg : Bytes) : Bytes :=
  encodePair kSAMLRequest msg ++
  (if relay = [] then [] else 38 :: encodePair kRelayState relay) ++
  (38 :: encodePair kSigAlg sigAlg)

/-- `AuthnRequest.Redirect`: the RawQuery it assembles.  `rawQuery` is the IdP endpoint's own query
    (possibly empty), `msg` the base64 of the deflated request, `sign` the detached signer. -/
def redirectQuery (rawQuery msg relay : Bytes) (signing : Option (Bytes × (Bytes → Bytes))) : Bytes :=
  let pre := if rawQuery = [] then [] else rawQuery ++ [38]
  match signing with
  | none =>
    pre ++ encodePair kSAMLRequest msg ++ (if relay = [] then [] else 38 :: encodePair kRelayState relay)
  | some (sigAlg, sign) =>
    let s := signedOctets msg relay sigAlg
    pre ++ s ++ (38 :: encodePair kSignature (b64encode (sign s)))

/-- the pinned `AuthnRequest.Redirect`: relay state appended unescaped, and the signature computed
    over the whole query including the endpoint's own parameters -/
def redirectQueryPinned (rawQuery msg relay : Bytes) (signing : Option (Bytes × (Bytes → Bytes))) : Bytes :=
  let pre := if rawQuery = [] then [] else rawQuery ++ [38]
  let q := pre ++ encodePair kSAMLRequest msg ++
    (if relay = [] then [] else 38 :: (kRelayState ++ 61 :: relay))
  match signing with
  | none => q
  | some (sigAlg, sign) =>
    let s := q ++ (38 :: encodePair kSigAlg sigAlg)
    s ++ (38 :: encodePair kSignature (b64encode (sign s)))

/-! ### `url.Values` (logout redirects) -/

def encodePairs : List (Bytes × Bytes) → Bytes
  | [] => []
  | [(k, v)] => encodePair k v
  | (k, v) :: rest => encodePair k v ++ 38 :: encodePairs rest

/-- `Values.Set` -/
def valuesSet (vs : List (Bytes × Bytes)) (k v : Bytes) : List (Bytes × Bytes) :=
  vs.filter (fun p => p.1 ≠ k) ++ [(k, v)]

/-- bytewise lexicographic `≤` (Go string comparison) -/
def lexLE : Bytes → Bytes → Bool
  | [], _ => true
  | _ :: _, [] => false
  | a :: as, b :: bs => a.toNat < b.toNat || (a = b && lexLE as bs)

/-- `Values.Encode`: keys sorted, values of one key in insertion order (stable) -/
def valuesEncode (vs : List (Bytes × Bytes)) : Bytes :=
  encodePairs (vs.mergeSort (fun a b => lexLE a.1 b.1))

/-- `LogoutRequest.Redirect` / `LogoutResponse.Redirect`: RawQuery -/
def logoutRedirectQuery (existing : List (Bytes × Bytes)) (key msg relay : Bytes) : Bytes :=
  let q1 := valuesSet existing key msg
  let q2 := if relay = [] then q1 else valuesSet q1 kRelayState relay
  valuesEncode q2

/-! ### message IDs (`fmt.Sprintf("id-%x", randomBytes(n))`) -/

def hexLower (n : Nat) : UInt8 := if n < 10 then UInt8.ofNat (48 + n) else UInt8.ofNat (87 + n)

def hexBytes : Bytes → Bytes
  | [] => []
  | b :: r => hexLower (b.toNat / 16) :: hexLower (b.toNat % 16) :: hexBytes r

def messageID (rand : Bytes) : Bytes := idPrefix ++ hexBytes rand

end SamlVerif.Bindings
