/-
  net/url as used by the bindings: `QueryEscape`, `QueryUnescape`, `ParseQuery`, the `?`/`#`
  split of `url.Parse`, and `Values.Encode`.  Byte level (Go strings are byte strings).
-/
import SamlVerif.Model.Prelude

namespace SamlVerif.Codec

/-- `shouldEscape(c, encodeQueryComponent)` is false exactly for these -/
def isUnreserved (b : UInt8) : Bool :=
  (48 ≤ b.toNat ∧ b.toNat ≤ 57) ∨ (65 ≤ b.toNat ∧ b.toNat ≤ 90) ∨ (97 ≤ b.toNat ∧ b.toNat ≤ 122) ∨
  b.toNat = 45 ∨ b.toNat = 95 ∨ b.toNat = 46 ∨ b.toNat = 126

/-- `"0123456789ABCDEF"[n]` -/
def hexUpper (n : Nat) : UInt8 := if n < 10 then UInt8.ofNat (48 + n) else UInt8.ofNat (55 + n)

/-- `unhex` (accepts both cases, as `ishex`/`unhex` in net/url) -/
def unhex (c : UInt8) : Option Nat :=
  if 48 ≤ c.toNat ∧ c.toNat ≤ 57 then some (c.toNat - 48)
  else if 65 ≤ c.toNat ∧ c.toNat ≤ 70 then some (c.toNat - 55)
  else if 97 ≤ c.toNat ∧ c.toNat ≤ 102 then some (c.toNat - 87)
  else none

/-- `url.QueryEscape` -/
def queryEscape : Bytes → Bytes
  | [] => []
  | b :: r =>
    if b.toNat = 32 then 43 :: queryEscape r
    else if isUnreserved b then b :: queryEscape r
    else 37 :: hexUpper (b.toNat / 16) :: hexUpper (b.toNat % 16) :: queryEscape r

/-- `url.QueryUnescape` -/
def queryUnescape : Bytes → Option Bytes
  | [] => some []
  | b :: r =>
    if b.toNat = 37 then
      match r with
      | h :: l :: r' =>
        match unhex h, unhex l with
        | some x, some y => (queryUnescape r').map (UInt8.ofNat (x * 16 + y) :: ·)
        | _, _ => none
      | _ => none
    else if b.toNat = 43 then (queryUnescape r).map (32 :: ·)
    else (queryUnescape r).map (b :: ·)

/-- split at every occurrence of `sep` (like `strings.Split` / repeated `strings.Cut`) -/
def splitOn (sep : UInt8) : Bytes → List Bytes
  | [] => [[]]
  | b :: r =>
    match splitOn sep r with
    | [] => [[]]   -- unreachable
    | cur :: rest => if b = sep then [] :: cur :: rest else (b :: cur) :: rest

/-- `strings.Cut(s, "=")` -/
def cutEq : Bytes → Bytes × Bytes
  | [] => ([], [])
  | b :: r => if b.toNat = 61 then ([], r) else let (k, v) := cutEq r; (b :: k, v)

/-- `url.ParseQuery`: pairs in order; a component containing `;` or a bad escape is dropped and
    makes the call report an error (second component `false`) while the rest is still returned -/
def parseQuery (q : Bytes) : List (Bytes × Bytes) × Bool :=
  (splitOn 38 q).foldr (fun comp (acc : List (Bytes × Bytes) × Bool) =>
    if comp = [] then acc
    else if comp.any (fun b => b.toNat = 59) then (acc.1, false)
    else
      let (k, v) := cutEq comp
      match queryUnescape k, queryUnescape v with
      | some k', some v' => ((k', v') :: acc.1, acc.2)
      | _, _ => (acc.1, false)) ([], true)

/-- `QueryEscape(k) + "=" + QueryEscape(v)` -/
def encodePair (k v : Bytes) : Bytes := queryEscape k ++ 61 :: queryEscape v

/-- `Values.Get(key)`: first value -/
def getParam (ps : List (Bytes × Bytes)) (key : Bytes) : Option Bytes :=
  (ps.find? (fun p => p.1 = key)).map (·.2)

def countParam (ps : List (Bytes × Bytes)) (key : Bytes) : Nat :=
  (ps.filter (fun p => p.1 = key)).length

end SamlVerif.Codec
