/-
  Character data and attribute values on the wire.

  * `escape` — github.com/beevik/etree `escapeString` in its three modes (helpers.go).
  * `scan`   — encoding/xml `(*Decoder).text(quote, cdata=false)` in strict mode with no custom
               entities: stops at `<` (text) or at the closing quote (attribute value), resolves the
               five predefined entities and character references, rewrites a raw CR or CRLF to LF,
               refuses `]]>`, characters outside the XML `Char` production and every malformed
               reference.
  Both work on code points (`List Char`); the UTF-8 layer is not modelled (all characters that the
  two functions treat specially are ASCII).
-/
import SamlVerif.Model.Prelude

namespace SamlVerif.XmlText

inductive Mode where
  | normal | canonText | canonAttr
  /-- etree's normal mode followed by the library's `crEscaper` (util.go): every raw carriage return
      of the output becomes `&#xD;` — how this library writes attribute values -/
  | attrCR
  deriving DecidableEq, Repr

/-- the `Char` production of XML 1.0 (`isInCharacterRange` in both libraries) -/
def inRange (c : Char) : Bool :=
  c.toNat = 0x09 || c.toNat = 0x0A || c.toNat = 0x0D ||
  (0x20 ≤ c.toNat && c.toNat ≤ 0xD7FF) || (0xE000 ≤ c.toNat && c.toNat ≤ 0xFFFD) ||
  (0x10000 ≤ c.toNat && c.toNat ≤ 0x10FFFF)

def escChar (m : Mode) (c : Char) : List Char :=
  if c = '&' then ['&', 'a', 'm', 'p', ';']
  else if c = '<' then ['&', 'l', 't', ';']
  else if c = '>' then (if m = .canonAttr then [c] else ['&', 'g', 't', ';'])
  else if c = '\'' then (if m = .normal ∨ m = .attrCR then ['&', 'a', 'p', 'o', 's', ';'] else [c])
  else if c = '"' then (if m = .canonText then [c] else ['&', 'q', 'u', 'o', 't', ';'])
  else if c = '\t' then (if m = .canonAttr then ['&', '#', 'x', '9', ';'] else [c])
  else if c = '\n' then (if m = .canonAttr then ['&', '#', 'x', 'A', ';'] else [c])
  else if c = '\r' then (if m = .normal then [c] else ['&', '#', 'x', 'D', ';'])
  else if inRange c then [c] else ['�']

def escape (m : Mode) (s : List Char) : List Char := s.flatMap (escChar m)

/-- `crEscaper.Write`: raw carriage returns of the serialised bytes become character references -/
def crReplace (out : List Char) : List Char := out.flatMap fun c => if c = '\r' then ['&', '#', 'x', 'D', ';'] else [c]

/-! ### decoding -/

def digitVal (c : Char) : Option Nat :=
  if '0' ≤ c ∧ c ≤ '9' then some (c.toNat - 48) else none

def hexVal (c : Char) : Option Nat :=
  if '0' ≤ c ∧ c ≤ '9' then some (c.toNat - 48)
  else if 'a' ≤ c ∧ c ≤ 'f' then some (c.toNat - 87)
  else if 'A' ≤ c ∧ c ≤ 'F' then some (c.toNat - 55)
  else none

/-- `strconv.ParseUint(s, base, 64)` on a non-empty digit string; `none` on a bad digit.  Values are
    capped just above `unicode.MaxRune` so that 64-bit overflow and "too large" coincide. -/
def parseNum (base : Nat) (val : Char → Option Nat) : List Char → Nat → Option Nat
  | [], acc => some acc
  | c :: rest, acc =>
    match val c with
    | some d => parseNum base val rest (min (acc * base + d) 0x110000)
    | none => none

/-- `string(rune(n))` for `n ≤ unicode.MaxRune`: surrogates become U+FFFD -/
def runeOf (n : Nat) : Option Char :=
  if n > 0x10FFFF then none
  else if 0xD800 ≤ n ∧ n ≤ 0xDFFF then some '�'
  else some (Char.ofNat n)

/-- the text between `&` and `;` -/
def resolve (buf : List Char) : Option Char :=
  let r : Option Char :=
    match buf with
    | '#' :: 'x' :: ds => if ds.isEmpty then none else (parseNum 16 hexVal ds 0).bind runeOf
    | '#' :: ds => if ds.isEmpty then none else (parseNum 10 digitVal ds 0).bind runeOf
    | ['l', 't'] => some '<'
    | ['g', 't'] => some '>'
    | ['a', 'm', 'p'] => some '&'
    | ['a', 'p', 'o', 's'] => some '\''
    | ['q', 'u', 'o', 't'] => some '"'
    | _ => none
  match r with
  | some c => if inRange c then some c else none
  | none => none

def nul : Char := Char.ofNat 0

/-- put a decoded character in front of a successful result -/
def pre (c : Char) : Outcome (List Char × List Char) → Outcome (List Char × List Char)
  | .ok (d, r) => .ok (c :: d, r)
  | .err e => .err e
  | .panic w => .panic w

/-- `text(quote, false)`: returns the decoded data and the unread input (starting at `<` for text,
    after the closing quote for an attribute value) -/
def scan (quote : Option Char) : Char → Char → Option (List Char) → List Char → Outcome (List Char × List Char)
  | _, _, none, [] => if quote.isSome then .err "eof-in-attribute" else .ok ([], [])
  | _, _, some _, [] => .err "eof-in-reference"
  | b0, b1, some buf, c :: rest =>
    if c = ';' then
      match resolve buf with
      | some ch => pre ch (scan quote nul nul none rest)
      | none => .err "bad-reference"
    else if c = '<' ∨ c = '&' ∨ quote = some c then .err "bad-reference"
    else scan quote b0 b1 (some (buf ++ [c])) rest
  | b0, b1, none, c :: rest =>
    if b0 = ']' ∧ b1 = ']' ∧ c = '>' then .err "cdata-end-in-text"
    else if c = '<' then (if quote.isSome then .err "lt-in-attribute" else .ok ([], c :: rest))
    else if quote = some c then .ok ([], rest)
    else if c = '&' then scan quote b0 b1 (some []) rest
    else if c = '\r' then pre '\n' (scan quote b1 c none rest)
    else if b1 = '\r' ∧ c = '\n' then scan quote b1 c none rest
    else if !inRange c then .err "illegal-character"
    else pre c (scan quote b1 c none rest)

/-- character data of `<a>…</a>` -/
def readText (l : List Char) : Outcome (List Char × List Char) := scan none nul nul none l

/-- attribute value after the opening `"` -/
def readAttr (l : List Char) : Outcome (List Char × List Char) := scan (some '"') nul nul none l

end SamlVerif.XmlText
