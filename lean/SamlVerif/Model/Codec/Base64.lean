/-
  encoding/base64 StdEncoding as the library uses it (EncodeToString / DecodeString).
-/
import SamlVerif.Model.Prelude

namespace SamlVerif.Codec

/-- the standard alphabet -/
def b64char (n : Nat) : UInt8 :=
  if n < 26 then UInt8.ofNat (65 + n)
  else if n < 52 then UInt8.ofNat (71 + n)        -- 'a' = 97 = 71 + 26
  else if n < 62 then UInt8.ofNat (n - 4)         -- '0' = 48 = 52 - 4
  else if n = 62 then 43 else 47

def b64val (c : UInt8) : Option Nat :=
  if 65 ≤ c.toNat ∧ c.toNat ≤ 90 then some (c.toNat - 65)
  else if 97 ≤ c.toNat ∧ c.toNat ≤ 122 then some (c.toNat - 71)
  else if 48 ≤ c.toNat ∧ c.toNat ≤ 57 then some (c.toNat + 4)
  else if c.toNat = 43 then some 62
  else if c.toNat = 47 then some 63
  else none

/-- `StdEncoding.EncodeToString` -/
def b64encode : Bytes → Bytes
  | [] => []
  | [a] => [b64char (a.toNat / 4), b64char (a.toNat % 4 * 16), 61, 61]
  | [a, b] => [b64char (a.toNat / 4), b64char (a.toNat % 4 * 16 + b.toNat / 16), b64char (b.toNat % 16 * 4), 61]
  | a :: b :: c :: r =>
    b64char (a.toNat / 4) :: b64char (a.toNat % 4 * 16 + b.toNat / 16) ::
    b64char (b.toNat % 16 * 4 + c.toNat / 64) :: b64char (c.toNat % 64) :: b64encode r

/-- decoding of the quads after CR/LF have been dropped; padding only in the last quad -/
def b64decodeQuads : Bytes → Option Bytes
  | [] => some []
  | [w, x, y, z] =>
    (match b64val w, b64val x with
     | some p, some q =>
       if y.toNat = 61 ∧ z.toNat = 61 then some [UInt8.ofNat (p * 4 + q / 16)]
       else match b64val y with
         | none => none
         | some r =>
           if z.toNat = 61 then some [UInt8.ofNat (p * 4 + q / 16), UInt8.ofNat (q % 16 * 16 + r / 4)]
           else match b64val z with
             | none => none
             | some s => some [UInt8.ofNat (p * 4 + q / 16), UInt8.ofNat (q % 16 * 16 + r / 4), UInt8.ofNat (r % 4 * 64 + s)]
     | _, _ => none)
  | w :: x :: y :: z :: rest =>
    (match b64val w, b64val x, b64val y, b64val z with
     | some p, some q, some r, some s =>
       (b64decodeQuads rest).map fun t =>
         UInt8.ofNat (p * 4 + q / 16) :: UInt8.ofNat (q % 16 * 16 + r / 4) :: UInt8.ofNat (r % 4 * 64 + s) :: t
     | _, _, _, _ => none)
  | _ => none

/-- `StdEncoding.DecodeString`: CR and LF are ignored, then strict quads -/
def b64decode (s : Bytes) : Option Bytes :=
  b64decodeQuads (s.filter fun c => c.toNat ≠ 13 ∧ c.toNat ≠ 10)

end SamlVerif.Codec
