/-
  duration.go — `Duration.MarshalText` / `Duration.UnmarshalText` (xsd:duration text).

  Durations are Go `int64` nanoseconds.  The model computes in unbounded `Int`/`Nat` and wraps to
  64 bits where Go's arithmetic wraps (`wrap64`); since wrapping is a ring homomorphism, wrapping
  once at the end equals wrapping after every `+=`/`*`.
  The two regular expressions of duration.go are modelled by a deterministic recogniser (see the
  argument in DESIGN §2 C15; their equivalence is carried by the correspondence check).
  Modelled code is the tree *after* the `fix:` commits for the seconds parser and MinInt64.
-/
import SamlVerif.Model.Prelude

namespace SamlVerif.Duration

def secNs : Nat := 1000000000
def minNs : Nat := 60 * secNs
def hourNs : Nat := 60 * minNs
def dayNs : Nat := 24 * hourNs
def monthNs : Nat := 30 * dayNs
def yearNs : Nat := 365 * dayNs

def two63 : Int := 9223372036854775808
def two64 : Int := 18446744073709551616

/-- two's-complement wrap of an unbounded integer to Go's int64 -/
def wrap64 (x : Int) : Int := (x + two63) % two64 - two63

def showNat (n : Nat) : List Char := Nat.toDigits 10 n

/-- `fmt.Sprintf("%09d", ns)` for `ns < 10^9` -/
def pad9 (ns : Nat) : List Char :=
  let ds := showNat ns
  List.replicate (9 - ds.length) '0' ++ ds

/-- `strings.TrimRight(s, "0")` -/
def trimRightZeros (s : List Char) : List Char :=
  (s.reverse.dropWhile (· = '0')).reverse

/-- `Duration.MarshalText` (an empty list stands for the `nil` the code returns for zero) -/
def marshal (d : Int) : List Char :=
  if d = 0 then [] else
  let u := d.natAbs
  let h := u / hourNs
  let m := u % hourNs / minNs
  let s := u % minNs / secNs
  let ns := u % secNs
  (if d < 0 then ['-'] else []) ++ ['P', 'T'] ++
  (if h > 0 then showNat h ++ ['H'] else []) ++
  (if m > 0 then showNat m ++ ['M'] else []) ++
  (if s > 0 ∨ ns > 0 then
     showNat s ++ (if ns > 0 then '.' :: trimRightZeros (pad9 ns) else []) ++ ['S']
   else [])

/-- longest prefix of ASCII digits (`\d+` is ASCII-only in RE2) -/
def takeDigits : List Char → List Char × List Char
  | [] => ([], [])
  | c :: cs =>
    if c.isDigit then
      let (ds, rest) := takeDigits cs
      (c :: ds, rest)
    else ([], c :: cs)

def decNat (ds : List Char) : Nat := Nat.ofDigitChars 10 ds 0

/-- `(?:(\d+)<letter>)?` -/
def optField (letter : Char) (s : List Char) : Option (List Char) × List Char :=
  match takeDigits s with
  | (d :: ds, c :: rest) => if c = letter then (some (d :: ds), rest) else (none, s)
  | _ => (none, s)

/-- `(?:(\d+(?:\.\d+)?)S)?` — returns (whole digits, fraction digits) -/
def optSeconds (s : List Char) : Option (List Char × List Char) × List Char :=
  match takeDigits s with
  | (d :: ds, 'S' :: rest) => (some (d :: ds, []), rest)
  | (d :: ds, '.' :: rest) =>
    (match takeDigits rest with
     | (f :: fs, 'S' :: rest') => (some (d :: ds, f :: fs), rest')
     | _ => (none, s))
  | _ => (none, s)

/-- `strconv.Atoi` / `ParseInt(…, 10, 64)` on a digit string: error on overflow -/
def atoi (ds : List Char) : Outcome Nat :=
  let n := decNat ds
  if (n : Int) < two63 then .ok n else .err "atoi-range"

/-- fractional seconds: first nine digits, right-padded with zeros, as nanoseconds -/
def fracNs (fs : List Char) : Nat :=
  let f9 := fs.take 9
  decNat (f9 ++ List.replicate (9 - f9.length) '0')

def field (v : Option (List Char)) (unit : Nat) : Outcome Nat :=
  match v with
  | none => .ok 0
  | some ds => (atoi ds).map (· * unit)

def secField (v : Option (List Char × List Char)) : Outcome Nat :=
  match v with
  | none => .ok 0
  | some (w, f) => (atoi w).map (fun wn => wn * secNs + fracNs f)

/-- the `T…` part: `^(?:(\d+)H)?(?:(\d+)M)?(?:(\d+(?:\.\d+)?)S)?$` on a non-empty string -/
def parseTime (s : List Char) : Outcome Nat :=
  if s = [] then .err "syntax" else
  let (h, s1) := optField 'H' s
  let (m, s2) := optField 'M' s1
  let (sec, s3) := optSeconds s2
  if s3 ≠ [] then .err "syntax" else
  (field h hourNs).bind fun hn =>
  (field m minNs).bind fun mn =>
  (secField sec).bind fun sn =>
  .ok (hn + mn + sn)

def timeField (v : Option (List Char)) : Outcome Nat :=
  match v with
  | none => .ok 0
  | some r => parseTime r

/-- `(?:T(.+))?$` after the date fields: (time text if any, whether the tail is acceptable) -/
def tPart (s4 : List Char) : Option (List Char) × Bool :=
  match s4 with
  | [] => (none, true)
  | 'T' :: r => if r = [] ∨ r.contains '\n' then (none, false) else (some r, true)
  | _ => (none, false)

/-- everything after the `P` -/
def parseP (neg : Bool) (s1 : List Char) : Outcome Int :=
  let yf := optField 'Y' s1
  let mf := optField 'M' yf.2
  let df := optField 'D' mf.2
  let tp := tPart df.2
  if !tp.2 then .err "syntax"
  else if yf.1.isNone ∧ mf.1.isNone ∧ df.1.isNone ∧ tp.1.isNone then .err "empty"
  else
    (field yf.1 yearNs).bind fun yn =>
    (field mf.1 monthNs).bind fun mn =>
    (field df.1 dayNs).bind fun dn =>
    (timeField tp.1).bind fun tn =>
    let total : Int := (yn + mn + dn + tn : Nat)
    .ok (wrap64 (if neg then -total else total))

def parseBody (neg : Bool) : List Char → Outcome Int
  | 'P' :: s1 => parseP neg s1
  | _ => .err "syntax"

/-- `Duration.UnmarshalText` on non-nil text (nil text gives 0 and is handled by the caller) -/
def parse : List Char → Outcome Int
  | '-' :: r => parseBody true r
  | r => parseBody false r

/-- `UnmarshalText(MarshalText(d))`: zero marshals to nil, and nil unmarshals to zero -/
def roundTrip (d : Int) : Outcome Int :=
  if d = 0 then .ok 0 else parse (marshal d)

end SamlVerif.Duration
