/-
  service_provider.go `GetSigningContext`: which key type a signature method requires.
-/
import SamlVerif.Model.Prelude

namespace SamlVerif.Signing

/-- `GetSigningContext`'s switch: a method outside the table is refused; a method in the table is
    refused unless the key has the Go type the table names. -/
def signingContext (table : List (String × String)) (method : String) (keyType : String) : Outcome Unit :=
  match table.lookup method with
  | none => .err "invalid-signing-method"
  | some t => if t = keyType then .ok () else .err "key-type-mismatch"

/-- key family a W3C signature-method URI belongs to (from the identifier itself) -/
def familyOfURI (uri : String) : Option String :=
  if uri = "http://www.w3.org/2000/09/xmldsig#rsa-sha1" ∨ uri = "http://www.w3.org/2001/04/xmldsig-more#rsa-sha256" ∨
     uri = "http://www.w3.org/2001/04/xmldsig-more#rsa-sha384" ∨ uri = "http://www.w3.org/2001/04/xmldsig-more#rsa-sha512"
  then some "*rsa.PrivateKey"
  else if uri = "http://www.w3.org/2001/04/xmldsig-more#ecdsa-sha1" ∨ uri = "http://www.w3.org/2001/04/xmldsig-more#ecdsa-sha256" ∨
     uri = "http://www.w3.org/2001/04/xmldsig-more#ecdsa-sha384" ∨ uri = "http://www.w3.org/2001/04/xmldsig-more#ecdsa-sha512"
  then some "*ecdsa.PrivateKey"
  else none

def knownMethods : List String :=
  ["http://www.w3.org/2000/09/xmldsig#rsa-sha1", "http://www.w3.org/2001/04/xmldsig-more#rsa-sha256",
   "http://www.w3.org/2001/04/xmldsig-more#rsa-sha384", "http://www.w3.org/2001/04/xmldsig-more#rsa-sha512",
   "http://www.w3.org/2001/04/xmldsig-more#ecdsa-sha1", "http://www.w3.org/2001/04/xmldsig-more#ecdsa-sha256",
   "http://www.w3.org/2001/04/xmldsig-more#ecdsa-sha384", "http://www.w3.org/2001/04/xmldsig-more#ecdsa-sha512"]

end SamlVerif.Signing
