/-
  Lock programs and `sync.RWMutex` semantics for samlidp (memory_store.go, samlidp.go, service.go,
  shortcut.go, session.go).

  A *lock program* is the sequence of lock, unlock and shared-variable events a handler or store
  method performs; the programs are regenerated from the current source by the extractor
  (Generated/Facts.lean).  Threads interleave at event granularity.  The enabling rule for `RLock` is
  the pessimistic one of Go's implementation: a reader is blocked while a writer holds the mutex *or
  is waiting for it* (so a second `RLock` by a thread that already holds a read lock can deadlock
  against a concurrent `Lock`).
-/
import SamlVerif.Model.Prelude

namespace SamlVerif.Locks

inductive Ev where
  | rlock (m : Nat)
  | runlock (m : Nat)
  | lock (m : Nat)
  | unlock (m : Nat)
  | read (x : Nat)
  | write (x : Nat)
  deriving DecidableEq, Repr

abbrev Prog := List Ev

/-- mutexes a thread holds: in read mode, in write mode -/
structure Held where
  r : List Nat
  w : List Nat
  deriving DecidableEq, Repr

def Held.empty : Held := ⟨[], []⟩

def Held.has (h : Held) (m : Nat) : Bool := h.r.contains m || h.w.contains m

def Held.step (h : Held) : Ev → Held
  | .rlock m => { h with r := m :: h.r }
  | .runlock m => { h with r := h.r.erase m }
  | .lock m => { h with w := m :: h.w }
  | .unlock m => { h with w := h.w.erase m }
  | _ => h

def heldAfter (p : Prog) : Held := p.foldl Held.step Held.empty

/-! ### static discipline (checked on the extracted programs by `decide`) -/

/-- `protects x` is the mutex that guards shared variable `x` -/
abbrev Protects := Nat → Nat

/-- scan a program from a held set: acquisitions strictly above everything held (so no re-entrance
    and a global lock order), releases only of what is held in that mode, reads under a read or
    write lock of the guarding mutex, writes under its write lock, nothing held at the end -/
def wellFormedFrom (protects : Protects) : Held → Prog → Bool
  | h, [] => h.r.isEmpty && h.w.isEmpty
  | h, e :: rest =>
    (match e with
     | .rlock m => (h.r ++ h.w).all (· < m)
     | .lock m => (h.r ++ h.w).all (· < m)
     | .runlock m => h.r.contains m
     | .unlock m => h.w.contains m
     | .read x => h.has (protects x)
     | .write x => h.w.contains (protects x)) &&
    wellFormedFrom protects (h.step e) rest

def wellFormed (protects : Protects) (p : Prog) : Bool := wellFormedFrom protects Held.empty p

/-! ### dynamic semantics -/

structure Thread where
  done : Prog
  todo : Prog
  deriving DecidableEq, Repr

def Thread.held (t : Thread) : Held := heldAfter t.done
def Thread.holdsW (t : Thread) (m : Nat) : Bool := t.held.w.contains m
def Thread.holds (t : Thread) (m : Nat) : Bool := t.held.has m
def Thread.wantsW (t : Thread) (m : Nat) : Bool := t.todo.head? = some (.lock m)
def Thread.finished (t : Thread) : Bool := t.todo.isEmpty

/-- can the next event of thread `i` fire? (`others` = all threads except `i`) -/
def canFire (t : Thread) (others : List Thread) : Bool :=
  match t.todo with
  | [] => false
  | .lock m :: _ => !t.holds m && others.all (fun o => !o.holds m)
  | .rlock m :: _ => !t.holdsW m && others.all (fun o => !o.holdsW m && !o.wantsW m)
  | _ => true

def others (ts : List Thread) (i : Nat) : List Thread := ts.eraseIdx i

def enabled (ts : List Thread) (i : Nat) : Bool :=
  match ts[i]? with
  | some t => canFire t (others ts i)
  | none => false

def Thread.advance (t : Thread) : Thread :=
  match t.todo with
  | [] => t
  | e :: rest => ⟨t.done ++ [e], rest⟩

/-- fire thread `i` (no effect when it is not enabled) -/
def fire (ts : List Thread) (i : Nat) : List Thread :=
  if enabled ts i then ts.modify i Thread.advance else ts

def start (progs : List Prog) : List Thread := progs.map (fun p => ⟨[], p⟩)

/-- run a schedule (list of thread indices) -/
def runSchedule (ts : List Thread) : List Nat → List Thread
  | [] => ts
  | i :: rest => runSchedule (fire ts i) rest

/-- every unfinished thread is blocked -/
def deadlocked (ts : List Thread) : Bool :=
  ts.any (fun t => !t.finished) && (List.range ts.length).all (fun i => !enabled ts i)

/-- two threads are about to touch the same variable and at least one of them writes -/
def conflictNow (ts : List Thread) : Bool :=
  (List.range ts.length).any fun i => (List.range ts.length).any fun j =>
    i ≠ j && (match ts[i]?, ts[j]? with
      | some a, some b =>
        (match a.todo.head?, b.todo.head? with
         | some (.write x), some (.write y) => x = y
         | some (.write x), some (.read y) => x = y
         | _, _ => false)
      | _, _ => false)

end SamlVerif.Locks
