/-
  xmlenc — padding, CBC framing over an abstract block cipher, GCM framing over an abstract AEAD,
  key-transport dispatch.  (xmlenc/cbc.go, gcm.go, pubkey.go, decrypt.go)

  Go run-time preconditions are explicit: `cipher.NewCBCDecrypter` panics if the IV length differs
  from the block size, `CryptBlocks` panics on input that is not a whole number of blocks, slicing
  past the end panics.  The model below is the tree *after* the `fix:` commits (length checks before
  slicing); the pinned behaviour is kept as `…Pinned` definitions so the defects stay visible.
-/
import SamlVerif.Model.Prelude

namespace SamlVerif.Xmlenc

/-! ### padding (cbc.go: appendPadding / stripPadding) -/

def appendPadding (buf : Bytes) (bs : Nat) : Bytes :=
  let n := bs - buf.length % bs
  buf ++ List.replicate (n - 1) 0 ++ [UInt8.ofNat n]

def stripPadding (buf : Bytes) : Outcome Bytes :=
  match buf.getLast? with
  | none => .err "pad-short"
  | some last =>
    if last.toNat > buf.length then .err "pad-short"
    else if last.toNat < 1 then .err "pad-zero"
    else .ok (buf.take (buf.length - last.toNat))

/-- the pinned tree's check (`paddingBytes > len(buf)-1`): rejects a buffer that is all padding -/
def stripPaddingPinned (buf : Bytes) : Outcome Bytes :=
  match buf.getLast? with
  | none => .err "pad-short"
  | some last =>
    if last.toNat > buf.length - 1 then .err "pad-short"
    else if last.toNat < 1 then .err "pad-zero"
    else .ok (buf.take (buf.length - last.toNat))

/-! ### CBC over an abstract block cipher -/

/-- an abstract block cipher instance (key already applied) -/
structure Block where
  bs : Nat
  E : Bytes → Bytes
  D : Bytes → Bytes

def xor (a b : Bytes) : Bytes := List.zipWith (· ^^^ ·) a b

/-- split into blocks of `bs` bytes (input length a multiple of `bs`) -/
def chunks (bs : Nat) : Nat → Bytes → List Bytes
  | 0, _ => []
  | k + 1, l => l.take bs :: chunks bs k (l.drop bs)

/-- `cipher.NewCBCEncrypter(block, iv).CryptBlocks` -/
def cbcEncBlocks (c : Block) (prev : Bytes) : List Bytes → List Bytes
  | [] => []
  | p :: ps =>
    let ct := c.E (xor p prev)
    ct :: cbcEncBlocks c ct ps

/-- `cipher.NewCBCDecrypter(block, iv).CryptBlocks` -/
def cbcDecBlocks (c : Block) (prev : Bytes) : List Bytes → List Bytes
  | [] => []
  | ct :: cts => xor (c.D ct) prev :: cbcDecBlocks c ct cts

/-- CBC.Encrypt: cipher value = IV ++ CBC(pad(plaintext)) -/
def cbcEncrypt (c : Block) (iv : Bytes) (plaintext : Bytes) : Bytes :=
  let padded := appendPadding plaintext c.bs
  iv ++ (cbcEncBlocks c iv (chunks c.bs (padded.length / c.bs) padded)).flatten

/-- CBC.Decrypt on the decoded cipher value -/
def cbcDecrypt (c : Block) (ct : Bytes) : Outcome Bytes :=
  if ct.length < c.bs then .err "ciphertext-short"
  else if ct.length % c.bs ≠ 0 then .err "ciphertext-unaligned"
  else
    let iv := ct.take c.bs
    let body := ct.drop c.bs
    stripPadding (cbcDecBlocks c iv (chunks c.bs (body.length / c.bs) body)).flatten

/-- the pinned CBC.Decrypt: IV sliced with the AES block size (16), no alignment check -/
def cbcDecryptPinned (c : Block) (ct : Bytes) : Outcome Bytes :=
  if ct.length < c.bs then .err "ciphertext-short"
  else if ct.length < 16 then .panic "slice bounds out of range"
  else if c.bs ≠ 16 then .panic "cipher.NewCBCDecrypter: IV length must equal block size"
  else if (ct.length - 16) % c.bs ≠ 0 then .panic "crypto/cipher: input not full blocks"
  else
    let iv := ct.take 16
    let body := ct.drop 16
    stripPaddingPinned (cbcDecBlocks c iv (chunks c.bs (body.length / c.bs) body)).flatten

/-! ### the toy cipher of xmlenc/verif_hooks.go (for byte-exact correspondence) -/

def toyE (key : Bytes) (n : Nat) (b : Bytes) : Bytes :=
  let shifted := (List.range n).map fun i =>
    b.getD i 0 + key.getD (i % key.length) 0 + UInt8.ofNat (3 * i + 1)
  -- out[(i+1) % n] = shifted[i]  ⇒  out = last :: init
  match shifted.getLast? with
  | none => []
  | some l => l :: shifted.dropLast

def toyD (key : Bytes) (n : Nat) (b : Bytes) : Bytes :=
  (List.range n).map fun i =>
    b.getD ((i + 1) % n) 0 - key.getD (i % key.length) 0 - UInt8.ofNat (3 * i + 1)

def toyBlock (key : Bytes) (n : Nat) : Block := ⟨n, toyE key n, toyD key n⟩

/-! ### GCM framing over an abstract AEAD -/

structure Aead where
  nonceSize : Nat
  overhead : Nat
  sealF : Bytes → Bytes → Bytes           -- nonce → plaintext → ciphertext‖tag
  openF : Bytes → Bytes → Option Bytes   -- nonce → ciphertext‖tag → plaintext

/-- GCM.Decrypt on the decoded cipher value (after the `fix:` length check) -/
def gcmDecrypt (a : Aead) (ct : Bytes) : Outcome Bytes :=
  if ct.length < a.nonceSize then .err "ciphertext-short"
  else match a.openF (ct.take a.nonceSize) (ct.drop a.nonceSize) with
    | some p => .ok p
    | none => .err "auth"

def gcmDecryptPinned (a : Aead) (ct : Bytes) : Outcome Bytes :=
  if ct.length < a.nonceSize then .panic "slice bounds out of range"
  else match a.openF (ct.take a.nonceSize) (ct.drop a.nonceSize) with
    | some p => .ok p
    | none => .err "auth"

/-- what a correct GCM.Encrypt would emit: nonce ‖ seal(nonce, plaintext) -/
def gcmEncryptSpec (a : Aead) (nonce plaintext : Bytes) : Bytes :=
  nonce ++ a.sealF nonce plaintext

/-- what the pinned GCM.Encrypt emits for a supplied nonce: it pads, then seals a *zero buffer* of
    the padded length and does not prefix the nonce (known finding, pinned by a golden file). -/
def gcmEncryptPinned (a : Aead) (bs : Nat) (nonce plaintext : Bytes) : Bytes :=
  a.sealF nonce (List.replicate (appendPadding plaintext bs).length 0)

/-! ### algorithm tables and dispatch (decrypt.go, pubkey.go) -/

inductive Mode where
  | cbc | gcm
  deriving DecidableEq, Repr

/-- one offered block cipher: as written in the source -/
structure BlockCipherFact where
  name : String
  mode : Mode
  keySize : Nat
  algorithm : String
  /-- constructor function named in the source (`aes.NewCipher`, `des.NewTripleDESCipher`, …) -/
  ctor : String
  deriving DecidableEq, Repr

/-- key sizes a standard-library constructor accepts, and the block size it yields -/
def ctorAccepts (ctor : String) (keySize : Nat) : Option Nat :=
  if ctor = "aes.NewCipher" then (if keySize = 16 ∨ keySize = 24 ∨ keySize = 32 then some 16 else none)
  else if ctor = "des.NewTripleDESCipher" then (if keySize = 24 then some 8 else none)
  else if ctor = "des.NewCipher" then (if keySize = 8 then some 8 else none)
  else none

/-- the key size the W3C identifier prescribes -/
def uriKeySize (uri : String) : Option Nat :=
  if uri = "http://www.w3.org/2001/04/xmlenc#aes128-cbc" then some 16
  else if uri = "http://www.w3.org/2001/04/xmlenc#aes192-cbc" then some 24
  else if uri = "http://www.w3.org/2001/04/xmlenc#aes256-cbc" then some 32
  else if uri = "http://www.w3.org/2001/04/xmlenc#tripledes-cbc" then some 24
  else if uri = "http://www.w3.org/2009/xmlenc11#aes128-gcm" then some 16
  else if uri = "http://www.w3.org/2009/xmlenc11#aes192-gcm" then some 24
  else if uri = "http://www.w3.org/2009/xmlenc11#aes256-gcm" then some 32
  else none

/-- A block-cipher table entry is well formed: its constructor accepts its key size, that key size
    is the one its W3C identifier prescribes, and its decrypter is registered. -/
def BlockCipherFact.WF (registered : List String) (f : BlockCipherFact) : Bool :=
  (ctorAccepts f.ctor f.keySize).isSome && uriKeySize f.algorithm == some f.keySize &&
  registered.contains f.algorithm

/-- one offered RSA key transport constructor -/
structure KeyTransportFact where
  name : String
  algorithm : String
  /-- digest written into the element by the encrypter (`none` for PKCS#1 v1.5) -/
  digest : Option String
  deriving DecidableEq, Repr

def KeyTransportFact.WF (registeredDecrypters registeredDigests : List String) (f : KeyTransportFact) : Bool :=
  registeredDecrypters.contains f.algorithm &&
  (match f.digest with
   | none => true
   | some d => registeredDigests.contains d)

end SamlVerif.Xmlenc

namespace SamlVerif.Xmlenc

/-! ### element-level dispatch (decrypt.go `Decrypt`, CBC/GCM/RSA `.Decrypt`) -/

/-- the Go values the API admits as `key interface{}` -/
inductive Key where
  | bytes (b : Bytes)
  | rsa (id : Nat)
  | other            -- any other dynamic type (string, *ecdsa.PrivateKey, nil, …)
  deriving DecidableEq, Repr

/-- `./CipherData/CipherValue` -/
inductive CipherVal where
  | absent
  | badBase64
  | bytes (b : Bytes)
  deriving DecidableEq, Repr

/-- one EncryptedData / EncryptedKey element; nesting through `./KeyInfo/EncryptedKey` is linear
    (FindElement returns the first match), so an element with its nested keys is a list of layers,
    outermost first. -/
structure Layer where
  /-- `./EncryptionMethod/@Algorithm`; `none` when there is no EncryptionMethod child -/
  alg : Option String
  /-- `./EncryptionMethod/DigestMethod/@Algorithm` -/
  digest : Option String
  /-- embedded `./KeyInfo/X509Data/X509Certificate`: absent, or whether it parses *and* matches the
      supplied RSA key (modulus and exponent) -/
  certOK : Option Bool
  cipher : CipherVal
  deriving DecidableEq, Repr

inductive RsaScheme where
  | oaep | pkcs1v15
  deriving DecidableEq, Repr

/-- what the registry maps an algorithm identifier to -/
inductive Decrypter where
  | block (f : BlockCipherFact)
  | rsa (s : RsaScheme)
  deriving DecidableEq, Repr

/-- the environment: registry contents and the abstract primitives -/
structure Env where
  lookup : String → Option Decrypter
  digests : List String
  /-- block cipher instance for a table entry and key; `none` when the constructor rejects the key -/
  blockOf : BlockCipherFact → Bytes → Option Block
  aeadOf : BlockCipherFact → Bytes → Option Aead
  /-- RSA private-key operation: scheme, digest identifier, key id, ciphertext -/
  rsaDec : RsaScheme → String → Nat → Bytes → Option Bytes

def sha1URI : String := "http://www.w3.org/2000/09/xmldsig#sha1"

def getCiphertext (l : Layer) : Outcome Bytes :=
  match l.cipher with
  | .absent => .err "no-ciphervalue"
  | .badBase64 => .err "base64"
  | .bytes b => .ok b

/-- `RSA.Decrypt` -/
def rsaDecrypt (env : Env) (s : RsaScheme) (key : Key) (l : Layer) : Outcome Bytes :=
  match key with
  | .rsa id =>
    if l.certOK = some false then .err "cert-mismatch"
    else match getCiphertext l with
      | .err e => .err e
      | .panic w => .panic w
      | .ok ct =>
        let dg := match l.digest with
          | none => some sha1URI
          | some d => if env.digests.contains d then some d else none
        match dg with
        | none => .err "digest-unknown"
        | some d =>
          match env.rsaDec s d id ct with
          | some k => .ok k
          | none => .err "rsa"
  | _ => .err "key-type"

/-- `Decrypt(key, el)` on an element given as its layers -/
def decrypt (env : Env) (key : Key) : List Layer → Outcome Bytes
  | [] => .err "no-element"
  | l :: inner =>
    match l.alg with
    | none => .err "no-encryptionmethod"
    | some alg =>
      match env.lookup alg with
      | none => .err "alg-unknown"
      | some (.rsa s) => rsaDecrypt env s key l
      | some (.block f) =>
        -- CBC.Decrypt / GCM.Decrypt: an encrypted key, if present, is decrypted first
        let key' : Outcome Key := match inner with
          | [] => .ok key
          | _ :: _ => (decrypt env key inner).map Key.bytes
        match key' with
        | .err e => .err e
        | .panic w => .panic w
        | .ok (.bytes kb) =>
          if kb.length ≠ f.keySize then .err "key-length"
          else match getCiphertext l with
            | .err e => .err e
            | .panic w => .panic w
            | .ok ct =>
              (match f.mode with
               | .cbc => (match env.blockOf f kb with
                          | none => .err "cipher-ctor"
                          | some c => cbcDecrypt c ct)
               | .gcm => (match env.aeadOf f kb with
                          | none => .err "cipher-ctor"
                          | some a => gcmDecrypt a ct))
        | .ok _ => .err "key-type"

end SamlVerif.Xmlenc
