/-
  GoSem — run-time support for the definitions that `extract/trans.go` regenerates from the Go source
  (`Generated/Trans.lean`).  Conventions: DESIGN §7.8 and the header of trans.go.
  Core Lean only.
-/
import SamlVerif.Model.Prelude

namespace SamlVerif.GoSem
open SamlVerif

/-- A Go `error` value: `none` is `nil`; the string names the site that made it. -/
abbrev GoError := Option String

/-- `*p` / `p.f` for a pointer `p`: a nil pointer dereference is a run-time panic. -/
def deref {α} (p : Option α) : Outcome α :=
  match p with
  | some a => .ok a
  | none => .panic "nil dereference"

/-- `xs[i]` -/
def index {α} (xs : List α) (i : Int) : Outcome α :=
  if i < 0 then .panic "index out of range" else
  match xs[i.toNat]? with
  | some a => .ok a
  | none => .panic "index out of range"

/-- `xs[i] = v` on a slice nothing else aliases (the translator checks that, `freshSlices`) -/
def setIndex {α} (xs : List α) (i : Int) (v : α) : Outcome (List α) :=
  if i < 0 then .panic "index out of range" else
  if i.toNat < xs.length then .ok (xs.set i.toNat v) else .panic "index out of range"

/-- `make([]T, n)` -/
def makeSlice {α} (n : Int) (zero : α) : Outcome (List α) :=
  if n < 0 then .panic "makeslice: len out of range" else .ok (List.replicate n.toNat zero)

/-- `xs[:n]` with `n` within the length (Go allows `n` up to the capacity, which the model does not track: then it panics
    here, and the correspondence run would show the difference) -/
def sliceTo {α} (xs : List α) (n : Int) : Outcome (List α) :=
  if n < 0 ∨ n > xs.length then .panic "slice bounds out of range" else .ok (xs.take n.toNat)

/-- `xs[n:]` -/
def sliceFrom {α} (xs : List α) (n : Int) : Outcome (List α) :=
  if n < 0 ∨ n > xs.length then .panic "slice bounds out of range" else .ok (xs.drop n.toNat)

/-- `a % b` on Go's `int` (truncated remainder; a zero divisor panics).  `int` is unbounded here: no wrap-around. -/
def goMod (a b : Int) : Outcome Int :=
  if b = 0 then .panic "integer divide by zero" else .ok (a.tmod b)

/-- `a / b` on Go's `int` (truncated quotient) -/
def goDiv (a b : Int) : Outcome Int :=
  if b = 0 then .panic "integer divide by zero" else .ok (a.tdiv b)

/-- `byte(x)`: the low eight bits -/
def toByte (x : Int) : UInt8 := UInt8.ofNat (x % 256).toNat

/-- `int(b)` for a byte -/
def byteToInt (b : UInt8) : Int := (b.toNat : Int)

/-- `url.URL`: only its `String()` is used by the translated code. -/
structure URL where
  str : String
  deriving DecidableEq, Repr, Inhabited

/-- `*http.Request`, handed through to the provider registry untouched. -/
structure HTTPRequest where
  id : Nat
  deriving DecidableEq, Repr, Inhabited

/-- `*etree.Element`: opaque; what the untranslated functions (signature validation, unmarshalling, decryption, child
    lookup) make of an element is given by the corresponding fields of the generated `Env`. -/
structure Element where
  id : Nat
  deriving DecidableEq, Repr, Inhabited

/-- `http.ResponseWriter`: opaque; what a translated handler does to it is the handler's trace (`List Event`) -/
structure ResponseWriter where
  id : Nat
  deriving DecidableEq, Repr, Inhabited

/-- one effect of a translated HTTP handler on its ResponseWriter: the callee as written in the source, and its string, error
    and status arguments -/
structure Event where
  name : String
  args : List String
  deriving DecidableEq, Repr, Inhabited

/-- how an error argument is recorded in a trace -/
def errStr : GoError → String
  | none => "nil"
  | some e => e

/-- `*http.Cookie` as the translated code reads it -/
structure Cookie where
  Name : String
  Value : String
  deriving DecidableEq, Repr, Inhabited

/-- `strings.HasPrefix` -/
def hasPrefix (s p : String) : Bool := p.toList.isPrefixOf s.toList

/-- `strings.TrimPrefix` -/
def trimPrefix (s p : String) : String := if hasPrefix s p then String.ofList (s.toList.drop p.toList.length) else s

/-- `*x509.Certificate`: opaque (which key it certifies is the business of the signature layer) -/
structure Certificate where
  id : Nat
  deriving DecidableEq, Repr, Inhabited

instance {α} : Inhabited (Outcome α) := ⟨.panic "uninitialised function value"⟩

/-- `strconv.Itoa` -/
def itoa (i : Int) : String := toString i

@[simp] theorem deref_some {α} (a : α) : deref (some a) = .ok a := rfl
@[simp] theorem deref_none {α} : deref (none : Option α) = .panic "nil dereference" := rfl

/-- What a caller of a Go function returning `error` observes, in the vocabulary of the hand-written models. -/
def toOutcome : Outcome GoError → Outcome Unit
  | .ok none => .ok ()
  | .ok (some e) => .err e
  | .err e => .err e
  | .panic w => .panic w

end SamlVerif.GoSem

namespace SamlVerif.Outcome

@[simp] theorem ok_bind' {α β} (a : α) (f : α → Outcome β) : (Outcome.ok a >>= f) = f a := rfl
@[simp] theorem err_bind' {α β} (s : String) (f : α → Outcome β) : ((Outcome.err s : Outcome α) >>= f) = .err s := rfl
@[simp] theorem panic_bind' {α β} (s : String) (f : α → Outcome β) : ((Outcome.panic s : Outcome α) >>= f) = .panic s := rfl
@[simp] theorem pure_eq_ok {α} (a : α) : (pure a : Outcome α) = .ok a := rfl

instance : LawfulMonad Outcome := LawfulMonad.mk' _
  (id_map := by intro α x; cases x <;> rfl)
  (pure_bind := by intros; rfl)
  (bind_assoc := by intro α β γ x f g; cases x <;> rfl)

end SamlVerif.Outcome
