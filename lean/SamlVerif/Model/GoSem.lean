/-
  GoSem — run-time support for the definitions that `extract/trans.go` regenerates from the Go source
  (`Generated/Trans.lean`).  Conventions: DESIGN §7.8 and the header of trans.go.
  Core Lean only.
-/
import SamlVerif.Model.Prelude

namespace SamlVerif.GoSem
open SamlVerif

/-- A Go `error` value: `none` is `nil`; the string names the site that made it. -/
abbrev GoError := Option String

/-- `*p` / `p.f` for a pointer `p`: a nil pointer dereference is a run-time panic. -/
def deref {α} (p : Option α) : Outcome α :=
  match p with
  | some a => .ok a
  | none => .panic "nil dereference"

/-- `xs[i]` -/
def index {α} (xs : List α) (i : Int) : Outcome α :=
  if i < 0 then .panic "index out of range" else
  match xs[i.toNat]? with
  | some a => .ok a
  | none => .panic "index out of range"

/-- `xs[i] = v` on a slice nothing else aliases (the translator checks that, `freshSlices`) -/
def setIndex {α} (xs : List α) (i : Int) (v : α) : Outcome (List α) :=
  if i < 0 then .panic "index out of range" else
  if i.toNat < xs.length then .ok (xs.set i.toNat v) else .panic "index out of range"

/-- `make([]T, n)` -/
def makeSlice {α} (n : Int) (zero : α) : Outcome (List α) :=
  if n < 0 then .panic "makeslice: len out of range" else .ok (List.replicate n.toNat zero)

/-- `xs[:n]` with `n` within the length (Go allows `n` up to the capacity, which the model does not track: then it panics
    here, and the correspondence run would show the difference) -/
def sliceTo {α} (xs : List α) (n : Int) : Outcome (List α) :=
  if n < 0 ∨ n > xs.length then .panic "slice bounds out of range" else .ok (xs.take n.toNat)

/-- `xs[n:]` -/
def sliceFrom {α} (xs : List α) (n : Int) : Outcome (List α) :=
  if n < 0 ∨ n > xs.length then .panic "slice bounds out of range" else .ok (xs.drop n.toNat)

/-- `a % b` on Go's `int` (truncated remainder; a zero divisor panics).  `int` is unbounded here: no wrap-around. -/
def goMod (a b : Int) : Outcome Int :=
  if b = 0 then .panic "integer divide by zero" else .ok (a.tmod b)

/-- `a / b` on Go's `int` (truncated quotient) -/
def goDiv (a b : Int) : Outcome Int :=
  if b = 0 then .panic "integer divide by zero" else .ok (a.tdiv b)

/-- `byte(x)`: the low eight bits -/
def toByte (x : Int) : UInt8 := UInt8.ofNat (x % 256).toNat

/-- `int(b)` for a byte -/
def byteToInt (b : UInt8) : Int := (b.toNat : Int)

/-- `url.URL`: only its `String()` is used by the translated code. -/
structure URL where
  str : String
  deriving DecidableEq, Repr, Inhabited

/-- `*http.Request`, handed through to the provider registry untouched. -/
structure HTTPRequest where
  id : Nat
  deriving DecidableEq, Repr, Inhabited

/-- `*etree.Element`: opaque; what the untranslated functions (signature validation, unmarshalling, decryption, child
    lookup) make of an element is given by the corresponding fields of the generated `Env`. -/
structure Element where
  id : Nat
  deriving DecidableEq, Repr, Inhabited

/-- `http.ResponseWriter`: opaque; what a translated handler does to it is the handler's trace (`List Event`) -/
structure ResponseWriter where
  id : Nat
  deriving DecidableEq, Repr, Inhabited

/-- one effect of a translated HTTP handler on its ResponseWriter: the callee as written in the source, and its string, error
    and status arguments -/
structure Event where
  name : String
  args : List String
  deriving DecidableEq, Repr, Inhabited

/-- how an error argument is recorded in a trace -/
def errStr : GoError → String
  | none => "nil"
  | some e => e

/-- `*http.Cookie` as the translated code reads it -/
structure Cookie where
  Name : String
  Value : String
  deriving DecidableEq, Repr, Inhabited

/-- `strings.HasPrefix` -/
def hasPrefix (s p : String) : Bool := p.toList.isPrefixOf s.toList

/-- `strings.TrimPrefix` -/
def trimPrefix (s p : String) : String := if hasPrefix s p then String.ofList (s.toList.drop p.toList.length) else s

/-- Go maps with string keys, as association lists that hold one binding per key -/
def mapDelete {α} (m : List (String × α)) (k : String) : List (String × α) := m.filter (fun p => p.1 != k)
/-- `m[k] = v` -/
def mapSet {α} (m : List (String × α)) (k : String) (v : α) : List (String × α) := (k, v) :: mapDelete m k
/-- `m[k]` (with its presence) -/
def mapGet {α} (m : List (String × α)) (k : String) : Option α := (m.find? (fun p => p.1 == k)).map (·.2)

theorem mapGet_mapDelete_self {α} (m : List (String × α)) (k : String) : mapGet (mapDelete m k) k = none := by
  unfold mapGet mapDelete
  have : (List.filter (fun p => p.1 != k) m).find? (fun p => p.1 == k) = none := by
    rw [List.find?_eq_none]; intro p hp; simp at hp; simp [hp.2]
  simp [this]
theorem find_filter_other {α} (m : List (String × α)) (k k' : String) (h : k' ≠ k) :
    (m.filter (fun p => p.1 != k)).find? (fun p => p.1 == k') = m.find? (fun p => p.1 == k') := by
  induction m with
  | nil => rfl
  | cons p ps ih =>
    by_cases hp : p.1 = k
    · have h1 : (p.1 != k) = false := by simp [hp]
      have h2 : (p.1 == k') = false := by
        rw [hp]; simp; exact fun e => h e.symm
      rw [List.filter_cons, h1, List.find?_cons, h2]
      simpa using ih
    · have h1 : (p.1 != k) = true := by simp [hp]
      rw [List.filter_cons, h1]
      simp only [if_true, List.find?_cons]
      cases (p.1 == k') <;> simp [ih]
theorem mapGet_mapDelete_other {α} (m : List (String × α)) (k k' : String) (h : k' ≠ k) :
    mapGet (mapDelete m k) k' = mapGet m k' := by
  unfold mapGet mapDelete
  rw [find_filter_other m k k' h]
theorem mapGet_mapSet_self {α} (m : List (String × α)) (k : String) (v : α) : mapGet (mapSet m k v) k = some v := by
  simp [mapGet, mapSet]
theorem mapGet_mapSet_other {α} (m : List (String × α)) (k k' : String) (v : α) (h : k' ≠ k) :
    mapGet (mapSet m k v) k' = mapGet m k' := by
  have : mapGet (mapSet m k v) k' = mapGet (mapDelete m k) k' := by
    simp [mapGet, mapSet, List.find?_cons, Ne.symm h]
  rw [this, mapGet_mapDelete_other m k k' h]

/-- `*x509.Certificate`: opaque (which key it certifies is the business of the signature layer) -/
structure Certificate where
  id : Nat
  deriving DecidableEq, Repr, Inhabited

instance {α} : Inhabited (Outcome α) := ⟨.panic "uninitialised function value"⟩

/-- `strconv.Itoa` -/
def itoa (i : Int) : String := toString i

@[simp] theorem deref_some {α} (a : α) : deref (some a) = .ok a := rfl
@[simp] theorem deref_none {α} : deref (none : Option α) = .panic "nil dereference" := rfl

/-- What a caller of a Go function returning `error` observes, in the vocabulary of the hand-written models. -/
def toOutcome : Outcome GoError → Outcome Unit
  | .ok none => .ok ()
  | .ok (some e) => .err e
  | .err e => .err e
  | .panic w => .panic w

end SamlVerif.GoSem

namespace SamlVerif.Outcome

@[simp] theorem ok_bind' {α β} (a : α) (f : α → Outcome β) : (Outcome.ok a >>= f) = f a := rfl
@[simp] theorem err_bind' {α β} (s : String) (f : α → Outcome β) : ((Outcome.err s : Outcome α) >>= f) = .err s := rfl
@[simp] theorem panic_bind' {α β} (s : String) (f : α → Outcome β) : ((Outcome.panic s : Outcome α) >>= f) = .panic s := rfl
@[simp] theorem pure_eq_ok {α} (a : α) : (pure a : Outcome α) = .ok a := rfl

instance : LawfulMonad Outcome := LawfulMonad.mk' _
  (id_map := by intro α x; cases x <;> rfl)
  (pure_bind := by intros; rfl)
  (bind_assoc := by intro α β γ x f g; cases x <;> rfl)

end SamlVerif.Outcome
