/-
  html/template as the library uses it: the escapers for the three contexts its templates contain
  (text, quoted attribute value, quoted URL attribute), template splitting and rendering; and the
  URL-scheme check of metadata.go (`checkEndpointLocation` over net/url's `getScheme`).
  Byte level: the replacement tables only have ASCII keys, so rune-wise and byte-wise replacement
  coincide (multi-byte sequences and invalid UTF-8 pass through unchanged).
-/
import SamlVerif.Model.Prelude

namespace SamlVerif.Html

/-- `htmlReplacementTable` (used by `attrEscaper` and `htmlEscaper` for plain strings) -/
def replacement (b : UInt8) : Option Bytes :=
  if b.toNat = 0 then some [0xEF, 0xBF, 0xBD]           -- U+FFFD
  else if b.toNat = 34 then some [38, 35, 51, 52, 59]    -- &#34;
  else if b.toNat = 38 then some [38, 97, 109, 112, 59]  -- &amp;
  else if b.toNat = 39 then some [38, 35, 51, 57, 59]    -- &#39;
  else if b.toNat = 43 then some [38, 35, 52, 51, 59]    -- &#43;
  else if b.toNat = 60 then some [38, 108, 116, 59]      -- &lt;
  else if b.toNat = 62 then some [38, 103, 116, 59]      -- &gt;
  else none

/-- `attrEscaper` = `htmlEscaper` on a plain string -/
def htmlEscape : Bytes → Bytes
  | [] => []
  | b :: r => (match replacement b with | some e => e | none => [b]) ++ htmlEscape r

/-- HTML character-reference decoding restricted to the references the escaper produces -/
def htmlUnescape : Bytes → Bytes
  | 38 :: 35 :: 51 :: 52 :: 59 :: r => 34 :: htmlUnescape r
  | 38 :: 97 :: 109 :: 112 :: 59 :: r => 38 :: htmlUnescape r
  | 38 :: 35 :: 51 :: 57 :: 59 :: r => 39 :: htmlUnescape r
  | 38 :: 35 :: 52 :: 51 :: 59 :: r => 43 :: htmlUnescape r
  | 38 :: 108 :: 116 :: 59 :: r => 60 :: htmlUnescape r
  | 38 :: 103 :: 116 :: 59 :: r => 62 :: htmlUnescape r
  | b :: r => b :: htmlUnescape r
  | [] => []

/-- what a browser ends up with for a NUL in the source string: U+FFFD -/
def nulToFFFD : Bytes → Bytes
  | [] => []
  | b :: r => (if b.toNat = 0 then [0xEF, 0xBF, 0xBD] else [b]) ++ nulToFFFD r

def toLowerB (b : UInt8) : UInt8 := if 65 ≤ b.toNat ∧ b.toNat ≤ 90 then UInt8.ofNat (b.toNat + 32) else b

def lower (s : Bytes) : Bytes := s.map toLowerB

def http : Bytes := [104, 116, 116, 112]
def https : Bytes := [104, 116, 116, 112, 115]
def mailto : Bytes := [109, 97, 105, 108, 116, 111]
def failsafe : Bytes := [35, 90, 103, 111, 116, 109, 112, 108, 90]   -- "#ZgotmplZ"

/-- `strings.Cut(s, ":")`: bytes before the first colon, if there is one -/
def beforeColon : Bytes → Option Bytes
  | [] => none
  | b :: r => if b.toNat = 58 then some [] else (beforeColon r).map (b :: ·)

/-- `isSafeURL` -/
def isSafeURL (s : Bytes) : Bool :=
  match beforeColon s with
  | none => true
  | some proto =>
    if proto.any (fun b => b.toNat = 47) then true
    else lower proto = http || lower proto = https || lower proto = mailto

/-- `urlFilter` -/
def urlFilter (s : Bytes) : Bytes := if isSafeURL s then s else failsafe

def isHexB (b : UInt8) : Bool :=
  (48 ≤ b.toNat ∧ b.toNat ≤ 57) ∨ (65 ≤ b.toNat ∧ b.toNat ≤ 70) ∨ (97 ≤ b.toNat ∧ b.toNat ≤ 102)

def isAlnum (b : UInt8) : Bool :=
  (48 ≤ b.toNat ∧ b.toNat ≤ 57) ∨ (65 ≤ b.toNat ∧ b.toNat ≤ 90) ∨ (97 ≤ b.toNat ∧ b.toNat ≤ 122)

/-- bytes `processURLOnto(norm = true)` leaves alone (other than a well-formed `%XX`) -/
def urlKeep (b : UInt8) : Bool :=
  isAlnum b || [33, 35, 36, 38, 42, 43, 44, 47, 58, 59, 61, 63, 64, 91, 93, 45, 46, 95, 126].contains b.toNat

def hexLowerB (n : Nat) : UInt8 := if n < 10 then UInt8.ofNat (48 + n) else UInt8.ofNat (87 + n)

/-- the next two bytes are hex digits (`i+2 < len(s) && isHex(s[i+1]) && isHex(s[i+2])`) -/
def twoHex : Bytes → Bool
  | h :: l :: _ => isHexB h && isHexB l
  | _ => false

/-- `urlNormalizer` -/
def urlNormalize : Bytes → Bytes
  | [] => []
  | b :: r =>
    if urlKeep b then b :: urlNormalize r
    else if b.toNat = 37 && twoHex r then b :: urlNormalize r
    else 37 :: hexLowerB (b.toNat / 16) :: hexLowerB (b.toNat % 16) :: urlNormalize r

/-- the pipeline html/template installs for `action="{{.URL}}"` -/
def urlAttrEscape (s : Bytes) : Bytes := htmlEscape (urlNormalize (urlFilter s))

/-! ### templates -/

inductive Ctx where
  | text | attr | urlAttr | unknown
  deriving DecidableEq, Repr

inductive Seg where
  | lit (b : Bytes)
  | act (field : Bytes)
  deriving DecidableEq, Repr

/-- split `{{.Field}}` actions out of the template text (fuel = length) -/
def splitActions : Nat → Bytes → Bytes → List Seg
  | 0, acc, _ => [Seg.lit acc.reverse]
  | _ + 1, acc, [] => [Seg.lit acc.reverse]
  | n + 1, acc, 123 :: 123 :: 46 :: r =>
    let name := r.takeWhile (fun b => b.toNat ≠ 125)
    let rest := (r.dropWhile (fun b => b.toNat ≠ 125)).drop 2
    Seg.lit acc.reverse :: Seg.act name :: splitActions n [] rest
  | n + 1, acc, b :: r => splitActions n (b :: acc) r

def parseTemplate (t : Bytes) : List Seg := splitActions (t.length + 1) [] t

def endsWith (s suffix : Bytes) : Bool := suffix.reverse.isPrefixOf s.reverse

def actionAttr : Bytes := [97, 99, 116, 105, 111, 110, 61, 34]   -- action="

/-- context of an action from the literal before it (the templates only ever interpolate inside a
    double-quoted attribute value or directly after a tag) -/
def ctxOf (before : Bytes) : Ctx :=
  if endsWith before actionAttr then .urlAttr
  else if endsWith before [61, 34] then .attr
  else if endsWith before [62] then .text
  else .unknown

/-- each action with its context and whether the literal after it closes the context properly -/
def contexts : List Seg → List (Bytes × Ctx × Bool)
  | Seg.lit before :: Seg.act f :: Seg.lit after :: rest =>
    let c := ctxOf before
    let closed := match c with
      | .text => after.head? = some 60
      | .attr => after.head? = some 34
      | .urlAttr => after.head? = some 34
      | .unknown => false
    (f, c, closed) :: contexts (Seg.lit after :: rest)
  | _ :: rest => contexts rest
  | [] => []

/-- a template is safe to render with the context-aware escapers modelled here -/
def templateOK (imp : String) (t : Bytes) : Bool :=
  imp = "html/template" && (contexts (parseTemplate t)).all (fun x => x.2.1 ≠ .unknown && x.2.2)

def escapeFor (c : Ctx) (v : Bytes) : Bytes :=
  match c with
  | .text => htmlEscape v
  | .attr => htmlEscape v
  | .urlAttr => urlAttrEscape v
  | .unknown => v

/-- render with html/template's contextual escaping; `data` maps field names to values -/
def renderSegs (data : Bytes → Bytes) : List Seg → Bytes
  | Seg.lit before :: Seg.act f :: rest => before ++ escapeFor (ctxOf before) (data f) ++ renderSegs data rest
  | Seg.lit b :: rest => b ++ renderSegs data rest
  | Seg.act f :: rest => data f ++ renderSegs data rest
  | [] => []

def render (t : Bytes) (data : Bytes → Bytes) : Bytes := renderSegs data (parseTemplate t)

/-- `text/template` semantics: no escaping at all -/
def renderTextTemplate (t : Bytes) (data : Bytes → Bytes) : Bytes :=
  (parseTemplate t).flatMap fun s => match s with | Seg.lit b => b | Seg.act f => data f

/-! ### metadata.go checkEndpointLocation -/

/-- net/url `getScheme`: `none` = error ("missing protocol scheme"), `some (scheme, rest)` -/
def getScheme (raw : Bytes) : Option (Bytes × Bytes) :=
  let rec go : Nat → Bytes → Bytes → Option (Bytes × Bytes)
    | _, _, [] => some ([], raw)
    | i, acc, c :: r =>
      if (97 ≤ c.toNat ∧ c.toNat ≤ 122) ∨ (65 ≤ c.toNat ∧ c.toNat ≤ 90) then go (i + 1) (c :: acc) r
      else if (48 ≤ c.toNat ∧ c.toNat ≤ 57) ∨ c.toNat = 43 ∨ c.toNat = 45 ∨ c.toNat = 46 then
        (if i = 0 then some ([], raw) else go (i + 1) (c :: acc) r)
      else if c.toNat = 58 then (if i = 0 then none else some (acc.reverse, r))
      else some ([], raw)
  go 0 [] raw

def hasCTL (s : Bytes) : Bool := s.any (fun b => b.toNat < 32 ∨ b.toNat = 127)

def knownBindings : List String :=
  ["urn:oasis:names:tc:SAML:2.0:bindings:HTTP-POST", "urn:oasis:names:tc:SAML:2.0:bindings:HTTP-Redirect",
   "urn:oasis:names:tc:SAML:2.0:bindings:HTTP-Artifact", "urn:oasis:names:tc:SAML:2.0:bindings:SOAP",
   "urn:oasis:names:tc:SAML:1.0:bindings:SOAP-binding"]

/-- the fragment is cut before the scheme is looked at (`url.Parse`) -/
def cutFragment (s : Bytes) : Bytes := s.takeWhile (fun b => b.toNat ≠ 35)

/-- `checkEndpointLocation`, as far as the scheme logic goes (other `url.Parse` errors are not
    modelled: the relation to the code is "code accepts ⇒ model accepts with the same value") -/
def checkEndpointLocation (binding : String) (location : Bytes) : Outcome Bytes :=
  if knownBindings.contains binding then
    if hasCTL (cutFragment location) then .err "control-character"
    else match getScheme (cutFragment location) with
      | none => .err "missing-scheme"
      | some (scheme, _) =>
        if lower scheme = http ∨ lower scheme = https then .ok location
        else .err "scheme"
  else .ok []

end SamlVerif.Html

namespace SamlVerif.Html

/-- `Endpoint.UnmarshalXML`: (Location, ResponseLocation); an empty ResponseLocation is not checked -/
def unmarshalEndpoint (binding : String) (loc resp : Bytes) : Outcome (Bytes × Bytes) :=
  match checkEndpointLocation binding loc with
  | .err e => .err e
  | .panic w => .panic w
  | .ok loc' =>
    if resp = [] then .ok (loc', [])
    else match checkEndpointLocation binding resp with
      | .err e => .err e
      | .panic w => .panic w
      | .ok resp' => .ok (loc', resp')

/-- `IndexedEndpoint.UnmarshalXML`: ResponseLocation is a pointer; a blanked one becomes nil -/
def unmarshalIndexedEndpoint (binding : String) (loc : Bytes) (resp : Option Bytes) : Outcome (Bytes × Option Bytes) :=
  match checkEndpointLocation binding loc with
  | .err e => .err e
  | .panic w => .panic w
  | .ok loc' =>
    match resp with
    | none => .ok (loc', none)
    | some r =>
      match checkEndpointLocation binding r with
      | .err e => .err e
      | .panic w => .panic w
      | .ok r' => .ok (loc', if r' = [] then none else some r')

end SamlVerif.Html
