/-
  SP.Tree — ServiceProvider.ParseXMLResponse over the parsed document.

    validateSignature (service_provider.go)   direct, unique ds:Signature child; trust roots from the
                                              SP configuration; KeyInfo dropped when it names no
                                              certificate; element detached with its namespace context
    goxmldsig Validate                        findSignature (depth-first, first Signature with a
                                              reference to the root), verifyCertificate, reference
                                              digest over the element with that Signature removed,
                                              SignedInfo signature
    parseResponse                             Response signature first; assertions need their own
                                              signature unless the Response's verified; every
                                              EncryptedAssertion child, then every Assertion child

  Cryptography is symbolic: `SignatureValue`, `DigestValue` and certificates are tokens, and a
  *ledger* records which key signed which canonical SignedInfo and which canonical content each digest
  token stands for.  What encoding/xml extracts from an element (the struct views) and what xmlenc
  decrypts are inputs, computed by the real code in the harness.
-/
import SamlVerif.Model.Tree
import SamlVerif.Model.SPStruct

namespace SamlVerif.Tree
open SamlVerif

def dsigNS : String := "http://www.w3.org/2000/09/xmldsig#"
def samlNS : String := "urn:oasis:names:tc:SAML:2.0:assertion"
def excC14n : String := "http://www.w3.org/2001/10/xml-exc-c14n#"
def envelopedAlg : String := "http://www.w3.org/2000/09/xmldsig#enveloped-signature"

/-- canonicalisation algorithms goxmldsig knows -/
def knownC14n : List String :=
  [excC14n, "http://www.w3.org/2001/10/xml-exc-c14n#WithComments", "http://www.w3.org/2006/12/xml-c14n11",
   "http://www.w3.org/2006/12/xml-c14n11#WithComments", "http://www.w3.org/TR/2001/REC-xml-c14n-20010315",
   "http://www.w3.org/TR/2001/REC-xml-c14n-20010315#WithComments"]

structure RefView where
  uri : String
  transforms : List String
  digestTok : String
  deriving DecidableEq, Repr

/-- what goxmldsig's `types.Signature` holds after unmarshalling a ds:Signature element -/
structure SigView where
  c14nAlg : String
  refs : List RefView
  sigTok : Option String
  /-- `none`: no KeyInfo; `some l`: the certificate tokens of its X509Data -/
  keyInfo : Option (List String)
  deriving DecidableEq, Repr

/-- trust configuration of the SP (validateSignature's three exclusive cases) -/
inductive Trust where
  /-- key descriptors of the IdP metadata: (use, certificate tokens) -/
  | metadata (kds : List (String × List String))
  | pinned (cert : String)
  /-- the certificate whose fingerprint is configured -/
  | fingerprint (cert : String)
  | misconfigured
  deriving Repr

/-- who signed what: signature token ↦ (key, canonical SignedInfo); digest token ↦ canonical content -/
structure Ledger where
  sigs : List (String × String × String)
  digests : List (String × String)
  deriving Repr

structure Input where
  cfg : SP.Cfg
  trust : Trust
  ledger : Ledger
  now : Int
  ids : List String
  url : String
  /-- the document passed `xrv.Validate` and parsed -/
  wellFormed : Bool
  root : Node
  /-- struct view of the root as a `Response` (`none`: unmarshalling failed) -/
  header : Option SP.ResponseS
  /-- struct view of an element as an `Assertion`, by label -/
  aview : Nat → Option SP.AssertionS
  /-- view of a ds:Signature element, by label (`none`: unmarshalling failed) -/
  sview : Nat → Option SigView
  /-- result of decrypting an EncryptedAssertion element (validated and parsed), by label -/
  plain : Nat → Option Node
  /-- struct view of an element as a `Response` (artifact flow: the Response is not the root), by label -/
  rview : Nat → Option SP.ResponseS := fun _ => none
  /-- struct view of an element as an `ArtifactResponse`: InResponseTo, IssueInstant, Issuer, status -/
  arview : Nat → Option (String × Int × Option String × String) := fun _ => none

/-- a certificate token that did not decode -/
def badCert : String := "!bad"

/-! ### trust roots -/

/-- `getIDPSigningCerts`: certificates of descriptors with `use` "" or "signing" -/
def metadataRoots (kds : List (String × List String)) : Option (List String) :=
  let certs := (kds.filter (fun kd => kd.1 = "" ∨ kd.1 = "signing")).flatMap (·.2)
  if certs = [] then none
  else if certs.any (· = badCert) then none
  else some certs

/-- etree path `./Signature/KeyInfo/X509Data/X509Certificate`: local names only, any namespace -/
def certPathElems (el : Node) : List Node :=
  (((el.childElems.filter (·.tag = "Signature")).flatMap fun s =>
    (s.childElems.filter (·.tag = "KeyInfo")).flatMap fun k =>
      (k.childElems.filter (·.tag = "X509Data")).flatMap fun x =>
        x.childElems.filter (·.tag = "X509Certificate")))

/-- `getCertBasedOnFingerprint`: the first such element must hold exactly one character-data child -/
def fingerprintRoots (want : String) (el : Node) : Option (List String) :=
  match certPathElems el with
  | [] => none
  | x :: _ =>
    match x.children with
    | [.text _ s] =>
      -- `parseCert` removes white space before decoding
      let k := String.ofList (s.toList.filter (fun c => !c.isWhitespace))
      if k ≠ badCert ∧ k = want then some [k] else none
    | _ => none

def trustRoots (t : Trust) (el : Node) : Option (List String) :=
  match t with
  | .metadata kds => metadataRoots kds
  | .pinned c => if c = badCert then none else some [c]
  | .fingerprint c => fingerprintRoots c el
  | .misconfigured => none

/-! ### KeyInfo removal -/

def removeFirstTagged (tag : String) : List Node → List Node
  | [] => []
  | c :: rest => if c.isElem ∧ c.tag = tag then rest else c :: removeFirstTagged tag rest

def stripInFirstSignature : List Node → List Node
  | [] => []
  | c :: rest =>
    match c with
    | .elem n s t a cs => if t = "Signature" then .elem n s t a (removeFirstTagged "KeyInfo" cs) :: rest
                          else c :: stripInFirstSignature rest
    | _ => c :: stripInFirstSignature rest

/-- when no Signature child names a certificate, the KeyInfo of the first Signature-named child is
    removed; returns the element and the label of the Signature that lost its KeyInfo -/
def stripKeyInfo (el : Node) : Node × Option Nat :=
  if certPathElems el = [] then
    match el with
    | .elem n s t a cs =>
      let victim := (el.childElems.find? (·.tag = "Signature"))
      let had := match victim with
        | some v => (v.childElems.any (·.tag = "KeyInfo"))
        | none => false
      (.elem n s t a (stripInFirstSignature cs), if had then victim.map (·.nid) else none)
    | x => (x, none)
  else (el, none)

/-! ### goxmldsig -/

def countTag (tag : String) (l : List Node) : Nat := (l.filter (fun c => c.isElem ∧ c.tag = tag)).length

/-- `validateShape` -/
def shapeOK (sig : Node) : Bool :=
  countTag "SignedInfo" sig.children = 1 ∧ countTag "KeyInfo" sig.children ≤ 1 ∧ countTag "SignatureValue" sig.children = 1

def refMatches (idAttr : String) (r : RefView) : Bool := r.uri = "" || (r.uri.drop 1).toString = idAttr

/-- `NSFindOneChildCtx` / `NSFindChildrenIterateCtx` halting at the first match: child elements are
    visited in order and *each* must have a resolvable prefix until the match is found -/
def nsFirstChild (ctx : NSCtx) (ns tag : String) : List Node → Option (Option Node)
  | [] => some none
  | c :: rest =>
    if c.isElem then
      match resolveElem ctx c with
      | none => none
      | some (_, cns) => if cns = ns ∧ c.tag = tag then some (some c) else nsFirstChild ctx ns tag rest
    else nsFirstChild ctx ns tag rest

/-- the checks `findSignature` makes on one ds:Signature element before it looks at its references:
    shape, a ds:SignedInfo child with a ds:CanonicalizationMethod naming a known algorithm, and the
    element unmarshals.  `ctx` is the context inside the Signature element. -/
def sigUsable (inp : Input) (ctx : NSCtx) (sig : Node) : Option SigView :=
  if !shapeOK sig then none
  else
    match nsFirstChild ctx dsigNS "SignedInfo" sig.children with
    | some (some si) =>
      (match subContext ctx si.attrs with
       | none => none
       | some cin =>
         match nsFirstChild cin dsigNS "CanonicalizationMethod" si.children with
         | some (some cm) =>
           if knownC14n.contains ((cm.selectAttr "Algorithm").getD "") then inp.sview sig.nid else none
         | _ => none)
    | _ => none

inductive Found where
  /-- keep looking -/
  | no
  /-- halted at this Signature (label, view, context inside its parent, the SignedInfo element) -/
  | yes (nid : Nat) (v : SigView) (ctx : NSCtx)
  /-- an error aborted the traversal -/
  | fail

mutual
/-- `findSignature`: depth-first, document order; every element passed on the way must have a
    resolvable prefix -/
def findSig (inp : Input) (idAttr : String) (ctx : NSCtx) : Node → Found
  | .elem nid space tag attrs children =>
    match subContext ctx attrs with
    | none => .fail
    | some c =>
      match c.lookup space with
      | none => .fail
      | some ns =>
        if ns = dsigNS ∧ tag = "Signature" then
          match sigUsable inp c (.elem nid space tag attrs children) with
          | none => .fail
          | some v =>
            if v.refs.any (refMatches idAttr) then .yes nid v ctx
            else findSigList inp idAttr c children
        else findSigList inp idAttr c children
  | _ => .no
def findSigList (inp : Input) (idAttr : String) (ctx : NSCtx) : List Node → Found
  | [] => .no
  | c :: rest =>
    match findSig inp idAttr ctx c with
    | .no => findSigList inp idAttr ctx rest
    | r => r
end

/-- `verifyCertificate` -/
def chooseCert (roots : List String) (v : SigView) : Option String :=
  let c : Option String :=
    match v.keyInfo with
    | some [] => none
    | some (k :: _) => if k = "" ∨ k = badCert then none else some k
    | none => (match roots with | [r] => some r | _ => none)
  match c with
  | some k => if roots.contains k then some k else none
  | none => none

/-- the reference `validateSignature` uses.  goxmldsig v1.4.0 is compiled with the loop-variable
    semantics of its `go 1.15` directive: `ref = &_ref` aliases the one loop variable, which ends up
    holding the *last* reference of SignedInfo once some reference pointed at the root. -/
def pickRef (idAttr : String) (refs : List RefView) : Option RefView :=
  if refs.any (refMatches idAttr) then refs.getLast? else none

/-- the ds:SignedInfo child of the Signature labelled `nid`, rendered in its context -/
def signedInfoCanon (ctxParent : NSCtx) (sig : Node) : Option String :=
  match subContext ctxParent sig.attrs with
  | none => none
  | some c =>
    match nsFirstChild c dsigNS "SignedInfo" sig.children with
    | some (some si) => canonNode c si
    | _ => none

/-- everything goxmldsig establishes before it says "valid", as data -/
structure Evidence where
  sigNid : Nat
  view : SigView
  cert : String
  ref : RefView
  sigTok : String
  siCanon : String
  content : String
  deriving Repr

/-- the view goxmldsig unmarshals after service_provider.go removed the KeyInfo of Signature `stripped` -/
def viewAfterStrip (stripped : Option Nat) (nid : Nat) (v0 : SigView) : SigView :=
  if stripped = some nid then { v0 with keyInfo := none } else v0

/-- `verifyCertificate` and `validateSignature` of goxmldsig for the Signature `findSignature` chose.
    Honest signers use the enveloped transform followed by exclusive canonicalisation, and exclusive
    canonicalisation for SignedInfo; anything else cannot match a ledger entry. -/
def checkPicked (inp : Input) (roots : List String) (ctx : NSCtx) (el : Node) (nid : Nat) (v : SigView)
    (ctxSigParent : NSCtx) : Option Evidence :=
  match chooseCert roots v with
  | none => none
  | some cert =>
    match pickRef ((el.selectAttr "ID").getD "") v.refs with
    | none => none
    | some ref =>
      match decide (ref.transforms = [envelopedAlg, excC14n]), decide (v.c14nAlg = excC14n) with
      | true, true =>
        (match canonNode ctx (removeNid nid el), v.sigTok with
         | some content, some st =>
           (match (elems el).find? (fun e => e.nid = nid) with
            | none => none
            | some sigEl =>
              match signedInfoCanon ctxSigParent sigEl with
              | none => none
              | some si =>
                match inp.ledger.digests.contains (ref.digestTok, content), inp.ledger.sigs.contains (st, cert, si) with
                | true, true => some ⟨nid, v, cert, ref, st, si, content⟩
                | _, _ => none)
         | _, _ => none)
      | _, _ => none

/-- `ValidationContext.Validate(el)` for `el` detached with the context `ctx` of its parent; `roots`
    are the trusted certificates.  `stripped` is the Signature whose KeyInfo was removed. -/
def dsigValidate (inp : Input) (roots : List String) (ctx : NSCtx) (el : Node) (stripped : Option Nat) :
    Option Evidence :=
  match findSig inp ((el.selectAttr "ID").getD "") ctx el with
  | .yes nid v0 ctxSigParent => checkPicked inp roots ctx el nid (viewAfterStrip stripped nid v0) ctxSigParent
  | _ => none

/-- `ServiceProvider.validateSignature(el)`; `ctx` is the context of `el`'s parent -/
def sigStateT (inp : Input) (ctx : NSCtx) (el : Node) : SP.SigState :=
  match subContext ctx el.attrs with
  | none => .invalid
  | some cin =>
    match findChildren cin dsigNS "Signature" el.children with
    | none => .invalid
    | some [] => .absent
    | some [_] =>
      (match trustRoots inp.trust el with
       | none => .invalid
       | some roots =>
         let (el', stripped) := stripKeyInfo el
         match dsigValidate inp roots ctx el' stripped with
         | some _ => .valid
         | none => .invalid)
    | some _ => .invalid

/-! ### parseResponse over the tree -/

def dummyAssertion : SP.AssertionS := ⟨0, "", none, none, ""⟩

/-- one assertion-bearing child as the struct-level validator sees it.  An element that does not
    unmarshal behaves like undecryptable ciphertext: an error, whatever the requirement. -/
def plainEntry (inp : Input) (ctxRoot : NSCtx) (el : Node) : SP.Entry :=
  match inp.aview el.nid with
  | some a => ⟨.plain, sigStateT inp ctxRoot el, a⟩
  | none => ⟨.encBad, sigStateT inp ctxRoot el, dummyAssertion⟩

def encEntry (inp : Input) (el : Node) : SP.Entry :=
  match inp.plain el.nid with
  | none => ⟨.encBad, .absent, dummyAssertion⟩
  | some p =>
    match inp.aview p.nid with
    | some a => ⟨.encOk, sigStateT inp defaultCtx p, a⟩
    | none => ⟨.encBad, sigStateT inp defaultCtx p, dummyAssertion⟩

/-- the assertion-bearing children of a Response element (`ctx`: context of its parent); `none` when a
    child with the sought tag has an unresolvable prefix -/
def entriesT (inp : Input) (ctx : NSCtx) (resp : Node) : Option (List SP.Entry) :=
  match subContext ctx resp.attrs with
  | none => none
  | some cin =>
    match findChildren cin samlNS "EncryptedAssertion" resp.children,
          findChildren cin samlNS "Assertion" resp.children with
    | some encs, some plains => some (encs.map (encEntry inp) ++ plains.map (plainEntry inp cin))
    | _, _ => none

/-- `ParseXMLResponse` -/
def parseT (inp : Input) : Outcome SP.AssertionS :=
  if !inp.wellFormed then .err "malformed"
  else if !inp.root.isElem then .err "no-root"
  else
    let respSig := sigStateT inp defaultCtx inp.root
    match inp.header with
    | none => .err "unmarshal-response"
    | some hdr =>
      match entriesT inp defaultCtx inp.root with
      | some es => SP.parseResponse inp.cfg inp.now inp.ids inp.url .required respSig { hdr with entries := es }
      | none =>
        -- findChildren fails only after the response-level checks have passed; its error is an
        -- error whatever they said
        .err "find-children"

def soapNS : String := "http://schemas.xmlsoap.org/soap/envelope/"
def samlpNS : String := "urn:oasis:names:tc:SAML:2.0:protocol"

/-- etree's own `NamespaceURI()` of a parentless element: the first declaration of its prefix among
    its attributes, else "" -/
def etreeRootNS (n : Node) : String :=
  match n.attrs.find? (fun a => if n.space = "" then a.space = "" ∧ a.key = "xmlns" else a.space = "xmlns" ∧ a.key = n.space) with
  | some a => a.value
  | none => ""

def exactlyOne (l : Option (List Node)) : Option Node :=
  match l with
  | some [x] => some x
  | _ => none

/-- `ParseXMLArtifactResponse`: Envelope / Body / ArtifactResponse / Response, each step `findOneChild` -/
def parseArtifactT (inp : Input) (resolveId : String) : Outcome SP.AssertionS :=
  if !inp.wellFormed then .err "malformed"
  else if !inp.root.isElem then .err "no-root"
  else if etreeRootNS inp.root ≠ soapNS ∨ inp.root.tag ≠ "Envelope" then .err "not-an-envelope"
  else
    match subContext defaultCtx inp.root.attrs with
    | none => .err "namespace"
    | some cRoot =>
      match exactlyOne (findChildren cRoot soapNS "Body" inp.root.children) with
      | none => .err "body"
      | some body =>
        match subContext cRoot body.attrs with
        | none => .err "namespace"
        | some cBody =>
          match exactlyOne (findChildren cBody samlpNS "ArtifactResponse" body.children) with
          | none => .err "artifact-response"
          | some art =>
            match inp.arview art.nid with
            | none => .err "unmarshal-artifact-response"
            | some (irt, ii, iss, st) =>
              let asig := sigStateT inp cBody art
              let resp : Option (SP.SigState × SP.ResponseS) :=
                match subContext cBody art.attrs with
                | none => none
                | some cArt =>
                  match exactlyOne (findChildren cArt samlpNS "Response" art.children) with
                  | none => none
                  | some r =>
                    match inp.rview r.nid, entriesT inp cArt r with
                    | some hdr, some es => some (sigStateT inp cArt r, { hdr with entries := es })
                    | _, _ => none
              SP.parseArtifactResponse inp.cfg inp.now inp.ids resolveId inp.url ⟨irt, ii, iss, st, asig, resp⟩

end SamlVerif.Tree
