/-
  identity_provider.go — `IdpAuthnRequest.Validate`, `getACSEndpoint`, the IdP-initiated endpoint
  selection of `ServeIDPInitiated`, and `getSPEncryptionCert`.
  Modelled tree: after the `fix:` commits (missing Issuer, an encryption descriptor without a
  certificate or with an empty one are errors).
-/
import SamlVerif.Model.Prelude

namespace SamlVerif.IdP

def postBinding : String := "urn:oasis:names:tc:SAML:2.0:bindings:HTTP-POST"
def redirectBinding : String := "urn:oasis:names:tc:SAML:2.0:bindings:HTTP-Redirect"

/-- `IndexedEndpoint` -/
structure Endpoint where
  binding : String
  location : String
  index : Int
  isDefault : Option Bool
  deriving DecidableEq, Repr

/-- one key descriptor: `use` and the `Data` of each X509Certificate -/
structure KeyDesc where
  use : String
  certs : List String
  deriving DecidableEq, Repr

/-- a `RequestedAttribute` of an attribute consuming service -/
structure ReqAttr where
  friendlyName : String
  name : String
  nameFormat : String
  deriving DecidableEq, Repr

/-- `AttributeConsumingService` -/
structure AttrSvc where
  isDefault : Option Bool
  requested : List ReqAttr
  deriving DecidableEq, Repr

structure SPSSO where
  acs : List Endpoint
  keys : List KeyDesc
  attrSvcs : List AttrSvc := []
  deriving DecidableEq, Repr

structure EntityDesc where
  entityID : String
  spsso : List SPSSO
  deriving DecidableEq, Repr

/-- answer of `ServiceProviderProvider.GetServiceProvider` -/
inductive Lookup where
  | found (md : EntityDesc)
  | notExist
  | ioErr
  deriving DecidableEq, Repr

structure AuthnRequestS where
  id : String
  issuer : Option String
  destination : String
  version : String
  issueInstant : Int
  acsURL : String
  acsIndex : String
  deriving DecidableEq, Repr

structure Cfg where
  ssoURL : String
  /-- MaxIssueDelay, ms -/
  delay : Int

/-- what `Validate` leaves in the request: the registered metadata, the descriptor and endpoint chosen -/
structure Routing where
  md : EntityDesc
  desc : SPSSO
  acs : Endpoint
  deriving DecidableEq, Repr

/-- all (descriptor, endpoint) pairs in document order — the nested `for … range` loops -/
def allEndpoints (md : EntityDesc) : List (SPSSO × Endpoint) :=
  md.spsso.flatMap fun d => d.acs.map fun e => (d, e)

def isBrowserBinding (b : String) : Bool := b = postBinding || b = redirectBinding

/-- `getACSEndpoint` -/
def selectACS (md : EntityDesc) (req : AuthnRequestS) : Option (SPSSO × Endpoint) :=
  let eps := allEndpoints md
  let byIndex := if req.acsIndex ≠ "" then eps.find? (fun p => toString p.2.index = req.acsIndex) else none
  match byIndex with
  | some p => some p
  | none =>
    let byURL := if req.acsURL ≠ "" then eps.find? (fun p => p.2.location = req.acsURL) else none
    match byURL with
    | some p => some p
    | none =>
      if req.acsURL = "" ∧ req.acsIndex = "" then
        match eps.find? (fun p => p.2.isDefault = some true && isBrowserBinding p.2.binding) with
        | some p => some p
        | none => eps.find? (fun p => isBrowserBinding p.2.binding)
      else none

/-- `IdpAuthnRequest.Validate` after XML unmarshalling -/
def validate (cfg : Cfg) (now : Int) (registry : String → Lookup) (req : AuthnRequestS) : Outcome Routing :=
  if req.destination ≠ "" ∧ req.destination ≠ cfg.ssoURL then .err "destination"
  else if req.issueInstant + cfg.delay < now then .err "expired"
  else if req.version ≠ "2.0" then .err "version"
  else match req.issuer with
    | none => .err "no-issuer"
    | some iss =>
      match registry iss with
      | .notExist => .err "unknown-sp"
      | .ioErr => .err "registry-error"
      | .found md =>
        match selectACS md req with
        | none => .err "no-acs"
        | some (d, e) => .ok ⟨md, d, e⟩

/-- the pinned `Validate`: `req.Request.Issuer.Value` without a nil check -/
def validatePinned (cfg : Cfg) (now : Int) (registry : String → Lookup) (req : AuthnRequestS) : Outcome Routing :=
  if req.destination ≠ "" ∧ req.destination ≠ cfg.ssoURL then .err "destination"
  else if req.issueInstant + cfg.delay < now then .err "expired"
  else if req.version ≠ "2.0" then .err "version"
  else match req.issuer with
    | none => .panic "nil pointer dereference"
    | some iss =>
      match registry iss with
      | .notExist => .err "unknown-sp"
      | .ioErr => .err "registry-error"
      | .found md =>
        match selectACS md req with
        | none => .err "no-acs"
        | some (d, e) => .ok ⟨md, d, e⟩

/-- `ServeIDPInitiated`: first HTTP-POST assertion consumer service of the registered metadata -/
def selectIdpInitiated (md : EntityDesc) : Option (SPSSO × Endpoint) :=
  (allEndpoints md).find? (fun p => p.2.binding = postBinding)

/-! ### `getSPEncryptionCert` (C08) -/

/-- outcome of the certificate selection: a certificate string to decode, "no key" (→ plaintext
    assertion), or an error.  Decoding (base64, DER) is a parameter. -/
inductive EncCert where
  | none
  | cert (data : String)
  deriving DecidableEq, Repr

/-- first certificate of a descriptor, when it is there and not the empty string -/
def firstCert (k : KeyDesc) : Option String :=
  match k.certs with
  | c :: _ => if c = "" then none else some c
  | [] => none

def selectEncCert (keys : List KeyDesc) : Outcome EncCert :=
  match keys.find? (fun k => k.use = "encryption") with
  | some k =>
    (match firstCert k with
     | some c => .ok (.cert c)
     | none => .err "encryption-descriptor-without-certificate")
  | none =>
    match keys.find? (fun k => k.use = "" && (firstCert k).isSome) with
    | some k' => (match firstCert k' with | some c' => .ok (.cert c') | none => .ok .none)
    | none => .ok .none

/-- the pinned selection: an empty certificate string in the encryption descriptor falls through to
    the unlabeled search (and so possibly to "no key") -/
def selectEncCertPinned (keys : List KeyDesc) : Outcome EncCert :=
  match keys.find? (fun k => k.use = "encryption") with
  | some k =>
    (match k.certs with
     | [] => .panic "index out of range"
     | c :: _ => if c = "" then
                   (match keys.find? (fun k => k.use = "" && (firstCert k).isSome) with
                    | some k' => (match firstCert k' with | some c' => .ok (.cert c') | none => .ok .none)
                    | none => .ok .none)
                 else .ok (.cert c))
  | none =>
    match keys.find? (fun k => k.use = "" && (firstCert k).isSome) with
    | some k' => (match firstCert k' with | some c' => .ok (.cert c') | none => .ok .none)
    | none => .ok .none

end SamlVerif.IdP
