/-
  The part of an EntityDescriptor that C15 names — entity ID, endpoints, key descriptors, validity
  instant, cache duration — through one marshal/unmarshal generation.

  encoding/xml over the alias structs of metadata.go is represented field by field: `validUntil` is
  written by `RelaxedTime.MarshalText` (always: a struct is never "empty" for `omitempty`),
  `cacheDuration` by `Duration.MarshalText` (omitted when zero), endpoint locations are checked by
  `checkEndpointLocation` on the way in (Model/Html), strings are carried as they are (that every XML
  character survives the writer/reader pair is C07's `attr_roundtrip`).
-/
import SamlVerif.Model.Time
import SamlVerif.Model.Duration
import SamlVerif.Model.Html

namespace SamlVerif.Metadata
open SamlVerif

structure Endpoint where
  indexed : Bool                 -- IndexedEndpoint (ResponseLocation is a pointer) or Endpoint (a string)
  binding : String
  location : Bytes
  response : Option Bytes        -- for a plain Endpoint `none` stands for the empty string
  deriving DecidableEq, Repr

structure KeyDesc where
  use : String
  certs : List String
  deriving DecidableEq, Repr

structure MD where
  entityID : String
  validUntil : Int               -- nanoseconds since the epoch (the zero time is year 1)
  cacheDuration : Int            -- nanoseconds; 0 = absent
  endpoints : List Endpoint
  keys : List KeyDesc
  deriving DecidableEq, Repr

/-- the attribute texts of the written element -/
structure Wire where
  entityID : String
  validUntil : List Char
  cacheDuration : Option (List Char)
  endpoints : List Endpoint
  keys : List KeyDesc

def write (v : MD) : Wire :=
  { entityID := v.entityID
    validUntil := TimeM.marshal v.validUntil
    cacheDuration := if v.cacheDuration = 0 then none else some (Duration.marshal v.cacheDuration)
    endpoints := v.endpoints
    keys := v.keys }

def readEndpoint (e : Endpoint) : Outcome Endpoint :=
  if e.indexed then
    match Html.unmarshalIndexedEndpoint e.binding e.location e.response with
    | .ok (l, r) => .ok { e with location := l, response := r }
    | .err x => .err x
    | .panic w => .panic w
  else
    match Html.unmarshalEndpoint e.binding e.location (e.response.getD []) with
    | .ok (l, r) => .ok { e with location := l, response := if r = [] then none else some r }
    | .err x => .err x
    | .panic w => .panic w

def readEndpoints : List Endpoint → Outcome (List Endpoint)
  | [] => .ok []
  | e :: es =>
    match readEndpoint e with
    | .ok e' =>
      (match readEndpoints es with
       | .ok rest => .ok (e' :: rest)
       | .err x => .err x
       | .panic w => .panic w)
    | .err x => .err x
    | .panic w => .panic w

def readDuration : Option (List Char) → Outcome Int
  | none => .ok 0
  | some t => Duration.parse t

def read (w : Wire) : Outcome MD :=
  match TimeM.unmarshal w.validUntil with
  | none => .err "validUntil"
  | some ms =>
    match readDuration w.cacheDuration with
    | .ok cd =>
      (match readEndpoints w.endpoints with
       | .ok eps => .ok { entityID := w.entityID, validUntil := ms * 1000000, cacheDuration := cd, endpoints := eps, keys := w.keys }
       | .err x => .err x
       | .panic p => .panic p)
    | .err x => .err x
    | .panic p => .panic p

/-- the normal form: instant rounded to the millisecond, endpoints of unknown bindings blanked -/
def normEndpoint (e : Endpoint) : Endpoint :=
  if Html.knownBindings.contains e.binding then e else { e with location := [], response := none }

def norm (v : MD) : MD :=
  { v with validUntil := TimeM.roundMs v.validUntil * 1000000, endpoints := v.endpoints.map normEndpoint }

/-- a location the reader accepts for a standard binding (an http or https URL without control characters) -/
def HttpLoc (binding : String) (l : Bytes) : Prop := Html.checkEndpointLocation binding l = .ok l

/-- endpoints of standard bindings carry http(s) locations — what C14 makes the reader insist on; an
    absent ResponseLocation is `none` (for a plain `Endpoint`, the empty string) -/
def Acceptable (e : Endpoint) : Prop :=
  e.response ≠ some [] ∧
  (Html.knownBindings.contains e.binding = true →
    HttpLoc e.binding e.location ∧ (∀ r, e.response = some r → HttpLoc e.binding r))

end SamlVerif.Metadata
