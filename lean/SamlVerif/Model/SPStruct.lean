/-
  SP.Struct — the decision procedure of
    ServiceProvider.parseResponse / parseArtifactResponse / parseAssertion / validateAssertion /
    validateAudienceRestriction / validateRequestID            (service_provider.go)
  over already-unmarshalled values.  Signature evaluation, decryption and XML unmarshalling are
  inputs here (`SigState`, `Wrap`, `Option` fields); the tree layer computes them.

  Instants are `Int` milliseconds since the Unix epoch (RelaxedTime rounds every parsed instant to
  the millisecond); tolerances are `Int` milliseconds and may be negative or zero, since
  MaxIssueDelay / MaxClockSkew are public variables.
-/
import SamlVerif.Model.Prelude

namespace SamlVerif.SP

/-- What `validateSignature(el)` said about an element: `errSignatureElementNotPresent`, `nil`,
    or any other error (bad digest, untrusted key, two Signature children, …). -/
inductive SigState where
  | absent | valid | invalid
  deriving DecidableEq, Repr

/-- `signatureRequirement` in service_provider.go. -/
inductive Need where
  | required | notRequired
  deriving DecidableEq, Repr

structure SCData where
  inResponseTo : String
  recipient : String
  notOnOrAfter : Int
  deriving DecidableEq, Repr

/-- `SubjectConfirmation`; `SubjectConfirmationData` is a pointer field in schema.go. -/
structure SubjConf where
  data : Option SCData
  deriving DecidableEq, Repr

structure Conditions where
  notBefore : Int
  notOnOrAfter : Int
  /-- one entry per `AudienceRestriction` (its single `Audience` value) -/
  audiences : List String
  deriving DecidableEq, Repr

structure AssertionS where
  issueInstant : Int
  /-- `Issuer` is a value field: an absent element unmarshals to the empty string -/
  issuer : String
  /-- `Subject *Subject` -/
  subject : Option (List SubjConf)
  /-- `Conditions *Conditions` -/
  conditions : Option Conditions
  /-- identity-bearing payload (NameID, statements) as one canonical token; opaque to the validator -/
  ident : String
  deriving DecidableEq, Repr

/-- How an assertion child of the Response reached the validator. -/
inductive Wrap where
  | plain      -- <saml:Assertion>
  | encOk      -- <saml:EncryptedAssertion> that decrypted and parsed
  | encBad     -- <saml:EncryptedAssertion> that did not
  deriving DecidableEq, Repr

structure Entry where
  wrap : Wrap
  sig : SigState
  a : AssertionS
  deriving DecidableEq, Repr

structure ResponseS where
  destination : String
  inResponseTo : String
  issueInstant : Int
  issuer : Option String
  status : String
  /-- assertion-bearing children in document order -/
  entries : List Entry
  deriving Repr

structure Cfg where
  idpEntityID : String
  acsURL : String
  entityID : String
  metadataURL : String
  allowIdP : Bool
  /-- `ServiceProvider.ValidateRequestID` override -/
  reqIdValidator : Option (ResponseS → List String → Bool)
  /-- `ServiceProvider.ValidateAudienceRestriction` override -/
  audValidator : Option (AssertionS → Bool)
  /-- `MaxIssueDelay`, ms -/
  delay : Int
  /-- `MaxClockSkew`, ms -/
  skew : Int
  /-- `StatusSuccess` (a package variable) -/
  statusSuccess : String

def firstSet (a b : String) : String := if a = "" then b else a

def Cfg.audience (cfg : Cfg) : String := firstSet cfg.entityID cfg.metadataURL

/-- `x.Issuer != nil && x.Issuer.Value != sp.IDPMetadata.EntityID` -/
def issuerMismatch (i : Option String) (idp : String) : Bool :=
  match i with
  | some v => v ≠ idp
  | none => false

/-- `validateRequestID` -/
def reqIdOK (cfg : Cfg) (r : ResponseS) (ids : List String) : Bool :=
  match cfg.reqIdValidator with
  | some f => f r ids
  | none => cfg.allowIdP || ids.contains r.inResponseTo

/-- `validateAudienceRestriction` -/
def audienceOK (cfg : Cfg) (a : AssertionS) (c : Conditions) : Bool :=
  match cfg.audValidator with
  | some f => f a
  | none => c.audiences.isEmpty || c.audiences.contains cfg.audience

/-- body of the `for _, subjectConfirmation := range …` loop of `validateAssertion` -/
def scCheck (cfg : Cfg) (now : Int) (ids : List String) (sc : SubjConf) : Outcome Unit :=
  match sc.data with
  | none => .err "sc-no-data"
  | some d =>
    if !cfg.allowIdP && !ids.contains d.inResponseTo then .err "sc-inresponseto"
    else if d.recipient ≠ cfg.acsURL then .err "sc-recipient"
    else if d.notOnOrAfter + cfg.skew < now then .err "sc-expired"
    else .ok ()

def scLoop (cfg : Cfg) (now : Int) (ids : List String) : List SubjConf → Outcome Unit
  | [] => .ok ()
  | sc :: rest =>
    match scCheck cfg now ids sc with
    | .ok () => scLoop cfg now ids rest
    | .err s => .err s
    | .panic w => .panic w

/-- `validateAssertion` (with the nil guards of the `fix:` commits; see DESIGN §3) -/
def validateAssertion (cfg : Cfg) (now : Int) (ids : List String) (a : AssertionS) : Outcome Unit :=
  if a.issueInstant + cfg.delay < now then .err "assertion-expired"
  else if a.issuer ≠ cfg.idpEntityID then .err "assertion-issuer"
  else match a.subject with
  | none => .err "no-subject"
  | some scs =>
    match scLoop cfg now ids scs with
    | .err s => .err s
    | .panic w => .panic w
    | .ok () =>
      match a.conditions with
      | none => .err "no-conditions"
      | some c =>
        if c.notBefore - cfg.skew > now then .err "cond-not-yet"
        else if c.notOnOrAfter + cfg.skew < now then .err "cond-expired"
        else if !audienceOK cfg a c then .err "audience"
        else .ok ()

/-- `parseEncryptedAssertion` / `parseAssertion` for one child of the Response -/
def parseEntry (cfg : Cfg) (now : Int) (ids : List String) (need : Need) (e : Entry) :
    Outcome AssertionS :=
  if e.wrap = .encBad then .err "decrypt"
  else if need = .required && e.sig ≠ .valid then .err "assertion-signature"
  else match validateAssertion cfg now ids e.a with
    | .ok () => .ok e.a
    | .err s => .err s
    | .panic w => .panic w

def firstPanic {α} : List (Outcome α) → Option String
  | [] => none
  | .panic w :: _ => some w
  | _ :: rest => firstPanic rest

def firstOk {α} : List (Outcome α) → Option α
  | [] => none
  | .ok a :: _ => some a
  | _ :: rest => firstOk rest

def firstErr {α} : List (Outcome α) → Option String
  | [] => none
  | .err s :: _ => some s
  | _ :: rest => firstErr rest

/-- The two loops of `parseResponse` run over *every* child (they `continue` on error and keep
    going after a success), then `assertions[0]`, else `errs[0]`, else a fixed error. -/
def collect {α} (rs : List (Outcome α)) : Outcome α :=
  match firstPanic rs with
  | some w => .panic w
  | none =>
    match firstOk rs with
    | some a => .ok a
    | none =>
      match firstErr rs with
      | some s => .err s
      | none => .err "no-assertion"

def isEnc (e : Entry) : Bool := e.wrap ≠ .plain

/-- processing order: every EncryptedAssertion child first, then every Assertion child -/
def ordered (es : List Entry) : List Entry :=
  es.filter isEnc ++ es.filter (fun e => !isEnc e)

/-- requirement handed to the assertions once the Response signature has been looked at -/
def needAfter (need : Need) (respSig : SigState) : Need :=
  if need = .required && respSig = .valid then .notRequired else need

/-- `parseResponse`.  `respSig` is consulted only when `need = required`, as in the code. -/
def parseResponse (cfg : Cfg) (now : Int) (ids : List String) (url : String)
    (need : Need) (respSig : SigState) (r : ResponseS) : Outcome AssertionS :=
  let hasSig := need = .required && respSig ≠ .absent
  if (hasSig || r.destination ≠ "") && (r.destination ≠ url && r.destination ≠ cfg.acsURL) then
    .err "destination"
  else if !reqIdOK cfg r ids then .err "response-inresponseto"
  else if r.issueInstant + cfg.delay < now then .err "response-expired"
  else if issuerMismatch r.issuer cfg.idpEntityID then .err "response-issuer"
  else if r.status ≠ cfg.statusSuccess then .err ("bad-status:" ++ r.status)
  else if need = .required && respSig = .invalid then .err "response-signature"
  else collect ((ordered r.entries).map (parseEntry cfg now ids (needAfter need respSig)))

structure ArtifactResponseS where
  inResponseTo : String
  issueInstant : Int
  issuer : Option String
  status : String
  sig : SigState
  /-- `findOneChild(…, "Response")`: `none` when there is not exactly one -/
  response : Option (SigState × ResponseS)

/-- `parseArtifactResponse` -/
def parseArtifactResponse (cfg : Cfg) (now : Int) (ids : List String) (resolveId : String)
    (url : String) (ar : ArtifactResponseS) : Outcome AssertionS :=
  if ar.inResponseTo ≠ resolveId then .err "artifact-inresponseto"
  else if ar.issueInstant + cfg.delay < now then .err "artifact-expired"
  else if issuerMismatch ar.issuer cfg.idpEntityID then .err "artifact-issuer"
  else if ar.status ≠ cfg.statusSuccess then .err ("bad-status:" ++ ar.status)
  else if ar.sig = .invalid then .err "artifact-signature"
  else match ar.response with
    | none => .err "artifact-no-response"
    | some (rs, r) =>
      parseResponse cfg now ids url (if ar.sig = .valid then .notRequired else .required) rs r

end SamlVerif.SP
