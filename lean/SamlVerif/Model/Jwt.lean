/-
  samlsp session tokens (session_jwt.go, request_tracker_jwt.go, session_cookie.go, middleware.go
  RequireAccount / RequireAttribute) over symbolic JWTs.

  A token is its decoded content plus a *MAC state*: which key and algorithm (if any) produced a
  signature over exactly this header and claims.  This is the Dolev–Yao idealisation of DESIGN §1.6:
  a signature verifies under (alg, key) iff it was made with that alg and key over these bytes.
  golang-jwt's decision order (segments → header/claims JSON → allowed methods → key → signature →
  standard claims) is modelled as documented and tied by the correspondence.
  Times are whole Unix seconds, as golang-jwt compares them for StandardClaims.
-/
import SamlVerif.Model.Middleware

namespace SamlVerif.Jwt

inductive Alg where
  | rs256 | es256 | hs256 | none | other
  deriving DecidableEq, Repr

structure Claims where
  aud : String
  iss : String
  sub : String
  /-- 0 = claim absent -/
  exp : Int
  iat : Int
  nbf : Int
  /-- `"saml-session": true` -/
  samlSession : Bool
  /-- `"saml-authn-request": true` -/
  samlAuthnRequest : Bool
  attrs : List (String × List String)
  /-- tracked-request payload -/
  trackedID : String
  trackedURI : String
  deriving DecidableEq, Repr

/-- who signed header‖claims, if anybody -/
inductive Mac where
  | by (keyId : Nat) (alg : Alg)
  | invalid
  deriving DecidableEq, Repr

structure Token where
  /-- three base64url segments with JSON header and claims that unmarshal into the claims struct -/
  wellFormed : Bool
  alg : Alg
  claims : Claims
  mac : Mac
  deriving DecidableEq, Repr

structure Codec where
  alg : Alg
  keyId : Nat
  audience : String
  issuer : String
  /-- seconds -/
  maxAge : Int
  deriving DecidableEq, Repr

/-- `StandardClaims.Valid` / `RegisteredClaims.Valid` at clock `now` -/
def claimsValid (now : Int) (c : Claims) : Bool :=
  (c.exp = 0 || now < c.exp) && (c.iat = 0 || c.iat ≤ now) && (c.nbf = 0 || c.nbf ≤ now)

/-- `Parser.ParseWithClaims` with `ValidMethods = [codec.alg]` and the codec's public key -/
def parse (c : Codec) (now : Int) (t : Token) : Outcome Claims :=
  if !t.wellFormed then .err "malformed"
  else if t.alg = .other then .err "alg-unavailable"
  else if t.alg ≠ c.alg then .err "method-not-allowed"
  else if t.mac ≠ .by c.keyId c.alg then .err "signature"
  else if !claimsValid now t.claims then .err "claims"
  else .ok t.claims

/-- `verifyAud(…, required = true)` for a single audience / `verifyIss(…, true)` -/
def audOK (aud cmp : String) : Bool := aud ≠ "" && aud = cmp
def issOK (iss cmp : String) : Bool := iss ≠ "" && iss = cmp

/-- `JWTSessionCodec.Decode` -/
def decodeSession (c : Codec) (now : Int) (t : Token) : Outcome Claims :=
  match parse c now t with
  | .ok cl =>
    if !audOK cl.aud c.audience then .err "audience"
    else if !issOK cl.iss c.issuer then .err "issuer"
    else if !cl.samlSession then .err "not-a-session-token"
    else .ok cl
  | .err e => .err e
  | .panic w => .panic w

/-- `JWTTrackedRequestCodec.Decode` -/
def decodeTracker (c : Codec) (now : Int) (t : Token) : Outcome MW.TrackedRequest :=
  match parse c now t with
  | .ok cl =>
    if !audOK cl.aud c.audience then .err "audience"
    else if !issOK cl.iss c.issuer then .err "issuer"
    else if !cl.samlAuthnRequest then .err "not-a-tracking-token"
    else .ok ⟨cl.sub, cl.trackedID, cl.trackedURI⟩
  | .err e => .err e
  | .panic w => .panic w

/-! ### minting -/

structure Attr where
  friendlyName : String
  name : String
  values : List String
  deriving DecidableEq, Repr

structure AssertionA where
  /-- `Subject.NameID.Value`, if Subject and NameID are present -/
  nameID : Option String
  /-- attribute statements, each a list of attributes -/
  statements : List (List Attr)
  /-- `SessionIndex` of each AuthnStatement -/
  sessionIndexes : List String
  deriving DecidableEq, Repr

def claimName (a : Attr) : String := if a.friendlyName = "" then a.name else a.friendlyName

/-- `m[k] = append(m[k], v)` on an association list kept in first-insertion order -/
def addValue (m : List (String × List String)) (k v : String) : List (String × List String) :=
  match m with
  | [] => [(k, [v])]
  | (k', vs) :: rest => if k' = k then (k', vs ++ [v]) :: rest else (k', vs) :: addValue rest k v

def addAttr (m : List (String × List String)) (a : Attr) : List (String × List String) :=
  a.values.foldl (fun m v => addValue m (claimName a) v) m

/-- the `Attributes` map `JWTSessionCodec.New` builds -/
def attributesOf (a : AssertionA) : List (String × List String) :=
  let m1 := a.statements.flatten.foldl addAttr []
  a.sessionIndexes.foldl (fun m v => addValue m "SessionIndex" v) m1

/-- `JWTSessionCodec.New` at clock `t0` -/
def newSession (c : Codec) (t0 : Int) (a : AssertionA) : Claims :=
  { aud := c.audience, iss := c.issuer, sub := a.nameID.getD "", exp := t0 + c.maxAge, iat := t0, nbf := t0,
    samlSession := true, samlAuthnRequest := false, attrs := attributesOf a, trackedID := "", trackedURI := "" }

/-- `JWTSessionCodec.Encode` -/
def encodeSession (c : Codec) (cl : Claims) : Token := ⟨true, c.alg, cl, .by c.keyId c.alg⟩

/-- `JWTTrackedRequestCodec.Encode` at clock `t0` -/
def encodeTracker (c : Codec) (t0 : Int) (tr : MW.TrackedRequest) : Token :=
  ⟨true, c.alg,
   { aud := c.audience, iss := c.issuer, sub := tr.index, exp := t0 + c.maxAge, iat := t0, nbf := t0,
     samlSession := false, samlAuthnRequest := true, attrs := [], trackedID := tr.samlRequestID, trackedURI := tr.uri },
   .by c.keyId c.alg⟩

/-! ### gates -/

def valuesOf (m : List (String × List String)) (k : String) : List String := (m.lookup k).getD []

/-- `CookieSessionProvider.GetSession`: no cookie, or a cookie that does not decode → no session -/
def getSession (c : Codec) (now : Int) (cookie : Option Token) : Option Claims :=
  match cookie with
  | none => none
  | some t => match decodeSession c now t with
    | .ok cl => some cl
    | _ => none

/-- `RequireAccount(RequireAttribute(name, value)(handler))`: does the application handler run? -/
def admits (c : Codec) (now : Int) (cookie : Option Token) (gate : Option (String × String)) : Bool :=
  match getSession c now cookie with
  | none => false
  | some cl =>
    match gate with
    | none => true
    | some (n, v) => (valuesOf cl.attrs n).contains v

end SamlVerif.Jwt
