/-
  samlidp — the bundled IdP server as a state machine over its store, its in-memory service
  registry, the clock and the random source, with a fault token for every backing-store call.
  (samlidp/session.go, user.go, service.go, shortcut.go, samlidp.go; identity_provider.go ServeSSO /
  ServeIDPInitiated as far as the decision goes.)

  Passwords are symbolic: a stored hash is the password it hashes (`bcrypt` idealised:
  compare(H p, p') ↔ p = p').  User and metadata payloads are opaque strings.
  Modelled tree: after the `fix:` commit that keeps the registry in step when a service is overwritten
  with metadata of a different entity ID.
-/
import SamlVerif.Model.Prelude

namespace SamlVerif.IdpServer

/-! ### association lists as maps -/

abbrev Map (α : Type) := List (String × α)

def Map.get {α} (m : Map α) (k : String) : Option α := m.lookup k
def Map.del {α} (m : Map α) (k : String) : Map α := m.filter (fun p => p.1 ≠ k)
def Map.put {α} (m : Map α) (k : String) (v : α) : Map α := (k, v) :: m.del k
def Map.keys {α} (m : Map α) : List String := m.map (·.1)

/-! ### records -/

structure UserRec where
  /-- `HashedPassword`: the password it hashes, or none when the user has no password -/
  hash : Option String
  /-- everything else (email, names, groups) as one opaque snapshot -/
  profile : String
  deriving DecidableEq, Repr

structure SessionRec where
  user : String
  profile : String
  expire : Int
  deriving DecidableEq, Repr

structure ShortcutRec where
  sp : String
  relay : Option String
  suffixAsRelay : Bool
  deriving DecidableEq, Repr

structure Md where
  entityID : String
  /-- has an HTTP-POST assertion consumer service -/
  hasPostACS : Bool
  body : String
  deriving DecidableEq, Repr

structure Store where
  users : Map UserRec
  sessions : Map SessionRec
  services : Map Md
  shortcuts : Map ShortcutRec
  deriving DecidableEq, Repr

structure State where
  store : Store
  /-- `Server.serviceProviders` (a Go map: only lookups, insertions and deletions are observable) -/
  registry : String → Option Md
  now : Int
  /-- number of session IDs drawn so far -/
  nextRand : Nat
  /-- ghost: every session ever created, with the user record the credentials were checked against
      and the password presented (does not influence any reply) -/
  loginLog : List (String × SessionRec × UserRec × String)

def regPut (reg : String → Option Md) (e : String) (m : Md) : String → Option Md :=
  fun k => if k = e then some m else reg k

def regDel (reg : String → Option Md) (e : String) : String → Option Md :=
  fun k => if k = e then none else reg k

/-- outcome the backing store gives for one call -/
inductive Fault where
  | ok | notFound | ioErr
  deriving DecidableEq, Repr

def sessionMaxAge : Int := 3600

/-- take the next fault token (none left = ok) -/
def nextFault : List Fault → Fault × List Fault
  | [] => (.ok, [])
  | f :: r => (f, r)

inductive GetRes (α : Type) where
  | found (v : α) | notFound | err

def storeGet {α} (f : Fault) (m : Map α) (k : String) : GetRes α :=
  match f with
  | .ok => (match m.get k with | some v => .found v | none => .notFound)
  | .notFound => .notFound
  | .ioErr => .err

/-! ### requests and replies -/

inductive Cred where
  | none
  | form (user pw : String)
  deriving DecidableEq, Repr

inductive Req where
  | putUser (name profile : String) (pw : Option String)
  | getUser (name : String)
  | deleteUser (name : String)
  | putService (id : String) (md : Option Md)
  | getService (id : String)
  | deleteService (id : String)
  | putShortcut (name : String) (sc : Option ShortcutRec)
  | getShortcut (name : String)
  | deleteShortcut (name : String)
  | getSession (id : String)
  | deleteSession (id : String)
  | list (kind : String)
  | login (cred : Cred) (cookie : Option String)
  | sso (entity : String) (reqValid : Bool) (cred : Cred) (cookie : Option String) (relay : String)
  | shortcut (name suffix : String) (cookie : Option String)
  | advance (dt : Int)
  | restart
  deriving DecidableEq, Repr

inductive Body where
  | empty
  | loginForm
  /-- a SAML response form: the user and profile snapshot the assertion describes, the SP entity it is
      for, the relay state -/
  | saml (user profile entity relay : String)
  | userJson (name profile : String)          -- never includes the hash
  | sessionJson (id user profile : String)
  | mdXml (body : String)
  | shortcutJson (sp : String)
  | names (l : List String)
  deriving DecidableEq, Repr

structure Reply where
  status : Nat
  body : Body
  /-- `Set-Cookie: session=<id>` -/
  setCookie : Option String
  deriving DecidableEq, Repr

def st (code : Nat) : Reply := ⟨code, .empty, none⟩

/-! ### session lookup / creation (`Server.GetSession`) -/

inductive SessRes where
  | session (id : String) (σ : SessionRec) (setCookie : Option String)
  | wrote (r : Reply)

def sessionId (n : Nat) : String := "s" ++ toString n

/-- `validPassword` (samlidp/user.go, fix 791b1c9): the passwords bcrypt tells apart — at most 72 bytes, no NUL.
    On these the idealisation "the stored hash is the password" is what bcrypt does; the others are refused at PUT and at login. -/
def validPw (p : String) : Bool :=
  decide ((p.toList.map (fun c => c.utf8Size)).sum ≤ 72) && !p.toList.contains (Char.ofNat 0)

/-- `allowCred`: the handler parsed the POST form (login, sso); the shortcut handler does not -/
def getSession (s : State) (fs : List Fault) (cred : Cred) (cookie : Option String) (allowCred : Bool) :
    State × List Fault × SessRes :=
  let credUser : Option (String × String) := match cred with
    | .form u p => if allowCred ∧ u ≠ "" then some (u, p) else none
    | .none => none
  match credUser with
  | some (u, p) =>
    let (f1, fs1) := nextFault fs
    (match storeGet f1 s.store.users u with
     | .found usr =>
       if validPw p = true ∧ usr.hash = some p then
         let id := sessionId s.nextRand
         let σ : SessionRec := ⟨u, usr.profile, s.now + sessionMaxAge⟩
         let (f2, fs2) := nextFault fs1
         -- (the ID drawn for a session whose Put fails is never observable; IDs are labelled in order of successful creation)
         if f2 = .ok then
           ({ s with store := { s.store with sessions := s.store.sessions.put id σ }, nextRand := s.nextRand + 1,
                      loginLog := (id, σ, usr, p) :: s.loginLog },
             fs2, .session id σ (some id))
         else (s, fs2, .wrote (st 500))
       else (s, fs1, .wrote ⟨200, .loginForm, none⟩)
     | _ => (s, fs1, .wrote ⟨200, .loginForm, none⟩))
  | none =>
    match cookie with
    | some sid =>
      let (f1, fs1) := nextFault fs
      (match storeGet f1 s.store.sessions sid with
       | .found σ => if s.now > σ.expire then (s, fs1, .wrote ⟨200, .loginForm, none⟩) else (s, fs1, .session sid σ none)
       | .notFound => (s, fs1, .wrote ⟨200, .loginForm, none⟩)
       | .err => (s, fs1, .wrote (st 500)))
    | none => (s, fs, .wrote ⟨200, .loginForm, none⟩)

/-- `initializeServices`: the registry a fresh server builds from the store -/
def registryOf (services : Map Md) : Map Md :=
  services.foldr (fun p acc => acc.put p.2.entityID p.2) []

def restart (s : State) : State := { s with registry := fun e => (registryOf s.store.services).get e }

/-! ### one request -/

def step (s : State) (fs : List Fault) (req : Req) : State × Reply :=
  match req with
  | .advance dt => ({ s with now := s.now + dt }, st 0)
  | .restart => (restart s, st 0)
  | .putUser name profile pw =>
    (match pw with
     | some p =>
       if validPw p = false then (s, st 400) else
       let (f, _) := nextFault fs
       if f = .ok then ({ s with store := { s.store with users := s.store.users.put name ⟨some p, profile⟩ } }, st 204)
       else (s, st 500)
     | none =>
       let (f1, fs1) := nextFault fs
       (match storeGet f1 s.store.users name with
        | .err => (s, st 500)
        | r =>
          let h := match r with | .found u => u.hash | _ => none
          let (f2, _) := nextFault fs1
          if f2 = .ok then ({ s with store := { s.store with users := s.store.users.put name ⟨h, profile⟩ } }, st 204)
          else (s, st 500)))
  | .getUser name =>
    let (f, _) := nextFault fs
    (match storeGet f s.store.users name with
     | .found u => (s, ⟨200, .userJson name u.profile, none⟩)
     | _ => (s, st 500))
  | .deleteUser name =>
    let (f, _) := nextFault fs
    if f = .ok then ({ s with store := { s.store with users := s.store.users.del name } }, st 204) else (s, st 500)
  | .putService id md =>
    (match md with
     | none => (s, st 400)
     | some m =>
       -- the entity ID previously registered under this service name, read before the overwrite
       let (f0, fs0) := nextFault fs
       (match storeGet f0 s.store.services id with
        | .err => (s, st 500)
        | r0 =>
          let old : Option String := match r0 with | .found o => some o.entityID | _ => none
          let (f, _) := nextFault fs0
          if f = .ok then
            let reg1 := match old with
              | some e => if e ≠ m.entityID then regDel s.registry e else s.registry
              | none => s.registry
            ({ s with store := { s.store with services := s.store.services.put id m }, registry := regPut reg1 m.entityID m }, st 204)
          else (s, st 500)))
  | .getService id =>
    let (f, _) := nextFault fs
    (match storeGet f s.store.services id with
     | .found m => (s, ⟨200, .mdXml m.body, none⟩)
     | _ => (s, st 500))
  | .deleteService id =>
    let (f1, fs1) := nextFault fs
    (match storeGet f1 s.store.services id with
     | .found m =>
       let (f2, _) := nextFault fs1
       if f2 = .ok then
         ({ s with store := { s.store with services := s.store.services.del id }, registry := regDel s.registry m.entityID }, st 204)
       else (s, st 500)
     | _ => (s, st 500))
  | .putShortcut name sc =>
    (match sc with
     | none => (s, st 400)
     | some c =>
       let (f, _) := nextFault fs
       if f = .ok then ({ s with store := { s.store with shortcuts := s.store.shortcuts.put name c } }, st 204) else (s, st 500))
  | .getShortcut name =>
    let (f, _) := nextFault fs
    (match storeGet f s.store.shortcuts name with
     | .found c => (s, ⟨200, .shortcutJson c.sp, none⟩)
     | _ => (s, st 500))
  | .deleteShortcut name =>
    let (f, _) := nextFault fs
    if f = .ok then ({ s with store := { s.store with shortcuts := s.store.shortcuts.del name } }, st 204) else (s, st 500)
  | .getSession id =>
    let (f, _) := nextFault fs
    (match storeGet f s.store.sessions id with
     | .found σ => (s, ⟨200, .sessionJson id σ.user σ.profile, none⟩)
     | _ => (s, st 500))
  | .deleteSession id =>
    let (f, _) := nextFault fs
    if f = .ok then ({ s with store := { s.store with sessions := s.store.sessions.del id } }, st 204) else (s, st 500)
  | .list kind =>
    let (f, _) := nextFault fs
    if f ≠ .ok then (s, st 500)
    else if kind = "users" then (s, ⟨200, .names s.store.users.keys, none⟩)
    else if kind = "sessions" then (s, ⟨200, .names s.store.sessions.keys, none⟩)
    else if kind = "services" then (s, ⟨200, .names s.store.services.keys, none⟩)
    else (s, ⟨200, .names s.store.shortcuts.keys, none⟩)
  | .login cred cookie =>
    (match getSession s fs cred cookie true with
     | (s', _, .session id σ c) => (s', ⟨200, .sessionJson id σ.user σ.profile, c⟩)
     | (s', _, .wrote r) => (s', r))
  | .sso entity reqValid cred cookie relay =>
    if !reqValid then (s, st 400)
    else match s.registry entity with
      | none => (s, st 400)
      | some md =>
        (match getSession s fs cred cookie true with
         | (s', _, .session _ σ c) =>
           if md.hasPostACS then (s', ⟨200, .saml σ.user σ.profile md.entityID relay, c⟩)
           else (s', ⟨500, .empty, c⟩)
         | (s', _, .wrote r) => (s', r))
  | .shortcut name suffix cookie =>
    let (f1, fs1) := nextFault fs
    (match storeGet f1 s.store.shortcuts name with
     | .found sc =>
       let relay := match sc.relay with
         | some r => r
         | none => if sc.suffixAsRelay ∧ suffix ≠ "" then "/" ++ suffix else ""
       (match getSession s fs1 .none cookie false with
        | (s', _, .session _ σ c) =>
          (match s'.registry sc.sp with
           | none => (s', ⟨404, .empty, c⟩)
           | some md =>
             if md.hasPostACS then (s', ⟨200, .saml σ.user σ.profile md.entityID relay, c⟩)
             else (s', ⟨500, .empty, c⟩))
        | (s', _, .wrote r) => (s', r))
     | _ => (s, st 500))

def init : State := ⟨⟨[], [], [], []⟩, fun _ => none, 0, 0, []⟩

/-- run a history: each request comes with the fault tokens for its store calls -/
def run (s : State) : List (Req × List Fault) → State × List Reply
  | [] => (s, [])
  | (r, fs) :: rest =>
    let (s1, rep) := step s fs r
    let (s2, reps) := run s1 rest
    (s2, rep :: reps)

end SamlVerif.IdpServer
