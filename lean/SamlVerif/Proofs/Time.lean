/-
  RelaxedTime: the calendar decomposition is invertible and yields valid civil dates; what
  `MarshalText` writes, `UnmarshalText` reads back as the same instant.
-/
import SamlVerif.Model.Time

namespace SamlVerif.TimeM

/-! ### the calendar: one exhaustive kernel computation over the 146097 days of an era -/

def yoeN (doe : Nat) : Nat := (doe - doe / 1460 + doe / 36524 - doe / 146096) / 365
def startN (yoe : Nat) : Nat := 365 * yoe + yoe / 4 - yoe / 100

/-- day-of-era `doe` falls inside the (March-based) year its year-of-era formula names, and on that
    year's 366th day only when the following civil year is a leap year -/
def okN (doe : Nat) : Bool :=
  let s := startN (yoeN doe)
  Nat.ble s doe && Nat.ble doe (s + 365) &&
    (Nat.ble doe (s + 364) || ((yoeN doe + 1) % 4 == 0 && ((yoeN doe + 1) % 100 != 0 || (yoeN doe + 1) % 400 == 0)))

set_option maxRecDepth 100000 in
set_option maxHeartbeats 2000000 in
theorem era_ok : (List.range 146097).all okN = true := by decide +kernel

theorem okN_of_lt (n : Nat) (h : n < 146097) : okN n = true :=
  List.all_eq_true.mp era_ok n (List.mem_range.mpr h)

/-- day-of-year `doy` (0 = 1 March): month index and day of month are in range -/
def okDoy (n : Nat) : Bool :=
  let doy : Int := n
  let mp := mpOf doy
  let d := domOf doy
  decide (0 ≤ mp ∧ mp ≤ 11 ∧ 1 ≤ d ∧
    d ≤ (if mp = 11 then (if doy = 365 then 29 else 28)
         else if mp = 1 ∨ mp = 3 ∨ mp = 6 ∨ mp = 8 then 30 else 31))

theorem doy_ok : (List.range 366).all okDoy = true := by decide +kernel

theorem okDoy_of_lt (n : Nat) (h : n < 366) : okDoy n = true :=
  List.all_eq_true.mp doy_ok n (List.mem_range.mpr h)

theorem isLeap_shift (y k : Int) : isLeap (y + k * 400) = isLeap y := by
  unfold isLeap
  have h4 : (y + k * 400) % 4 = y % 4 := by omega
  have h100 : (y + k * 400) % 100 = y % 100 := by omega
  have h400 : (y + k * 400) % 400 = y % 400 := by omega
  rw [h4, h100, h400]

theorem daysIn_shift (y k m : Int) : daysIn (y + k * 400) m = daysIn y m := by
  unfold daysIn; rw [isLeap_shift]

/-- the facts about one era, on integers -/
theorem era_facts (doe : Int) (h : 0 ≤ doe ∧ doe < 146097) :
    0 ≤ yoeOf doe ∧ yoeOf doe ≤ 399 ∧ 0 ≤ doyOf doe ∧ doyOf doe ≤ 365 ∧
    (doyOf doe = 365 → isLeap (yoeOf doe + 1) = true) := by
  have hy : 0 ≤ yoeOf doe ∧ yoeOf doe ≤ 399 := by unfold yoeOf; omega
  have hok := okN_of_lt doe.toNat (by omega)
  have hn : ((doe.toNat : Nat) : Int) = doe := Int.toNat_of_nonneg h.1
  have hyn : (yoeN doe.toNat : Int) = yoeOf doe := by
    unfold yoeN yoeOf; omega
  unfold okN at hok
  simp only [Bool.and_eq_true, Bool.or_eq_true, Nat.ble_eq, beq_iff_eq, bne_iff_ne, ne_eq] at hok
  obtain ⟨⟨h1, h2⟩, h3⟩ := hok
  have hs : (startN (yoeN doe.toNat) : Int) = 365 * yoeOf doe + yoeOf doe / 4 - yoeOf doe / 100 := by
    unfold startN; omega
  refine ⟨hy.1, hy.2, ?_, ?_, ?_⟩
  · unfold doyOf; omega
  · unfold doyOf; omega
  · intro h365
    have hnot : ¬ (doe.toNat ≤ startN (yoeN doe.toNat) + 364) := by
      unfold doyOf at h365; omega
    rcases h3 with h3 | ⟨h4, h5⟩
    · exact absurd h3 hnot
    · unfold isLeap
      have e4 : (yoeOf doe + 1) % 4 = 0 := by omega
      simp only [e4, decide_true, Bool.true_and, Bool.or_eq_true, bne_iff_ne, ne_eq, decide_eq_true_eq, Bool.not_eq_true', decide_eq_false_iff_not]
      rcases h5 with h5 | h5
      · left; omega
      · right; omega

/-- **calendar**: for every day number, the civil date computed from it is a real date and maps back
    to the same day number -/
theorem calendar_roundtrip (z : Int) :
    let c := civilFromDays z
    daysFromCivil c = z ∧ 1 ≤ c.month ∧ c.month ≤ 12 ∧ 1 ≤ c.day ∧ c.day ≤ daysIn c.year c.month := by
  have hera : 0 ≤ (z + 719468) - (z + 719468) / 146097 * 146097 ∧
      (z + 719468) - (z + 719468) / 146097 * 146097 < 146097 := by omega
  generalize hdoe : (z + 719468) - (z + 719468) / 146097 * 146097 = doe at hera
  generalize hE : (z + 719468) / 146097 = era at hdoe
  obtain ⟨h1, h2, h3, h3', hleap⟩ := era_facts doe hera
  have hdoyok := okDoy_of_lt (doyOf doe).toNat (by omega)
  have hdn : (((doyOf doe).toNat : Nat) : Int) = doyOf doe := Int.toNat_of_nonneg h3
  unfold okDoy at hdoyok
  simp only [hdn, decide_eq_true_eq] at hdoyok
  obtain ⟨h4, h5, h6, h7⟩ := hdoyok
  simp only [civilFromDays, hE, hdoe]
  generalize hyoe : yoeOf doe = yoe at *
  generalize hdoy : doyOf doe = doy at *
  generalize hmp : mpOf doy = mp at *
  generalize hd : domOf doy = d at *
  have hdoy' : doy = doe - (365 * yoe + yoe / 4 - yoe / 100) := by rw [← hdoy, doyOf, hyoe]
  have hd' : d = doy - (153 * mp + 2) / 5 + 1 := by rw [← hd, domOf, hmp]
  by_cases hm : mp < 10
  · simp only [hm, if_true]
    have hle : ¬ (mp + 3 ≤ 2) := by omega
    simp only [hle, if_false, Int.add_zero]
    refine ⟨?_, by omega, by omega, h6, ?_⟩
    · unfold daysFromCivil
      simp only [hle, if_false]
      have hgt : mp + 3 > 2 := by omega
      simp only [hgt, if_true]
      have e1 : (yoe + era * 400) / 400 = era := by omega
      have e2 : yoe + era * 400 - era * 400 = yoe := by omega
      rw [e1, e2]
      omega
    · have hne : mp ≠ 11 := by omega
      simp only [hne, if_false] at h7
      unfold daysIn
      have hm2 : ¬ (mp + 3 = 2) := by omega
      simp only [hm2, if_false]
      by_cases h30 : mp = 1 ∨ mp = 3 ∨ mp = 6 ∨ mp = 8
      · have : mp + 3 = 4 ∨ mp + 3 = 6 ∨ mp + 3 = 9 ∨ mp + 3 = 11 := by omega
        simp only [this, if_true]; simp only [h30, if_true] at h7; exact h7
      · have : ¬ (mp + 3 = 4 ∨ mp + 3 = 6 ∨ mp + 3 = 9 ∨ mp + 3 = 11) := by omega
        simp only [this, if_false]; simp only [h30, if_false] at h7; exact h7
  · simp only [hm, if_false]
    have hle : mp - 9 ≤ 2 := by omega
    simp only [hle, if_true]
    refine ⟨?_, by omega, by omega, h6, ?_⟩
    · unfold daysFromCivil
      simp only [hle, if_true]
      have hgt : ¬ (mp - 9 > 2) := by omega
      simp only [hgt, if_false]
      have e0 : yoe + era * 400 + 1 - 1 = yoe + era * 400 := by omega
      rw [e0]
      have e1 : (yoe + era * 400) / 400 = era := by omega
      have e2 : yoe + era * 400 - era * 400 = yoe := by omega
      rw [e1, e2]
      omega
    · have hshift : yoe + era * 400 + 1 = (yoe + 1) + era * 400 := by omega
      rw [hshift, daysIn_shift]
      unfold daysIn
      by_cases h11 : mp = 11
      · have hm2 : mp - 9 = 2 := by omega
        simp only [hm2, if_true]
        simp only [h11, if_true] at h7
        by_cases hl : doy = 365
        · simp only [hl, if_true] at h7
          rw [hleap hl]; simpa using h7
        · simp only [hl, if_false] at h7
          split <;> omega
      · have hm1 : mp - 9 = 1 := by omega
        have hne2 : ¬ (mp - 9 = 2) := by omega
        simp only [hne2, if_false]
        have hn30 : ¬ (mp - 9 = 4 ∨ mp - 9 = 6 ∨ mp - 9 = 9 ∨ mp - 9 = 11) := by omega
        simp only [hn30, if_false]
        simp only [h11, if_false] at h7
        have hn30' : ¬ (mp = 1 ∨ mp = 3 ∨ mp = 6 ∨ mp = 8) := by omega
        simp only [hn30', if_false] at h7
        exact h7

/-! ### digits -/

theorem num2_pad2_nat : ∀ k : Nat, k < 100 → num2 (dig ((k : Int) / 10)) (dig (k : Int)) = some (k : Int) := by
  decide

theorem num2_pad2 (n : Int) (h0 : 0 ≤ n) (h1 : n < 100) : num2 (dig (n / 10)) (dig n) = some n := by
  have := num2_pad2_nat n.toNat (by omega)
  rwa [Int.toNat_of_nonneg h0] at this

def num4ok (k : Nat) : Bool :=
  num4 (dig ((k : Int) / 1000)) (dig ((k : Int) / 100)) (dig ((k : Int) / 10)) (dig (k : Int)) == some (k : Int)

set_option maxRecDepth 100000 in
theorem num4_all : (List.range 10000).all num4ok = true := by decide +kernel

theorem num4_pad4_nat (k : Nat) (h : k < 10000) :
    num4 (dig ((k : Int) / 1000)) (dig ((k : Int) / 100)) (dig ((k : Int) / 10)) (dig (k : Int)) = some (k : Int) := by
  have := List.all_eq_true.mp num4_all k (List.mem_range.mpr h)
  unfold num4ok at this
  exact eq_of_beq this

theorem num4_pad4 (n : Int) (h0 : 0 ≤ n) (h1 : n < 10000) :
    num4 (dig (n / 1000)) (dig (n / 100)) (dig (n / 10)) (dig n) = some n := by
  have := num4_pad4_nat n.toNat (by omega)
  rwa [Int.toNat_of_nonneg h0] at this

theorem digVal_dig_nat : ∀ k : Nat, k < 100 → (digVal (dig (k : Int))).isSome = true ∧
    digVal (dig ((k : Int) / 10)) = some ((k : Int) / 10) ∧ digVal (dig (k : Int)) = some ((k : Int) % 10) := by decide

def fracok (k : Nat) : Bool := parseFrac (fracStr (k : Int) ++ ['Z']) == ((k : Int) * 1000000, ['Z'])

set_option maxRecDepth 100000 in
theorem frac_all : (List.range 1000).all fracok = true := by decide +kernel

theorem frac_nat (k : Nat) (h : k < 1000) : parseFrac (fracStr (k : Int) ++ ['Z']) = ((k : Int) * 1000000, ['Z']) := by
  have := List.all_eq_true.mp frac_all k (List.mem_range.mpr h)
  unfold fracok at this
  exact eq_of_beq this

theorem parseFrac_fracStr (f : Int) (h0 : 0 ≤ f) (h1 : f < 1000) :
    parseFrac (fracStr f ++ ['Z']) = (f * 1000000, ['Z']) := by
  have := frac_nat f.toNat (by omega)
  rwa [Int.toNat_of_nonneg h0] at this

theorem roundMs_exact (m : Int) : roundMs (m * 1000000) = m := by
  unfold roundMs
  have h0 : m * 1000000 % 1000000 = 0 := by omega
  simp only [h0]
  omega

/-! ### reading back what was written -/

theorem parseClock_written (h mi s f : Int) (hh : 0 ≤ h ∧ h ≤ 23) (hmi : 0 ≤ mi ∧ mi ≤ 59) (hs : 0 ≤ s ∧ s ≤ 59)
    (hf : 0 ≤ f ∧ f < 1000) :
    parseClock (pad2 h ++ [':'] ++ pad2 mi ++ [':'] ++ pad2 s ++ fracStr f ++ ['Z']) =
      some (h * 3600 + mi * 60 + s, f * 1000000) := by
  have hd := digVal_dig_nat h.toNat (by omega)
  rw [Int.toNat_of_nonneg hh.1] at hd
  obtain ⟨_, hd1, hd2⟩ := hd
  simp only [pad2, List.cons_append, List.nil_append, parseClock, hd1, hd2]
  have e : h / 10 * 10 + h % 10 = h := by omega
  rw [e]
  simp only [parseMinSec, num2_pad2 mi hmi.1 (by omega), num2_pad2 s hs.1 (by omega)]
  have hc : h ≤ 23 ∧ mi ≤ 59 ∧ s ≤ 59 := ⟨hh.2, hmi.2, hs.2⟩
  simp only [hc, and_self, if_true, parseFrac_fracStr f hf.1 hf.2, parseZone]
  simp

/-- **instants**: the text written for the instant `ms` milliseconds after the epoch is read back as
    exactly `ms`, for every instant whose year has four digits -/
theorem unmarshal_marshalMs (ms : Int) (hy : 0 ≤ (civilFromDays (ms / 86400000)).year ∧
    (civilFromDays (ms / 86400000)).year ≤ 9999) : unmarshal (marshalMs ms) = some ms := by
  obtain ⟨hrt, hm1, hm12, hd1, hdn⟩ := calendar_roundtrip (ms / 86400000)
  have hrem : 0 ≤ ms % 86400000 ∧ ms % 86400000 < 86400000 := by omega
  generalize hc : civilFromDays (ms / 86400000) = c at *
  generalize hr : ms % 86400000 = rem at *
  have hdn31 : c.day ≤ 31 := by
    have : daysIn c.year c.month ≤ 31 := by
      unfold daysIn
      split
      · split <;> omega
      · split <;> omega
    omega
  unfold unmarshal marshalMs
  simp only [hc, hr, yearStr, hy.2, if_true]
  have hne : pad4 c.year ++ ['-'] ++ pad2 c.month ++ ['-'] ++ pad2 c.day ++ ['T'] ++ pad2 (rem / 3600000) ++ [':'] ++
      pad2 (rem / 60000 % 60) ++ [':'] ++ pad2 (rem / 1000 % 60) ++ fracStr (rem % 1000) ++ ['Z'] ≠ [] := by
    simp [pad4]
  rw [if_neg hne]
  have hclock := parseClock_written (rem / 3600000) (rem / 60000 % 60) (rem / 1000 % 60) (rem % 1000)
    (by omega) (by omega) (by omega) (by omega)
  have hshape : pad4 c.year ++ ['-'] ++ pad2 c.month ++ ['-'] ++ pad2 c.day ++ ['T'] ++ pad2 (rem / 3600000) ++ [':'] ++
      pad2 (rem / 60000 % 60) ++ [':'] ++ pad2 (rem / 1000 % 60) ++ fracStr (rem % 1000) ++ ['Z'] =
      dig (c.year / 1000) :: dig (c.year / 100) :: dig (c.year / 10) :: dig c.year :: '-' ::
      dig (c.month / 10) :: dig c.month :: '-' :: dig (c.day / 10) :: dig c.day :: 'T' ::
      (pad2 (rem / 3600000) ++ [':'] ++ pad2 (rem / 60000 % 60) ++ [':'] ++ pad2 (rem / 1000 % 60) ++
        fracStr (rem % 1000) ++ ['Z']) := by
    simp [pad4, pad2]
  rw [hshape]
  simp only [parseNs, num4_pad4 c.year hy.1 (by omega), num2_pad2 c.month (by omega) (by omega),
    num2_pad2 c.day (by omega) (by omega)]
  have hcond : 1 ≤ c.month ∧ c.month ≤ 12 ∧ 1 ≤ c.day ∧ c.day ≤ daysIn c.year c.month := ⟨hm1, hm12, hd1, hdn⟩
  simp only [hcond, and_self, if_true, hclock, Option.map_some]
  have hcc : (⟨c.year, c.month, c.day⟩ : Civil) = c := by cases c; rfl
  rw [hcc, hrt]
  congr 1
  have hsum : (ms / 86400000 * 86400 + (rem / 3600000 * 3600 + rem / 60000 % 60 * 60 + rem / 1000 % 60)) * 1000000000 +
      rem % 1000 * 1000000 = ms * 1000000 := by omega
  rw [hsum]
  exact roundMs_exact ms

/-- `MarshalText` then `UnmarshalText` is rounding to the millisecond -/
theorem unmarshal_marshal (ns : Int) (hy : 0 ≤ (civilFromDays (roundMs ns / 86400000)).year ∧
    (civilFromDays (roundMs ns / 86400000)).year ≤ 9999) : unmarshal (marshal ns) = some (roundMs ns) :=
  unmarshal_marshalMs (roundMs ns) hy

end SamlVerif.TimeM
