import SamlVerif.Model.Locks

namespace SamlVerif.Locks

/-! ### reachability (interleaving at event granularity) -/

/-- one thread of the configuration fires its next event -/
inductive Reach (init : List Thread) : List Thread → Prop where
  | refl : Reach init init
  | step (pre post : List Thread) (t : Thread) :
      Reach init (pre ++ t :: post) → canFire t (pre ++ post) = true → Reach init (pre ++ t.advance :: post)

/-- two threads' holdings are compatible: a write lock excludes every other holder -/
def Compatible (a b : Thread) : Prop :=
  ∀ m, (a.holdsW m = true → b.holds m = false) ∧ (b.holdsW m = true → a.holds m = false)

theorem Compatible.symm {a b : Thread} (h : Compatible a b) : Compatible b a :=
  fun m => ⟨(h m).2, (h m).1⟩

theorem holds_of_holdsW (t : Thread) (m : Nat) (h : t.holdsW m = true) : t.holds m = true := by
  unfold Thread.holds Held.has
  unfold Thread.holdsW at h
  rw [h]
  simp

theorem pairwise_of_all {α} (R : α → α → Prop) (h : ∀ a b, R a b) (l : List α) : l.Pairwise R := by
  induction l with
  | nil => exact List.Pairwise.nil
  | cons x xs ih => exact List.Pairwise.cons (fun b _ => h x b) ih

/-! ### static facts at the program counter -/

theorem heldAfter_snoc (p : Prog) (e : Ev) : heldAfter (p ++ [e]) = (heldAfter p).step e := by
  unfold heldAfter
  rw [List.foldl_append]
  rfl

theorem wellFormedFrom_append (P : Protects) (h : Held) (a b : Prog)
    (hw : wellFormedFrom P h (a ++ b) = true) : wellFormedFrom P (a.foldl Held.step h) b = true := by
  induction a generalizing h with
  | nil => simpa using hw
  | cons e rest ih =>
    simp only [List.cons_append, wellFormedFrom, Bool.and_eq_true] at hw
    simp only [List.foldl_cons]
    exact ih _ hw.2

/-- a well-formed thread, looked at where its program counter stands -/
theorem wf_at_pc (P : Protects) (t : Thread) (hw : wellFormed P (t.done ++ t.todo) = true) :
    wellFormedFrom P t.held t.todo = true := by
  unfold wellFormed at hw
  exact wellFormedFrom_append P Held.empty t.done t.todo hw

theorem finished_holds_nothing (P : Protects) (t : Thread) (hw : wellFormed P (t.done ++ t.todo) = true)
    (hf : t.todo = []) (m : Nat) : t.holds m = false := by
  have := wf_at_pc P t hw
  rw [hf] at this
  simp only [wellFormedFrom, Bool.and_eq_true, List.isEmpty_iff] at this
  unfold Thread.holds Held.has
  simp [this.1, this.2]

/-- the mutex a thread is about to acquire lies strictly above everything it holds -/
theorem acquire_above (P : Protects) (t : Thread) (hw : wellFormed P (t.done ++ t.todo) = true)
    (m : Nat) (rest : Prog) (hn : t.todo = .lock m :: rest ∨ t.todo = .rlock m :: rest) :
    ∀ k, t.holds k = true → k < m := by
  have := wf_at_pc P t hw
  intro k hk
  unfold Thread.holds Held.has at hk
  rcases hn with hn | hn <;> rw [hn] at this <;>
    simp only [wellFormedFrom, Bool.and_eq_true, List.all_eq_true] at this
  all_goals
    have hall := this.1
    have hmem : k ∈ t.held.r ++ t.held.w := by
      simp only [Bool.or_eq_true, List.contains_iff_mem] at hk
      simpa using hk
    simpa using hall k hmem

theorem access_guarded (P : Protects) (t : Thread) (hw : wellFormed P (t.done ++ t.todo) = true) :
    (∀ x rest, t.todo = .write x :: rest → t.holdsW (P x) = true) ∧
    (∀ x rest, t.todo = .read x :: rest → t.holds (P x) = true) := by
  have := wf_at_pc P t hw
  constructor
  · intro x rest hn
    rw [hn] at this
    simp only [wellFormedFrom, Bool.and_eq_true] at this
    exact this.1
  · intro x rest hn
    rw [hn] at this
    simp only [wellFormedFrom, Bool.and_eq_true] at this
    exact this.1

/-! ### mutual exclusion is an invariant -/

def Inv (P : Protects) (ts : List Thread) : Prop :=
  (∀ t ∈ ts, wellFormed P (t.done ++ t.todo) = true) ∧ ts.Pairwise Compatible

theorem start_inv (P : Protects) (progs : List Prog) (h : ∀ p ∈ progs, wellFormed P p = true) :
    Inv P (start progs) := by
  constructor
  · intro t ht
    unfold start at ht
    rw [List.mem_map] at ht
    obtain ⟨p, hp, rfl⟩ := ht
    simpa using h p hp
  · unfold start
    rw [List.pairwise_map]
    apply pairwise_of_all
    intro a b m
    simp [Thread.holdsW, Thread.holds, Thread.held, heldAfter, Held.empty, Held.has]

theorem pairwise_replace (pre post : List Thread) (t t' : Thread)
    (h : (pre ++ t :: post).Pairwise Compatible) (hc : ∀ o ∈ pre ++ post, Compatible t' o) :
    (pre ++ t' :: post).Pairwise Compatible := by
  rw [List.pairwise_append] at h ⊢
  obtain ⟨h1, h2, h3⟩ := h
  rw [List.pairwise_cons] at h2 ⊢
  refine ⟨h1, ⟨fun b hb => hc b (by simp [hb]), h2.2⟩, ?_⟩
  intro a ha b hb
  simp only [List.mem_cons] at hb
  rcases hb with rfl | hb
  · exact (hc a (by simp [ha])).symm
  · exact h3 a ha b (by simp [hb])

theorem mem_others_compat (pre post : List Thread) (t : Thread)
    (h : (pre ++ t :: post).Pairwise Compatible) : ∀ o ∈ pre ++ post, Compatible t o := by
  rw [List.pairwise_append] at h
  obtain ⟨_, h2, h3⟩ := h
  rw [List.pairwise_cons] at h2
  intro o ho
  rw [List.mem_append] at ho
  rcases ho with ho | ho
  · exact (h3 o ho t (by simp)).symm
  · exact h2.1 o ho

theorem holds_step_sub (h : Held) (e : Ev) (m : Nat) (hne : e ≠ .lock m ∧ e ≠ .rlock m)
    (hh : (h.step e).has m = true) : h.has m = true := by
  unfold Held.has at *
  cases e with
  | rlock k =>
    have : k ≠ m := fun hk => hne.2 (by rw [hk])
    simp only [Held.step, Bool.or_eq_true, List.contains_iff_mem, List.mem_cons] at hh ⊢
    rcases hh with (h1 | h1) | h1
    · exact absurd h1.symm this
    · exact Or.inl h1
    · exact Or.inr h1
  | lock k =>
    have : k ≠ m := fun hk => hne.1 (by rw [hk])
    simp only [Held.step, Bool.or_eq_true, List.contains_iff_mem, List.mem_cons] at hh ⊢
    rcases hh with h1 | (h1 | h1)
    · exact Or.inl h1
    · exact absurd h1.symm this
    · exact Or.inr h1
  | runlock k =>
    simp only [Held.step, Bool.or_eq_true, List.contains_iff_mem] at hh ⊢
    rcases hh with h1 | h1
    · exact Or.inl (List.mem_of_mem_erase h1)
    · exact Or.inr h1
  | unlock k =>
    simp only [Held.step, Bool.or_eq_true, List.contains_iff_mem] at hh ⊢
    rcases hh with h1 | h1
    · exact Or.inl h1
    · exact Or.inr (List.mem_of_mem_erase h1)
  | read x => exact hh
  | write x => exact hh

theorem holdsW_step_sub (h : Held) (e : Ev) (m : Nat) (hne : e ≠ .lock m)
    (hh : (h.step e).w.contains m = true) : h.w.contains m = true := by
  cases e with
  | lock k =>
    have : k ≠ m := fun hk => hne (by rw [hk])
    simp only [Held.step, List.contains_iff_mem, List.mem_cons] at hh ⊢
    rcases hh with h1 | h1
    · exact absurd h1.symm this
    · exact h1
  | unlock k =>
    simp only [Held.step, List.contains_iff_mem] at hh ⊢
    exact List.mem_of_mem_erase hh
  | rlock k => exact hh
  | runlock k => exact hh
  | read x => exact hh
  | write x => exact hh

/-- firing an enabled event keeps every pair of threads compatible -/
theorem step_inv (P : Protects) (pre post : List Thread) (t : Thread)
    (hinv : Inv P (pre ++ t :: post)) (hf : canFire t (pre ++ post) = true) :
    Inv P (pre ++ t.advance :: post) := by
  obtain ⟨hwf, hpw⟩ := hinv
  cases htodo : t.todo with
  | nil => simp [canFire, htodo] at hf
  | cons e rest =>
    have hadv : t.advance = ⟨t.done ++ [e], rest⟩ := by simp [Thread.advance, htodo]
    constructor
    · intro u hu
      rw [List.mem_append, List.mem_cons] at hu
      rcases hu with hu | rfl | hu
      · exact hwf u (by simp [hu])
      · rw [hadv]
        have := hwf t (by simp)
        rw [htodo] at this
        simpa using this
      · exact hwf u (by simp [hu])
    · apply pairwise_replace pre post t _ hpw
      intro o ho
      have hto := mem_others_compat pre post t hpw o ho
      have hheld : t.advance.held = t.held.step e := by
        rw [hadv]; exact heldAfter_snoc t.done e
      intro m
      constructor
      · -- the advanced thread holds W on m ⇒ o does not hold m
        intro hw'
        unfold Thread.holdsW at hw'
        rw [hheld] at hw'
        by_cases he : e = .lock m
        · -- just acquired: enabled only if nobody else holds m
          subst he
          simp only [canFire, htodo, Bool.and_eq_true, List.all_eq_true] at hf
          have := hf.2 o ho
          simpa using this
        · exact (hto m).1 (holdsW_step_sub _ _ _ he hw')
      · intro how
        unfold Thread.holds
        rw [hheld]
        by_cases he : e = .lock m ∨ e = .rlock m
        · rcases he with he | he
          · subst he
            simp only [canFire, htodo, Bool.and_eq_true, List.all_eq_true] at hf
            have := hf.2 o ho
            have ho2 : o.holds m = true := holds_of_holdsW o m how
            simp [ho2] at this
          · subst he
            simp only [canFire, htodo, Bool.and_eq_true, List.all_eq_true] at hf
            have := hf.2 o ho
            simp [how] at this
        · have hne : e ≠ .lock m ∧ e ≠ .rlock m := ⟨fun h => he (Or.inl h), fun h => he (Or.inr h)⟩
          cases hcase : (t.held.step e).has m with
          | false => rfl
          | true =>
            have := holds_step_sub _ _ _ hne hcase
            have h2 := (hto m).2 how
            unfold Thread.holds at h2
            rw [h2] at this
            simp at this

theorem reach_inv (P : Protects) (progs : List Prog) (h : ∀ p ∈ progs, wellFormed P p = true)
    (ts : List Thread) (hr : Reach (start progs) ts) : Inv P ts := by
  induction hr with
  | refl => exact start_inv P progs h
  | step pre post t _ hf ih => exact step_inv P pre post t ih hf

/-! ### no data race -/

/-- two threads are about to access the same variable, one of them writing -/
def Conflict (a b : Thread) : Prop :=
  ∃ x ra rb, (a.todo = .write x :: ra ∧ (b.todo = .write x :: rb ∨ b.todo = .read x :: rb)) ∨
             (b.todo = .write x :: rb ∧ (a.todo = .write x :: ra ∨ a.todo = .read x :: ra))

theorem compatible_no_conflict (P : Protects) (a b : Thread)
    (ha : wellFormed P (a.done ++ a.todo) = true) (hb : wellFormed P (b.done ++ b.todo) = true)
    (hc : Compatible a b) : ¬ Conflict a b := by
  rintro ⟨x, ra, rb, h | h⟩
  · obtain ⟨haw, hbx⟩ := h
    have h1 := (access_guarded P a ha).1 x ra haw
    have h2 : b.holds (P x) = true := by
      rcases hbx with hbx | hbx
      · exact holds_of_holdsW b _ ((access_guarded P b hb).1 x rb hbx)
      · exact (access_guarded P b hb).2 x rb hbx
    have := (hc (P x)).1 h1
    rw [this] at h2; simp at h2
  · obtain ⟨hbw, hax⟩ := h
    have h1 := (access_guarded P b hb).1 x rb hbw
    have h2 : a.holds (P x) = true := by
      rcases hax with hax | hax
      · exact holds_of_holdsW a _ ((access_guarded P a ha).1 x ra hax)
      · exact (access_guarded P a ha).2 x ra hax
    have := (hc (P x)).2 h1
    rw [this] at h2; simp at h2

end SamlVerif.Locks

namespace SamlVerif.Locks

/-! ### no deadlock -/

def Wants (t : Thread) (m : Nat) : Prop := ∃ rest, t.todo = .lock m :: rest ∨ t.todo = .rlock m :: rest

/-- nothing can fire -/
def AllBlocked (ts : List Thread) : Prop :=
  ∀ pre t post, ts = pre ++ t :: post → canFire t (pre ++ post) = false

theorem blocked_wants (ts : List Thread) (hb : AllBlocked ts) (t : Thread) (ht : t ∈ ts) (hne : t.todo ≠ []) :
    ∃ m, Wants t m := by
  obtain ⟨pre, post, hdec⟩ := List.append_of_mem ht
  have := hb pre t post hdec
  cases htodo : t.todo with
  | nil => exact absurd htodo hne
  | cons e rest =>
    cases e with
    | lock m => exact ⟨m, rest, Or.inl htodo⟩
    | rlock m => exact ⟨m, rest, Or.inr htodo⟩
    | runlock m => simp [canFire, htodo] at this
    | unlock m => simp [canFire, htodo] at this
    | read x => simp [canFire, htodo] at this
    | write x => simp [canFire, htodo] at this

theorem blocked_lock_has_holder (ts : List Thread) (hb : AllBlocked ts) (t : Thread) (ht : t ∈ ts)
    (m : Nat) (rest : Prog) (hn : t.todo = .lock m :: rest) : ∃ t' ∈ ts, t'.holds m = true := by
  obtain ⟨pre, post, hdec⟩ := List.append_of_mem ht
  have hcf := hb pre t post hdec
  simp only [canFire, hn] at hcf
  by_cases hself : t.holds m = true
  · exact ⟨t, ht, hself⟩
  · have hs : t.holds m = false := by simpa using hself
    simp only [hs, Bool.not_false, Bool.true_and] at hcf
    rw [List.all_eq_false] at hcf
    obtain ⟨o, ho, hoh⟩ := hcf
    refine ⟨o, ?_, by simpa using hoh⟩
    rw [hdec]
    rw [List.mem_append] at ho ⊢
    rcases ho with ho | ho
    · exact Or.inl ho
    · exact Or.inr (by simp [ho])

theorem blocked_has_holder (ts : List Thread) (hb : AllBlocked ts) (t : Thread) (ht : t ∈ ts) (m : Nat)
    (hw : Wants t m) : ∃ t' ∈ ts, t'.holds m = true := by
  obtain ⟨rest, hn | hn⟩ := hw
  · exact blocked_lock_has_holder ts hb t ht m rest hn
  · obtain ⟨pre, post, hdec⟩ := List.append_of_mem ht
    have hcf := hb pre t post hdec
    simp only [canFire, hn] at hcf
    by_cases hself : t.holdsW m = true
    · exact ⟨t, ht, holds_of_holdsW t m hself⟩
    · have hs : t.holdsW m = false := by simpa using hself
      simp only [hs, Bool.not_false, Bool.true_and] at hcf
      rw [List.all_eq_false] at hcf
      obtain ⟨o, ho, hoh⟩ := hcf
      have hom : o ∈ ts := by
        rw [hdec]
        rw [List.mem_append] at ho ⊢
        rcases ho with ho | ho
        · exact Or.inl ho
        · exact Or.inr (by simp [ho])
      simp only [Bool.and_eq_true, Bool.not_eq_eq_eq_not, Bool.not_true, not_and, Bool.not_eq_false] at hoh
      by_cases how : o.holdsW m = true
      · exact ⟨o, hom, holds_of_holdsW o m how⟩
      · have how' : o.holdsW m = false := by simpa using how
        have hwant : o.wantsW m = true := hoh how'
        -- a waiting writer is itself blocked, so somebody holds m
        unfold Thread.wantsW at hwant
        cases hto : o.todo with
        | nil => simp [hto] at hwant
        | cons e r =>
          simp [hto] at hwant
          subst hwant
          exact blocked_lock_has_holder ts hb o hom m r hto

def mutexOf : Ev → Nat
  | .lock m => m
  | .rlock m => m
  | .unlock m => m
  | .runlock m => m
  | _ => 0

def bound (ts : List Thread) : Nat := (ts.flatMap (fun t => t.todo.map mutexOf)).foldr max 0

theorem le_foldr_max (l : List Nat) (x : Nat) (h : x ∈ l) : x ≤ l.foldr max 0 := by
  induction l with
  | nil => simp at h
  | cons y ys ih =>
    simp only [List.foldr_cons]
    simp only [List.mem_cons] at h
    rcases h with rfl | h
    · exact Nat.le_max_left _ _
    · exact Nat.le_trans (ih h) (Nat.le_max_right _ _)

theorem wants_le_bound (ts : List Thread) (t : Thread) (ht : t ∈ ts) (m : Nat) (hw : Wants t m) : m ≤ bound ts := by
  unfold bound
  apply le_foldr_max
  rw [List.mem_flatMap]
  refine ⟨t, ht, ?_⟩
  obtain ⟨rest, hn | hn⟩ := hw <;> rw [hn] <;> simp [mutexOf]

/-- **Progress**: if every thread's program is well formed (ordered, non-re-entrant acquisition; every
    lock released) then in *every* configuration with an unfinished thread some thread can fire — for
    any number of threads and any programs.  Hence no reachable state is a deadlock and, under a fair
    scheduler, every request completes. -/
theorem progress (P : Protects) (ts : List Thread)
    (hwf : ∀ t ∈ ts, wellFormed P (t.done ++ t.todo) = true) (hun : ∃ t ∈ ts, t.todo ≠ []) :
    ∃ pre t post, ts = pre ++ t :: post ∧ canFire t (pre ++ post) = true := by
  apply Classical.byContradiction
  intro hno
  have hb : AllBlocked ts := by
    intro pre t post hdec
    cases hc : canFire t (pre ++ post) with
    | false => rfl
    | true => exact absurd ⟨pre, t, post, hdec, hc⟩ hno
  -- an unbounded chain of ever higher wanted mutexes
  have chain : ∀ n, ∃ t ∈ ts, ∃ m, Wants t m ∧ n ≤ m := by
    intro n
    induction n with
    | zero =>
      obtain ⟨t, ht, hne⟩ := hun
      obtain ⟨m, hm⟩ := blocked_wants ts hb t ht hne
      exact ⟨t, ht, m, hm, Nat.zero_le _⟩
    | succ n ih =>
      obtain ⟨t, ht, m, hm, hle⟩ := ih
      obtain ⟨t', ht', hh⟩ := blocked_has_holder ts hb t ht m hm
      have hne : t'.todo ≠ [] := by
        intro hf
        have := finished_holds_nothing P t' (hwf t' ht') hf m
        rw [this] at hh; simp at hh
      obtain ⟨m', hm'⟩ := blocked_wants ts hb t' ht' hne
      have hlt : m < m' := by
        obtain ⟨rest, hn⟩ := hm'
        exact acquire_above P t' (hwf t' ht') m' rest hn m hh
      exact ⟨t', ht', m', hm', by omega⟩
  obtain ⟨t, ht, m, hm, hle⟩ := chain (bound ts + 1)
  have := wants_le_bound ts t ht m hm
  omega

end SamlVerif.Locks
