/-
  Proofs/TransIdP — the definitions regenerated from identity_provider.go (`Generated/Trans.lean`: getACSEndpoint and the
  checking part of IdpAuthnRequest.Validate) computed in closed form: the four nested range loops of getACSEndpoint are
  four searches over the (descriptor, endpoint) pairs of the registered metadata (`nested_search`), combined exactly as
  the selection rule of C05 says (`selectSpec`).  Loop bodies are taken from the regenerated definition by unification,
  never copied here.
-/
import SamlVerif.Generated.Trans
import SamlVerif.Model.IdP
open SamlVerif SamlVerif.GoSem

namespace SamlVerif.TransIdP

def vOf2 {α ρ σ : Type} (B : α → (Option ρ × σ) → Outcome (ForInStep (Option ρ × σ))) (s : σ) (x : α) : Option (ρ × σ) :=
  match B x (none, s) with
  | .ok (.done (some r, s')) => some (r, s')
  | _ => none

def found {ρ σ : Type} (s : σ) : Option (ρ × σ) → (Option ρ × σ)
  | some (r, s') => (some r, s')
  | none => (none, s)

theorem forIn_search {α ρ σ : Type} (xs : List α) (s : σ)
    (B : α → (Option ρ × σ) → Outcome (ForInStep (Option ρ × σ)))
    (hB : ∀ x, B x (none, s) = .ok (.yield (none, s)) ∨ ∃ r s', B x (none, s) = .ok (.done (some r, s'))) :
    forIn xs (none, s) B = .ok (found s (xs.findSome? (vOf2 B s))) := by
  induction xs with
  | nil => simp [found]
  | cons x xs ih =>
    simp only [List.forIn_cons, List.findSome?_cons]
    rcases hB x with h | ⟨r, s', h⟩
    · simp only [h, Outcome.ok_bind', vOf2]
      exact ih
    · simp [h, vOf2, found]

/-- the (descriptor, endpoint) pairs of the registered metadata, in document order -/
def pairs (md : Trans.EntityDescriptor) : List (Trans.SPSSODescriptor × Trans.IndexedEndpoint) :=
  md.SPSSODescriptors.flatMap fun d => d.AssertionConsumerServices.map fun e => (d, e)

def chosen (req : Trans.IdpAuthnRequest) (p : Trans.SPSSODescriptor × Trans.IndexedEndpoint) : Trans.IdpAuthnRequest :=
  { req with SPSSODescriptor := some p.1, ACSEndpoint := some p.2 }

/-- a nested search: descriptors, then their endpoints; the first endpoint meeting `crit` is chosen -/
theorem nested_search (req : Trans.IdpAuthnRequest) (md : Trans.EntityDescriptor) (crit : Trans.IndexedEndpoint → Bool)
    (Bin : Trans.SPSSODescriptor → Trans.IndexedEndpoint → (Option (Trans.IdpAuthnRequest × GoError) × Trans.IdpAuthnRequest) →
      Outcome (ForInStep (Option (Trans.IdpAuthnRequest × GoError) × Trans.IdpAuthnRequest)))
    (K : (Option (Trans.IdpAuthnRequest × GoError) × Trans.IdpAuthnRequest) →
      Outcome (ForInStep (Option (Trans.IdpAuthnRequest × GoError) × Trans.IdpAuthnRequest)))
    (hin : ∀ d e, Bin d e (none, req) = if crit e then .ok (.done (some (chosen req (d, e), none), chosen req (d, e))) else .ok (.yield (none, req)))
    (hK1 : ∀ r s, K (some r, s) = .ok (.done (some r, s))) (hK2 : ∀ s, K (none, s) = .ok (.yield (none, s))) :
    forIn md.SPSSODescriptors (none, req) (fun (d : Trans.SPSSODescriptor) (s : Option (Trans.IdpAuthnRequest × GoError) × Trans.IdpAuthnRequest) =>
        forIn d.AssertionConsumerServices (none, s.snd) (Bin d) >>= K)
      = .ok (match (pairs md).find? (fun (p : Trans.SPSSODescriptor × Trans.IndexedEndpoint) => crit p.2) with
             | some p => (some (chosen req p, none), chosen req p)
             | none => (none, req)) := by
  have hinner : ∀ d : Trans.SPSSODescriptor, forIn d.AssertionConsumerServices (none, req) (Bin d) =
      .ok (match d.AssertionConsumerServices.find? (fun e => crit e) with
           | some e => (some (chosen req (d, e), none), chosen req (d, e))
           | none => (none, req)) := by
    intro d
    induction d.AssertionConsumerServices with
    | nil => simp
    | cons e es ih =>
      simp only [List.forIn_cons, hin, List.find?_cons]
      cases hc : crit e <;> simp [ih]
  unfold pairs
  induction md.SPSSODescriptors with
  | nil => simp
  | cons d ds ih =>
    simp only [List.forIn_cons, hinner, List.flatMap_cons, List.find?_append, List.find?_map]
    cases hf : d.AssertionConsumerServices.find? (fun e => crit e) with
    | some e =>
      have : List.find? ((fun p : Trans.SPSSODescriptor × Trans.IndexedEndpoint => crit p.2) ∘ fun e => (d, e)) d.AssertionConsumerServices = some e := hf
      simp [this, hK1]
    | none =>
      have : List.find? ((fun p : Trans.SPSSODescriptor × Trans.IndexedEndpoint => crit p.2) ∘ fun e => (d, e)) d.AssertionConsumerServices = none := hf
      simp [this, hK2]
      rw [ih]
      simp [List.find?_flatMap, List.find?_map]

def isBrowser (b : String) : Bool :=
  b == "urn:oasis:names:tc:SAML:2.0:bindings:HTTP-POST" || b == "urn:oasis:names:tc:SAML:2.0:bindings:HTTP-Redirect"

/-- the selection rule, on the regenerated types: requested index, else requested URL, else (when neither is given) the
    default browser-binding endpoint, else the first browser-binding endpoint -/
def selectSpec (md : Trans.EntityDescriptor) (r : Trans.AuthnRequest) : Option (Trans.SPSSODescriptor × Trans.IndexedEndpoint) :=
  let ps := pairs md
  let byIndex := if r.AssertionConsumerServiceIndex ≠ "" then ps.find? (fun p => itoa p.2.Index == r.AssertionConsumerServiceIndex) else none
  match byIndex with
  | some p => some p
  | none =>
    let byURL := if r.AssertionConsumerServiceURL ≠ "" then ps.find? (fun p => p.2.Location == r.AssertionConsumerServiceURL) else none
    match byURL with
    | some p => some p
    | none =>
      if r.AssertionConsumerServiceURL = "" ∧ r.AssertionConsumerServiceIndex = "" then
        match ps.find? (fun p => p.2.IsDefault == some true && isBrowser p.2.Binding) with
        | some p => some p
        | none => ps.find? (fun p => isBrowser p.2.Binding)
      else none

theorem getACSEndpoint_eq (env : Trans.Env) (req : Trans.IdpAuthnRequest) (md : Trans.EntityDescriptor)
    (h : req.ServiceProviderMetadata = some md) :
    Trans.getACSEndpoint env req = .ok (match selectSpec md req.Request with
      | some p => (chosen req p, none)
      | none => (req, some "os.ErrNotExist")) := by
  unfold Trans.getACSEndpoint selectSpec
  simp only [h, deref_some, Outcome.ok_bind', Outcome.pure_eq_ok]
  have hK1 : ∀ (r : Trans.IdpAuthnRequest × GoError) (s : Trans.IdpAuthnRequest),
      (match (some r, s).fst with
        | some r => (Outcome.ok (ForInStep.done (some r, (some r, s).snd)) : Outcome (ForInStep (Option (Trans.IdpAuthnRequest × GoError) × Trans.IdpAuthnRequest)))
        | none => Outcome.ok (ForInStep.yield (none, (some r, s).snd))) = .ok (.done (some r, s)) := by intros; rfl
  by_cases hi : req.Request.AssertionConsumerServiceIndex = ""
  · by_cases hu : req.Request.AssertionConsumerServiceURL = ""
    · simp [hi, hu, h]
      rw [nested_search req md (fun e => e.IsDefault == some true && isBrowser e.Binding)]
      · cases hf1 : List.find? (fun p => p.snd.IsDefault == some true && isBrowser p.snd.Binding) (pairs md) with
        | some p => simp
        | none =>
          simp only [Outcome.ok_bind', h, deref_some]
          rw [nested_search req md (fun e => isBrowser e.Binding)]
          · cases hf2 : List.find? (fun p => isBrowser p.snd.Binding) (pairs md) with
            | some p => simp
            | none => simp
          · intro d e
            by_cases hb1 : e.Binding = "urn:oasis:names:tc:SAML:2.0:bindings:HTTP-POST" <;>
              by_cases hb2 : e.Binding = "urn:oasis:names:tc:SAML:2.0:bindings:HTTP-Redirect" <;> simp [hb1, hb2, chosen, isBrowser]
          · intro r s; rfl
          · intro s; rfl
      · intro d e
        cases hd : e.IsDefault with
        | none => simp [isBrowser]
        | some b =>
          cases b <;> simp [isBrowser]
          by_cases hb1 : e.Binding = "urn:oasis:names:tc:SAML:2.0:bindings:HTTP-POST" <;>
            by_cases hb2 : e.Binding = "urn:oasis:names:tc:SAML:2.0:bindings:HTTP-Redirect" <;> simp [hb1, hb2, chosen]
      · intro r s; rfl
      · intro s; rfl
    · simp [hi, hu, h]
      rw [nested_search req md (fun e => e.Location == req.Request.AssertionConsumerServiceURL)]
      · cases hf2 : List.find? (fun p => p.snd.Location == req.Request.AssertionConsumerServiceURL) (pairs md) with
        | some p => simp [hu]
        | none => simp [hu]
      · intro d e
        by_cases hc : e.Location = req.Request.AssertionConsumerServiceURL <;> simp [hc, chosen]
      · intro r s; rfl
      · intro s; rfl
  · simp only [hi, ne_eq, not_false_eq_true, if_true, ite_true]
    rw [nested_search req md (fun e => itoa e.Index == req.Request.AssertionConsumerServiceIndex)]
    · cases hf : List.find? (fun p => itoa p.snd.Index == req.Request.AssertionConsumerServiceIndex) (pairs md) with
      | some p => simp [hi]
      | none =>
        simp only [Outcome.ok_bind']
        by_cases hu : req.Request.AssertionConsumerServiceURL = ""
        · simp [hi, hu]
        · simp only [hu, hi, h, deref_some, Outcome.ok_bind', ite_false, if_false, ne_eq, not_false_eq_true, ite_true, if_true, false_and, and_false]
          rw [nested_search req md (fun e => e.Location == req.Request.AssertionConsumerServiceURL)]
          · cases hf2 : List.find? (fun p => p.snd.Location == req.Request.AssertionConsumerServiceURL) (pairs md) with
            | some p => simp [hu]
            | none => simp [hu]
          · intro d e
            by_cases hc : e.Location = req.Request.AssertionConsumerServiceURL <;> simp [hc, chosen]
          · intro r s; rfl
          · intro s; rfl
    · intro d e
      by_cases hc : itoa e.Index = req.Request.AssertionConsumerServiceIndex <;> simp [hc, chosen]
    · intro r s; rfl
    · intro s; rfl
end SamlVerif.TransIdP
