import SamlVerif.Model.Bindings
import SamlVerif.Proofs.Query
import SamlVerif.Proofs.Base64

namespace SamlVerif.Bindings
open SamlVerif.Codec

theorem parseQuery_nil : parseQuery [] = ([], true) := by
  rw [parseQuery_eq]
  simp [splitOn, stepPQ]

theorem parseQuery_cons (k v q : Bytes) :
    parseQuery (encodePair k v ++ 38 :: q) = ((k, v) :: (parseQuery q).1, (parseQuery q).2) := by
  obtain ⟨hamp, _, _⟩ := encodePair_props k v
  rw [parseQuery_eq, parseQuery_eq, splitOn_append' 38 _ _ hamp]
  simp only [List.foldr_cons, stepPQ_encodePair]

theorem parseQuery_encodePairs (ps : List (Bytes × Bytes)) : parseQuery (encodePairs ps) = (ps, true) := by
  induction ps with
  | nil => exact parseQuery_nil
  | cons p rest ih =>
    obtain ⟨k, v⟩ := p
    cases rest with
    | nil => exact parseQuery_single k v
    | cons p2 rest2 =>
      show parseQuery (encodePair k v ++ 38 :: encodePairs (p2 :: rest2)) = _
      rw [parseQuery_cons, ih]

/-- the endpoint's own query followed by `&`, or nothing -/
def pre (rawQuery : Bytes) : Bytes := if rawQuery = [] then [] else rawQuery ++ [38]

theorem parseQuery_pre (q0 k v : Bytes) :
    parseQuery (pre q0 ++ encodePair k v) = ((parseQuery q0).1 ++ [(k, v)], (parseQuery q0).2) := by
  unfold pre
  by_cases h : q0 = []
  · simp [h, parseQuery_single, parseQuery_nil]
  · rw [if_neg h]
    have : q0 ++ [38] ++ encodePair k v = q0 ++ 38 :: encodePair k v := by simp
    rw [this, parseQuery_snoc]

/-- parameters the unsigned redirect URL carries, in order -/
def expectedParams (msg relay : Bytes) : List (Bytes × Bytes) :=
  (kSAMLRequest, msg) :: (if relay = [] then [] else [(kRelayState, relay)])

theorem redirect_unsigned_params (q0 msg relay : Bytes) :
    parseQuery (redirectQuery q0 msg relay none) =
      ((parseQuery q0).1 ++ expectedParams msg relay, (parseQuery q0).2) := by
  unfold redirectQuery expectedParams
  simp only
  change parseQuery (pre q0 ++ encodePair kSAMLRequest msg ++ _) = _
  by_cases hr : relay = []
  · simp only [hr, if_true, List.append_nil]
    exact parseQuery_pre q0 _ _
  · simp only [hr, if_false]
    rw [parseQuery_snoc, parseQuery_pre]
    simp

theorem signedOctets_params (q0 msg relay alg : Bytes) :
    parseQuery (pre q0 ++ signedOctets msg relay alg) =
      ((parseQuery q0).1 ++ expectedParams msg relay ++ [(kSigAlg, alg)], (parseQuery q0).2) := by
  unfold signedOctets expectedParams
  by_cases hr : relay = []
  · simp only [hr, if_true, List.append_nil]
    have : pre q0 ++ (encodePair kSAMLRequest msg ++ 38 :: encodePair kSigAlg alg) =
        (pre q0 ++ encodePair kSAMLRequest msg) ++ 38 :: encodePair kSigAlg alg := by simp
    rw [this, parseQuery_snoc, parseQuery_pre]
  · simp only [hr, if_false]
    have : pre q0 ++ (encodePair kSAMLRequest msg ++ 38 :: encodePair kRelayState relay ++ 38 :: encodePair kSigAlg alg) =
        ((pre q0 ++ encodePair kSAMLRequest msg) ++ 38 :: encodePair kRelayState relay) ++ 38 :: encodePair kSigAlg alg := by
      simp
    rw [this, parseQuery_snoc, parseQuery_snoc, parseQuery_pre]
    simp

theorem redirect_signed_params (q0 msg relay alg : Bytes) (sign : Bytes → Bytes) :
    parseQuery (redirectQuery q0 msg relay (some (alg, sign))) =
      ((parseQuery q0).1 ++ expectedParams msg relay ++
        [(kSigAlg, alg), (kSignature, b64encode (sign (signedOctets msg relay alg)))], (parseQuery q0).2) := by
  unfold redirectQuery
  simp only
  change parseQuery (pre q0 ++ signedOctets msg relay alg ++ 38 :: _) = _
  rw [parseQuery_snoc, signedOctets_params]
  simp

/-! ### counting -/

theorem countParam_append (a b : List (Bytes × Bytes)) (k : Bytes) :
    countParam (a ++ b) k = countParam a k + countParam b k := by
  unfold countParam
  simp

theorem getParam_append_of_absent (a b : List (Bytes × Bytes)) (k : Bytes) (h : countParam a k = 0) :
    getParam (a ++ b) k = getParam b k := by
  unfold getParam countParam at *
  have : a.find? (fun p => decide (p.1 = k)) = none := by
    rw [List.find?_eq_none]
    intro x hx
    have h' : a.filter (fun p => decide (p.1 = k)) = [] := List.eq_nil_of_length_eq_zero h
    rw [List.filter_eq_nil_iff] at h'
    exact h' x hx
  rw [List.find?_append, this]
  simp

/-! ### hex IDs -/

theorem hexLower_toNat (n : Nat) (h : n < 16) :
    (hexLower n).toNat = if n < 10 then 48 + n else 87 + n := by
  unfold hexLower
  split
  · rw [UInt8.toNat_ofNat']; omega
  · rw [UInt8.toNat_ofNat']; omega

theorem hexLower_inj (a b : Nat) (ha : a < 16) (hb : b < 16) (h : hexLower a = hexLower b) : a = b := by
  have := congrArg UInt8.toNat h
  rw [hexLower_toNat a ha, hexLower_toNat b hb] at this
  split at this <;> split at this <;> omega

theorem hexBytes_length (r : Bytes) : (hexBytes r).length = 2 * r.length := by
  induction r with
  | nil => rfl
  | cons b r ih => simp [hexBytes, ih]; omega

theorem hexBytes_inj (a b : Bytes) (h : hexBytes a = hexBytes b) : a = b := by
  induction a generalizing b with
  | nil =>
    cases b with
    | nil => rfl
    | cons y ys => simp [hexBytes] at h
  | cons x xs ih =>
    cases b with
    | nil => simp [hexBytes] at h
    | cons y ys =>
      simp only [hexBytes, List.cons.injEq] at h
      obtain ⟨h1, h2, h3⟩ := h
      have hx := x.toNat_lt
      have hy := y.toNat_lt
      have e1 := hexLower_inj _ _ (by omega) (by omega) h1
      have e2 := hexLower_inj _ _ (by omega) (by omega) h2
      have : x = y := by
        apply UInt8.toNat_inj.mp
        omega
      rw [this, ih ys h3]

end SamlVerif.Bindings
