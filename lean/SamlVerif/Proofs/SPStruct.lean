/-
  Refinement of SP.Struct to a declarative specification (`accept_iff`), from which the property
  theorems of C02, C03, C04 (and the struct level of C01, C09) are corollaries.
-/
import SamlVerif.Model.SPStruct

namespace SamlVerif.SP

/-! ### Declarative specification -/

/-- A subject confirmation is acceptable. -/
structure SCValid (cfg : Cfg) (now : Int) (ids : List String) (sc : SubjConf) : Prop where
  ex : ∃ d, sc.data = some d ∧
        (cfg.allowIdP = false → d.inResponseTo ∈ ids) ∧
        d.recipient = cfg.acsURL ∧
        now ≤ d.notOnOrAfter + cfg.skew

def AudienceOK (cfg : Cfg) (a : AssertionS) (c : Conditions) : Prop :=
  match cfg.audValidator with
  | some f => f a = true
  | none => c.audiences = [] ∨ cfg.audience ∈ c.audiences

structure AssertionValid (cfg : Cfg) (now : Int) (ids : List String) (a : AssertionS) : Prop where
  fresh : now ≤ a.issueInstant + cfg.delay
  issuer : a.issuer = cfg.idpEntityID
  subj : ∃ scs, a.subject = some scs ∧ ∀ sc ∈ scs, SCValid cfg now ids sc
  cond : ∃ c, a.conditions = some c ∧ c.notBefore - cfg.skew ≤ now ∧
          now ≤ c.notOnOrAfter + cfg.skew ∧ AudienceOK cfg a c

def ReqIdOK (cfg : Cfg) (r : ResponseS) (ids : List String) : Prop :=
  match cfg.reqIdValidator with
  | some f => f r ids = true
  | none => cfg.allowIdP = true ∨ r.inResponseTo ∈ ids

/-- Response-level conditions. -/
structure RespOK (cfg : Cfg) (now : Int) (ids : List String) (url : String)
    (need : Need) (respSig : SigState) (r : ResponseS) : Prop where
  dest : ((need = .required ∧ respSig ≠ .absent) ∨ r.destination ≠ "") →
          r.destination = url ∨ r.destination = cfg.acsURL
  reqId : ReqIdOK cfg r ids
  fresh : now ≤ r.issueInstant + cfg.delay
  issuer : ∀ i, r.issuer = some i → i = cfg.idpEntityID
  status : r.status = cfg.statusSuccess
  sig : need = .required → respSig ≠ .invalid

/-- An assertion child is acceptable under requirement `need`. -/
structure EntryGood (cfg : Cfg) (now : Int) (ids : List String) (need : Need) (e : Entry) : Prop where
  decrypts : e.wrap ≠ .encBad
  signed : need = .required → e.sig = .valid
  valid : AssertionValid cfg now ids e.a

/-- `a` is the assertion of the first acceptable entry of `l`. -/
def FirstGood (cfg : Cfg) (now : Int) (ids : List String) (need : Need) (l : List Entry)
    (a : AssertionS) : Prop :=
  ∃ pre e post, l = pre ++ e :: post ∧ EntryGood cfg now ids need e ∧ e.a = a ∧
    ∀ e' ∈ pre, ¬ EntryGood cfg now ids need e'

/-! ### Lemmas -/

theorem scCheck_ne_panic (cfg now ids sc w) : scCheck cfg now ids sc ≠ .panic w := by
  unfold scCheck
  split
  · simp
  · split
    · simp
    · split
      · simp
      · split <;> simp

theorem scCheck_ok_iff (cfg : Cfg) (now : Int) (ids : List String) (sc : SubjConf) :
    scCheck cfg now ids sc = .ok () ↔ SCValid cfg now ids sc := by
  unfold scCheck
  constructor
  · intro h
    split at h
    · simp at h
    · rename_i d hd
      split at h
      · simp at h
      · rename_i h1
        split at h
        · simp at h
        · rename_i h2
          split at h
          · simp at h
          · rename_i h3
            refine ⟨d, hd, ?_, ?_, ?_⟩
            · intro ha
              simp [ha] at h1
              exact h1
            · simpa using h2
            · omega
  · rintro ⟨d, hd, h1, h2, h3⟩
    simp only [hd]
    have : ¬ ((!cfg.allowIdP && !ids.contains d.inResponseTo) = true) := by
      cases ha : cfg.allowIdP
      · have := h1 ha
        simp [this]
      · simp
    rw [if_neg this]
    have h2' : ¬ (d.recipient ≠ cfg.acsURL) := by simp [h2]
    rw [if_neg h2']
    have h3' : ¬ (d.notOnOrAfter + cfg.skew < now) := by omega
    rw [if_neg h3']

theorem scLoop_ne_panic (cfg now ids) (scs : List SubjConf) (w) :
    scLoop cfg now ids scs ≠ .panic w := by
  induction scs with
  | nil => simp [scLoop]
  | cons sc rest ih =>
    unfold scLoop
    split
    · exact ih
    · simp
    · rename_i w' h
      exact absurd h (scCheck_ne_panic _ _ _ _ _)

theorem scLoop_ok_iff (cfg : Cfg) (now : Int) (ids : List String) (scs : List SubjConf) :
    scLoop cfg now ids scs = .ok () ↔ ∀ sc ∈ scs, SCValid cfg now ids sc := by
  induction scs with
  | nil => simp [scLoop]
  | cons sc rest ih =>
    unfold scLoop
    split
    · rename_i h
      rw [ih]
      have := (scCheck_ok_iff cfg now ids sc).mp h
      simp [this]
    · rename_i s h
      constructor
      · intro h'; simp at h'
      · intro h'
        have : SCValid cfg now ids sc := h' sc (by simp)
        rw [← scCheck_ok_iff] at this
        rw [this] at h; simp at h
    · rename_i w h
      exact absurd h (scCheck_ne_panic _ _ _ _ _)

theorem audienceOK_iff (cfg : Cfg) (a : AssertionS) (c : Conditions) :
    audienceOK cfg a c = true ↔ AudienceOK cfg a c := by
  unfold audienceOK AudienceOK
  cases cfg.audValidator with
  | some f => simp
  | none => simp [List.isEmpty_iff]

theorem validateAssertion_ne_panic (cfg now ids a w) :
    validateAssertion cfg now ids a ≠ .panic w := by
  unfold validateAssertion
  split
  · simp
  · split
    · simp
    · split
      · simp
      · split
        · simp
        · rename_i h; exact absurd h (scLoop_ne_panic _ _ _ _ _)
        · split
          · simp
          · split
            · simp
            · split
              · simp
              · split <;> simp

theorem validateAssertion_ok_iff (cfg : Cfg) (now : Int) (ids : List String) (a : AssertionS) :
    validateAssertion cfg now ids a = .ok () ↔ AssertionValid cfg now ids a := by
  unfold validateAssertion
  constructor
  · intro h
    split at h
    · simp at h
    · rename_i h1
      split at h
      · simp at h
      · rename_i h2
        split at h
        · simp at h
        · rename_i scs hs
          split at h
          · simp at h
          · simp at h
          · rename_i hl
            split at h
            · simp at h
            · rename_i c hc
              split at h
              · simp at h
              · rename_i h3
                split at h
                · simp at h
                · rename_i h4
                  split at h
                  · simp at h
                  · rename_i h5
                    refine ⟨by omega, by simpa using h2, ⟨scs, hs, (scLoop_ok_iff _ _ _ _).mp hl⟩,
                      ⟨c, hc, by omega, by omega, ?_⟩⟩
                    rw [← audienceOK_iff]
                    simpa using h5
  · rintro ⟨h1, h2, ⟨scs, hs, hl⟩, ⟨c, hc, h3, h4, h5⟩⟩
    have e1 : ¬ (a.issueInstant + cfg.delay < now) := by omega
    have e2 : ¬ (a.issuer ≠ cfg.idpEntityID) := by simp [h2]
    rw [if_neg e1, if_neg e2]
    simp only [hs]
    rw [(scLoop_ok_iff _ _ _ _).mpr hl]
    simp only [hc]
    have e3 : ¬ (c.notBefore - cfg.skew > now) := by omega
    have e4 : ¬ (c.notOnOrAfter + cfg.skew < now) := by omega
    rw [if_neg e3, if_neg e4]
    have e5 : audienceOK cfg a c = true := (audienceOK_iff _ _ _).mpr h5
    simp [e5]

theorem parseEntry_ne_panic (cfg now ids need e w) : parseEntry cfg now ids need e ≠ .panic w := by
  unfold parseEntry
  split
  · simp
  · split
    · simp
    · split
      · simp
      · simp
      · rename_i h; exact absurd h (validateAssertion_ne_panic _ _ _ _ _)

theorem parseEntry_ok_iff (cfg : Cfg) (now : Int) (ids : List String) (need : Need) (e : Entry)
    (a : AssertionS) :
    parseEntry cfg now ids need e = .ok a ↔ EntryGood cfg now ids need e ∧ e.a = a := by
  unfold parseEntry
  constructor
  · intro h
    split at h
    · simp at h
    · rename_i h1
      split at h
      · simp at h
      · rename_i h2
        split at h
        · rename_i hv
          simp at h
          refine ⟨⟨h1, ?_, (validateAssertion_ok_iff _ _ _ _).mp hv⟩, h⟩
          intro hn
          simp [hn] at h2
          exact h2
        · simp at h
        · simp at h
  · rintro ⟨⟨h1, h2, h3⟩, rfl⟩
    rw [if_neg h1]
    have : ¬ ((need = .required && e.sig ≠ .valid) = true) := by
      cases need
      · simp [h2 rfl]
      · simp
    rw [if_neg this]
    rw [(validateAssertion_ok_iff _ _ _ _).mpr h3]

theorem parseEntry_isOk_iff (cfg : Cfg) (now : Int) (ids : List String) (need : Need) (e : Entry) :
    (∃ a, parseEntry cfg now ids need e = .ok a) ↔ EntryGood cfg now ids need e := by
  constructor
  · rintro ⟨a, h⟩; exact ((parseEntry_ok_iff _ _ _ _ _ _).mp h).1
  · intro h; exact ⟨e.a, (parseEntry_ok_iff _ _ _ _ _ _).mpr ⟨h, rfl⟩⟩

/-! ### `collect` -/

theorem firstPanic_none_of_all {α} (rs : List (Outcome α)) (h : ∀ r ∈ rs, ∀ w, r ≠ .panic w) :
    firstPanic rs = none := by
  induction rs with
  | nil => rfl
  | cons r rest ih =>
    cases r with
    | ok a => simp [firstPanic]; exact ih (fun r hr => h r (by simp [hr]))
    | err s => simp [firstPanic]; exact ih (fun r hr => h r (by simp [hr]))
    | panic w => exact absurd rfl (h _ (by simp) w)

theorem firstOk_map_iff {α β} (f : β → Outcome α) (l : List β) (a : α) :
    firstOk (l.map f) = some a ↔
      ∃ pre e post, l = pre ++ e :: post ∧ f e = .ok a ∧ ∀ e' ∈ pre, ∀ a', f e' ≠ .ok a' := by
  induction l with
  | nil => simp [firstOk]
  | cons x rest ih =>
    simp only [List.map_cons]
    cases hx : f x with
    | ok b =>
      simp only [firstOk, Option.some.injEq]
      constructor
      · rintro rfl
        exact ⟨[], x, rest, rfl, hx, by simp⟩
      · rintro ⟨pre, e, post, hl, he, hpre⟩
        cases pre with
        | nil =>
          simp at hl
          rw [← hl.1, hx] at he
          simpa using he
        | cons p pre' =>
          simp at hl
          have := hpre p (by simp) b
          rw [← hl.1] at this
          exact absurd hx this
    | err s =>
      simp only [firstOk]
      rw [ih]
      constructor
      · rintro ⟨pre, e, post, hl, he, hpre⟩
        refine ⟨x :: pre, e, post, by simp [hl], he, ?_⟩
        intro e' he' a'
        simp at he'
        rcases he' with rfl | he'
        · simp [hx]
        · exact hpre e' he' a'
      · rintro ⟨pre, e, post, hl, he, hpre⟩
        cases pre with
        | nil =>
          simp at hl
          rw [← hl.1, hx] at he
          simp at he
        | cons p pre' =>
          simp at hl
          exact ⟨pre', e, post, hl.2, he, fun e' he' => hpre e' (by simp [he'])⟩
    | panic w =>
      simp only [firstOk]
      rw [ih]
      constructor
      · rintro ⟨pre, e, post, hl, he, hpre⟩
        refine ⟨x :: pre, e, post, by simp [hl], he, ?_⟩
        intro e' he' a'
        simp at he'
        rcases he' with rfl | he'
        · simp [hx]
        · exact hpre e' he' a'
      · rintro ⟨pre, e, post, hl, he, hpre⟩
        cases pre with
        | nil =>
          simp at hl
          rw [← hl.1, hx] at he
          simp at he
        | cons p pre' =>
          simp at hl
          exact ⟨pre', e, post, hl.2, he, fun e' he' => hpre e' (by simp [he'])⟩

theorem collect_ok_iff {α} (rs : List (Outcome α)) (hnp : firstPanic rs = none) (a : α) :
    collect rs = .ok a ↔ firstOk rs = some a := by
  unfold collect
  rw [hnp]
  simp only
  cases h : firstOk rs with
  | some b => simp
  | none =>
    simp only
    cases firstErr rs <;> simp

theorem collect_ne_panic {α} (rs : List (Outcome α)) (hnp : firstPanic rs = none) (w : String) :
    collect rs ≠ .panic w := by
  unfold collect
  rw [hnp]
  simp only
  cases firstOk rs with
  | some b => simp
  | none =>
    simp only
    cases firstErr rs <;> simp

theorem entries_no_panic (cfg now ids need) (l : List Entry) :
    firstPanic (l.map (parseEntry cfg now ids need)) = none := by
  apply firstPanic_none_of_all
  intro r hr w
  simp at hr
  obtain ⟨e, _, rfl⟩ := hr
  exact parseEntry_ne_panic _ _ _ _ _ _

theorem collect_entries_iff (cfg : Cfg) (now : Int) (ids : List String) (need : Need)
    (l : List Entry) (a : AssertionS) :
    collect (l.map (parseEntry cfg now ids need)) = .ok a ↔ FirstGood cfg now ids need l a := by
  rw [collect_ok_iff _ (entries_no_panic _ _ _ _ _), firstOk_map_iff]
  unfold FirstGood
  constructor
  · rintro ⟨pre, e, post, hl, he, hpre⟩
    have := (parseEntry_ok_iff _ _ _ _ _ _).mp he
    refine ⟨pre, e, post, hl, this.1, this.2, ?_⟩
    intro e' he' hg
    exact hpre e' he' e'.a ((parseEntry_ok_iff _ _ _ _ _ _).mpr ⟨hg, rfl⟩)
  · rintro ⟨pre, e, post, hl, hg, ha, hpre⟩
    refine ⟨pre, e, post, hl, (parseEntry_ok_iff _ _ _ _ _ _).mpr ⟨hg, ha⟩, ?_⟩
    intro e' he' a' h
    exact hpre e' he' ((parseEntry_ok_iff _ _ _ _ _ _).mp h).1

/-! ### Response level -/

theorem issuerMismatch_false_iff (i : Option String) (idp : String) :
    ¬ (issuerMismatch i idp = true) ↔ ∀ v, i = some v → v = idp := by
  unfold issuerMismatch
  cases i with
  | none => simp
  | some v => simp

theorem reqIdOK_iff (cfg : Cfg) (r : ResponseS) (ids : List String) :
    reqIdOK cfg r ids = true ↔ ReqIdOK cfg r ids := by
  unfold reqIdOK ReqIdOK
  cases cfg.reqIdValidator with
  | some f => simp
  | none => simp

/-- **Central refinement theorem**: the SP validator accepts and returns `a` exactly when the
    response-level conditions hold and `a` is the first acceptable assertion in processing order. -/
theorem accept_iff (cfg : Cfg) (now : Int) (ids : List String) (url : String) (need : Need)
    (respSig : SigState) (r : ResponseS) (a : AssertionS) :
    parseResponse cfg now ids url need respSig r = .ok a ↔
      RespOK cfg now ids url need respSig r ∧
      FirstGood cfg now ids (needAfter need respSig) (ordered r.entries) a := by
  unfold parseResponse
  simp only
  constructor
  · intro h
    split at h
    · simp at h
    · rename_i h1
      split at h
      · simp at h
      · rename_i h2
        split at h
        · simp at h
        · rename_i h3
          split at h
          · simp at h
          · rename_i h4
            split at h
            · simp at h
            · rename_i h5
              split at h
              · simp at h
              · rename_i h6
                refine ⟨⟨?_, ?_, by omega, ?_, by simpa using h5, ?_⟩,
                  (collect_entries_iff _ _ _ _ _ _).mp h⟩
                · intro hd
                  have hc : (need = .required && respSig ≠ .absent || r.destination ≠ "") = true := by
                    rcases hd with ⟨hn, hs⟩ | hd
                    · simp [hn, hs]
                    · simp [hd]
                  rw [hc] at h1
                  simp at h1
                  by_cases hu : r.destination = url
                  · exact Or.inl hu
                  · exact Or.inr (h1 hu)
                · rw [← reqIdOK_iff]; simpa using h2
                · exact (issuerMismatch_false_iff _ _).mp h4
                · intro hn hs
                  simp [hn, hs] at h6
  · rintro ⟨⟨hd, hr, hf, hi, hs, hg⟩, hfg⟩
    have e1 : ¬ (((need = .required && respSig ≠ .absent || r.destination ≠ "") &&
        (r.destination ≠ url && r.destination ≠ cfg.acsURL)) = true) := by
      intro hc
      simp only [Bool.and_eq_true, Bool.or_eq_true, decide_eq_true_eq] at hc
      obtain ⟨hc1, hc2, hc3⟩ := hc
      have : (need = .required ∧ respSig ≠ .absent) ∨ r.destination ≠ "" := by
        rcases hc1 with ⟨a1, a2⟩ | b
        · exact Or.inl ⟨a1, by simpa using a2⟩
        · exact Or.inr (by simpa using b)
      rcases hd this with h | h
      · simp [h] at hc2
      · simp [h] at hc3
    rw [if_neg e1]
    have e2 : ¬ ((!reqIdOK cfg r ids) = true) := by
      simp [(reqIdOK_iff _ _ _).mpr hr]
    rw [if_neg e2]
    have e3 : ¬ (r.issueInstant + cfg.delay < now) := by omega
    rw [if_neg e3]
    have e4 : ¬ (issuerMismatch r.issuer cfg.idpEntityID = true) :=
      (issuerMismatch_false_iff _ _).mpr hi
    rw [if_neg e4]
    have e5 : ¬ (r.status ≠ cfg.statusSuccess) := by simp [hs]
    rw [if_neg e5]
    have e6 : ¬ ((need = .required && respSig = .invalid) = true) := by
      intro hc
      simp only [Bool.and_eq_true, decide_eq_true_eq] at hc
      exact hg hc.1 hc.2
    rw [if_neg e6]
    exact (collect_entries_iff _ _ _ _ _ _).mpr hfg

/-- The SP validator never panics (struct level). -/
theorem parseResponse_ne_panic (cfg now ids url need respSig r w) :
    parseResponse cfg now ids url need respSig r ≠ .panic w := by
  unfold parseResponse
  simp only
  split
  · simp
  · split
    · simp
    · split
      · simp
      · split
        · simp
        · split
          · simp
          · split
            · simp
            · exact collect_ne_panic _ (entries_no_panic _ _ _ _ _) _

/-- A non-Success status, when every earlier response-level check passes, is reported as such. -/
theorem bad_status_reported (cfg : Cfg) (now : Int) (ids : List String) (url : String) (need : Need)
    (respSig : SigState) (r : ResponseS)
    (hd : ((need = .required ∧ respSig ≠ .absent) ∨ r.destination ≠ "") →
          r.destination = url ∨ r.destination = cfg.acsURL)
    (hr : ReqIdOK cfg r ids) (hf : now ≤ r.issueInstant + cfg.delay)
    (hi : ∀ i, r.issuer = some i → i = cfg.idpEntityID)
    (hs : r.status ≠ cfg.statusSuccess) :
    parseResponse cfg now ids url need respSig r = .err ("bad-status:" ++ r.status) := by
  unfold parseResponse
  simp only
  have e1 : ¬ (((need = .required && respSig ≠ .absent || r.destination ≠ "") &&
      (r.destination ≠ url && r.destination ≠ cfg.acsURL)) = true) := by
    intro hc
    simp only [Bool.and_eq_true, Bool.or_eq_true, decide_eq_true_eq] at hc
    obtain ⟨hc1, hc2, hc3⟩ := hc
    have : (need = .required ∧ respSig ≠ .absent) ∨ r.destination ≠ "" := by
      rcases hc1 with ⟨a1, a2⟩ | b
      · exact Or.inl ⟨a1, by simpa using a2⟩
      · exact Or.inr (by simpa using b)
    rcases hd this with h | h
    · simp [h] at hc2
    · simp [h] at hc3
  rw [if_neg e1]
  have e2 : ¬ ((!reqIdOK cfg r ids) = true) := by
    simp [(reqIdOK_iff _ _ _).mpr hr]
  rw [if_neg e2]
  have e3 : ¬ (r.issueInstant + cfg.delay < now) := by omega
  rw [if_neg e3]
  have e4 : ¬ (issuerMismatch r.issuer cfg.idpEntityID = true) :=
    (issuerMismatch_false_iff _ _).mpr hi
  rw [if_neg e4]
  rw [if_pos hs]

/-! ### Artifact wrapper -/

theorem artifact_accept_iff (cfg : Cfg) (now : Int) (ids : List String) (resolveId url : String)
    (ar : ArtifactResponseS) (a : AssertionS) :
    parseArtifactResponse cfg now ids resolveId url ar = .ok a ↔
      ar.inResponseTo = resolveId ∧ now ≤ ar.issueInstant + cfg.delay ∧
      (∀ i, ar.issuer = some i → i = cfg.idpEntityID) ∧ ar.status = cfg.statusSuccess ∧
      ar.sig ≠ .invalid ∧
      ∃ rs r, ar.response = some (rs, r) ∧
        parseResponse cfg now ids url (if ar.sig = .valid then .notRequired else .required) rs r = .ok a := by
  unfold parseArtifactResponse
  constructor
  · intro h
    split at h
    · simp at h
    · rename_i h1
      split at h
      · simp at h
      · rename_i h2
        split at h
        · simp at h
        · rename_i h3
          split at h
          · simp at h
          · rename_i h4
            split at h
            · simp at h
            · rename_i h5
              split at h
              · simp at h
              · rename_i rs r hr
                exact ⟨by simpa using h1, by omega, (issuerMismatch_false_iff _ _).mp h3,
                  by simpa using h4, h5, rs, r, hr, h⟩
  · rintro ⟨h1, h2, h3, h4, h5, rs, r, hr, h⟩
    have e1 : ¬ (ar.inResponseTo ≠ resolveId) := by simp [h1]
    have e2 : ¬ (ar.issueInstant + cfg.delay < now) := by omega
    have e3 : ¬ (issuerMismatch ar.issuer cfg.idpEntityID = true) :=
      (issuerMismatch_false_iff _ _).mpr h3
    have e4 : ¬ (ar.status ≠ cfg.statusSuccess) := by simp [h4]
    rw [if_neg e1, if_neg e2, if_neg e3, if_neg e4, if_neg h5]
    simp only [hr]
    exact h

theorem parseArtifactResponse_ne_panic (cfg now ids resolveId url ar w) :
    parseArtifactResponse cfg now ids resolveId url ar ≠ .panic w := by
  unfold parseArtifactResponse
  split
  · simp
  · split
    · simp
    · split
      · simp
      · split
        · simp
        · split
          · simp
          · split
            · simp
            · exact parseResponse_ne_panic _ _ _ _ _ _ _ _

end SamlVerif.SP
