import SamlVerif.Model.Codec.Query

namespace SamlVerif.Codec

theorem hexUpper_toNat (n : Nat) (h : n < 16) :
    (hexUpper n).toNat = if n < 10 then 48 + n else 55 + n := by
  unfold hexUpper
  split
  · rw [UInt8.toNat_ofNat']; omega
  · rw [UInt8.toNat_ofNat']; omega

theorem unhex_hexUpper (n : Nat) (h : n < 16) : unhex (hexUpper n) = some n := by
  unfold unhex
  rw [hexUpper_toNat n h]
  by_cases h10 : n < 10
  · simp only [h10, if_true]
    have e : 48 ≤ 48 + n ∧ 48 + n ≤ 57 := by omega
    rw [if_pos e]
    congr 1; omega
  · simp only [h10, if_false]
    have e1 : ¬ (48 ≤ 55 + n ∧ 55 + n ≤ 57) := by omega
    have e2 : 65 ≤ 55 + n ∧ 55 + n ≤ 70 := by omega
    rw [if_neg e1, if_pos e2]
    congr 1; omega

theorem byte_recompose (b : UInt8) : UInt8.ofNat (b.toNat / 16 * 16 + b.toNat % 16) = b := by
  have : b.toNat / 16 * 16 + b.toNat % 16 = b.toNat := by omega
  rw [this]
  exact UInt8.ofNat_toNat

/-- **QueryUnescape ∘ QueryEscape = id** for every byte string. -/
theorem query_roundtrip (s : Bytes) : queryUnescape (queryEscape s) = some s := by
  induction s with
  | nil => rfl
  | cons b r ih =>
    unfold queryEscape
    have hb := b.toNat_lt
    split
    · rename_i h32
      unfold queryUnescape
      have e1 : ¬ ((43 : UInt8).toNat = 37) := by decide
      have e2 : (43 : UInt8).toNat = 43 := by decide
      rw [if_neg e1, if_pos e2, ih]
      have : b = 32 := by
        apply UInt8.toNat_inj.mp
        simpa using h32
      simp [this]
    · rename_i h32
      split
      · rename_i hu
        unfold queryUnescape
        have e1 : ¬ (b.toNat = 37) := by
          intro h; unfold isUnreserved at hu; simp [h] at hu
        have e2 : ¬ (b.toNat = 43) := by
          intro h; unfold isUnreserved at hu; simp [h] at hu
        rw [if_neg e1, if_neg e2, ih]
        rfl
      · unfold queryUnescape
        have e1 : (37 : UInt8).toNat = 37 := by decide
        rw [if_pos e1]
        simp only
        rw [unhex_hexUpper _ (by omega), unhex_hexUpper _ (by omega)]
        simp only [ih, Option.map_some]
        rw [byte_recompose]

/-- every byte `QueryEscape` emits is unreserved, `%` or `+` -/
theorem escape_alphabet (s : Bytes) : ∀ c ∈ queryEscape s, isUnreserved c = true ∨ c.toNat = 37 ∨ c.toNat = 43 := by
  induction s with
  | nil => simp [queryEscape]
  | cons b r ih =>
    unfold queryEscape
    have hb := b.toNat_lt
    split
    · intro c hc
      simp only [List.mem_cons] at hc
      rcases hc with rfl | hc
      · right; right; decide
      · exact ih c hc
    · split
      · rename_i hu
        intro c hc
        simp only [List.mem_cons] at hc
        rcases hc with rfl | hc
        · exact Or.inl hu
        · exact ih c hc
      · intro c hc
        simp only [List.mem_cons] at hc
        rcases hc with rfl | rfl | rfl | hc
        · right; left; decide
        · left
          unfold isUnreserved
          rw [hexUpper_toNat _ (by omega)]
          split <;> simp <;> omega
        · left
          unfold isUnreserved
          rw [hexUpper_toNat _ (by omega)]
          split <;> simp <;> omega
        · exact ih c hc

theorem escape_no_special (s : Bytes) (c : UInt8) (hc : c ∈ queryEscape s) :
    c.toNat ≠ 38 ∧ c.toNat ≠ 61 ∧ c.toNat ≠ 59 ∧ c.toNat ≠ 35 ∧ c.toNat ≠ 63 ∧ c.toNat ≠ 32 := by
  rcases escape_alphabet s c hc with h | h | h
  · unfold isUnreserved at h
    simp at h
    omega
  · omega
  · omega

/-! ### splitting -/

theorem splitOn_ne_nil (sep : UInt8) (s : Bytes) : splitOn sep s ≠ [] := by
  induction s with
  | nil => simp [splitOn]
  | cons b r ih =>
    unfold splitOn
    split
    · simp
    · split <;> simp

theorem splitOn_no_sep (sep : UInt8) (s : Bytes) (h : sep ∉ s) : splitOn sep s = [s] := by
  induction s with
  | nil => rfl
  | cons b r ih =>
    have hr : sep ∉ r := fun hh => h (by simp [hh])
    have hb : b ≠ sep := fun hh => h (by simp [hh])
    unfold splitOn
    rw [ih hr]
    simp [hb]

theorem splitOn_append (sep : UInt8) (a b : Bytes) :
    splitOn sep (a ++ sep :: b) =
      (match splitOn sep a with
       | [] => splitOn sep b
       | _ => (splitOn sep a).dropLast ++
              (match splitOn sep b with
               | [] => [(splitOn sep a).getLast?.getD []]
               | _ => (splitOn sep a).getLast?.getD [] :: splitOn sep b)) := by
  induction a with
  | nil =>
    simp only [List.nil_append]
    conv => lhs; unfold splitOn
    have := splitOn_ne_nil sep b
    cases hb : splitOn sep b with
    | nil => exact absurd hb this
    | cons x xs => simp [splitOn]
  | cons c r ih =>
    simp only [List.cons_append]
    conv => lhs; unfold splitOn
    rw [ih]
    have hr := splitOn_ne_nil sep r
    have hbn := splitOn_ne_nil sep b
    cases hsr : splitOn sep r with
    | nil => exact absurd hsr hr
    | cons x xs =>
      cases hsb : splitOn sep b with
      | nil => exact absurd hsb hbn
      | cons y ys =>
        conv => rhs; unfold splitOn
        rw [hsr]
        simp only
        cases xs with
        | nil =>
          by_cases hc : c = sep
          · simp [hc]
          · simp [hc]
        | cons x2 xs2 =>
          by_cases hc : c = sep
          · simp [hc]
          · simp [hc]

/-- splitting distributes over concatenation at a separator -/
theorem splitOn_append' (sep : UInt8) (a b : Bytes) (ha : sep ∉ a) :
    splitOn sep (a ++ sep :: b) = a :: splitOn sep b := by
  rw [splitOn_append, splitOn_no_sep sep a ha]
  have hbn := splitOn_ne_nil sep b
  cases hsb : splitOn sep b with
  | nil => exact absurd hsb hbn
  | cons y ys => simp

theorem cutEq_append (k v : Bytes) (hk : ∀ c ∈ k, c.toNat ≠ 61) : cutEq (k ++ 61 :: v) = (k, v) := by
  induction k with
  | nil =>
    simp only [List.nil_append]
    unfold cutEq
    have : (61 : UInt8).toNat = 61 := by decide
    simp [this]
  | cons b r ih =>
    have hb : b.toNat ≠ 61 := hk b (by simp)
    simp only [List.cons_append]
    unfold cutEq
    rw [if_neg hb, ih (fun c hc => hk c (by simp [hc]))]

/-! ### ParseQuery of an encoded pair -/

theorem encodePair_props (k v : Bytes) :
    (38 : UInt8) ∉ encodePair k v ∧ encodePair k v ≠ [] ∧ (encodePair k v).any (fun b => b.toNat = 59) = false := by
  unfold encodePair
  refine ⟨?_, by simp, ?_⟩
  · intro h
    simp only [List.mem_append, List.mem_cons] at h
    rcases h with h | h | h
    · exact (escape_no_special k _ h).1 (by decide)
    · exact absurd h (by decide)
    · exact (escape_no_special v _ h).1 (by decide)
  · rw [List.any_eq_false]
    intro c hc
    simp only [List.mem_append, List.mem_cons] at hc
    rcases hc with h | h | h
    · simpa using (escape_no_special k _ h).2.2.1
    · subst h; decide
    · simpa using (escape_no_special v _ h).2.2.1

def stepPQ (comp : Bytes) (acc : List (Bytes × Bytes) × Bool) : List (Bytes × Bytes) × Bool :=
  if comp = [] then acc
  else if comp.any (fun b => b.toNat = 59) then (acc.1, false)
  else
    let (k, v) := cutEq comp
    match queryUnescape k, queryUnescape v with
    | some k', some v' => ((k', v') :: acc.1, acc.2)
    | _, _ => (acc.1, false)

theorem parseQuery_eq (q : Bytes) : parseQuery q = (splitOn 38 q).foldr stepPQ ([], true) := rfl

theorem stepPQ_encodePair (k v : Bytes) (acc : List (Bytes × Bytes) × Bool) :
    stepPQ (encodePair k v) acc = ((k, v) :: acc.1, acc.2) := by
  obtain ⟨_, hne, hsemi⟩ := encodePair_props k v
  unfold stepPQ
  rw [if_neg hne, hsemi]
  simp only [Bool.false_eq_true, if_false]
  unfold encodePair
  rw [cutEq_append _ _ (fun c hc => (escape_no_special k c hc).2.1)]
  simp only [query_roundtrip]

/-- `ParseQuery` of `prefix & k=v` (escaped) is `ParseQuery prefix` followed by exactly the pair -/
theorem parseQuery_snoc (q0 k v : Bytes) :
    parseQuery (q0 ++ 38 :: encodePair k v) = ((parseQuery q0).1 ++ [(k, v)], (parseQuery q0).2) := by
  obtain ⟨hamp, _, _⟩ := encodePair_props k v
  rw [parseQuery_eq, parseQuery_eq]
  have hsplit : splitOn 38 (q0 ++ 38 :: encodePair k v) = splitOn 38 q0 ++ [encodePair k v] := by
    rw [splitOn_append]
    have h0 := splitOn_ne_nil 38 q0
    rw [splitOn_no_sep 38 _ hamp]
    cases hs : splitOn 38 q0 with
    | nil => exact absurd hs h0
    | cons x xs =>
      simp only
      have hl : (x :: xs).getLast?.getD [] = (x :: xs).getLast (by simp) := by
        rw [List.getLast?_eq_some_getLast (by simp)]
        rfl
      rw [hl]
      have := List.dropLast_concat_getLast (l := x :: xs) (by simp)
      calc (x :: xs).dropLast ++ [(x :: xs).getLast (by simp), encodePair k v]
          = ((x :: xs).dropLast ++ [(x :: xs).getLast (by simp)]) ++ [encodePair k v] := by simp
        _ = (x :: xs) ++ [encodePair k v] := by rw [this]
  rw [hsplit, List.foldr_append]
  simp only [List.foldr_cons, List.foldr_nil, stepPQ_encodePair]
  -- folding the prefix over an accumulator that already holds the pair appends it
  generalize splitOn 38 q0 = comps
  induction comps with
  | nil => simp
  | cons c cs ih =>
    simp only [List.foldr_cons]
    rw [ih]
    unfold stepPQ
    split
    · rfl
    · split
      · rfl
      · simp only
        split <;> simp

theorem parseQuery_single (k v : Bytes) : parseQuery (encodePair k v) = ([(k, v)], true) := by
  obtain ⟨hamp, _, _⟩ := encodePair_props k v
  rw [parseQuery_eq, splitOn_no_sep 38 _ hamp]
  simp [stepPQ_encodePair]

end SamlVerif.Codec
