/-
  Proofs/TransSP — the definitions that `extract/trans.go` regenerates from service_provider.go
  (`Generated/Trans.lean`: validateRequestID, validateAudienceRestriction, validateAssertion,
  validateLogoutResponse, firstSet) behave as the hand-written models `SP.*` / `Logout.validateFields`.
  The loop bodies are never copied into this file: the lemmas about `forIn` take the body as found in the
  regenerated definition (`vOf`), and the facts about it are proved pointwise by case analysis.
-/
import SamlVerif.Generated.Trans
import SamlVerif.Model.SPStruct
import SamlVerif.Model.Logout
open SamlVerif SamlVerif.GoSem

namespace SamlVerif.TransSP

theorem firstSet_eq (env : Trans.Env) (a b : String) : Trans.firstSet env a b = .ok (SP.firstSet a b) := by
  unfold Trans.firstSet SP.firstSet
  by_cases h : a = "" <;> simp [h]

/-- flag-setting loop without `break`: the flag ends up as the disjunction -/
theorem forIn_flag {α} (xs : List α) (p : α → Prop) [DecidablePred p] (init : Bool) :
    forIn (m := Outcome) xs init (fun x r => if p x then Outcome.ok (ForInStep.yield true) else Outcome.ok (ForInStep.yield r))
      = .ok (init || xs.any (fun x => decide (p x))) := by
  induction xs generalizing init with
  | nil => simp
  | cons x xs ih =>
    simp only [List.forIn_cons]
    by_cases h : p x <;> simp [h, ih]

/-- flag-setting loop with `break` -/
theorem forIn_flag_break {α} (xs : List α) (p : α → Prop) [DecidablePred p] (init : Bool) :
    forIn (m := Outcome) xs init (fun x r => if p x then Outcome.ok (ForInStep.done true) else Outcome.ok (ForInStep.yield r))
      = .ok (init || xs.any (fun x => decide (p x))) := by
  induction xs generalizing init with
  | nil => simp
  | cons x xs ih =>
    simp only [List.forIn_cons]
    by_cases h : p x <;> simp [h, ih]

theorem validateRequestID_eq (env : Trans.Env) (sp : Trans.ServiceProvider) (r : Trans.Response) (ids : List String)
    (h : sp.ValidateRequestID = none) :
    Trans.validateRequestID env sp r ids =
      .ok (if sp.AllowIDPInitiated || ids.contains r.InResponseTo then none
           else some "`InResponseTo` does not match any of the possible request IDs (expected %v)") := by
  unfold Trans.validateRequestID
  simp [h, forIn_flag]
  by_cases ha : sp.AllowIDPInitiated = true <;> simp [ha]
  by_cases hm : r.InResponseTo ∈ ids <;> simp [hm]

theorem validateAudienceRestriction_eq (env : Trans.Env) (sp : Trans.ServiceProvider) (a : Trans.Assertion) (c : Trans.Conditions)
    (h : sp.ValidateAudienceRestriction = none) (hc : a.Conditions = some c) :
    Trans.validateAudienceRestriction env sp (some a) =
      .ok (if c.AudienceRestrictions.isEmpty || (c.AudienceRestrictions.map (·.Audience.Value)).contains (SP.firstSet sp.EntityID sp.MetadataURL.str) then none
           else some "assertion Conditions AudienceRestriction does not contain %q") := by
  unfold Trans.validateAudienceRestriction
  simp [h, hc, firstSet_eq, forIn_flag]
  by_cases h1 : c.AudienceRestrictions = [] <;> simp [h1]
  by_cases h2 : ∃ a, a ∈ c.AudienceRestrictions ∧ a.Audience.Value = SP.firstSet sp.EntityID sp.MetadataURL.str
  · simp [h2]
  · simp [h2]

/-- what one pass through a loop body decides: `some r` = the function returns `r` there -/
def vOf {α ρ : Type} (B : α → (Option ρ × PUnit) → Outcome (ForInStep ((Option ρ × PUnit)))) (x : α) : Option ρ :=
  match B x ⟨none, ()⟩ with
  | .ok (.done ⟨some r, _⟩) => some r
  | _ => none

/-- a range loop whose body either goes on or returns from the function (never panics, never `break`s) -/
theorem forIn_early {α ρ : Type} (xs : List α) (B : α → (Option ρ × PUnit) → Outcome (ForInStep ((Option ρ × PUnit))))
    (hB : ∀ x, B x ⟨none, ()⟩ = .ok (.yield ⟨none, ()⟩) ∨ ∃ r, B x ⟨none, ()⟩ = .ok (.done ⟨some r, ()⟩)) :
    forIn xs ⟨none, ()⟩ B = .ok ⟨xs.findSome? (vOf B), ()⟩ := by
  induction xs with
  | nil => simp
  | cons x xs ih =>
    simp only [List.forIn_cons, List.findSome?_cons]
    rcases hB x with h | ⟨r, h⟩
    · simp only [h, Outcome.ok_bind', vOf]
      exact ih
    · simp [h, vOf]

theorem scLoop_ok_iff (cfg : SP.Cfg) (now : Int) (ids : List String) (l : List SP.SubjConf) :
    (SP.scLoop cfg now ids l = .ok () ↔ ∀ sc ∈ l, SP.scCheck cfg now ids sc = .ok ()) ∧
    ((SP.scLoop cfg now ids l).cls = "ok" ∨ (SP.scLoop cfg now ids l).cls = "err") := by
  induction l with
  | nil => simp [SP.scLoop, Outcome.cls]
  | cons sc l ih =>
    unfold SP.scLoop
    have hc : SP.scCheck cfg now ids sc = .ok () ∨ ∃ s, SP.scCheck cfg now ids sc = .err s := by
      unfold SP.scCheck
      cases sc.data with
      | none => exact Or.inr ⟨_, rfl⟩
      | some d =>
        simp only
        split
        · exact Or.inr ⟨_, rfl⟩
        split
        · exact Or.inr ⟨_, rfl⟩
        split
        · exact Or.inr ⟨_, rfl⟩
        exact Or.inl rfl
    rcases hc with h | ⟨s, h⟩
    · simp [h]; exact ih
    · simp [h, Outcome.cls]

def absSC (s : Trans.SubjectConfirmation) : SP.SubjConf :=
  { data := s.SubjectConfirmationData.map fun d => { inResponseTo := d.InResponseTo, recipient := d.Recipient, notOnOrAfter := d.NotOnOrAfter } }
def absA (a : Trans.Assertion) : SP.AssertionS :=
  { issueInstant := a.IssueInstant, issuer := a.Issuer.Value,
    subject := a.Subject.map fun s => s.SubjectConfirmations.map absSC,
    conditions := a.Conditions.map fun c => { notBefore := c.NotBefore, notOnOrAfter := c.NotOnOrAfter, audiences := c.AudienceRestrictions.map (·.Audience.Value) },
    ident := "" }
def absCfg (env : Trans.Env) (sp : Trans.ServiceProvider) (idp : Trans.EntityDescriptor) : SP.Cfg :=
  { idpEntityID := idp.EntityID, acsURL := sp.AcsURL.str, entityID := sp.EntityID, metadataURL := sp.MetadataURL.str,
    allowIdP := sp.AllowIDPInitiated, reqIdValidator := none, audValidator := none,
    delay := env.MaxIssueDelay, skew := env.MaxClockSkew, statusSuccess := env.StatusSuccess }

theorem validateAssertion_cls (env : Trans.Env) (sp : Trans.ServiceProvider) (idp : Trans.EntityDescriptor) (a : Trans.Assertion)
    (ids : List String) (now : Int)
    (hidp : sp.IDPMetadata = some idp) (hv : sp.ValidateAudienceRestriction = none) :
    (toOutcome (Trans.validateAssertion env sp (some a) ids now)).cls =
      (SP.validateAssertion (absCfg env sp idp) now ids (absA a)).cls := by
  unfold Trans.validateAssertion SP.validateAssertion
  simp [hidp, absA, absCfg]
  by_cases h1 : a.IssueInstant + env.MaxIssueDelay < now <;> simp [h1, toOutcome, Outcome.cls]
  by_cases h2 : a.Issuer.Value = idp.EntityID <;> simp [h2, toOutcome, Outcome.cls]
  cases hs : a.Subject <;> simp [toOutcome, Outcome.cls]
  rename_i s
  rw [forIn_early]
  · generalize hV : vOf _ = V
    have hpt : ∀ sc, (V sc = none ∧ SP.scCheck (absCfg env sp idp) now ids (absSC sc) = .ok ()) ∨
        (∃ e, V sc = some (some e)) ∧ ∃ t, SP.scCheck (absCfg env sp idp) now ids (absSC sc) = .err t := by
      intro sc
      rw [← hV]
      unfold vOf SP.scCheck absSC absCfg
      cases hd : sc.SubjectConfirmationData with
      | none => simp [hd]
      | some d =>
        simp [hd, forIn_flag_break, List.forall_mem_ne]
        by_cases ha : sp.AllowIDPInitiated = true <;> simp [ha]
        · by_cases hr : d.Recipient = sp.AcsURL.str <;> simp [hr]
          by_cases he : d.NotOnOrAfter + env.MaxClockSkew < now <;> simp [he] <;> try omega
        · by_cases hm : d.InResponseTo ∈ ids <;> simp [hm]
          by_cases hr : d.Recipient = sp.AcsURL.str <;> simp [hr]
          by_cases he : d.NotOnOrAfter + env.MaxClockSkew < now <;> simp [he] <;> try omega
    clear hV
    have hloop := scLoop_ok_iff (absCfg env sp idp) now ids (s.SubjectConfirmations.map absSC)
    cases hf : List.findSome? V s.SubjectConfirmations with
    | some r =>
      obtain ⟨sc, hsc, hr⟩ := List.exists_of_findSome?_eq_some hf
      rcases hpt sc with ⟨hn, _⟩ | ⟨⟨e, he⟩, t, ht⟩
      · rw [hn] at hr; cases hr
      · rw [he] at hr; cases hr
        have hne : SP.scLoop (absCfg env sp idp) now ids (s.SubjectConfirmations.map absSC) ≠ .ok () := by
          intro hok
          have := hloop.1.1 hok (absSC sc) (List.mem_map_of_mem hsc)
          rw [ht] at this; cases this
        rcases hloop.2 with hc | hc
        · exfalso; apply hne
          revert hc; cases SP.scLoop (absCfg env sp idp) now ids (s.SubjectConfirmations.map absSC) <;> simp [Outcome.cls]
        · revert hc; unfold absCfg
          cases SP.scLoop _ now ids (s.SubjectConfirmations.map absSC) <;> simp [Outcome.cls]
    | none =>
      have hall : SP.scLoop (absCfg env sp idp) now ids (s.SubjectConfirmations.map absSC) = .ok () := by
        apply hloop.1.2
        intro sc' hsc'
        obtain ⟨sc, hsc, rfl⟩ := List.mem_map.1 hsc'
        rcases hpt sc with ⟨_, hok⟩ | ⟨⟨e, he⟩, _⟩
        · exact hok
        · have := List.findSome?_eq_none_iff.1 hf sc hsc
          rw [he] at this; cases this
      unfold absCfg at hall
      simp [hall]
      cases hc : a.Conditions with
      | none => simp [toOutcome, Outcome.cls]
      | some c =>
        simp
        by_cases hb : now < c.NotBefore + -env.MaxClockSkew
        · have hb' : now < c.NotBefore - env.MaxClockSkew := by omega
          simp [hb, hb']
        · have hb' : ¬ now < c.NotBefore - env.MaxClockSkew := by omega
          simp [hb, hb']
          by_cases he : c.NotOnOrAfter + env.MaxClockSkew < now <;> simp [he]
          rw [validateAudienceRestriction_eq env sp a c hv hc]
          simp [SP.audienceOK, SP.Cfg.audience]
          by_cases hemp : c.AudienceRestrictions = [] <;> simp [hemp]
          by_cases hex : ∀ (x : Trans.AudienceRestriction), x ∈ c.AudienceRestrictions → ¬x.Audience.Value = SP.firstSet sp.EntityID sp.MetadataURL.str
          · have hne : ¬ ∃ a, a ∈ c.AudienceRestrictions ∧ a.Audience.Value = SP.firstSet sp.EntityID sp.MetadataURL.str := by
              rintro ⟨x, hx, hv⟩; exact hex x hx hv
            simp only [if_pos hex, if_neg hne, toOutcome, Outcome.cls]
          · simp [hex]
  · intro sc
    cases hd : sc.SubjectConfirmationData with
    | none => simp
    | some d =>
      simp [forIn_flag_break, List.forall_mem_ne]
      by_cases ha : sp.AllowIDPInitiated = true <;> simp [ha]
      · by_cases hr : d.Recipient = sp.AcsURL.str <;> simp [hr]
        by_cases he : d.NotOnOrAfter + env.MaxClockSkew < now <;> simp [he] <;> try omega
      · by_cases hm : d.InResponseTo ∈ ids <;> simp [hm]
        by_cases hr : d.Recipient = sp.AcsURL.str <;> simp [hr]
        by_cases he : d.NotOnOrAfter + env.MaxClockSkew < now <;> simp [he] <;> try omega

/-! ### validateLogoutResponse -/

def absLogout (r : Trans.LogoutResponse) : Logout.LogoutRespS :=
  { destination := r.Destination, issueInstant := r.IssueInstant, issuer := r.Issuer.map (·.Value), status := r.Status.StatusCode.Value }

def absLogoutCfg (env : Trans.Env) (sp : Trans.ServiceProvider) (idp : Trans.EntityDescriptor) : Logout.Cfg :=
  { idpEntityID := idp.EntityID, sloURL := sp.SloURL.str, delay := env.MaxIssueDelay, statusSuccess := env.StatusSuccess }

theorem validateLogoutResponse_cls (env : Trans.Env) (sp : Trans.ServiceProvider) (idp : Trans.EntityDescriptor)
    (r : Trans.LogoutResponse) (hidp : sp.IDPMetadata = some idp) :
    (toOutcome (Trans.validateLogoutResponse env sp (some r))).cls =
      (Logout.validateFields (absLogoutCfg env sp idp) env.timeNow (absLogout r)).cls := by
  unfold Trans.validateLogoutResponse Logout.validateFields
  simp [hidp, absLogout, absLogoutCfg]
  by_cases h1 : r.Destination = sp.SloURL.str <;> simp [h1, toOutcome, Outcome.cls]
  by_cases h2 : r.IssueInstant + env.MaxIssueDelay < env.timeNow <;> simp [h2, toOutcome, Outcome.cls]
  cases h3 : r.Issuer with
  | none => simp [toOutcome, Outcome.cls]
  | some i =>
    simp
    by_cases h4 : i.Value = idp.EntityID <;> simp [h4, toOutcome, Outcome.cls]
    by_cases h5 : r.Status.StatusCode.Value = env.StatusSuccess <;> simp [h5, toOutcome, Outcome.cls]

end SamlVerif.TransSP