/-
  What an attacker can change in signed content without changing its canonical form — and hence
  without invalidating a signature: comments anywhere, and the division of character data into
  adjacent pieces.  (These are exactly the edits of the classic comment-injection attack; that the
  unmarshaller reads the edited content the same way is the remaining, tested, assumption.)
-/
import SamlVerif.Model.Tree

namespace SamlVerif.Tree

theorem canonList_nil (ctx : NSCtx) (pending : String) : canonList ctx pending [] = some (flush pending) := by
  simp [canonList]

theorem canonList_text (ctx : NSCtx) (pending s : String) (rest : List Node) :
    canonList ctx pending (.text false s :: rest) = canonList ctx (pending ++ s) rest := by
  simp [canonList]

theorem canonList_comment_head (ctx : NSCtx) (pending s : String) (rest : List Node) :
    canonList ctx pending (.other "comment" s :: rest) = canonList ctx pending rest := by
  simp [canonList]

/-- a node that is neither plain character data nor a comment ends the pending run -/
def Solid : Node → Prop
  | .text false _ => False
  | .other k _ => k ≠ "comment"
  | _ => True

theorem canonList_solid (ctx : NSCtx) (pending : String) (n : Node) (rest : List Node) (h : Solid n) :
    canonList ctx pending (n :: rest) =
      (match canonNode ctx n with
       | none => none
       | some r =>
         match canonList ctx "" rest with
         | none => none
         | some rs => some (flush pending ++ r ++ rs)) := by
  cases n with
  | text c s =>
    cases c with
    | false => exact absurd h (by simp [Solid])
    | true =>
      rw [canonList]
      all_goals first | rfl | (intro s' hs'; cases hs')
  | other k s =>
    have hk : k ≠ "comment" := h
    rw [canonList]
    all_goals first | rfl | (intro s' hs'; cases hs'; try exact hk rfl)
  | elem n s t a cs =>
    rw [canonList]
    all_goals first | rfl | (intro s' hs'; cases hs')

/-- **comments are invisible**: inserting a comment anywhere among the children of an element (at any
    depth, by congruence) leaves the canonical form unchanged -/
theorem canon_comment_insensitive (ctx : NSCtx) (pending : String) (pre post : List Node) (s : String) :
    canonList ctx pending (pre ++ .other "comment" s :: post) = canonList ctx pending (pre ++ post) := by
  induction pre generalizing pending with
  | nil => simp [canonList_comment_head]
  | cons n rest ih =>
    simp only [List.cons_append]
    by_cases hs : Solid n
    · rw [canonList_solid ctx pending n _ hs, canonList_solid ctx pending n _ hs, ih]
    · cases n with
      | text c t =>
        cases c with
        | false => rw [canonList_text, canonList_text, ih]
        | true => exact absurd (by simp [Solid]) hs
      | other k t =>
        have hk : k = "comment" := by
          by_cases hk : k = "comment"
          · exact hk
          · exact absurd hk hs
        subst hk
        rw [canonList_comment_head, canonList_comment_head, ih]
      | elem n s t a cs => exact absurd (by simp [Solid]) hs

/-- **character data is one run**: splitting a piece of character data in two (which is what a comment
    in the middle of a NameID does to the parsed tree) leaves the canonical form unchanged -/
theorem canon_text_split (ctx : NSCtx) (pending : String) (pre post : List Node) (a b : String) :
    canonList ctx pending (pre ++ .text false (a ++ b) :: post) =
      canonList ctx pending (pre ++ .text false a :: .text false b :: post) := by
  induction pre generalizing pending with
  | nil => simp [canonList_text, String.append_assoc]
  | cons n rest ih =>
    simp only [List.cons_append]
    by_cases hs : Solid n
    · rw [canonList_solid ctx pending n _ hs, canonList_solid ctx pending n _ hs, ih]
    · cases n with
      | text c t =>
        cases c with
        | false => rw [canonList_text, canonList_text, ih]
        | true => exact absurd (by simp [Solid]) hs
      | other k t =>
        have hk : k = "comment" := by
          by_cases hk : k = "comment"
          · exact hk
          · exact absurd hk hs
        subst hk
        rw [canonList_comment_head, canonList_comment_head, ih]
      | elem n s t a cs => exact absurd (by simp [Solid]) hs

/-- the classic attack shape: `alice<!---->@evil` has the canonical form of `alice@evil` -/
theorem canon_comment_in_text (ctx : NSCtx) (a b c : String) :
    canonList ctx "" [.text false a, .other "comment" c, .text false b] = canonList ctx "" [.text false (a ++ b)] := by
  have h1 := canon_comment_insensitive ctx "" [.text false a] [.text false b] c
  have h2 := canon_text_split ctx "" [] [] a b
  simp only [List.cons_append, List.nil_append] at h1 h2
  rw [h1, ← h2]

end SamlVerif.Tree
