import SamlVerif.Model.Html

namespace SamlVerif.Html

theorem replacement_inert (b : UInt8) (e : Bytes) (h : replacement b = some e) :
    ∀ c ∈ e, c.toNat ≠ 34 ∧ c.toNat ≠ 60 ∧ c.toNat ≠ 62 ∧ c.toNat ≠ 39 ∧ c.toNat ≠ 0 ∧ c.toNat ≠ 43 := by
  unfold replacement at h
  split at h
  · cases h; decide
  · split at h
    · cases h; decide
    · split at h
      · cases h; decide
      · split at h
        · cases h; decide
        · split at h
          · cases h; decide
          · split at h
            · cases h; decide
            · split at h
              · cases h; decide
              · simp at h

theorem replacement_none (b : UInt8) (h : replacement b = none) :
    b.toNat ≠ 34 ∧ b.toNat ≠ 60 ∧ b.toNat ≠ 62 ∧ b.toNat ≠ 39 ∧ b.toNat ≠ 0 ∧ b.toNat ≠ 43 ∧ b.toNat ≠ 38 := by
  unfold replacement at h
  split at h
  · simp at h
  · split at h
    · simp at h
    · split at h
      · simp at h
      · split at h
        · simp at h
        · split at h
          · simp at h
          · split at h
            · simp at h
            · split at h
              · simp at h
              · omega

/-- **Inertness**: escaped values contain no `"`, `<`, `>`, `'`, NUL or `+`. -/
theorem htmlEscape_inert (s : Bytes) :
    ∀ c ∈ htmlEscape s, c.toNat ≠ 34 ∧ c.toNat ≠ 60 ∧ c.toNat ≠ 62 ∧ c.toNat ≠ 39 ∧ c.toNat ≠ 0 ∧ c.toNat ≠ 43 := by
  induction s with
  | nil => simp [htmlEscape]
  | cons b r ih =>
    intro c hc
    unfold htmlEscape at hc
    simp only [List.mem_append] at hc
    rcases hc with hc | hc
    · cases hrep : replacement b with
      | some e =>
        rw [hrep] at hc
        exact replacement_inert b e hrep c hc
      | none =>
        rw [hrep] at hc
        simp only [List.mem_singleton] at hc
        subst hc
        have := replacement_none c hrep
        omega
    · exact ih c hc

theorem htmlUnescape_cons_ne (b : UInt8) (r : Bytes) (h : b.toNat ≠ 38) :
    htmlUnescape (b :: r) = b :: htmlUnescape r := by
  have hb : b ≠ 38 := by
    intro hh; rw [hh] at h; exact h (by decide)
  exact htmlUnescape.eq_7 b r (fun _ h _ => hb h) (fun _ h _ => hb h) (fun _ h _ => hb h)
    (fun _ h _ => hb h) (fun _ h _ => hb h) (fun _ h _ => hb h)

theorem u8_eq_of_toNat (b : UInt8) (n : Nat) (hn : n < 256) (h : b.toNat = n) : b = UInt8.ofNat n := by
  apply UInt8.toNat_inj.mp
  rw [UInt8.toNat_ofNat']
  omega

theorem unescape_step (b : UInt8) (r : Bytes) :
    htmlUnescape ((match replacement b with | some e => e | none => [b]) ++ htmlEscape r) =
      (if b.toNat = 0 then [0xEF, 0xBF, 0xBD] else [b]) ++ htmlUnescape (htmlEscape r) := by
  by_cases h0 : b.toNat = 0
  · have := u8_eq_of_toNat b 0 (by decide) h0
    subst this
    show htmlUnescape (0xEF :: 0xBF :: 0xBD :: htmlEscape r) = _
    rw [htmlUnescape_cons_ne _ _ (by decide), htmlUnescape_cons_ne _ _ (by decide),
      htmlUnescape_cons_ne _ _ (by decide)]
    rfl
  · simp only [h0, if_false]
    by_cases h34 : b.toNat = 34
    · have := u8_eq_of_toNat b 34 (by decide) h34
      subst this
      show htmlUnescape (38 :: 35 :: 51 :: 52 :: 59 :: htmlEscape r) = _
      rw [htmlUnescape.eq_1]; rfl
    by_cases h38 : b.toNat = 38
    · have := u8_eq_of_toNat b 38 (by decide) h38
      subst this
      show htmlUnescape (38 :: 97 :: 109 :: 112 :: 59 :: htmlEscape r) = _
      rw [htmlUnescape.eq_2]; rfl
    by_cases h39 : b.toNat = 39
    · have := u8_eq_of_toNat b 39 (by decide) h39
      subst this
      show htmlUnescape (38 :: 35 :: 51 :: 57 :: 59 :: htmlEscape r) = _
      rw [htmlUnescape.eq_3]; rfl
    by_cases h43 : b.toNat = 43
    · have := u8_eq_of_toNat b 43 (by decide) h43
      subst this
      show htmlUnescape (38 :: 35 :: 52 :: 51 :: 59 :: htmlEscape r) = _
      rw [htmlUnescape.eq_4]; rfl
    by_cases h60 : b.toNat = 60
    · have := u8_eq_of_toNat b 60 (by decide) h60
      subst this
      show htmlUnescape (38 :: 108 :: 116 :: 59 :: htmlEscape r) = _
      rw [htmlUnescape.eq_5]; rfl
    by_cases h62 : b.toNat = 62
    · have := u8_eq_of_toNat b 62 (by decide) h62
      subst this
      show htmlUnescape (38 :: 103 :: 116 :: 59 :: htmlEscape r) = _
      rw [htmlUnescape.eq_6]; rfl
    have hrep : replacement b = none := by
      unfold replacement
      simp [h0, h34, h38, h39, h43, h60, h62]
    rw [hrep]
    show htmlUnescape (b :: htmlEscape r) = _
    rw [htmlUnescape_cons_ne _ _ h38]
    rfl

/-- **Decoding**: a browser's character-reference decoding of the escaped value gives back the
    original string (NUL becomes U+FFFD). -/
theorem htmlUnescape_htmlEscape (s : Bytes) : htmlUnescape (htmlEscape s) = nulToFFFD s := by
  induction s with
  | nil => rfl
  | cons b r ih =>
    show htmlUnescape ((match replacement b with | some e => e | none => [b]) ++ htmlEscape r) =
      (if b.toNat = 0 then [0xEF, 0xBF, 0xBD] else [b]) ++ nulToFFFD r
    rw [unescape_step, ih]

/-- scanning stops exactly at the first byte that fails `p` -/
theorem scan_until (p : UInt8 → Bool) (a : Bytes) (q : UInt8) (rest : Bytes)
    (ha : ∀ c ∈ a, p c = true) (hq : p q = false) :
    (a ++ q :: rest).takeWhile p = a ∧ (a ++ q :: rest).dropWhile p = q :: rest := by
  induction a with
  | nil => simp [hq]
  | cons x xs ih =>
    have hx : p x = true := ha x (by simp)
    have := ih (fun c hc => ha c (by simp [hc]))
    simp only [List.cons_append, List.takeWhile_cons, List.dropWhile_cons, hx, if_true]
    exact ⟨by rw [this.1], this.2⟩

/-- scanning a double-quoted attribute value (the HTML tokenizer's attribute-value state consumes up
    to the next `"`) stops exactly at the template's own closing quote -/
theorem attr_value_scan (s rest : Bytes) :
    (htmlEscape s ++ 34 :: rest).takeWhile (fun c => c.toNat ≠ 34) = htmlEscape s ∧
    (htmlEscape s ++ 34 :: rest).dropWhile (fun c => c.toNat ≠ 34) = 34 :: rest := by
  apply scan_until
  · intro c hc
    simpa using (htmlEscape_inert s c hc).1
  · decide

/-- text content (the data state consumes up to the next `<`) ends at the template's own tag -/
theorem text_scan (s rest : Bytes) :
    (htmlEscape s ++ 60 :: rest).takeWhile (fun c => c.toNat ≠ 60) = htmlEscape s ∧
    (htmlEscape s ++ 60 :: rest).dropWhile (fun c => c.toNat ≠ 60) = 60 :: rest := by
  apply scan_until
  · intro c hc
    simpa using (htmlEscape_inert s c hc).2.1
  · decide

/-! ### URL filter -/

theorem urlFilter_cases (s : Bytes) : urlFilter s = s ∨ urlFilter s = failsafe := by
  unfold urlFilter
  split
  · exact Or.inl rfl
  · exact Or.inr rfl

theorem urlFilter_safe (s : Bytes) : isSafeURL (urlFilter s) = true := by
  unfold urlFilter
  split
  · assumption
  · decide

/-- a filtered URL has no scheme, or one of http / https / mailto (any case) -/
theorem urlFilter_scheme (s proto : Bytes) (h : beforeColon (urlFilter s) = some proto)
    (hns : proto.any (fun b => b.toNat = 47) = false) :
    lower proto = http ∨ lower proto = https ∨ lower proto = mailto := by
  have hs := urlFilter_safe s
  unfold isSafeURL at hs
  rw [h] at hs
  simp only [hns, Bool.false_eq_true, if_false, Bool.or_eq_true, decide_eq_true_eq] at hs
  rcases hs with (h1 | h2) | h3
  · exact Or.inl h1
  · exact Or.inr (Or.inl h2)
  · exact Or.inr (Or.inr h3)

theorem hexLowerB_toNat (n : Nat) (h : n < 16) : (hexLowerB n).toNat = if n < 10 then 48 + n else 87 + n := by
  unfold hexLowerB
  split
  · rw [UInt8.toNat_ofNat']; omega
  · rw [UInt8.toNat_ofNat']; omega

/-- the normaliser's output alphabet: kept bytes, `%`, and lower-case hex digits -/
theorem urlNormalize_alphabet (s : Bytes) :
    ∀ c ∈ urlNormalize s, urlKeep c = true ∨ c.toNat = 37 := by
  induction s with
  | nil => simp [urlNormalize]
  | cons b r ih =>
    have hb := b.toNat_lt
    intro c hc
    unfold urlNormalize at hc
    split at hc
    · rename_i hk
      simp only [List.mem_cons] at hc
      rcases hc with rfl | hc
      · exact Or.inl hk
      · exact ih c hc
    · split at hc
      · rename_i h37
        simp only [List.mem_cons] at hc
        rcases hc with rfl | hc
        · right; simp at h37; exact h37.1
        · exact ih c hc
      · simp only [List.mem_cons] at hc
        rcases hc with rfl | rfl | rfl | hc
        · right; decide
        · left
          unfold urlKeep isAlnum
          rw [hexLowerB_toNat _ (by omega)]
          split <;> simp <;> omega
        · left
          unfold urlKeep isAlnum
          rw [hexLowerB_toNat _ (by omega)]
          split <;> simp <;> omega
        · exact ih c hc

/-- so a normalised URL contains no quote, angle bracket, apostrophe, blank, control byte or NUL -/
theorem urlNormalize_inert (s : Bytes) (c : UInt8) (hc : c ∈ urlNormalize s) :
    c.toNat ≠ 34 ∧ c.toNat ≠ 60 ∧ c.toNat ≠ 62 ∧ c.toNat ≠ 39 ∧ c.toNat ≠ 0 ∧ c.toNat ≠ 32 ∧ 32 < c.toNat ∧ c.toNat < 127 := by
  rcases urlNormalize_alphabet s c hc with h | h
  · unfold urlKeep isAlnum at h
    simp at h
    omega
  · omega

theorem nulToFFFD_id (s : Bytes) (h : ∀ c ∈ s, c.toNat ≠ 0) : nulToFFFD s = s := by
  induction s with
  | nil => rfl
  | cons b r ih =>
    unfold nulToFFFD
    have hb : b.toNat ≠ 0 := h b (by simp)
    simp only [hb, if_false, List.cons_append, List.nil_append]
    rw [ih (fun c hc => h c (by simp [hc]))]

/-- what the browser reads back from `action="…"` is the normalised, filtered URL -/
theorem action_value (s : Bytes) : htmlUnescape (urlAttrEscape s) = urlNormalize (urlFilter s) := by
  unfold urlAttrEscape
  rw [htmlUnescape_htmlEscape, nulToFFFD_id]
  intro c hc
  exact (urlNormalize_inert _ c hc).2.2.2.2.1

end SamlVerif.Html
