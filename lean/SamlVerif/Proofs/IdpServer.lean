import SamlVerif.Model.IdpServer

namespace SamlVerif.IdpServer

/-! ### map lemmas -/

theorem Map.get_del {α} (m : Map α) (k k' : String) :
    (m.del k).get k' = if k' = k then none else m.get k' := by
  unfold Map.del Map.get
  induction m with
  | nil => simp
  | cons p rest ih =>
    obtain ⟨pk, pv⟩ := p
    by_cases hp : pk = k
    · simp only [List.filter_cons, hp, ne_eq, not_true_eq_false, decide_false, Bool.false_eq_true, if_false]
      rw [ih]
      by_cases hk : k' = k
      · simp [hk]
      · have : (k' == k) = false := by simpa using hk
        simp [hk, List.lookup, this]
    · have hd : decide (pk ≠ k) = true := by simpa using hp
      simp only [List.filter_cons, hd, if_true, List.lookup]
      by_cases hk : k' = pk
      · have : k' ≠ k := by rw [hk]; exact hp
        simp [hk, hp]
      · have : (k' == pk) = false := by simpa using hk
        simp only [this]
        exact ih

theorem Map.get_put {α} (m : Map α) (k k' : String) (v : α) :
    (m.put k v).get k' = if k' = k then some v else m.get k' := by
  unfold Map.put
  show List.lookup k' ((k, v) :: m.del k) = _
  by_cases hk : k' = k
  · simp [hk, List.lookup]
  · have : (k' == k) = false := by simpa using hk
    simp only [List.lookup, this, hk, if_false]
    have := Map.get_del m k k'
    unfold Map.get at this
    rw [this]
    simp [hk, Map.get]

/-! ### session lookup -/

/-- how `getSession` can produce a session: a password that matches the stored user record (a new
    session, announced by Set-Cookie), or the cookie of a stored, unexpired session -/
inductive SessionVia (s : State) (cred : Cred) (cookie : Option String) (allowCred : Bool)
    (id : String) (σ : SessionRec) (c : Option String) : Prop where
  | password (u p : String) (usr : UserRec)
      (hcred : cred = .form u p) (hallow : allowCred = true) (hu : u ≠ "")
      (huser : s.store.users.get u = some usr) (hvalid : validPw p = true) (hpw : usr.hash = some p)
      (hσ : σ = ⟨u, usr.profile, s.now + sessionMaxAge⟩) (hc : c = some id)
  | cookie (hcookie : cookie = some id) (hstored : s.store.sessions.get id = some σ)
      (hfresh : ¬ s.now > σ.expire) (hc : c = none)

theorem storeGet_found {α} (f : Fault) (m : Map α) (k : String) (v : α) (h : storeGet f m k = .found v) :
    m.get k = some v := by
  unfold storeGet at h
  cases f with
  | ok =>
    simp only at h
    cases hg : m.get k with
    | none => simp [hg] at h
    | some v' => simp [hg] at h; rw [h]
  | notFound => simp at h
  | ioErr => simp at h

theorem getSession_session (s : State) (fs : List Fault) (cred : Cred) (cookie : Option String) (allow : Bool)
    (s' : State) (fs' : List Fault) (id : String) (σ : SessionRec) (c : Option String)
    (h : getSession s fs cred cookie allow = (s', fs', .session id σ c)) :
    SessionVia s cred cookie allow id σ c := by
  unfold getSession at h
  simp only at h
  split at h
  · -- credentials
    rename_i u p hcu
    have hcred : cred = .form u p ∧ allow = true ∧ u ≠ "" := by
      cases cred with
      | none => simp at hcu
      | form u' p' =>
        simp only at hcu
        split at hcu
        · rename_i hc
          simp at hcu
          exact ⟨by rw [hcu.1, hcu.2], hc.1, hcu.1 ▸ hc.2⟩
        · simp at hcu
    split at h
    · rename_i usr hg
      split at h
      · rename_i hpw
        split at h
        · simp only [Prod.mk.injEq, SessRes.session.injEq] at h
          obtain ⟨_, _, hid, hσ, hc⟩ := h
          exact .password u p usr hcred.1 hcred.2.1 hcred.2.2 (storeGet_found _ _ _ _ hg) hpw.1 hpw.2
            (by rw [← hσ]) (by rw [← hc, hid])
        · simp at h
      · simp at h
    · simp at h
  · -- cookie
    split at h
    · rename_i sid
      split at h
      · rename_i σ' hg
        split at h
        · simp at h
        · rename_i hexp
          simp only [Prod.mk.injEq, SessRes.session.injEq] at h
          obtain ⟨_, _, hid, hσ, hc⟩ := h
          subst hid hσ
          exact .cookie rfl (storeGet_found _ _ _ _ hg) hexp hc.symm
      · simp at h
      · simp at h
    · simp at h

/-- the replies `getSession` writes itself are the login form or a bare status -/
theorem getSession_wrote (s : State) (fs : List Fault) (cred : Cred) (cookie : Option String) (allow : Bool)
    (s' : State) (fs' : List Fault) (r : Reply) (h : getSession s fs cred cookie allow = (s', fs', .wrote r)) :
    r.body = .loginForm ∨ r.body = .empty := by
  unfold getSession at h
  simp only at h
  split at h
  · split at h
    · split at h
      · split at h
        · simp at h
        · simp at h; rw [← h.2.2]; simp [st]
      · simp at h; rw [← h.2.2]; simp
    · simp at h; rw [← h.2.2]; simp
  · split at h
    · split at h
      · split at h
        · simp at h; rw [← h.2.2]; simp
        · simp at h
      · simp at h; rw [← h.2.2]; simp
      · simp at h; rw [← h.2.2]; simp [st]
    · simp at h; rw [← h.2.2]; simp

/-- `getSession` never touches users, services, shortcuts or the registry, and only ever *adds* a
    session that it also logs -/
theorem getSession_frame (s : State) (fs : List Fault) (cred : Cred) (cookie : Option String) (allow : Bool) :
    (getSession s fs cred cookie allow).1.store.users = s.store.users ∧
    (getSession s fs cred cookie allow).1.store.services = s.store.services ∧
    (getSession s fs cred cookie allow).1.store.shortcuts = s.store.shortcuts ∧
    (getSession s fs cred cookie allow).1.registry = s.registry ∧
    (getSession s fs cred cookie allow).1.now = s.now := by
  unfold getSession
  simp only
  split
  · split
    · split
      · split <;> simp
      · simp
    · simp
  · split
    · split
      · split <;> simp
      · simp
      · simp
    · simp

end SamlVerif.IdpServer

namespace SamlVerif.IdpServer

/-! ### the registry a fresh server builds -/

theorem registryOf_get (m : Map Md) (e : String) :
    (registryOf m).get e = (m.find? (fun p => p.2.entityID = e)).map (·.2) := by
  induction m with
  | nil => rfl
  | cons p rest ih =>
    show ((registryOf rest).put p.2.entityID p.2).get e = _
    rw [Map.get_put, ih]
    by_cases h : e = p.2.entityID
    · simp [h, List.find?_cons]
    · have : ¬ (p.2.entityID = e) := fun hh => h hh.symm
      simp [h, this, List.find?_cons]

/-- keys are unique (true of every map built by `put`/`del` from the empty map) -/
def UniqueKeys {α} (m : Map α) : Prop := (m.map (·.1)).Nodup

theorem uniqueKeys_del {α} (m : Map α) (k : String) (h : UniqueKeys m) : UniqueKeys (m.del k) := by
  unfold UniqueKeys Map.del at *
  exact (List.Nodup.sublist (List.Sublist.map _ List.filter_sublist) h)

theorem not_mem_keys_del {α} (m : Map α) (k : String) : k ∉ (m.del k).map (·.1) := by
  unfold Map.del
  intro h
  rw [List.mem_map] at h
  obtain ⟨p, hp, hk⟩ := h
  have := (List.mem_filter.mp hp).2
  simp [hk] at this

theorem uniqueKeys_put {α} (m : Map α) (k : String) (v : α) (h : UniqueKeys m) : UniqueKeys (m.put k v) := by
  unfold UniqueKeys Map.put
  simp only [List.map_cons, List.nodup_cons]
  exact ⟨not_mem_keys_del m k, uniqueKeys_del m k h⟩

theorem get_eq_some_of_mem {α} (m : Map α) (hu : UniqueKeys m) (k : String) (v : α) (h : (k, v) ∈ m) :
    m.get k = some v := by
  unfold Map.get
  induction m with
  | nil => simp at h
  | cons p rest ih =>
    obtain ⟨pk, pv⟩ := p
    unfold UniqueKeys at hu
    simp only [List.map_cons, List.nodup_cons] at hu
    simp only [List.mem_cons, Prod.mk.injEq] at h
    rcases h with ⟨h1, h2⟩ | h
    · simp [List.lookup, h1, h2]
    · have hne : k ≠ pk := by
        intro hh
        apply hu.1
        rw [List.mem_map]
        exact ⟨(k, v), h, hh⟩
      have : (k == pk) = false := by simpa using hne
      simp only [List.lookup, this]
      exact ih hu.2 h

theorem mem_of_get {α} (m : Map α) (k : String) (v : α) (h : m.get k = some v) : (k, v) ∈ m := by
  unfold Map.get at h
  induction m with
  | nil => simp [List.lookup] at h
  | cons p rest ih =>
    obtain ⟨pk, pv⟩ := p
    by_cases hk : k = pk
    · simp [List.lookup, hk] at h
      simp [hk, h]
    · have : (k == pk) = false := by simpa using hk
      simp only [List.lookup, this] at h
      simp [ih h]

/-- entity IDs are pairwise distinct across stored services -/
def DistinctEntities (m : Map Md) : Prop :=
  ∀ id1 id2 m1 m2, m.get id1 = some m1 → m.get id2 = some m2 → m1.entityID = m2.entityID → id1 = id2

/-- what the registry must be: entity ↦ the stored service with that entity ID -/
def RegSpec (reg : String → Option Md) (services : Map Md) : Prop :=
  ∀ e md, reg e = some md ↔ ∃ id, services.get id = some md ∧ md.entityID = e

/-- the registry a restart builds satisfies the specification -/
theorem registryOf_spec (m : Map Md) (hu : UniqueKeys m) (hd : DistinctEntities m) :
    RegSpec (fun e => (registryOf m).get e) m := by
  intro e md
  show (registryOf m).get e = some md ↔ _
  rw [registryOf_get]
  constructor
  · intro h
    cases hf : m.find? (fun p => p.2.entityID = e) with
    | none => simp [hf] at h
    | some p =>
      simp [hf] at h
      have hmem := List.mem_of_find?_eq_some hf
      have hp := List.find?_some hf
      refine ⟨p.1, ?_, ?_⟩
      · rw [← h]; exact get_eq_some_of_mem m hu p.1 p.2 hmem
      · rw [← h]; simpa using hp
  · rintro ⟨id, hg, he⟩
    have hmem := mem_of_get m id md hg
    cases hf : m.find? (fun p => p.2.entityID = e) with
    | none =>
      have := List.find?_eq_none.mp hf (id, md) hmem
      simp [he] at this
    | some p =>
      have hpm := List.mem_of_find?_eq_some hf
      have hpe := List.find?_some hf
      have hpg := get_eq_some_of_mem m hu p.1 p.2 hpm
      have hid : p.1 = id := hd p.1 id p.2 md hpg hg (by simp at hpe; rw [hpe, he])
      rw [hid, hg] at hpg
      simp at hpg
      simp [hpg]

/-- two registries with the same specification answer every lookup alike -/
theorem regSpec_unique (a b : String → Option Md) (services : Map Md) (ha : RegSpec a services) (hb : RegSpec b services) :
    a = b := by
  funext e
  cases hae : a e with
  | none =>
    cases hbe : b e with
    | none => rfl
    | some md =>
      have := (ha e md).mpr ((hb e md).mp hbe)
      rw [hae] at this; simp at this
  | some md =>
    have := (hb e md).mpr ((ha e md).mp hae)
    rw [this]

end SamlVerif.IdpServer
