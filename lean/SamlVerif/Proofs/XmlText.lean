/-
  Round trip of etree's escaping through encoding/xml's text reader, per writer mode.
-/
import SamlVerif.Model.Codec.XmlText

namespace SamlVerif.XmlText

@[simp] theorem pre_ok (c : Char) (d r : List Char) : pre c (.ok (d, r)) = .ok (c :: d, r) := rfl

/-- an ordinary character passes through `scan` unchanged -/
theorem scan_plain (q : Option Char) (b0 b1 c : Char) (rest : List Char)
    (h1 : c ≠ '>') (h2 : c ≠ '<') (h3 : q ≠ some c) (h4 : c ≠ '&') (h5 : c ≠ '\r')
    (h6 : ¬(b1 = '\r' ∧ c = '\n')) (h7 : inRange c = true) :
    scan q b0 b1 none (c :: rest) = pre c (scan q b1 c none rest) := by
  rw [scan]
  simp [h1, h2, h4, h5, h6, h7, h3]

/-- a reference `&buf;` whose body holds no `;`, `<`, `&` or quote is resolved as a unit -/
theorem scan_ref_body (q : Option Char) (b0 b1 : Char) (acc buf : List Char) (rest : List Char)
    (hb : ∀ c ∈ buf, c ≠ ';' ∧ c ≠ '<' ∧ c ≠ '&' ∧ q ≠ some c) :
    scan q b0 b1 (some acc) (buf ++ ';' :: rest) = scan q b0 b1 (some (acc ++ buf)) (';' :: rest) := by
  induction buf generalizing acc with
  | nil => simp
  | cons c cs ih =>
    obtain ⟨h1, h2, h3, h4⟩ := hb c (by simp)
    rw [List.cons_append, scan]
    simp only [h1, h2, h3, h4, or_self, if_false]
    rw [ih (acc ++ [c]) (fun c' hc' => hb c' (by simp [hc']))]
    simp

theorem scan_ref (q : Option Char) (b0 b1 : Char) (buf rest : List Char) (ch : Char)
    (hb : ∀ c ∈ buf, c ≠ ';' ∧ c ≠ '<' ∧ c ≠ '&' ∧ q ≠ some c) (hr : resolve buf = some ch)
    (hq : q ≠ some '&') :
    scan q b0 b1 none ('&' :: (buf ++ ';' :: rest)) = pre ch (scan q nul nul none rest) := by
  rw [scan]
  have h0 : ¬(b0 = ']' ∧ b1 = ']' ∧ '&' = '>') := by simp
  simp only [h0, if_false]
  have : ('&' : Char) ≠ '<' := by decide
  simp only [this, if_false, hq, if_true]
  rw [scan_ref_body q b0 b1 [] buf rest hb, scan]
  simp [hr]

/-- the quotes this library's writer and reader agree on: none (character data) or `"` -/
def QuoteOK (m : Mode) (q : Option Char) : Prop :=
  (q = none ∧ m = .canonText) ∨ (q = some '"' ∧ m = .normal) ∨ (q = some '"' ∧ m = .canonAttr) ∨ (q = none ∧ m = .normal) ∨
  (q = some '"' ∧ m = .attrCR)

/-- side condition under which a mode is lossless: the normal mode writes CR raw, the canonical
    attribute mode writes `>` raw -/
def Lossless (m : Mode) (s : List Char) : Prop :=
  (∀ c ∈ s, inRange c = true) ∧
  (m = .normal → '\r' ∉ s) ∧
  (m = .canonAttr → '>' ∉ s)

theorem resolve_amp : resolve ['a', 'm', 'p'] = some '&' := by decide
theorem resolve_lt : resolve ['l', 't'] = some '<' := by decide
theorem resolve_gt : resolve ['g', 't'] = some '>' := by decide
theorem resolve_apos : resolve ['a', 'p', 'o', 's'] = some '\'' := by decide
theorem resolve_quot : resolve ['q', 'u', 'o', 't'] = some '"' := by decide
theorem resolve_tab : resolve ['#', 'x', '9'] = some '\t' := by decide
theorem resolve_lf : resolve ['#', 'x', 'A'] = some '\n' := by decide
theorem resolve_cr : resolve ['#', 'x', 'D'] = some '\r' := by decide

/-- one character: escaped by the writer, read back by the reader -/
theorem scan_escChar (m : Mode) (q : Option Char) (hq : QuoteOK m q) (b0 b1 c : Char) (rest : List Char)
    (hb1 : b1 ≠ '\r') (hr : inRange c = true) (hcr : m = .normal → c ≠ '\r') (hgt : m = .canonAttr → c ≠ '>') :
    ∃ b0' b1', b1' ≠ '\r' ∧
      scan q b0 b1 none (escChar m c ++ rest) = pre c (scan q b0' b1' none rest) := by
  have hqa : q ≠ some '&' := by rcases hq with ⟨h, _⟩ | ⟨h, _⟩ | ⟨h, _⟩ | ⟨h, _⟩ | ⟨h, _⟩ <;> simp [h]
  have body : ∀ buf : List Char, (∀ c ∈ buf, c ≠ ';' ∧ c ≠ '<' ∧ c ≠ '&' ∧ c ≠ '"') →
      ∀ c ∈ buf, c ≠ ';' ∧ c ≠ '<' ∧ c ≠ '&' ∧ q ≠ some c := by
    intro buf hb c hc
    obtain ⟨h1, h2, h3, h4⟩ := hb c hc
    refine ⟨h1, h2, h3, ?_⟩
    rcases hq with ⟨h, _⟩ | ⟨h, _⟩ | ⟨h, _⟩ | ⟨h, _⟩ | ⟨h, _⟩ <;> simp [h, Ne.symm h4]
  have ref : ∀ buf : List Char, (∀ c ∈ buf, c ≠ ';' ∧ c ≠ '<' ∧ c ≠ '&' ∧ c ≠ '"') → resolve buf = some c →
      ∃ b0' b1', b1' ≠ '\r' ∧
        scan q b0 b1 none ('&' :: (buf ++ ';' :: rest)) = pre c (scan q b0' b1' none rest) := by
    intro buf hb hres
    exact ⟨nul, nul, by decide, scan_ref q b0 b1 buf rest c (body buf hb) hres hqa⟩
  have plain : c ≠ '>' → c ≠ '<' → q ≠ some c → c ≠ '&' → c ≠ '\r' → escChar m c = [c] →
      ∃ b0' b1', b1' ≠ '\r' ∧ scan q b0 b1 none (escChar m c ++ rest) = pre c (scan q b0' b1' none rest) := by
    intro h1 h2 h3 h4 h5 he
    refine ⟨b1, c, h5, ?_⟩
    rw [he]
    exact scan_plain q b0 b1 c rest h1 h2 h3 h4 h5 (fun h => hb1 h.1) hr
  unfold escChar
  by_cases hamp : c = '&'
  · subst hamp
    simpa using ref ['a', 'm', 'p'] (by decide) resolve_amp
  by_cases hlt : c = '<'
  · subst hlt
    simpa using ref ['l', 't'] (by decide) resolve_lt
  by_cases hg : c = '>'
  · subst hg
    have hm : m ≠ .canonAttr := fun h => hgt h rfl
    simpa [hm] using ref ['g', 't'] (by decide) resolve_gt
  by_cases hap : c = '\''
  · subst hap
    by_cases hm : m = .normal ∨ m = .attrCR
    · simpa [hm] using ref ['a', 'p', 'o', 's'] (by decide) resolve_apos
    · have : q ≠ some '\'' := by rcases hq with ⟨h, _⟩ | ⟨h, _⟩ | ⟨h, _⟩ | ⟨h, _⟩ | ⟨h, _⟩ <;> simp [h]
      have := plain (by decide) (by decide) this (by decide) (by decide) (by simp [escChar, hm])
      simpa [escChar, hm] using this
  by_cases hqu : c = '"'
  · subst hqu
    by_cases hm : m = .canonText
    · have hqn : q = none := by rcases hq with ⟨h, _⟩ | ⟨_, h⟩ | ⟨_, h⟩ | ⟨_, h⟩ | ⟨_, h⟩ <;> simp_all
      have := plain (by decide) (by decide) (by simp [hqn]) (by decide) (by decide) (by simp [escChar, hm])
      simpa [escChar, hm] using this
    · simpa [hm] using ref ['q', 'u', 'o', 't'] (by decide) resolve_quot
  by_cases htab : c = '\t'
  · subst htab
    have hqt : q ≠ some '\t' := by rcases hq with ⟨h, _⟩ | ⟨h, _⟩ | ⟨h, _⟩ | ⟨h, _⟩ | ⟨h, _⟩ <;> simp [h]
    by_cases hm : m = .canonAttr
    · simpa [hm] using ref ['#', 'x', '9'] (by decide) resolve_tab
    · have := plain (by decide) (by decide) hqt (by decide) (by decide) (by simp [escChar, hm])
      simpa [escChar, hm] using this
  by_cases hnl : c = '\n'
  · subst hnl
    have hqt : q ≠ some '\n' := by rcases hq with ⟨h, _⟩ | ⟨h, _⟩ | ⟨h, _⟩ | ⟨h, _⟩ | ⟨h, _⟩ <;> simp [h]
    by_cases hm : m = .canonAttr
    · simpa [hm] using ref ['#', 'x', 'A'] (by decide) resolve_lf
    · have := plain (by decide) (by decide) hqt (by decide) (by decide) (by simp [escChar, hm])
      simpa [escChar, hm] using this
  by_cases hcrc : c = '\r'
  · subst hcrc
    have hm : m ≠ .normal := fun h => hcr h rfl
    simpa [hm] using ref ['#', 'x', 'D'] (by decide) resolve_cr
  · have hqc : q ≠ some c := by
      rcases hq with ⟨h, _⟩ | ⟨h, _⟩ | ⟨h, _⟩ | ⟨h, _⟩ | ⟨h, _⟩ <;> simp [h] <;> exact fun h' => hqu h'.symm
    have := plain hg hlt hqc hamp hcrc (by simp [escChar, hamp, hlt, hg, hap, hqu, htab, hnl, hcrc, hr])
    simpa [escChar, hamp, hlt, hg, hap, hqu, htab, hnl, hcrc, hr] using this

/-- **Round trip**: what the writer emits for `s`, followed by anything, is read back as exactly `s`
    with the rest of the input untouched — provided the terminator `t` stops the reader (`<` for
    character data, `"` for an attribute value). -/
theorem scan_escape (m : Mode) (q : Option Char) (hq : QuoteOK m q) (s : List Char) (hs : Lossless m s)
    (b0 b1 : Char) (hb1 : b1 ≠ '\r') (tail : List Char) (res : Outcome (List Char × List Char))
    (hstop : ∀ b0' b1', b1' ≠ '\r' → scan q b0' b1' none tail = res) :
    scan q b0 b1 none (escape m s ++ tail) =
      s.foldr pre res := by
  induction s generalizing b0 b1 with
  | nil => simpa [escape] using hstop b0 b1 hb1
  | cons c cs ih =>
    obtain ⟨hr, hcr, hgt⟩ := hs
    have hs' : Lossless m cs :=
      ⟨fun x hx => hr x (by simp [hx]), fun h hx => hcr h (by simp [hx]), fun h hx => hgt h (by simp [hx])⟩
    obtain ⟨b0', b1', hb1', he⟩ := scan_escChar m q hq b0 b1 c (escape m cs ++ tail) hb1 (hr c (by simp))
      (fun h hc => hcr h (by simp [hc])) (fun h hc => hgt h (by simp [hc]))
    simp only [escape, List.flatMap_cons, List.append_assoc] at he ⊢
    rw [he]
    have := ih hs' b0' b1' hb1'
    simp only [escape] at this
    rw [this]
    rfl

theorem foldr_pre_ok (s d r : List Char) : s.foldr pre (.ok (d, r)) = .ok (s ++ d, r) := by
  induction s with
  | nil => rfl
  | cons c cs ih => simp [List.foldr, ih]

/-- character data: `<a>` escape(s) `</a>` reads back as `s` -/
theorem text_roundtrip (m : Mode) (hm : m = .canonText ∨ m = .normal) (s : List Char) (hs : Lossless m s)
    (rest : List Char) :
    readText (escape m s ++ '<' :: rest) = .ok (s, '<' :: rest) := by
  unfold readText
  have hq : QuoteOK m none := by rcases hm with h | h <;> simp [QuoteOK, h]
  rw [scan_escape m none hq s hs nul nul (by decide) ('<' :: rest) (.ok ([], '<' :: rest))]
  · simp [foldr_pre_ok]
  · intro b0' b1' _
    rw [scan]; simp

/-- attribute value: `x="` escape(s) `"` reads back as `s` -/
theorem attr_roundtrip (m : Mode) (hm : m = .normal ∨ m = .canonAttr ∨ m = .attrCR) (s : List Char) (hs : Lossless m s) (rest : List Char) :
    readAttr (escape m s ++ '"' :: rest) = .ok (s, rest) := by
  unfold readAttr
  have hq : QuoteOK m (some '"') := by rcases hm with h | h | h <;> simp [QuoteOK, h]
  rw [scan_escape m (some '"') hq s hs nul nul (by decide) ('"' :: rest) (.ok ([], rest))]
  · simp [foldr_pre_ok]
  · intro b0' b1' _
    rw [scan]
    have : ¬(b0' = ']' ∧ b1' = ']' ∧ ('"' : Char) = '>') := by simp
    simp [this]

end SamlVerif.XmlText

namespace SamlVerif.XmlText

/-- the normal mode never emits a carriage return except for a carriage return itself -/
theorem crReplace_escChar_normal (c : Char) : crReplace (escChar .normal c) = escChar .attrCR c := by
  unfold escChar crReplace
  by_cases h1 : c = '&'
  · subst h1; decide
  by_cases h2 : c = '<'
  · subst h2; decide
  by_cases h3 : c = '>'
  · subst h3; decide
  by_cases h4 : c = '\''
  · subst h4; decide
  by_cases h5 : c = '"'
  · subst h5; decide
  by_cases h6 : c = '\t'
  · subst h6; decide
  by_cases h7 : c = '\n'
  · subst h7; decide
  by_cases h8 : c = '\r'
  · subst h8; decide
  · simp only [h1, h2, h3, h4, h5, h6, h7, h8, if_false]
    by_cases hr : inRange c = true
    · simp [hr, h8]
    · have hr' : inRange c = false := by simpa using hr
      simp only [hr']
      simp

theorem crReplace_append (a b : List Char) : crReplace (a ++ b) = crReplace a ++ crReplace b := by
  unfold crReplace; simp

/-- what the library writes for an attribute value: etree's normal mode, carriage returns replaced -/
theorem crReplace_escape_normal (s : List Char) : crReplace (escape .normal s) = escape .attrCR s := by
  induction s with
  | nil => rfl
  | cons c cs ih =>
    simp only [escape, List.flatMap_cons] at ih ⊢
    rw [crReplace_append, crReplace_escChar_normal, ih]

end SamlVerif.XmlText
