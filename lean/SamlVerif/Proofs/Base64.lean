import SamlVerif.Model.Codec.Base64

namespace SamlVerif.Codec

theorem b64char_toNat (n : Nat) (h : n < 64) :
    (b64char n).toNat = if n < 26 then 65 + n else if n < 52 then 71 + n else if n < 62 then n - 4
      else if n = 62 then 43 else 47 := by
  unfold b64char
  split
  · rw [UInt8.toNat_ofNat']; omega
  · split
    · rw [UInt8.toNat_ofNat']; omega
    · split
      · rw [UInt8.toNat_ofNat']; omega
      · split <;> rfl

theorem b64val_b64char (n : Nat) (h : n < 64) : b64val (b64char n) = some n := by
  unfold b64val
  rw [b64char_toNat n h]
  by_cases h1 : n < 26
  · simp only [h1, if_true]
    rw [if_pos (by omega)]
    congr 1; omega
  · by_cases h2 : n < 52
    · simp only [h1, h2, if_true, if_false]
      rw [if_neg (by omega), if_pos (by omega)]
      congr 1; omega
    · by_cases h3 : n < 62
      · simp only [h1, h2, h3, if_true, if_false]
        rw [if_neg (by omega), if_neg (by omega), if_pos (by omega)]
        congr 1; omega
      · by_cases h4 : n = 62
        · simp [h4]
        · have : n = 63 := by omega
          simp [this]

theorem b64char_not_pad_nl (n : Nat) (h : n < 64) :
    (b64char n).toNat ≠ 61 ∧ (b64char n).toNat ≠ 13 ∧ (b64char n).toNat ≠ 10 := by
  rw [b64char_toNat n h]
  split
  · omega
  · split
    · omega
    · split
      · omega
      · split <;> omega

theorem ofNat_toNat_id (b : UInt8) (n : Nat) (h : n = b.toNat) : UInt8.ofNat n = b := by
  rw [h]; exact UInt8.ofNat_toNat

/-- the encoder's output contains no CR/LF, so the filter in `DecodeString` is the identity on it -/
theorem b64encode_no_nl (s : Bytes) : ∀ c ∈ b64encode s, c.toNat ≠ 13 ∧ c.toNat ≠ 10 := by
  match s with
  | [] => simp [b64encode]
  | [a] =>
    have ha := a.toNat_lt
    intro c hc
    simp only [b64encode, List.mem_cons, List.mem_nil_iff, or_false] at hc
    rcases hc with rfl | rfl | rfl | rfl
    · exact (b64char_not_pad_nl _ (by omega)).2
    · exact (b64char_not_pad_nl _ (by omega)).2
    · decide
    · decide
  | [a, b] =>
    have ha := a.toNat_lt
    have hb := b.toNat_lt
    intro c hc
    simp only [b64encode, List.mem_cons, List.mem_nil_iff, or_false] at hc
    rcases hc with rfl | rfl | rfl | rfl
    · exact (b64char_not_pad_nl _ (by omega)).2
    · exact (b64char_not_pad_nl _ (by omega)).2
    · exact (b64char_not_pad_nl _ (by omega)).2
    · decide
  | a :: b :: c' :: r =>
    have ha := a.toNat_lt
    have hb := b.toNat_lt
    have hc' := c'.toNat_lt
    intro c hc
    simp only [b64encode, List.mem_cons] at hc
    rcases hc with rfl | rfl | rfl | rfl | hc
    · exact (b64char_not_pad_nl _ (by omega)).2
    · exact (b64char_not_pad_nl _ (by omega)).2
    · exact (b64char_not_pad_nl _ (by omega)).2
    · exact (b64char_not_pad_nl _ (by omega)).2
    · exact b64encode_no_nl r c hc

theorem quads_roundtrip (s : Bytes) : b64decodeQuads (b64encode s) = some s := by
  match s with
  | [] => rfl
  | [a] =>
    have ha := a.toNat_lt
    simp only [b64encode, b64decodeQuads]
    rw [b64val_b64char _ (by omega), b64val_b64char _ (by omega)]
    have : (61 : UInt8).toNat = 61 := by decide
    simp only [this, and_self, if_true]
    congr 2
    exact ofNat_toNat_id a _ (by omega)
  | [a, b] =>
    have ha := a.toNat_lt
    have hb := b.toNat_lt
    simp only [b64encode, b64decodeQuads]
    rw [b64val_b64char _ (by omega), b64val_b64char _ (by omega)]
    have h61 : (61 : UInt8).toNat = 61 := by decide
    have hy := (b64char_not_pad_nl (b.toNat % 16 * 4) (by omega)).1
    simp only [h61, hy, false_and, if_false, and_true, if_true]
    rw [b64val_b64char _ (by omega)]
    simp only [if_true]
    congr 2
    · exact ofNat_toNat_id a _ (by omega)
    · congr 1
      exact ofNat_toNat_id b _ (by omega)
  | a :: b :: c :: r =>
    have ha := a.toNat_lt
    have hb := b.toNat_lt
    have hc := c.toNat_lt
    have ih := quads_roundtrip r
    have e1 : UInt8.ofNat (a.toNat / 4 * 4 + (a.toNat % 4 * 16 + b.toNat / 16) / 16) = a :=
      ofNat_toNat_id a _ (by omega)
    have e2 : UInt8.ofNat ((a.toNat % 4 * 16 + b.toNat / 16) % 16 * 16 + (b.toNat % 16 * 4 + c.toNat / 64) / 4) = b :=
      ofNat_toNat_id b _ (by omega)
    have e3 : UInt8.ofNat ((b.toNat % 16 * 4 + c.toNat / 64) % 4 * 64 + c.toNat % 64) = c :=
      ofNat_toNat_id c _ (by omega)
    cases hr : b64encode r with
    | nil =>
      simp only [b64encode, hr]
      rw [hr] at ih
      simp only [b64decodeQuads]
      rw [b64val_b64char _ (by omega), b64val_b64char _ (by omega)]
      have hy := (b64char_not_pad_nl (b.toNat % 16 * 4 + c.toNat / 64) (by omega)).1
      have hz := (b64char_not_pad_nl (c.toNat % 64) (by omega)).1
      simp only [hy, hz, false_and, and_false, if_false]
      rw [b64val_b64char _ (by omega)]
      simp only
      rw [b64val_b64char _ (by omega)]
      simp only [b64decodeQuads] at ih
      have hrn : r = [] := by simpa using ih.symm
      subst hrn
      simp only [e1, e2, e3]
    | cons x xs =>
      simp only [b64encode, hr]
      rw [hr] at ih
      simp only [b64decodeQuads]
      rw [b64val_b64char _ (by omega), b64val_b64char _ (by omega), b64val_b64char _ (by omega),
        b64val_b64char _ (by omega)]
      simp only [ih, Option.map_some, e1, e2, e3]

/-- **DecodeString ∘ EncodeToString = id** for every byte string. -/
theorem b64_roundtrip (s : Bytes) : b64decode (b64encode s) = some s := by
  unfold b64decode
  have : (b64encode s).filter (fun c => c.toNat ≠ 13 ∧ c.toNat ≠ 10) = b64encode s := by
    rw [List.filter_eq_self]
    intro c hc
    have := b64encode_no_nl s c hc
    simp [this.1, this.2]
  rw [this, quads_roundtrip]

theorem b64char_ge (n : Nat) (h : n < 64) : 43 ≤ (b64char n).toNat := by
  rw [b64char_toNat n h]
  split
  · omega
  · split
    · omega
    · split
      · omega
      · split <;> omega

/-- every byte of the encoder's output is one of `+ / 0-9 = A-Z a-z`: in particular never NUL and never `"`, `&`, `<`, `>`, `'` -/
theorem b64encode_ge (s : Bytes) : ∀ c ∈ b64encode s, 43 ≤ c.toNat := by
  match s with
  | [] => simp [b64encode]
  | [a] =>
    have ha := a.toNat_lt
    intro c hc
    simp only [b64encode, List.mem_cons, List.mem_nil_iff, or_false] at hc
    rcases hc with rfl | rfl | rfl | rfl
    · exact b64char_ge _ (by omega)
    · exact b64char_ge _ (by omega)
    · decide
    · decide
  | [a, b] =>
    have ha := a.toNat_lt
    have hb := b.toNat_lt
    intro c hc
    simp only [b64encode, List.mem_cons, List.mem_nil_iff, or_false] at hc
    rcases hc with rfl | rfl | rfl | rfl
    · exact b64char_ge _ (by omega)
    · exact b64char_ge _ (by omega)
    · exact b64char_ge _ (by omega)
    · decide
  | a :: b :: c' :: r =>
    have ha := a.toNat_lt
    have hb := b.toNat_lt
    have hc' := c'.toNat_lt
    intro c hc
    simp only [b64encode, List.mem_cons] at hc
    rcases hc with rfl | rfl | rfl | rfl | hc
    · exact b64char_ge _ (by omega)
    · exact b64char_ge _ (by omega)
    · exact b64char_ge _ (by omega)
    · exact b64char_ge _ (by omega)
    · exact b64encode_ge r c hc

end SamlVerif.Codec
