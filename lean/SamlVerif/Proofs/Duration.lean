import SamlVerif.Model.Duration

namespace SamlVerif.Duration

theorem showNat_digits (n : Nat) : ∀ c ∈ showNat n, c.isDigit = true := by
  intro c hc
  exact Nat.isDigit_of_mem_toDigits (by decide) (by decide) hc

theorem showNat_ne_nil (n : Nat) : showNat n ≠ [] := Nat.toDigits_ne_nil

theorem decNat_showNat (n : Nat) : decNat (showNat n) = n := Nat.ofDigitChars_ten_toDigits

theorem takeDigits_append (ds : List Char) (c : Char) (rest : List Char)
    (hd : ∀ x ∈ ds, x.isDigit = true) (hc : c.isDigit = false) :
    takeDigits (ds ++ c :: rest) = (ds, c :: rest) := by
  induction ds with
  | nil => simp [takeDigits, hc]
  | cons d ds ih =>
    have h1 : d.isDigit = true := hd d (by simp)
    have h2 := ih (fun x hx => hd x (by simp [hx]))
    simp [takeDigits, h1, h2]

theorem takeDigits_all (ds : List Char) (hd : ∀ x ∈ ds, x.isDigit = true) :
    takeDigits ds = (ds, []) := by
  induction ds with
  | nil => simp [takeDigits]
  | cons d ds ih =>
    have h1 : d.isDigit = true := hd d (by simp)
    have h2 := ih (fun x hx => hd x (by simp [hx]))
    simp [takeDigits, h1, h2]

theorem takeDigits_nondigit (c : Char) (rest : List Char) (hc : c.isDigit = false) :
    takeDigits (c :: rest) = ([], c :: rest) := by
  simp [takeDigits, hc]

/-- a field that is present: digits followed by its own letter -/
theorem optField_hit (L : Char) (hL : L.isDigit = false) (n : Nat) (rest : List Char) :
    optField L (showNat n ++ L :: rest) = (some (showNat n), rest) := by
  unfold optField
  rw [takeDigits_append _ _ _ (showNat_digits n) hL]
  cases h : showNat n with
  | nil => exact absurd h (showNat_ne_nil n)
  | cons d ds => simp

/-- a field that is absent because the digits are followed by another non-digit -/
theorem optField_miss (L c : Char) (hc : c.isDigit = false) (hne : c ≠ L) (n : Nat) (rest : List Char) :
    optField L (showNat n ++ c :: rest) = (none, showNat n ++ c :: rest) := by
  unfold optField
  rw [takeDigits_append _ _ _ (showNat_digits n) hc]
  cases h : showNat n with
  | nil => exact absurd h (showNat_ne_nil n)
  | cons d ds => simp [hne]

theorem optField_nondigit (L c : Char) (hc : c.isDigit = false) (rest : List Char) :
    optField L (c :: rest) = (none, c :: rest) := by
  unfold optField
  rw [takeDigits_nondigit _ _ hc]

theorem optField_nil (L : Char) : optField L [] = (none, []) := by
  simp [optField, takeDigits]

theorem optSeconds_nil : optSeconds [] = (none, []) := by
  simp [optSeconds, takeDigits]

theorem optSeconds_whole (n : Nat) :
    optSeconds (showNat n ++ ['S']) = (some (showNat n, []), []) := by
  unfold optSeconds
  rw [takeDigits_append _ _ _ (showNat_digits n) (by decide)]
  cases h : showNat n with
  | nil => exact absurd h (showNat_ne_nil n)
  | cons d ds => simp

theorem optSeconds_frac (n : Nat) (fs : List Char) (hf : ∀ x ∈ fs, x.isDigit = true) (hne : fs ≠ []) :
    optSeconds (showNat n ++ '.' :: (fs ++ ['S'])) = (some (showNat n, fs), []) := by
  unfold optSeconds
  rw [takeDigits_append _ _ _ (showNat_digits n) (by decide)]
  cases h : showNat n with
  | nil => exact absurd h (showNat_ne_nil n)
  | cons d ds =>
    simp only
    rw [takeDigits_append _ _ _ hf (by decide)]
    cases fs with
    | nil => exact absurd rfl hne
    | cons f fs' => simp

/-! ### fractional part -/

theorem decNat_replicate_zero_append (k : Nat) (ds : List Char) :
    decNat (List.replicate k '0' ++ ds) = decNat ds := by
  unfold decNat
  rw [Nat.ofDigitChars_append, Nat.ofDigitChars_replicate_zero]
  simp

theorem trim_append (s : List Char) :
    ∃ k, trimRightZeros s ++ List.replicate k '0' = s ∧ (trimRightZeros s).length + k = s.length := by
  unfold trimRightZeros
  have h := List.takeWhile_append_dropWhile (p := (· = '0')) (l := s.reverse)
  refine ⟨(s.reverse.takeWhile (· = '0')).length, ?_, ?_⟩
  · have hall : s.reverse.takeWhile (· = '0') = List.replicate (s.reverse.takeWhile (· = '0')).length '0' := by
      rw [List.eq_replicate_iff]
      refine ⟨rfl, ?_⟩
      intro b hb
      have hall := List.all_takeWhile (p := (· = '0')) (l := s.reverse)
      rw [List.all_eq_true] at hall
      simpa using hall b hb
    have h2 : s = (s.reverse.dropWhile (· = '0')).reverse ++ (s.reverse.takeWhile (· = '0')).reverse := by
      have := congrArg List.reverse h
      simp only [List.reverse_append, List.reverse_reverse] at this
      exact this.symm
    conv => rhs; rw [h2]
    congr 1
    rw [hall]
    simp
  · have := congrArg List.length h
    simp only [List.length_append, List.length_reverse] at this
    simp only [List.length_reverse]
    omega

theorem showNat_length_le9 (ns : Nat) (h : ns < 1000000000) : (showNat ns).length ≤ 9 := by
  unfold showNat
  rw [Nat.length_toDigits_le_iff (by decide) (by decide)]
  exact h

theorem pad9_length (ns : Nat) (h : ns < 1000000000) : (pad9 ns).length = 9 := by
  unfold pad9
  have := showNat_length_le9 ns h
  simp
  omega

theorem pad9_digits (ns : Nat) : ∀ c ∈ pad9 ns, c.isDigit = true := by
  intro c hc
  unfold pad9 at hc
  simp at hc
  rcases hc with ⟨_, rfl⟩ | hc
  · decide
  · exact showNat_digits ns c hc

theorem decNat_pad9 (ns : Nat) : decNat (pad9 ns) = ns := by
  unfold pad9
  simp only
  rw [decNat_replicate_zero_append, decNat_showNat]

theorem decNat_append_zeros (ds : List Char) (k : Nat) :
    decNat (ds ++ List.replicate k '0') = 10 ^ k * decNat ds := by
  unfold decNat
  rw [Nat.ofDigitChars_append, Nat.ofDigitChars_replicate_zero]

theorem trim_digits (s : List Char) (h : ∀ c ∈ s, c.isDigit = true) :
    ∀ c ∈ trimRightZeros s, c.isDigit = true := by
  intro c hc
  obtain ⟨k, hk, _⟩ := trim_append s
  apply h
  rw [← hk]
  simp [hc]

theorem trim_ne_nil_of_pos (ns : Nat) (hpos : 0 < ns) : trimRightZeros (pad9 ns) ≠ [] := by
  intro hnil
  obtain ⟨k, hk, _⟩ := trim_append (pad9 ns)
  rw [hnil] at hk
  have : decNat (pad9 ns) = 0 := by
    rw [← hk]
    simp [decNat]
  rw [decNat_pad9] at this
  omega

theorem fracNs_trim_pad9 (ns : Nat) (h : ns < 1000000000) :
    fracNs (trimRightZeros (pad9 ns)) = ns := by
  obtain ⟨k, hk, hlen⟩ := trim_append (pad9 ns)
  rw [pad9_length ns h] at hlen
  unfold fracNs
  have hl : (trimRightZeros (pad9 ns)).length ≤ 9 := by omega
  simp only [List.take_of_length_le hl]
  have : 9 - (trimRightZeros (pad9 ns)).length = k := by omega
  rw [this, hk, decNat_pad9]

end SamlVerif.Duration

namespace SamlVerif.Duration

/-! ### the time part -/

def secText (s ns : Nat) : List Char :=
  if s > 0 ∨ ns > 0 then
    showNat s ++ (if ns > 0 then '.' :: trimRightZeros (pad9 ns) else []) ++ ['S']
  else []

def minText (m : Nat) : List Char := if m > 0 then showNat m ++ ['M'] else []
def hourText (h : Nat) : List Char := if h > 0 then showNat h ++ ['H'] else []

theorem secText_shape (s ns : Nat) (h : s > 0 ∨ ns > 0) :
    (ns = 0 ∧ secText s ns = showNat s ++ ['S']) ∨
    (ns > 0 ∧ secText s ns = showNat s ++ '.' :: (trimRightZeros (pad9 ns) ++ ['S'])) := by
  unfold secText
  rw [if_pos h]
  by_cases hn : ns > 0
  · right; simp [hn]
  · left; have : ns = 0 := by omega
    simp [this]

theorem optField_secText (L : Char) (hS : 'S' ≠ L) (hdot : '.' ≠ L) (s ns : Nat) :
    optField L (secText s ns) = (none, secText s ns) := by
  by_cases h : s > 0 ∨ ns > 0
  · rcases secText_shape s ns h with ⟨_, he⟩ | ⟨_, he⟩
    · rw [he]; exact optField_miss L 'S' (by decide) hS s []
    · rw [he]; exact optField_miss L '.' (by decide) hdot s _
  · unfold secText; rw [if_neg h]; exact optField_nil L

theorem atoi_showNat (n : Nat) (h : (n : Int) < two63) : atoi (showNat n) = .ok n := by
  unfold atoi
  simp only [decNat_showNat]
  rw [if_pos h]

theorem map_ok {α β} (a : α) (f : α → β) (o : Outcome α) (h : o = .ok a) : o.map f = .ok (f a) := by
  rw [h]; rfl

theorem field_hit (n u : Nat) (hb : (n : Int) < two63) : field (some (showNat n)) u = .ok (n * u) := by
  unfold field
  exact map_ok n (· * u) _ (atoi_showNat n hb)

theorem field_none (u : Nat) : field none u = .ok 0 := rfl

theorem secField_some (s : Nat) (fs : List Char) (hb : (s : Int) < two63) :
    secField (some (showNat s, fs)) = .ok (s * secNs + fracNs fs) := by
  unfold secField
  exact map_ok s (fun wn => wn * secNs + fracNs fs) _ (atoi_showNat s hb)

theorem fracNs_nil : fracNs [] = 0 := by
  unfold fracNs decNat
  simp only [List.take_nil, List.length_nil, List.nil_append]
  rw [Nat.ofDigitChars_replicate_zero]

theorem secField_secText (s ns : Nat) (hs : s < 60) (hns : ns < 1000000000) :
    ∃ v, optSeconds (secText s ns) = (v, []) ∧ secField v = .ok (s * secNs + ns) := by
  by_cases h : s > 0 ∨ ns > 0
  · have hsb : ((s : Nat) : Int) < two63 := by unfold two63; omega
    rcases secText_shape s ns h with ⟨h0, he⟩ | ⟨hp, he⟩
    · refine ⟨some (showNat s, []), ?_, ?_⟩
      · rw [he]; exact optSeconds_whole s
      · rw [secField_some s [] hsb, fracNs_nil, h0]
    · refine ⟨some (showNat s, trimRightZeros (pad9 ns)), ?_, ?_⟩
      · rw [he]
        exact optSeconds_frac s _ (trim_digits _ (pad9_digits ns)) (trim_ne_nil_of_pos ns hp)
      · rw [secField_some s _ hsb, fracNs_trim_pad9 ns hns]
  · refine ⟨none, ?_, ?_⟩
    · unfold secText; rw [if_neg h]; exact optSeconds_nil
    · have : s = 0 ∧ ns = 0 := by omega
      rw [this.1, this.2]
      rfl

theorem optField_M_minsec (m s ns : Nat) :
    ∃ v, optField 'M' (minText m ++ secText s ns) = (v, secText s ns) ∧
      (m < 60 → field v minNs = .ok (m * minNs)) := by
  unfold minText
  by_cases hm : m > 0
  · rw [if_pos hm]
    refine ⟨some (showNat m), ?_, ?_⟩
    · have := optField_hit 'M' (by decide) m (secText s ns)
      simpa [List.append_assoc] using this
    · intro hlt
      have hb : ((m : Nat) : Int) < two63 := by unfold two63; omega
      exact field_hit m minNs hb
  · rw [if_neg hm]
    refine ⟨none, ?_, ?_⟩
    · simpa using optField_secText 'M' (by decide) (by decide) s ns
    · intro _
      have : m = 0 := by omega
      rw [this, Nat.zero_mul]
      rfl

theorem optField_H_minsec (m s ns : Nat) :
    optField 'H' (minText m ++ secText s ns) = (none, minText m ++ secText s ns) := by
  unfold minText
  by_cases hm : m > 0
  · rw [if_pos hm]
    have := optField_miss 'H' 'M' (by decide) (by decide) m (secText s ns)
    simpa [List.append_assoc] using this
  · rw [if_neg hm]
    simpa using optField_secText 'H' (by decide) (by decide) s ns

theorem optField_H_all (h m s ns : Nat) :
    ∃ v, optField 'H' (hourText h ++ (minText m ++ secText s ns)) = (v, minText m ++ secText s ns) ∧
      ((h : Int) < two63 → field v hourNs = .ok (h * hourNs)) := by
  unfold hourText
  by_cases hh : h > 0
  · rw [if_pos hh]
    refine ⟨some (showNat h), ?_, ?_⟩
    · have := optField_hit 'H' (by decide) h (minText m ++ secText s ns)
      simpa [List.append_assoc] using this
    · intro hb
      exact field_hit h hourNs hb
  · rw [if_neg hh]
    refine ⟨none, ?_, ?_⟩
    · simpa using optField_H_minsec m s ns
    · intro _
      have : h = 0 := by omega
      rw [this, Nat.zero_mul]
      rfl

def timeText (h m s ns : Nat) : List Char := hourText h ++ (minText m ++ secText s ns)

theorem parseTime_timeText (h m s ns : Nat) (hh : (h : Int) < two63) (hm : m < 60) (hs : s < 60)
    (hns : ns < 1000000000) (hne : timeText h m s ns ≠ []) :
    parseTime (timeText h m s ns) = .ok (h * hourNs + m * minNs + (s * secNs + ns)) := by
  unfold parseTime
  rw [if_neg hne]
  unfold timeText
  obtain ⟨vh, e1, f1⟩ := optField_H_all h m s ns
  obtain ⟨vm, e2, f2⟩ := optField_M_minsec m s ns
  obtain ⟨vs, e3, f3⟩ := secField_secText s ns hs hns
  simp only [e1, e2, e3]
  simp [f1 hh, f2 hm, f3]

theorem showNat_no_nl (n : Nat) : '\n' ∉ showNat n := by
  intro h
  have := showNat_digits n _ h
  simp at this

theorem timeText_no_nl (h m s ns : Nat) : '\n' ∉ timeText h m s ns := by
  unfold timeText hourText minText secText
  intro hmem
  simp only [List.mem_append] at hmem
  rcases hmem with hmem | hmem | hmem
  · split at hmem
    · simp only [List.mem_append, List.mem_singleton] at hmem
      rcases hmem with hmem | hmem
      · exact showNat_no_nl _ hmem
      · simp at hmem
    · simp at hmem
  · split at hmem
    · simp only [List.mem_append, List.mem_singleton] at hmem
      rcases hmem with hmem | hmem
      · exact showNat_no_nl _ hmem
      · simp at hmem
    · simp at hmem
  · split at hmem
    · simp only [List.mem_append, List.mem_singleton] at hmem
      rcases hmem with (hmem | hmem) | hmem
      · exact showNat_no_nl _ hmem
      · split at hmem
        · simp only [List.mem_cons] at hmem
          rcases hmem with hmem | hmem
          · simp at hmem
          · have := trim_digits _ (pad9_digits ns) _ hmem
            simp at this
        · simp at hmem
      · simp at hmem
    · simp at hmem

theorem timeText_ne_nil (h m s ns : Nat) (hpos : h > 0 ∨ m > 0 ∨ s > 0 ∨ ns > 0) :
    timeText h m s ns ≠ [] := by
  unfold timeText hourText minText secText
  intro hnil
  simp only [List.append_eq_nil_iff] at hnil
  obtain ⟨h1, h2, h3⟩ := hnil
  rcases hpos with hp | hp | hp
  · rw [if_pos hp] at h1; simp at h1
  · rw [if_pos hp] at h2; simp at h2
  · have : s > 0 ∨ ns > 0 := hp
    rw [if_pos this] at h3; simp at h3

end SamlVerif.Duration
