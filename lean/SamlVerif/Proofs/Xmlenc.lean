import SamlVerif.Model.Xmlenc

namespace SamlVerif.Xmlenc

/-! ### padding -/

theorem appendPadding_length (p : Bytes) (bs : Nat) (h : 0 < bs) :
    (appendPadding p bs).length = p.length + (bs - p.length % bs) := by
  unfold appendPadding
  have : p.length % bs < bs := Nat.mod_lt _ h
  simp
  omega

theorem appendPadding_length_mod (p : Bytes) (bs : Nat) (h : 0 < bs) :
    (appendPadding p bs).length % bs = 0 := by
  rw [appendPadding_length p bs h]
  have hlt : p.length % bs < bs := Nat.mod_lt _ h
  have hdm := Nat.div_add_mod p.length bs
  have : p.length + (bs - p.length % bs) = bs * (p.length / bs + 1) := by
    rw [Nat.mul_add, Nat.mul_one]
    omega
  rw [this]
  exact Nat.mul_mod_right _ _

theorem strip_append (p : Bytes) (bs : Nat) (h0 : 0 < bs) (h255 : bs ≤ 255) :
    stripPadding (appendPadding p bs) = .ok p := by
  have hlt : p.length % bs < bs := Nat.mod_lt _ h0
  have hn1 : 1 ≤ bs - p.length % bs := by omega
  have hn255 : bs - p.length % bs ≤ 255 := by omega
  have hlen := appendPadding_length p bs h0
  unfold stripPadding
  have hlast : (appendPadding p bs).getLast? = some (UInt8.ofNat (bs - p.length % bs)) := by
    unfold appendPadding
    simp
  rw [hlast]
  have hto : (UInt8.ofNat (bs - p.length % bs)).toNat = bs - p.length % bs := by
    simp [UInt8.toNat_ofNat']
    omega
  simp only [hto]
  have e1 : ¬ (bs - p.length % bs > (appendPadding p bs).length) := by omega
  have e2 : ¬ (bs - p.length % bs < 1) := by omega
  rw [if_neg e1, if_neg e2]
  congr 1
  have : (appendPadding p bs).length - (bs - p.length % bs) = p.length := by omega
  rw [this]
  unfold appendPadding
  simp [List.append_assoc]

/-- the pinned off-by-one: the padding of the empty plaintext is rejected -/
theorem stripPaddingPinned_rejects_empty :
    stripPaddingPinned (appendPadding [] 16) = .err "pad-short" := by decide

theorem stripPadding_ne_panic (buf : Bytes) (w : String) : stripPadding buf ≠ .panic w := by
  unfold stripPadding
  split
  · simp
  · split
    · simp
    · split <;> simp

/-- whatever is returned is a proper prefix: at least one padding byte was removed -/
theorem stripPadding_min (buf p : Bytes) (h : stripPadding buf = .ok p) : p.length < buf.length := by
  unfold stripPadding at h
  split at h
  · simp at h
  · rename_i last hl
    split at h
    · simp at h
    · split at h
      · simp at h
      · simp at h
        rw [← h]
        simp
        have : buf ≠ [] := by
          intro hn; rw [hn] at hl; simp at hl
        have : 0 < buf.length := List.length_pos_iff.mpr this
        omega

/-! ### chunks / flatten -/

theorem chunks_flatten (bs : Nat) (bl : List Bytes) (h : ∀ b ∈ bl, b.length = bs) :
    chunks bs bl.length bl.flatten = bl := by
  induction bl with
  | nil => simp [chunks]
  | cons b rest ih =>
    have hb : b.length = bs := h b (by simp)
    simp only [List.length_cons, chunks, List.flatten_cons]
    rw [List.take_append_of_le_length (by omega), List.drop_append_of_le_length (by omega)]
    simp only [← hb, List.take_length, List.drop_length, List.nil_append]
    rw [hb, ih (fun x hx => h x (by simp [hx]))]

theorem flatten_chunks (bs k : Nat) (l : Bytes) (h : l.length = k * bs) :
    (chunks bs k l).flatten = l := by
  induction k generalizing l with
  | zero =>
    simp at h
    simp [chunks, h]
  | succ k ih =>
    simp only [chunks, List.flatten_cons]
    have : (l.drop bs).length = k * bs := by
      simp [List.length_drop, h, Nat.succ_mul]
    rw [ih _ this, List.take_append_drop]

theorem chunks_length (bs k : Nat) (l : Bytes) : (chunks bs k l).length = k := by
  induction k generalizing l with
  | zero => simp [chunks]
  | succ k ih => simp [chunks, ih]

theorem chunks_each (bs k : Nat) (l : Bytes) (h : l.length = k * bs) :
    ∀ b ∈ chunks bs k l, b.length = bs := by
  induction k generalizing l with
  | zero => simp [chunks]
  | succ k ih =>
    intro b hb
    simp only [chunks, List.mem_cons] at hb
    have hd : (l.drop bs).length = k * bs := by
      simp [List.length_drop, h, Nat.succ_mul]
    rcases hb with rfl | hb
    · simp [List.length_take, h, Nat.succ_mul]
    · exact ih _ hd b hb

/-! ### CBC -/

theorem xor_length (a b : Bytes) (h : a.length = b.length) : (xor a b).length = a.length := by
  unfold xor
  simp [h]

theorem xor_cancel (a b : Bytes) (h : a.length = b.length) : xor (xor a b) b = a := by
  unfold xor
  induction a generalizing b with
  | nil => simp
  | cons x xs ih =>
    cases b with
    | nil => simp at h
    | cons y ys =>
      simp only [List.zipWith_cons_cons, List.cons.injEq]
      constructor
      · rw [UInt8.xor_assoc, UInt8.xor_self, UInt8.xor_zero]
      · exact ih ys (by simpa using h)

/-- hypotheses on the abstract block cipher: a length-preserving permutation of blocks -/
structure Block.Good (c : Block) : Prop where
  pos : 0 < c.bs
  small : c.bs ≤ 255
  lenE : ∀ b, b.length = c.bs → (c.E b).length = c.bs
  inv : ∀ b, b.length = c.bs → c.D (c.E b) = b

theorem cbcEnc_each (c : Block) (hc : c.Good) (prev : Bytes) (hp : prev.length = c.bs)
    (ps : List Bytes) (h : ∀ p ∈ ps, p.length = c.bs) :
    (∀ b ∈ cbcEncBlocks c prev ps, b.length = c.bs) ∧ (cbcEncBlocks c prev ps).length = ps.length := by
  induction ps generalizing prev with
  | nil => simp [cbcEncBlocks]
  | cons p ps ih =>
    have hpl : p.length = c.bs := h p (by simp)
    have hx : (xor p prev).length = c.bs := by rw [xor_length _ _ (by omega)]; exact hpl
    have hE := hc.lenE _ hx
    have := ih (c.E (xor p prev)) hE (fun q hq => h q (by simp [hq]))
    simp only [cbcEncBlocks, List.mem_cons, List.length_cons]
    refine ⟨?_, by omega⟩
    rintro b (rfl | hb)
    · exact hE
    · exact this.1 b hb

theorem cbcDec_cbcEnc (c : Block) (hc : c.Good) (prev : Bytes) (hp : prev.length = c.bs)
    (ps : List Bytes) (h : ∀ p ∈ ps, p.length = c.bs) :
    cbcDecBlocks c prev (cbcEncBlocks c prev ps) = ps := by
  induction ps generalizing prev with
  | nil => simp [cbcEncBlocks, cbcDecBlocks]
  | cons p ps ih =>
    have hpl : p.length = c.bs := h p (by simp)
    have hx : (xor p prev).length = c.bs := by rw [xor_length _ _ (by omega)]; exact hpl
    have hE := hc.lenE _ hx
    simp only [cbcEncBlocks, cbcDecBlocks]
    rw [hc.inv _ hx, xor_cancel _ _ (by omega), ih _ hE (fun q hq => h q (by simp [hq]))]

theorem flatten_length_uniform (bs : Nat) (bl : List Bytes) (h : ∀ b ∈ bl, b.length = bs) :
    bl.flatten.length = bl.length * bs := by
  induction bl with
  | nil => simp
  | cons b rest ih =>
    simp only [List.flatten_cons, List.length_append, List.length_cons]
    rw [ih (fun x hx => h x (by simp [hx])), h b (by simp), Nat.succ_mul]
    omega

/-- **CBC round trip**: for every plaintext (of any length, the empty one included), every IV of
    block length and every length-preserving invertible block cipher of block size 1..255. -/
theorem cbc_roundtrip (c : Block) (hc : c.Good) (iv : Bytes) (hiv : iv.length = c.bs) (p : Bytes) :
    cbcDecrypt c (cbcEncrypt c iv p) = .ok p := by
  have hpos := hc.pos
  have hmod := appendPadding_length_mod p c.bs hpos
  have hstrip := strip_append p c.bs hpos hc.small
  unfold cbcEncrypt
  simp only
  generalize appendPadding p c.bs = padded at hmod hstrip ⊢
  generalize hkdef : padded.length / c.bs = k
  have hk : padded.length = k * c.bs := by
    have := Nat.div_add_mod padded.length c.bs
    rw [hkdef] at this
    rw [Nat.mul_comm]
    omega
  have hchunks := chunks_each c.bs k padded hk
  have henc := cbcEnc_each c hc iv hiv (chunks c.bs k padded) hchunks
  have hencLen : (cbcEncBlocks c iv (chunks c.bs k padded)).length = k := by
    rw [henc.2, chunks_length]
  have hflat := flatten_length_uniform c.bs _ henc.1
  rw [hencLen] at hflat
  unfold cbcDecrypt
  have hlen : (iv ++ (cbcEncBlocks c iv (chunks c.bs k padded)).flatten).length = c.bs + k * c.bs := by
    simp [hiv, hflat]
  have e1 : ¬ ((iv ++ (cbcEncBlocks c iv (chunks c.bs k padded)).flatten).length < c.bs) := by omega
  have e2 : ¬ ((iv ++ (cbcEncBlocks c iv (chunks c.bs k padded)).flatten).length % c.bs ≠ 0) := by
    rw [hlen]
    simp [Nat.add_mul_mod_self_right]
  rw [if_neg e1, if_neg e2]
  simp only
  rw [List.take_left' hiv, List.drop_left' hiv, hflat, Nat.mul_div_cancel _ hpos]
  have : chunks c.bs k (cbcEncBlocks c iv (chunks c.bs k padded)).flatten =
      cbcEncBlocks c iv (chunks c.bs k padded) := by
    have := chunks_flatten c.bs _ henc.1
    rw [hencLen] at this
    exact this
  rw [this, cbcDec_cbcEnc c hc iv hiv _ hchunks, flatten_chunks c.bs k padded hk]
  exact hstrip

theorem cbcDecrypt_ne_panic (c : Block) (ct : Bytes) (w : String) : cbcDecrypt c ct ≠ .panic w := by
  unfold cbcDecrypt
  split
  · simp
  · split
    · simp
    · exact stripPadding_ne_panic _ _

/-! ### GCM -/

structure Aead.Good (a : Aead) : Prop where
  openSeal : ∀ n p, n.length = a.nonceSize → a.openF n (a.sealF n p) = some p
  /-- authenticity: only sealed values open -/
  auth : ∀ n c p, a.openF n c = some p → c = a.sealF n p

theorem gcm_roundtrip_spec (a : Aead) (ha : a.Good) (nonce p : Bytes) (hn : nonce.length = a.nonceSize) :
    gcmDecrypt a (gcmEncryptSpec a nonce p) = .ok p := by
  unfold gcmDecrypt gcmEncryptSpec
  have e1 : ¬ ((nonce ++ a.sealF nonce p).length < a.nonceSize) := by simp; omega
  rw [if_neg e1]
  rw [List.take_left' hn, List.drop_left' hn, ha.openSeal nonce p hn]

theorem gcmDecrypt_ne_panic (a : Aead) (ct : Bytes) (w : String) : gcmDecrypt a ct ≠ .panic w := by
  unfold gcmDecrypt
  split
  · simp
  · split <;> simp

/-- any modification of the cipher value (nonce or body) is rejected or yields… exactly: a value
    that decrypts to `p` *is* `nonce ‖ seal nonce p` for its own nonce. -/
theorem gcm_tamper (a : Aead) (ha : a.Good) (ct p : Bytes) (h : gcmDecrypt a ct = .ok p) :
    ct = gcmEncryptSpec a (ct.take a.nonceSize) p := by
  unfold gcmDecrypt at h
  split at h
  · simp at h
  · split at h
    · rename_i q hq
      simp at h
      subst h
      unfold gcmEncryptSpec
      rw [← ha.auth _ _ _ hq, List.take_append_drop]
    · simp at h

end SamlVerif.Xmlenc
