/-
  The quote structure of a rendered form is the template's own.

  An HTML tokenizer that is inside a tag reads a double-quoted attribute value up to the next `"`;
  the templates of the library put every interpolated string either inside such a value or directly
  after a tag.  `pieces` cuts a document at every `"`.  `skel` computes, from the template alone, the
  list of pieces with *holes* where values go.  `pieces_render`: for every data, the pieces of the
  rendered document are the skeleton with each hole filled by the escaped value — no value can add,
  remove or move a quote, so no value can end its attribute, start another one, or change which
  static text sits where.
-/
import SamlVerif.Proofs.Html

namespace SamlVerif.Html

/-- the document cut at every `"` (never the empty list) -/
def pieces : Bytes → List Bytes
  | [] => [[]]
  | b :: r =>
    if b.toNat = 34 then [] :: pieces r
    else match pieces r with
      | p :: ps => (b :: p) :: ps
      | [] => [[b]]

theorem pieces_ne_nil (s : Bytes) : pieces s ≠ [] := by
  cases s with
  | nil => simp [pieces]
  | cons b r =>
    unfold pieces
    split
    · simp
    · split <;> simp

/-- concatenation of two cut documents: the last piece of the left continues into the first of the right -/
def glue {α : Type} : List (List α) → List (List α) → List (List α)
  | [], ys => ys
  | x :: xs, ys =>
    match xs with
    | [] => (match ys with | y :: ys' => (x ++ y) :: ys' | [] => [x])
    | _ :: _ => x :: glue xs ys

theorem glue_single_cons {α : Type} (x y : List α) (ys : List (List α)) : glue [x] (y :: ys) = (x ++ y) :: ys := rfl

theorem glue_cons_cons {α : Type} (x x' : List α) (xs ys : List (List α)) :
    glue (x :: x' :: xs) ys = x :: glue (x' :: xs) ys := rfl

theorem glue_ne_nil {α : Type} (xs ys : List (List α)) (h : xs ≠ []) : glue xs ys ≠ [] := by
  cases xs with
  | nil => exact absurd rfl h
  | cons x xs =>
    cases xs with
    | nil => cases ys <;> simp [glue]
    | cons x' xs => simp [glue]

theorem pieces_append (a r : Bytes) : pieces (a ++ r) = glue (pieces a) (pieces r) := by
  induction a with
  | nil =>
    obtain ⟨y, ys, hy⟩ := List.exists_cons_of_ne_nil (pieces_ne_nil r)
    simp [pieces, hy, glue]
  | cons b a ih =>
    obtain ⟨p, ps, hp⟩ := List.exists_cons_of_ne_nil (pieces_ne_nil a)
    obtain ⟨y, ys, hy⟩ := List.exists_cons_of_ne_nil (pieces_ne_nil r)
    by_cases hb : b.toNat = 34
    · have h1 : pieces (b :: a ++ r) = [] :: pieces (a ++ r) := by
        show pieces (b :: (a ++ r)) = _
        rw [pieces]; simp [hb]
      have h2 : pieces (b :: a) = [] :: pieces a := by rw [pieces]; simp [hb]
      rw [h1, h2, ih, hp, glue_cons_cons]
    · have h2 : pieces (b :: a) = (b :: p) :: ps := by rw [pieces]; simp [hb, hp]
      have h1 : pieces (b :: a ++ r) = match pieces (a ++ r) with | q :: qs => (b :: q) :: qs | [] => [[b]] := by
        show pieces (b :: (a ++ r)) = _
        rw [pieces]; simp [hb]
      rw [h1, h2, ih, hp, hy]
      cases ps with
      | nil => simp [glue]
      | cons q qs => simp [glue]

theorem pieces_noq (v : Bytes) (h : ∀ c ∈ v, c.toNat ≠ 34) : pieces v = [v] := by
  induction v with
  | nil => rfl
  | cons b r ih =>
    have hb : b.toNat ≠ 34 := h b (by simp)
    rw [pieces]
    simp [hb, ih (fun c hc => h c (by simp [hc]))]

/-- every escaper html/template installs for the three contexts yields a quote-free string -/
theorem escapeFor_noq (c : Ctx) (hc : c ≠ .unknown) (v : Bytes) : ∀ x ∈ escapeFor c v, x.toNat ≠ 34 := by
  intro x hx
  cases c with
  | text => exact (htmlEscape_inert v x hx).1
  | attr => exact (htmlEscape_inert v x hx).1
  | urlAttr => exact (htmlEscape_inert _ x hx).1
  | unknown => exact absurd rfl hc

/-! ### skeleton -/

inductive Part where
  | static (b : Bytes)
  | hole (c : Ctx) (field : Bytes)
  deriving DecidableEq, Repr

def fillPart (data : Bytes → Bytes) : Part → Bytes
  | .static b => b
  | .hole c f => escapeFor c (data f)

def fill (data : Bytes → Bytes) (ps : List Part) : Bytes := ps.flatMap (fillPart data)

/-- the pieces of the template, with holes — computed from the template alone -/
def skel : List Seg → List (List Part)
  | Seg.lit before :: Seg.act f :: rest =>
    glue ((pieces before).map (fun p => [Part.static p])) (glue [[Part.hole (ctxOf before) f]] (skel rest))
  | Seg.lit b :: rest => glue ((pieces b).map (fun p => [Part.static p])) (skel rest)
  | Seg.act f :: rest => glue [[Part.hole .unknown f]] (skel rest)
  | [] => [[]]

/-- every hole sits in a context whose escaper is known (part of `templateOK`) -/
def holesKnown (sk : List (List Part)) : Bool :=
  sk.all (fun ps => ps.all (fun p => match p with | .hole c _ => c ≠ .unknown | .static _ => true))

theorem fill_append (data : Bytes → Bytes) (x y : List Part) : fill data (x ++ y) = fill data x ++ fill data y := by
  simp [fill]

theorem glue_map_fill (data : Bytes → Bytes) (xs ys : List (List Part)) :
    glue (xs.map (fill data)) (ys.map (fill data)) = (glue xs ys).map (fill data) := by
  induction xs with
  | nil => simp [glue]
  | cons x xs ih =>
    cases xs with
    | nil =>
      cases ys with
      | nil => simp [glue]
      | cons y ys => simp [glue, fill_append]
    | cons x' xs =>
      simp only [List.map_cons, glue_cons_cons] at ih ⊢
      rw [ih]

theorem holesKnown_glue (xs ys : List (List Part)) (h : holesKnown (glue xs ys) = true) (hx : xs ≠ []) :
    holesKnown xs = true ∧ holesKnown ys = true := by
  induction xs with
  | nil => exact absurd rfl hx
  | cons x xs ih =>
    cases xs with
    | nil =>
      cases ys with
      | nil => simpa [glue, holesKnown] using h
      | cons y ys =>
        simp only [glue, holesKnown, List.all_cons, List.all_append, Bool.and_eq_true, List.all_nil, Bool.and_true] at h ⊢
        exact ⟨h.1.1, h.1.2, h.2⟩
    | cons x' xs =>
      rw [glue_cons_cons] at h
      simp only [holesKnown, List.all_cons, Bool.and_eq_true] at h ⊢
      have := ih h.2 (by simp)
      simp only [holesKnown, List.all_cons, Bool.and_eq_true] at this
      exact ⟨⟨h.1, this.1⟩, this.2⟩

theorem map_static_fill (data : Bytes → Bytes) (l : List Bytes) :
    (l.map (fun p => [Part.static p])).map (fill data) = l := by
  induction l with
  | nil => rfl
  | cons a l ih => simp [fill, fillPart, ih]

theorem holesKnown_static (l : List Bytes) : holesKnown (l.map (fun p => [Part.static p])) = true := by
  induction l with
  | nil => rfl
  | cons a l ih =>
    simp only [holesKnown, List.map_cons, List.all_cons, List.all_nil, Bool.and_true, Bool.true_and] at ih ⊢
    exact ih

theorem skel_ne_nil (segs : List Seg) : skel segs ≠ [] := by
  fun_induction skel segs with
  | case1 before f rest ih =>
    exact glue_ne_nil _ _ (by
      obtain ⟨y, ys, hy⟩ := List.exists_cons_of_ne_nil (pieces_ne_nil before)
      simp [hy])
  | case2 b rest _ ih =>
    exact glue_ne_nil _ _ (by
      obtain ⟨y, ys, hy⟩ := List.exists_cons_of_ne_nil (pieces_ne_nil b)
      simp [hy])
  | case3 f rest ih => exact glue_ne_nil _ _ (by simp)
  | case4 => simp

/-- **The quote structure of the rendered document is the template's skeleton, holes filled with the
    escaped values** — for every data. -/
theorem pieces_render (data : Bytes → Bytes) (segs : List Seg) (hk : holesKnown (skel segs) = true) :
    pieces (renderSegs data segs) = (skel segs).map (fill data) := by
  fun_induction skel segs with
  | case1 before f rest ih =>
    have hb : (pieces before).map (fun p => [Part.static p]) ≠ [] := by
      obtain ⟨y, ys, hy⟩ := List.exists_cons_of_ne_nil (pieces_ne_nil before)
      simp [hy]
    have h1 := holesKnown_glue _ _ hk hb
    have h2 := holesKnown_glue _ _ h1.2 (by simp)
    have hc : ctxOf before ≠ .unknown := by
      have := h2.1
      simpa [holesKnown] using this
    rw [renderSegs, List.append_assoc, pieces_append, pieces_append, ih h2.2, pieces_noq _ (escapeFor_noq _ hc _)]
    rw [← glue_map_fill, ← glue_map_fill, map_static_fill]
    simp [fill, fillPart]
  | case2 b rest hne ih =>
    have hb : (pieces b).map (fun p => [Part.static p]) ≠ [] := by
      obtain ⟨y, ys, hy⟩ := List.exists_cons_of_ne_nil (pieces_ne_nil b)
      simp [hy]
    have h1 := holesKnown_glue _ _ hk hb
    have hr : renderSegs data (Seg.lit b :: rest) = b ++ renderSegs data rest := by
      cases rest with
      | nil => simp [renderSegs]
      | cons s rest' =>
        cases s with
        | lit c => simp [renderSegs]
        | act g => exact absurd rfl (hne g rest')
    rw [hr, pieces_append, ih h1.2, ← glue_map_fill, map_static_fill]
  | case3 f rest ih =>
    have h1 := holesKnown_glue _ _ hk (by simp)
    have : False := by
      have := h1.1
      simp [holesKnown] at this
    exact this.elim
  | case4 => simp [renderSegs, pieces, fill]

/-- corollary: the number of quotes, and every piece that has no hole, is the same for all data -/
theorem pieces_render_length (d1 d2 : Bytes → Bytes) (segs : List Seg) (hk : holesKnown (skel segs) = true) :
    (pieces (renderSegs d1 segs)).length = (pieces (renderSegs d2 segs)).length := by
  rw [pieces_render d1 segs hk, pieces_render d2 segs hk]; simp

/-! ### the skeleton without the empty statics that gluing leaves around a hole -/

def tidy (ps : List Part) : List Part := ps.filter (fun p => p ≠ Part.static [])

theorem fill_tidy (data : Bytes → Bytes) (ps : List Part) : fill data (tidy ps) = fill data ps := by
  induction ps with
  | nil => rfl
  | cons p ps ih =>
    have ih' : (List.filter (fun p => decide (p ≠ Part.static [])) ps).flatMap (fillPart data) = ps.flatMap (fillPart data) := ih
    by_cases hp : p = Part.static []
    · subst hp
      show (List.filter (fun p => decide (p ≠ Part.static [])) (Part.static [] :: ps)).flatMap (fillPart data) = _
      rw [List.filter_cons_of_neg (by simp), ih']
      show _ = (Part.static [] :: ps).flatMap (fillPart data)
      rw [List.flatMap_cons]
      rfl
    · show (List.filter (fun p => decide (p ≠ Part.static [])) (p :: ps)).flatMap (fillPart data) = _
      rw [List.filter_cons_of_pos (by simpa using hp)]
      show _ = (p :: ps).flatMap (fillPart data)
      simp only [List.flatMap_cons, ih']

def skelT (segs : List Seg) : List (List Part) := (skel segs).map tidy

theorem pieces_render_tidy (data : Bytes → Bytes) (segs : List Seg) (hk : holesKnown (skel segs) = true) :
    pieces (renderSegs data segs) = (skelT segs).map (fill data) := by
  rw [pieces_render data segs hk, skelT, List.map_map]
  apply List.map_congr_left
  intro ps _
  exact (fill_tidy data ps).symm

/-! ### the library's forms, as skeletons (compared with the regenerated templates in Props/C14) -/

def B (s : String) : Bytes := s.toList.map (fun c => UInt8.ofNat c.toNat)
def S (s : String) : List Part := [Part.static (B s)]
def H (c : Ctx) (f : String) : List Part := [Part.hole c (B f)]

/-- the POST form of the SP (`AuthnRequest.Post`, `LogoutRequest.Post`) -/
def spRequestForm : List (List Part) :=
  [S "<form method=", S "post", S " action=", H .urlAttr "URL", S " id=", S "SAMLRequestForm",
   S "><input type=", S "hidden", S " name=", S "SAMLRequest", S " value=", H .attr "SAMLRequest",
   S " /><input type=", S "hidden", S " name=", S "RelayState", S " value=", H .attr "RelayState",
   S " /><input id=", S "SAMLSubmitButton", S " type=", S "submit", S " value=", S "Submit",
   S " /></form><script>document.getElementById('SAMLSubmitButton').style.visibility=", S "hidden",
   S ";document.getElementById('SAMLRequestForm').submit();</script>"]

/-- `LogoutResponse.Post` -/
def spResponseForm : List (List Part) :=
  [S "<form method=", S "post", S " action=", H .urlAttr "URL", S " id=", S "SAMLResponseForm",
   S "><input type=", S "hidden", S " name=", S "SAMLResponse", S " value=", H .attr "SAMLResponse",
   S " /><input type=", S "hidden", S " name=", S "RelayState", S " value=", H .attr "RelayState",
   S " /><input id=", S "SAMLSubmitButton", S " type=", S "submit", S " value=", S "Submit",
   S " /></form><script>document.getElementById('SAMLSubmitButton').style.visibility=", S "hidden",
   S ";document.getElementById('SAMLResponseForm').submit();</script>"]

/-- the IdP's response form (`IdpAuthnRequest.WriteResponse`) -/
def idpResponseForm : List (List Part) :=
  [S "<html><form method=", S "post", S " action=", H .urlAttr "URL", S " id=", S "SAMLResponseForm",
   S "><input type=", S "hidden", S " name=", S "SAMLResponse", S " value=", H .attr "SAMLResponse",
   S " /><input type=", S "hidden", S " name=", S "RelayState", S " value=", H .attr "RelayState",
   S " /><input id=", S "SAMLSubmitButton", S " type=", S "submit", S " value=", S "Continue",
   S (" /></form><script>document.getElementById('SAMLSubmitButton').style.visibility='hidden';</script>" ++
      "<script>document.getElementById('SAMLResponseForm').submit();</script></html>")]

/-- the bundled IdP's login form: the toast is text between two tags of the first piece -/
def idpLoginForm : List (List Part) :=
  [[Part.static (B "<html><p>"), Part.hole .text (B "Toast"), Part.static (B "</p><form method=")],
   S "post", S " action=", H .urlAttr "URL",
   S "><input type=", S "text", S " name=", S "user", S " placeholder=", S "user", S " value=", [],
   S " /><input type=", S "password", S " name=", S "password", S " placeholder=", S "password", S " value=", [],
   S " /><input type=", S "hidden", S " name=", S "SAMLRequest", S " value=", H .attr "SAMLRequest",
   S " /><input type=", S "hidden", S " name=", S "RelayState", S " value=", H .attr "RelayState",
   S " /><input type=", S "submit", S " value=", S "Log In", S " /></form></html>"]

end SamlVerif.Html
