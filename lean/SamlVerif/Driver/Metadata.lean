import SamlVerif.Driver.Proto
import SamlVerif.Model.Metadata

namespace SamlVerif.Driver.MetadataD
open SamlVerif.Proto SamlVerif.Metadata SamlVerif

def endpoint : P Endpoint := do
  let i ← bool; let b ← str; let l ← bytes; let r ← opt bytes
  pure ⟨i, b, l, r⟩

def keyDesc : P KeyDesc := do
  let u ← str; let cs ← list str
  pure ⟨u, cs⟩

def renderEndpoint (e : Endpoint) : String :=
  (if e.indexed then "1" else "0") ++ " " ++ encStr e.binding ++ " " ++ encBytes e.location ++ " " ++
    (match e.response with | none => "-" | some r => "+ " ++ encBytes r)

def renderKey (k : KeyDesc) : String :=
  encStr k.use ++ " " ++ toString k.certs.length ++ String.join (k.certs.map (fun c => " " ++ encStr c))

/-- `mdnorm <entityID> <sec> <nsec> <cacheDuration ns> <endpoints> <keys>`: one marshal/unmarshal generation;
    the validity instant is reported in milliseconds since the epoch -/
def runMdNorm : P String := do
  let id ← str; let sec ← int; let nsec ← int; let cd ← int
  let eps ← list endpoint
  let ks ← list keyDesc
  let v : MD := ⟨id, sec * 1000000000 + nsec, cd, eps, ks⟩
  match read (write v) with
  | .ok r =>
    pure ("ok " ++ encStr r.entityID ++ " " ++ toString (r.validUntil / 1000000) ++ " " ++ toString r.cacheDuration ++ " " ++
      toString r.endpoints.length ++ String.join (r.endpoints.map (fun e => " " ++ renderEndpoint e)) ++ " " ++
      toString r.keys.length ++ String.join (r.keys.map (fun k => " " ++ renderKey k)))
  | .err s => pure ("err site=" ++ s)
  | .panic w => pure ("panic " ++ w)

def handlers : List (String × P String) := [("mdnorm", runMdNorm)]

end SamlVerif.Driver.MetadataD
