import SamlVerif.Driver.Proto
import SamlVerif.Driver.IdP
import SamlVerif.Model.IdPOut
import SamlVerif.Model.Codec.XmlText

namespace SamlVerif.Driver.IdPOutD
open SamlVerif.Proto SamlVerif.IdP SamlVerif.IdPOut SamlVerif.Driver.IdPD

def reqAttr : P ReqAttr := do
  let f ← str; let n ← str; let nf ← str
  pure ⟨f, n, nf⟩

def attrSvc : P AttrSvc := do
  let d ← opt bool; let rs ← list reqAttr
  pure ⟨d, rs⟩

def spssoX : P SPSSO := do
  let acs ← list endpoint; let ks ← list keyDesc; let svcs ← list attrSvc
  pure ⟨acs, ks, svcs⟩

def entityDescX : P EntityDesc := do
  let id ← str; let ds ← list spssoX
  pure ⟨id, ds⟩

def lookupX : P Lookup := do
  let t ← tok
  match t with
  | "f" => Lookup.found <$> entityDescX
  | "n" => pure .notExist
  | "e" => pure .ioErr
  | _ => failure

def attrS : P AttrS := do
  let f ← str; let n ← str; let nf ← str; let vs ← list str
  pure ⟨f, n, nf, vs⟩

def session : P Session := do
  let nameID ← str; let fmt ← str; let index ← str; let subj ← str; let groups ← list str
  let un ← str; let em ← str; let cn ← str; let sn ← str; let gn ← str; let aff ← str; let eppn ← str
  let custom ← list attrS
  pure ⟨nameID, fmt, index, subj, groups, un, em, cn, sn, gn, aff, eppn, custom⟩

def renderAttr (a : AttrS) : String :=
  String.intercalate " " ([encStr a.friendlyName, encStr a.name, encStr a.nameFormat, toString a.values.length] ++ a.values.map encStr)

def renderAssertion (a : AssertionOut) : String :=
  String.intercalate " "
    ([toString a.issueInstant, encStr a.issuer, encStr a.nameID, encStr a.nameIDFormat, encStr a.nameQualifier,
      encStr a.spNameQualifier, toString a.confirmations.length] ++
     a.confirmations.flatMap (fun c => [encStr c.method, encStr c.inResponseTo, encStr c.recipient, toString c.notOnOrAfter]) ++
     [toString a.notBefore, toString a.notOnOrAfter, toString a.audiences.length] ++ a.audiences.map encStr ++
     [encStr a.sessionIndex, toString a.attrs.length] ++ a.attrs.map renderAttr)

def renderResponse (r : ResponseOut) : String :=
  String.intercalate " "
    ["ok", encStr r.url, encStr r.destination, encStr r.inResponseTo, toString r.issueInstant, encStr r.issuer,
     encStr r.status, if r.encrypted then "1" else "0", "A", renderAssertion r.assertion]

def renderOut (o : Outcome ResponseOut) : String :=
  match o with
  | .ok r => renderResponse r
  | .err s => "err site=" ++ s
  | .panic w => "panic " ++ w

/-- `idpserve sso|init <ssoURL> <idpEntity> <delay> <skew> <reqNow> <now> <registry> <usable> <request|spID> <session>` -/
def runServe : P String := do
  let mode ← tok
  let sso ← str; let ent ← str; let delay ← int; let skew ← int; let reqNow ← int; let now ← int
  let reg ← list (do let id ← str; let l ← lookupX; pure (id, l))
  let us ← list (do let c ← str; let b ← bool; pure (c, b))
  let registry : String → Lookup := fun i => (reg.lookup i).getD .notExist
  let usable : String → Bool := fun c => (us.lookup c).getD false
  match mode with
  | "sso" =>
    let id ← str; let iss ← opt str; let dest ← str; let ver ← str; let ii ← int; let url ← str; let idx ← str
    let s ← session
    pure (renderOut (serveSSO ⟨sso, delay⟩ ⟨ent, delay, skew⟩ usable registry ⟨id, iss, dest, ver, ii, url, idx⟩ s reqNow now))
  | "init" =>
    let spID ← str
    let s ← session
    pure (renderOut (serveInit ⟨ent, delay, skew⟩ usable registry spID s reqNow now))
  | _ => failure

def mode : P XmlText.Mode := do
  let t ← tok
  match t with
  | "normal" => pure .normal
  | "text" => pure .canonText
  | "attr" => pure .canonAttr
  | _ => failure

/-- `xmlesc <mode> <string>`; `attrcr` / `textcr` are the library's writer (etree mode + `crEscaper`) -/
def runEsc : P String := do
  let t ← tok; let s ← str
  match t with
  | "normal" => pure ("ok " ++ encStr (String.ofList (XmlText.escape .normal s.toList)))
  | "text" => pure ("ok " ++ encStr (String.ofList (XmlText.escape .canonText s.toList)))
  | "attr" => pure ("ok " ++ encStr (String.ofList (XmlText.escape .canonAttr s.toList)))
  | "attrcr" => pure ("ok " ++ encStr (String.ofList (XmlText.crReplace (XmlText.escape .normal s.toList))))
  | "textcr" => pure ("ok " ++ encStr (String.ofList (XmlText.crReplace (XmlText.escape .canonText s.toList))))
  | _ => failure

def renderScan (o : Outcome (List Char × List Char)) : String :=
  match o with
  | .ok (d, r) => "ok " ++ encStr (String.ofList d) ++ " " ++ toString r.length
  | .err s => "err site=" ++ s
  | .panic w => "panic " ++ w

/-- `xmlread text|attr <input>`: the input is what follows `<a>` resp. `<a x="` -/
def runRead : P String := do
  let k ← tok; let s ← str
  match k with
  | "text" => pure (renderScan (XmlText.readText s.toList))
  | "attr" => pure (renderScan (XmlText.readAttr s.toList))
  | _ => failure

def spPub : P SPPub := do
  let e ← str; let m ← str; let a ← str; let c ← opt str; let r ← bool; let s ← bool
  pure ⟨e, m, a, c, r, s⟩

def renderEndpoint (e : Endpoint) : String :=
  String.intercalate " " [encStr e.binding, encStr e.location, toString e.index,
    match e.isDefault with | none => "-" | some b => "+ " ++ (if b then "1" else "0")]

def renderKey (k : KeyDesc) : String :=
  String.intercalate " " ([encStr k.use, toString k.certs.length] ++ k.certs.map encStr)

def renderMd (md : EntityDesc) : String :=
  String.intercalate " " ([encStr md.entityID, toString md.spsso.length] ++ md.spsso.flatMap fun d =>
    [toString d.acs.length] ++ d.acs.map renderEndpoint ++ [toString d.keys.length] ++ d.keys.map renderKey ++
    [toString d.attrSvcs.length])

/-- `spmd <pub>`: what the IdP reads of the SP's published metadata -/
def runSpMd : P String := do
  let p ← spPub
  pure ("ok " ++ renderMd (spMetadata p))

/-- `spreq <pub> <id> <issueInstant> <dest>`: what the IdP validates of the SP's request -/
def runSpReq : P String := do
  let p ← spPub; let id ← str; let ii ← int; let dest ← str
  let r := authnRequestOf p id ii dest
  pure (String.intercalate " " ["ok", encStr r.id, encStr (r.issuer.getD ""), encStr r.destination, encStr r.version,
    toString r.issueInstant, encStr r.acsURL, encStr r.acsIndex])

/-- `e2e <pub> <ssoURL> <idpEntity> <delay> <skew> <usable 0|1> <id> <ii> <dest> <reqNow> <now> <t> <allowIdP> <session>`:
    SP request → IdP (registered with the SP's published metadata) → SP -/
def runE2E : P String := do
  let p ← spPub
  let sso ← str; let ent ← str; let delay ← int; let skew ← int; let us ← bool
  let id ← str; let ii ← int; let dest ← str; let reqNow ← int; let now ← int; let t ← int; let allow ← bool
  let s ← session
  let icfg : IdpCfg := ⟨ent, delay, skew⟩
  let registry : String → Lookup := fun i => if i = p.id then .found (spMetadata p) else .notExist
  match serveSSO ⟨sso, delay⟩ icfg (fun _ => us) registry (authnRequestOf p id ii dest) s reqNow now with
  | .ok r =>
    (match SP.parseResponse (spCfgOf p icfg allow) t [id] p.acsURL .required .valid (toSPResponse r) with
     | .ok a =>
       -- the accepted assertion is the emitted one: print its identity
       if a.ident = identOf r.assertion then
         pure (String.intercalate " " (["ok", if r.encrypted then "1" else "0", encStr r.assertion.nameID,
           toString r.assertion.attrs.length] ++ r.assertion.attrs.map renderAttr))
       else pure "ok other-assertion"
     | .err e => pure ("err site=sp-" ++ e)
     | .panic w => pure ("panic " ++ w))
  | .err e => pure ("err site=idp-" ++ e)
  | .panic w => pure ("panic " ++ w)

/-- `randlayout <n> <kt>*`: offsets of (content-key, iv) of each response in the xmlenc stream and of
    (assertion-id, response-id) in the saml stream -/
def runLayout : P String := do
  let kts ← list nat
  -- the two packages have separate readers: lay out each package's draws on its own stream
  let xmlencDraws := kts.flatMap fun kt => (responseDraws kt).filter (fun d => d.label ≠ "assertion-id" ∧ d.label ≠ "response-id")
  let samlDraws := kts.flatMap fun kt => (responseDraws kt).filter (fun d => d.label = "assertion-id" ∨ d.label = "response-id")
  let pick (l : List (String × Nat × Nat)) (lab : String) := (l.filter (·.1 = lab)).map (fun x => toString x.2.1 ++ ":" ++ toString x.2.2)
  let lx := layout 0 xmlencDraws
  let ls := layout 0 samlDraws
  pure (String.intercalate " " (["ok", "key"] ++ pick lx "content-key" ++ ["iv"] ++ pick lx "iv" ++
    ["aid"] ++ pick ls "assertion-id" ++ ["rid"] ++ pick ls "response-id"))

def handlers : List (String × P String) :=
  [("idpserve", runServe), ("xmlesc", runEsc), ("xmlread", runRead), ("spmd", runSpMd), ("spreq", runSpReq),
   ("e2e", runE2E), ("randlayout", runLayout)]

end SamlVerif.Driver.IdPOutD
