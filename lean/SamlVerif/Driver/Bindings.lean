import SamlVerif.Driver.Proto
import SamlVerif.Model.Bindings
import SamlVerif.Model.Signing
import SamlVerif.Generated.Facts

namespace SamlVerif.Driver.BindingsD
open SamlVerif.Proto SamlVerif.Codec SamlVerif.Bindings

def optBytesOut (o : Option Bytes) : String :=
  match o with
  | some b => "ok " ++ encBytes b
  | none => "err"

def runQEsc : P String := do
  let b ← bytes
  pure (encBytes (queryEscape b))

def runQUnesc : P String := do
  let b ← bytes
  pure (optBytesOut (queryUnescape b))

def runB64Enc : P String := do
  let b ← bytes
  pure (encBytes (b64encode b))

def runB64Dec : P String := do
  let b ← bytes
  pure (optBytesOut (b64decode b))

def runParseQuery : P String := do
  let b ← bytes
  let (ps, ok) := parseQuery b
  pure ((if ok then "ok" else "partial") ++ " " ++ toString ps.length ++
    String.join (ps.map fun p => " " ++ encBytes p.1 ++ " " ++ encBytes p.2))

/-- `redirect <q0> <msg> <relay> <- | + alg sig>` -/
def runRedirect : P String := do
  let q0 ← bytes; let msg ← bytes; let relay ← bytes
  let sg ← opt (do let a ← bytes; let s ← bytes; pure (a, s))
  let signing := sg.map fun (a, s) => (a, fun (_ : Bytes) => s)
  pure (encBytes (redirectQuery q0 msg relay signing))

/-- `logoutredirect <existing pairs> <key> <msg> <relay>` -/
def runLogoutRedirect : P String := do
  let ex ← list (do let k ← bytes; let v ← bytes; pure (k, v))
  let key ← bytes; let msg ← bytes; let relay ← bytes
  pure (encBytes (logoutRedirectQuery ex key msg relay))

def runMsgID : P String := do
  let r ← bytes
  pure (encBytes (messageID r))

def runSignCtx : P String := do
  let m ← str; let k ← str
  match Signing.signingContext Facts.signingMethods m k with
  | .ok () => pure "ok"
  | .err s => pure ("err site=" ++ s)
  | .panic w => pure ("panic " ++ w)

def handlers : List (String × P String) :=
  [("qesc", runQEsc), ("qunesc", runQUnesc), ("b64enc", runB64Enc), ("b64dec", runB64Dec),
   ("parsequery", runParseQuery), ("redirect", runRedirect), ("logoutredirect", runLogoutRedirect),
   ("msgid", runMsgID), ("signctx", runSignCtx)]

end SamlVerif.Driver.BindingsD
