import SamlVerif.Driver.Proto
import SamlVerif.Model.Xmlenc
import SamlVerif.Generated.Facts

namespace SamlVerif.Driver.XmlencD
open SamlVerif.Proto SamlVerif.Xmlenc

def renderBytes (o : Outcome Bytes) : String :=
  match o with
  | .ok b => "ok " ++ encBytes b
  | .err s => "err site=" ++ s
  | .panic w => "panic " ++ w

/-- `cbcenc <bs> <key> <iv> <plaintext>`: toy-cipher CBC.Encrypt cipher value, then Decrypt of it -/
def runCbcEnc : P String := do
  let bs ← nat; let key ← bytes; let iv ← bytes; let p ← bytes
  let c := toyBlock key bs
  let ct := cbcEncrypt c iv p
  pure (encBytes ct ++ " " ++ renderBytes (cbcDecrypt c ct))

/-- `cbcdec <bs> <key> <ct>`: toy-cipher CBC.Decrypt on a raw cipher value -/
def runCbcDec : P String := do
  let bs ← nat; let key ← bytes; let ct ← bytes
  pure (renderBytes (cbcDecrypt (toyBlock key bs) ct))

/-- `pad <bs> <buf>` / `strip <buf>` -/
def runPad : P String := do
  let bs ← nat; let b ← bytes
  pure (encBytes (appendPadding b bs))

def runStrip : P String := do
  let b ← bytes
  pure (renderBytes (stripPadding b))

def key : P Key := do
  let t ← tok
  match t with
  | "b" => Key.bytes <$> bytes
  | "r" => Key.rsa <$> nat
  | "o" => pure Key.other
  | _ => failure

def cipherVal : P CipherVal := do
  let t ← tok
  match t with
  | "a" => pure .absent
  | "b" => pure .badBase64
  | "v" => CipherVal.bytes <$> bytes
  | _ => failure

def layer : P Layer := do
  let alg ← opt str; let dg ← opt str; let cert ← opt bool; let cv ← cipherVal
  pure ⟨alg, dg, cert, cv⟩

def toy8 : BlockCipherFact := ⟨"toy8", .cbc, 5, "urn:verif:toy-cbc8", "toy8"⟩
def toy16 : BlockCipherFact := ⟨"toy16", .cbc, 7, "urn:verif:toy-cbc16", "toy16"⟩

def rsaSchemeOf (uri : String) : Option RsaScheme :=
  if uri = "http://www.w3.org/2001/04/xmlenc#rsa-1_5" then some .pkcs1v15
  else if (Facts.keyTransports.any (·.algorithm == uri)) then some .oaep
  else none

/-- registry as the regenerated facts describe it (+ the two toy ciphers the harness registers) -/
def lookupFacts (uri : String) : Option Decrypter :=
  if uri = toy8.algorithm then some (.block toy8)
  else if uri = toy16.algorithm then some (.block toy16)
  else if Facts.registeredDecrypters.contains uri then
    match Facts.blockCiphers.find? (·.algorithm == uri) with
    | some f => some (.block f)
    | none => (rsaSchemeOf uri).map Decrypter.rsa
  else none

structure Ledger where
  ecb : List (Bytes × Bytes × Bytes)                         -- key, ciphertext block ↦ plaintext block
  rsa : List (RsaScheme × String × Nat × Bytes × Option Bytes)
  aead : List (Bytes × Bytes × Bytes × Option Bytes)          -- key, nonce, body ↦ plaintext

def ledgerBlock (L : Ledger) (bs : Nat) (kb : Bytes) : Block :=
  { bs := bs, E := id,
    D := fun b => match L.ecb.find? (fun e => e.1 == kb && e.2.1 == b) with
      | some e => e.2.2
      | none => List.replicate bs 0 }

def envOf (L : Ledger) : Env :=
  { lookup := lookupFacts,
    digests := Facts.registeredDigests,
    blockOf := fun f kb =>
      if f.ctor = "toy8" then some (toyBlock kb 8)
      else if f.ctor = "toy16" then some (toyBlock kb 16)
      else (ctorAccepts f.ctor kb.length).map fun bs => ledgerBlock L bs kb,
    aeadOf := fun f kb =>
      (ctorAccepts f.ctor kb.length).map fun _ =>
        { nonceSize := 12, overhead := 16, sealF := fun _ _ => [],
          openF := fun n c => match L.aead.find? (fun e => e.1 == kb && e.2.1 == n && e.2.2.1 == c) with
            | some e => e.2.2.2
            | none => none },
    rsaDec := fun s d id ct =>
      match L.rsa.find? (fun e => e.1 == s && e.2.1 == d && e.2.2.1 == id && e.2.2.2.1 == ct) with
      | some e => e.2.2.2.2
      | none => none }

def scheme : P RsaScheme := do
  let t ← tok
  match t with
  | "o" => pure .oaep
  | "p" => pure .pkcs1v15
  | _ => failure

def ledger : P Ledger := do
  let ecb ← list (do let k ← bytes; let c ← bytes; let p ← bytes; pure (k, c, p))
  let rsa ← list (do let s ← scheme; let d ← str; let id ← nat; let w ← bytes; let r ← opt bytes; pure (s, d, id, w, r))
  let aead ← list (do let k ← bytes; let n ← bytes; let b ← bytes; let r ← opt bytes; pure (k, n, b, r))
  pure ⟨ecb, rsa, aead⟩

/-- `xdecrypt <key> <layers> <ledger>` -/
def runXDecrypt : P String := do
  let k ← key; let ls ← list layer; let L ← ledger
  pure (renderBytes (decrypt (envOf L) k ls))

/-- `gcmenc <nonce?> <ptlen> <sealOfZeros>`: the pinned GCM.Encrypt (known finding) —
    cipher value it emits for a supplied nonce, panic for a nil nonce -/
def runGcmEnc : P String := do
  let nonce ← opt bytes; let p ← bytes; let sealed ← bytes
  match nonce with
  | none => pure "panic crypto/cipher: incorrect nonce length given to GCM"
  | some n =>
    let a : Aead := { nonceSize := 12, overhead := 16, sealF := fun _ _ => sealed, openF := fun _ _ => none }
    pure ("ok " ++ encBytes (gcmEncryptPinned a 16 n p))

def handlers : List (String × P String) :=
  [("cbcenc", runCbcEnc), ("cbcdec", runCbcDec), ("pad", runPad), ("strip", runStrip),
   ("xdecrypt", runXDecrypt), ("gcmenc", runGcmEnc)]

end SamlVerif.Driver.XmlencD
