/-
  Line protocol (DESIGN §1.3): one case per line, space-separated tokens.
    <id> <op> <token>*
  Tokens: integers in decimal; strings as `=` followed by the percent-encoded UTF-8 bytes (every
  byte outside [A-Za-z0-9._-] is %XX); byte strings as `x` followed by hex; `-` / `+` introduce an
  absent / present optional; lists are a count followed by the items.
  Nothing is defaulted: a line that does not parse is answered `bad-op`, which fails the run.
-/
import SamlVerif.Model.Prelude

namespace SamlVerif.Proto

abbrev P := StateT (List String) Option

def tok : P String := do
  match (← get) with
  | [] => failure
  | t :: rest => set rest; pure t

def peek : P (Option String) := do
  match (← get) with
  | [] => pure none
  | t :: _ => pure (some t)

def atEnd : P Bool := do
  return (← get).isEmpty

def hexVal (c : Char) : Option Nat :=
  if '0' ≤ c ∧ c ≤ '9' then some (c.toNat - '0'.toNat)
  else if 'a' ≤ c ∧ c ≤ 'f' then some (c.toNat - 'a'.toNat + 10)
  else if 'A' ≤ c ∧ c ≤ 'F' then some (c.toNat - 'A'.toNat + 10)
  else none

def pctDecodeBytes : List Char → Option (List UInt8)
  | [] => some []
  | '%' :: a :: b :: rest => do
    let h ← hexVal a
    let l ← hexVal b
    let r ← pctDecodeBytes rest
    pure (UInt8.ofNat (h * 16 + l) :: r)
  | '%' :: _ => none
  | c :: rest => do
    let r ← pctDecodeBytes rest
    if c.toNat < 128 then pure (UInt8.ofNat c.toNat :: r) else none

def hexDecode : List Char → Option (List UInt8)
  | [] => some []
  | a :: b :: rest => do
    let h ← hexVal a
    let l ← hexVal b
    let r ← hexDecode rest
    pure (UInt8.ofNat (h * 16 + l) :: r)
  | _ => none

def hexDigit (n : Nat) : Char :=
  if n < 10 then Char.ofNat (48 + n) else Char.ofNat (87 + n)

def hexEncode (bs : List UInt8) : String :=
  String.ofList (bs.flatMap fun b => [hexDigit (b.toNat / 16), hexDigit (b.toNat % 16)])

def isPlain (b : UInt8) : Bool :=
  (48 ≤ b.toNat ∧ b.toNat ≤ 57) ∨ (65 ≤ b.toNat ∧ b.toNat ≤ 90) ∨ (97 ≤ b.toNat ∧ b.toNat ≤ 122) ∨
  b.toNat = 46 ∨ b.toNat = 95 ∨ b.toNat = 45

def pctEncodeBytes (bs : List UInt8) : String :=
  String.ofList (bs.flatMap fun b =>
    if isPlain b then [Char.ofNat b.toNat]
    else ['%', (hexDigit (b.toNat / 16)).toUpper, (hexDigit (b.toNat % 16)).toUpper])

/-- encode a string token -/
def encStr (s : String) : String := "=" ++ pctEncodeBytes s.toUTF8.toList

def encBytes (bs : List UInt8) : String := "x" ++ hexEncode bs

/-- a string token -/
def str : P String := do
  let t ← tok
  match t.toList with
  | '=' :: rest =>
    match pctDecodeBytes rest with
    | some bs =>
      match String.fromUTF8? (ByteArray.mk bs.toArray) with
      | some s => pure s
      | none => failure
    | none => failure
  | _ => failure

/-- a byte-string token -/
def bytes : P (List UInt8) := do
  let t ← tok
  match t.toList with
  | 'x' :: rest =>
    match hexDecode rest with
    | some bs => pure bs
    | none => failure
  | _ => failure

def int : P Int := do
  let t ← tok
  match t.toInt? with
  | some i => pure i
  | none => failure

def nat : P Nat := do
  let t ← tok
  match t.toNat? with
  | some i => pure i
  | none => failure

def bool : P Bool := do
  let t ← tok
  if t = "1" then pure true else if t = "0" then pure false else failure

def kw (k : String) : P Unit := do
  let t ← tok
  if t = k then pure () else failure

def opt {α} (p : P α) : P (Option α) := do
  let t ← tok
  if t = "-" then pure none
  else if t = "+" then some <$> p
  else failure

def rep {α} (p : P α) : Nat → P (List α)
  | 0 => pure []
  | n + 1 => do
    let a ← p
    let r ← rep p n
    pure (a :: r)

def list {α} (p : P α) : P (List α) := do
  let n ← nat
  rep p n

/-- run a parser over all remaining tokens; fail if tokens are left over -/
def runAll {α} (p : P α) (ts : List String) : Option α :=
  match p.run ts with
  | some (a, []) => some a
  | _ => none

end SamlVerif.Proto
