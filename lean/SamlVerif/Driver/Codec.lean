import SamlVerif.Driver.Proto
import SamlVerif.Model.Duration
import SamlVerif.Model.Time

namespace SamlVerif.Driver.Codec
open SamlVerif.Proto

def renderInt (o : Outcome Int) : String :=
  match o with
  | .ok v => "ok " ++ toString v
  | .err s => "err site=" ++ s
  | .panic w => "panic " ++ w

/-- `durrt <d>`: marshalled text and `UnmarshalText(MarshalText(d))` -/
def runDurRT : P String := do
  let d ← int
  pure (encStr (String.ofList (Duration.marshal d)) ++ " " ++ renderInt (Duration.roundTrip d))

/-- `durparse <text>` -/
def runDurParse : P String := do
  let s ← str
  pure (renderInt (Duration.parse s.toList))

/-- `tmarshal <ns>`: `RelaxedTime.MarshalText` of the instant (given as seconds and nanoseconds since the epoch) -/
def runTMarshal : P String := do
  let sec ← int; let nsec ← int
  pure ("ok " ++ encStr (String.ofList (TimeM.marshal (sec * 1000000000 + nsec))))

/-- `tparse <text>`: `RelaxedTime.UnmarshalText`, result in milliseconds since the epoch -/
def runTParse : P String := do
  let s ← str
  match TimeM.unmarshal s.toList with
  | some ms => pure ("ok " ++ toString ms)
  | none => pure "err site=time-parse"

def handlers : List (String × P String) :=
  [("durrt", runDurRT), ("durparse", runDurParse), ("tmarshal", runTMarshal), ("tparse", runTParse)]

end SamlVerif.Driver.Codec
