import SamlVerif.Driver.Proto
import SamlVerif.Model.Duration

namespace SamlVerif.Driver.Codec
open SamlVerif.Proto

def renderInt (o : Outcome Int) : String :=
  match o with
  | .ok v => "ok " ++ toString v
  | .err s => "err site=" ++ s
  | .panic w => "panic " ++ w

/-- `durrt <d>`: marshalled text and `UnmarshalText(MarshalText(d))` -/
def runDurRT : P String := do
  let d ← int
  pure (encStr (String.ofList (Duration.marshal d)) ++ " " ++ renderInt (Duration.roundTrip d))

/-- `durparse <text>` -/
def runDurParse : P String := do
  let s ← str
  pure (renderInt (Duration.parse s.toList))

def handlers : List (String × P String) :=
  [("durrt", runDurRT), ("durparse", runDurParse)]

end SamlVerif.Driver.Codec
