import SamlVerif.Driver.Proto
import SamlVerif.Model.Jwt

namespace SamlVerif.Driver.JwtD
open SamlVerif.Proto SamlVerif.Jwt

def alg : P Alg := do
  let t ← tok
  match t with
  | "RS256" => pure .rs256
  | "ES256" => pure .es256
  | "HS256" => pure .hs256
  | "none" => pure .none
  | _ => pure .other

def codec : P Codec := do
  let a ← alg; let k ← nat; let aud ← str; let iss ← str; let ma ← int
  pure ⟨a, k, aud, iss, ma⟩

def attrMap : P (List (String × List String)) :=
  list (do let k ← str; let vs ← list str; pure (k, vs))

def claims : P Claims := do
  let aud ← str; let iss ← str; let sub ← str
  let exp ← int; let iat ← int; let nbf ← int
  let ss ← bool; let sa ← bool
  let attrs ← attrMap
  let tid ← str; let turi ← str
  pure ⟨aud, iss, sub, exp, iat, nbf, ss, sa, attrs, tid, turi⟩

def mac : P Mac := do
  let t ← tok
  match t with
  | "i" => pure .invalid
  | "k" => do let k ← nat; let a ← alg; pure (.by k a)
  | _ => failure

def token : P Token := do
  let wf ← bool
  if wf then
    let a ← alg; let c ← claims; let m ← mac
    pure ⟨true, a, c, m⟩
  else
    pure ⟨false, .other, ⟨"", "", "", 0, 0, 0, false, false, [], "", ""⟩, .invalid⟩

/-- insertion sort of attribute keys for a canonical rendering (Go maps are unordered) -/
def insertSorted (p : String × List String) : List (String × List String) → List (String × List String)
  | [] => [p]
  | q :: r => if p.1 ≤ q.1 then p :: q :: r else q :: insertSorted p r

def canonAttrs (m : List (String × List String)) : String :=
  String.intercalate ";" ((m.foldr insertSorted []).map fun (k, vs) =>
    Proto.pctEncodeBytes k.toUTF8.toList ++ "=" ++ String.intercalate "," (vs.map fun v => Proto.pctEncodeBytes v.toUTF8.toList))

/-- `session <codec> <now> <cookie?> <gate?>` — does the application handler run, and what does it see -/
def runSession : P String := do
  let c ← codec; let now ← int
  let cookie ← opt token
  let gate ← opt (do let n ← str; let v ← str; pure (n, v))
  if admits c now cookie gate then
    match getSession c now cookie with
    | some cl => pure ("admit " ++ encStr cl.sub ++ " " ++ encStr (canonAttrs cl.attrs))
    | none => pure "deny"
  else pure "deny"

def attr : P Attr := do
  let f ← str; let n ← str; let vs ← list str
  pure ⟨f, n, vs⟩

/-- `mint <codec> <t0> <now> <assertion> <gate?>` — token minted by the codec itself from an assertion -/
def runMint : P String := do
  let c ← codec; let t0 ← int; let now ← int
  let nid ← opt str
  let sts ← list (list attr)
  let idx ← list str
  let gate ← opt (do let n ← str; let v ← str; pure (n, v))
  let a : AssertionA := ⟨nid, sts, idx⟩
  let cookie := some (encodeSession c (newSession c t0 a))
  if admits c now cookie gate then
    match getSession c now cookie with
    | some cl => pure ("admit " ++ encStr cl.sub ++ " " ++ encStr (canonAttrs cl.attrs))
    | none => pure "deny"
  else pure "deny"

def handlers : List (String × P String) := [("session", runSession), ("mint", runMint)]

end SamlVerif.Driver.JwtD
