import SamlVerif.Driver.Proto
import SamlVerif.Model.SPStruct

namespace SamlVerif.Driver.SPStruct
open SamlVerif.Proto SamlVerif.SP

def sig : P SigState := do
  let t ← tok
  match t with
  | "a" => pure .absent
  | "v" => pure .valid
  | "i" => pure .invalid
  | _ => failure

def need : P Need := do
  let t ← tok
  match t with
  | "r" => pure .required
  | "n" => pure .notRequired
  | _ => failure

/-- validator override: `n` none, `t`/`f` constant verdict -/
def override {α} (mk : Bool → α) : P (Option α) := do
  let t ← tok
  match t with
  | "n" => pure none
  | "t" => pure (some (mk true))
  | "f" => pure (some (mk false))
  | _ => failure

def cfg : P Cfg := do
  let idp ← str; let acs ← str; let eid ← str; let md ← str
  let allow ← bool
  let rv ← override (fun b => fun (_ : ResponseS) (_ : List String) => b)
  let av ← override (fun b => fun (_ : AssertionS) => b)
  let delay ← int; let skew ← int; let succ ← str
  pure { idpEntityID := idp, acsURL := acs, entityID := eid, metadataURL := md, allowIdP := allow,
         reqIdValidator := rv, audValidator := av, delay := delay, skew := skew, statusSuccess := succ }

def scData : P SCData := do
  let irt ← str; let rc ← str; let noa ← int
  pure ⟨irt, rc, noa⟩

def subjConf : P SubjConf := do
  let d ← opt scData
  pure ⟨d⟩

def conditions : P Conditions := do
  let nb ← int; let noa ← int; let auds ← list str
  pure ⟨nb, noa, auds⟩

def assertion : P AssertionS := do
  let ii ← int; let iss ← str
  let subj ← opt (list subjConf)
  let cond ← opt conditions
  let ident ← str
  pure ⟨ii, iss, subj, cond, ident⟩

def wrap : P Wrap := do
  let t ← tok
  match t with
  | "p" => pure .plain
  | "e" => pure .encOk
  | "b" => pure .encBad
  | _ => failure

def entry : P Entry := do
  let w ← wrap; let s ← sig; let a ← assertion
  pure ⟨w, s, a⟩

def response : P ResponseS := do
  let dest ← str; let irt ← str; let ii ← int
  let iss ← opt str
  let st ← str
  let es ← list entry
  pure ⟨dest, irt, ii, iss, st, es⟩

def render (o : Outcome AssertionS) : String :=
  match o with
  | .ok a => "ok " ++ encStr a.ident
  | .err s =>
    if s.startsWith "bad-status:" then "errstatus " ++ encStr (s.drop 11).toString ++ " site=" ++ "bad-status"
    else "err site=" ++ s
  | .panic w => "panic " ++ w

/-- `spstruct <cfg> <now> <ids> <url> <need> <respSig> <response>` -/
def runSPStruct : P String := do
  let c ← cfg; let now ← int; let ids ← list str; let url ← str
  let n ← need; let rs ← sig; let r ← response
  pure (render (parseResponse c now ids url n rs r))

/-- `artifact <cfg> <now> <ids> <resolveId> <url> <irt> <ii> <issuer?> <status> <sig> <resp?>` -/
def runArtifact : P String := do
  let c ← cfg; let now ← int; let ids ← list str; let rid ← str; let url ← str
  let irt ← str; let ii ← int; let iss ← opt str; let st ← str; let s ← sig
  let resp ← opt (do let rs ← sig; let r ← response; pure (rs, r))
  pure (render (parseArtifactResponse c now ids rid url ⟨irt, ii, iss, st, s, resp⟩))

def handlers : List (String × P String) :=
  [("spstruct", runSPStruct), ("artifact", runArtifact)]

end SamlVerif.Driver.SPStruct
