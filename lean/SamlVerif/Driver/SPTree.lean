import SamlVerif.Driver.Proto
import SamlVerif.Driver.SPStruct
import SamlVerif.Model.SPTree

namespace SamlVerif.Driver.SPTreeD
open SamlVerif.Proto SamlVerif.Tree SamlVerif

def attr : P Attr := do
  let s ← str; let k ← str; let v ← str
  pure ⟨s, k, v⟩

/-- `e <nid> <space> <tag> <attrs> <children>` | `t <cdata> <text>` | `o <kind> <text>`; the fuel bounds the
    nesting depth of the line (a parser for a nested inductive) -/
def node : Nat → P Node
  | 0 => failure
  | fuel + 1 => do
    let k ← tok
    match k with
    | "e" =>
      let nid ← nat; let sp ← str; let tg ← str
      let as ← list attr
      let cs ← list (node fuel)
      pure (.elem nid sp tg as cs)
    | "t" => do let c ← bool; let s ← str; pure (.text c s)
    | "o" => do let kd ← str; let s ← str; pure (.other kd s)
    | _ => failure

def tree : P Node := node 64

def refView : P RefView := do
  let u ← str; let ts ← list str; let d ← str
  pure ⟨u, ts, d⟩

def sigView : P SigView := do
  let c ← str; let rs ← list refView; let st ← opt str; let ki ← opt (list str)
  pure ⟨c, rs, st, ki⟩

def trust : P Trust := do
  let k ← tok
  match k with
  | "m" => do
    let kds ← list (do let u ← str; let cs ← list str; pure (u, cs))
    pure (.metadata kds)
  | "p" => Trust.pinned <$> str
  | "f" => Trust.fingerprint <$> str
  | "x" => pure .misconfigured
  | _ => failure

/-- ledger: signing events as trees (context bindings, then the tree), rendered by the model itself -/
def ctxBindings : P NSCtx := list (do let p ← str; let u ← str; pure (p, u))

def ledger : P Ledger := do
  let sigs ← list (do
    let tokn ← str; let key ← str; let ctx ← ctxBindings; let si ← tree
    pure (tokn, key, ctx, si))
  let digs ← list (do
    let tokn ← str; let ctx ← ctxBindings; let content ← tree
    pure (tokn, ctx, content))
  let rs := sigs.filterMap fun (t, k, ctx, si) => (canonNode (ctx ++ defaultCtx) si).map fun c => (t, k, c)
  let rd := digs.filterMap fun (t, ctx, content) => (canonNode (ctx ++ defaultCtx) content).map fun c => (t, c)
  pure ⟨rs, rd⟩

def header : P SP.ResponseS := do
  let dest ← str; let irt ← str; let ii ← int; let iss ← opt str; let st ← str
  pure ⟨dest, irt, ii, iss, st, []⟩

/-- `xsw <cfg> <trust> <now> <ids> <url> <wellFormed> <ledger> <header?> <tree> <plains> <aviews> <sviews>` -/
def runXsw : P String := do
  let c ← SPStruct.cfg; let tr ← trust; let now ← int; let ids ← list str; let url ← str; let wf ← bool
  let lg ← ledger
  let hdr ← opt header
  let root ← tree
  let plains ← list (do let n ← nat; let p ← opt tree; pure (n, p))
  let avs ← list (do let n ← nat; let a ← opt SPStruct.assertion; pure (n, a))
  let svs ← list (do let n ← nat; let v ← opt sigView; pure (n, v))
  let inp : Input :=
    { cfg := c, trust := tr, ledger := lg, now := now, ids := ids, url := url, wellFormed := wf, root := root, header := hdr,
      aview := fun n => (avs.lookup n).join, sview := fun n => (svs.lookup n).join, plain := fun n => (plains.lookup n).join }
  pure (SPStruct.render (parseT inp))

/-- `xswart <cfg> <trust> <now> <ids> <url> <wellFormed> <ledger> <resolveId> <tree> <plains> <aviews> <sviews> <rviews> <arviews>` -/
def runXswArt : P String := do
  let c ← SPStruct.cfg; let tr ← trust; let now ← int; let ids ← list str; let url ← str; let wf ← bool
  let lg ← ledger
  let rid ← str
  let root ← tree
  let plains ← list (do let n ← nat; let p ← opt tree; pure (n, p))
  let avs ← list (do let n ← nat; let a ← opt SPStruct.assertion; pure (n, a))
  let svs ← list (do let n ← nat; let v ← opt sigView; pure (n, v))
  let rvs ← list (do let n ← nat; let h ← opt header; pure (n, h))
  let arvs ← list (do
    let n ← nat
    let h ← opt (do let irt ← str; let ii ← int; let iss ← opt str; let st ← str; pure (irt, ii, iss, st))
    pure (n, h))
  let inp : Input :=
    { cfg := c, trust := tr, ledger := lg, now := now, ids := ids, url := url, wellFormed := wf, root := root, header := none,
      aview := fun n => (avs.lookup n).join, sview := fun n => (svs.lookup n).join, plain := fun n => (plains.lookup n).join,
      rview := fun n => (rvs.lookup n).join, arview := fun n => (arvs.lookup n).join }
  pure (SPStruct.render (parseArtifactT inp rid))

/-- `canon <ctx> <tree>`: the model's canonical rendering (for debugging the correspondence) -/
def runCanon : P String := do
  let ctx ← ctxBindings; let t ← tree
  match canonNode (ctx ++ defaultCtx) t with
  | some s => pure ("ok " ++ encStr s)
  | none => pure "err site=canon"

def handlers : List (String × P String) := [("xsw", runXsw), ("xswart", runXswArt), ("canon", runCanon)]

end SamlVerif.Driver.SPTreeD
