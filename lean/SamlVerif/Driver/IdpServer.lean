import SamlVerif.Driver.Proto
import SamlVerif.Model.IdpServer

namespace SamlVerif.Driver.IdpServerD
open SamlVerif.Proto SamlVerif.IdpServer

def fault : P Fault := do
  let t ← tok
  match t with
  | "k" => pure .ok
  | "n" => pure .notFound
  | "e" => pure .ioErr
  | _ => failure

def cred : P Cred := do
  let t ← tok
  match t with
  | "-" => pure .none
  | "+" => do let u ← str; let p ← str; pure (.form u p)
  | _ => failure

def md : P Md := do
  let e ← str; let p ← bool; let b ← str
  pure ⟨e, p, b⟩

def req : P Req := do
  let t ← tok
  match t with
  | "putUser" => do let n ← str; let pr ← str; let pw ← opt str; pure (.putUser n pr pw)
  | "getUser" => Req.getUser <$> str
  | "deleteUser" => Req.deleteUser <$> str
  | "putService" => do let i ← str; let m ← opt md; pure (.putService i m)
  | "getService" => Req.getService <$> str
  | "deleteService" => Req.deleteService <$> str
  | "putShortcut" => do
      let n ← str
      let sc ← opt (do let sp ← str; let r ← opt str; let f ← bool; pure (⟨sp, r, f⟩ : ShortcutRec))
      pure (.putShortcut n sc)
  | "getShortcut" => Req.getShortcut <$> str
  | "deleteShortcut" => Req.deleteShortcut <$> str
  | "getSession" => Req.getSession <$> str
  | "deleteSession" => Req.deleteSession <$> str
  | "list" => Req.list <$> str
  | "login" => do let c ← cred; let ck ← opt str; pure (.login c ck)
  | "sso" => do let e ← str; let v ← bool; let c ← cred; let ck ← opt str; let r ← str; pure (.sso e v c ck r)
  | "shortcut" => do let n ← str; let sfx ← str; let ck ← opt str; pure (.shortcut n sfx ck)
  | "advance" => Req.advance <$> int
  | "restart" => pure .restart
  | _ => failure

def sortStrings (l : List String) : List String :=
  l.foldr (fun x acc => let (a, b) := acc.span (· < x); a ++ x :: b) []

def renderReply (r : Reply) : String :=
  let body := match r.body with
    | .empty => "empty"
    | .loginForm => "loginForm"
    | .saml u p e rl => "saml:" ++ pctEncodeBytes (u ++ "|" ++ p ++ "|" ++ e ++ "|" ++ rl).toUTF8.toList
    | .userJson n p => "user:" ++ pctEncodeBytes (n ++ "|" ++ p).toUTF8.toList
    | .sessionJson i u p => "session:" ++ pctEncodeBytes (i ++ "|" ++ u ++ "|" ++ p).toUTF8.toList
    | .mdXml b => "md:" ++ pctEncodeBytes b.toUTF8.toList
    | .shortcutJson sp => "shortcut:" ++ pctEncodeBytes sp.toUTF8.toList
    | .names l => "names:" ++ pctEncodeBytes (String.intercalate "," (sortStrings l)).toUTF8.toList
  toString r.status ++ "/" ++ body ++ "/" ++ (match r.setCookie with | some c => c | none => "-")

/-- `idphist <n> { <req> <faults> }`: one reply per request (advance and restart answer status 0) -/
def runHist : P String := do
  let h ← list (do let r ← req; let fs ← list fault; pure (r, fs))
  let (_, reps) := run init h
  pure (String.intercalate " " (reps.map renderReply))

def handlers : List (String × P String) := [("idphist", runHist)]

end SamlVerif.Driver.IdpServerD
