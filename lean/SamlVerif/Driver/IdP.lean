import SamlVerif.Driver.Proto
import SamlVerif.Model.IdP

namespace SamlVerif.Driver.IdPD
open SamlVerif.Proto SamlVerif.IdP

def endpoint : P Endpoint := do
  let b ← str; let l ← str; let i ← int; let d ← opt bool
  pure ⟨b, l, i, d⟩

def keyDesc : P KeyDesc := do
  let u ← str; let cs ← list str
  pure ⟨u, cs⟩

def spsso : P SPSSO := do
  let acs ← list endpoint; let ks ← list keyDesc
  pure ⟨acs, ks, []⟩

def entityDesc : P EntityDesc := do
  let id ← str; let ds ← list spsso
  pure ⟨id, ds⟩

def lookupP : P Lookup := do
  let t ← tok
  match t with
  | "f" => Lookup.found <$> entityDesc
  | "n" => pure .notExist
  | "e" => pure .ioErr
  | _ => failure

def renderRouting (o : Option (SPSSO × Endpoint)) : String :=
  match o with
  | some (_, e) => "ok " ++ encStr e.binding ++ " " ++ encStr e.location ++ " " ++ toString e.index
  | none => "err site=no-acs"

/-- `idpvalidate <ssoURL> <delay> <now> <registry: n × (entityID lookup)> <request>` -/
def runValidate : P String := do
  let sso ← str; let delay ← int; let now ← int
  let reg ← list (do let id ← str; let l ← lookupP; pure (id, l))
  let id ← str; let iss ← opt str; let dest ← str; let ver ← str; let ii ← int; let url ← str; let idx ← str
  let registry : String → Lookup := fun i => (reg.lookup i).getD .notExist
  match validate ⟨sso, delay⟩ now registry ⟨id, iss, dest, ver, ii, url, idx⟩ with
  | .ok ρ => pure (renderRouting (some (ρ.desc, ρ.acs)) ++ " " ++ encStr ρ.md.entityID)
  | .err s => pure ("err site=" ++ s)
  | .panic w => pure ("panic " ++ w)

/-- `idpinit <md>` -/
def runIdpInit : P String := do
  let md ← entityDesc
  -- the observable is the form action only
  match selectIdpInitiated md with
  | some (_, e) => pure ("ok " ++ encStr e.location)
  | none => pure "err site=no-post-acs"

/-- `enccert <keys>` -/
def runEncCert : P String := do
  let ks ← list keyDesc
  match selectEncCert ks with
  | .ok .none => pure "ok none"
  | .ok (.cert c) => pure ("ok cert " ++ encStr c)
  | .err s => pure ("err site=" ++ s)
  | .panic w => pure ("panic " ++ w)

def handlers : List (String × P String) :=
  [("idpvalidate", runValidate), ("idpinit", runIdpInit), ("enccert", runEncCert)]

end SamlVerif.Driver.IdPD
