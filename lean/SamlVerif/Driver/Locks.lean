import SamlVerif.Driver.Proto
import SamlVerif.Model.Locks
import SamlVerif.Generated.Facts

namespace SamlVerif.Driver.LocksD
open SamlVerif.Proto SamlVerif.Locks

/-- the store operations a program performs, in order: `r` for a read section on the store mutex
    (Get, List), `w` for a write section (Put, Delete); an unguarded read of the map counts as `r` -/
def storeSections : Bool → Prog → List String
  | _, [] => []
  | inSec, e :: rest =>
    match e with
    | .rlock 1 => "r" :: storeSections true rest
    | .lock 1 => "w" :: storeSections true rest
    | .runlock 1 => storeSections false rest
    | .unlock 1 => storeSections false rest
    | .read 0 => if inSec then storeSections inSec rest else "r" :: storeSections inSec rest
    | _ => storeSections inSec rest

def isSubseq : List String → List String → Bool
  | [], _ => true
  | _ :: _, [] => false
  | a :: as, b :: bs => if a = b then isSubseq as bs else isSubseq (a :: as) bs

/-- `lockprog <handler> <observed store ops>`: is what the real handler did to the store a
    subsequence of its extracted (flattened) program? -/
def runLockProg : P String := do
  let name ← str
  let obs ← list str
  match (Facts.handlerPrograms ++ Facts.storePrograms).lookup name with
  | none => pure "err site=no-such-program"
  | some p => pure (if isSubseq obs (storeSections false p) then "ok" else "mismatch " ++ String.intercalate "," (storeSections false p))

/-- `lockwf <handler>`: the static verdict, for information -/
def runLockWF : P String := do
  let name ← str
  match (Facts.handlerPrograms ++ Facts.storePrograms).lookup name with
  | none => pure "err site=no-such-program"
  | some p => pure (if wellFormed (fun x => if x = 0 then 1 else 0) p then "wf" else "not-wf")

def handlers : List (String × P String) := [("lockprog", runLockProg), ("lockwf", runLockWF)]

end SamlVerif.Driver.LocksD
