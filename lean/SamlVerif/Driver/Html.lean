import SamlVerif.Driver.Proto
import SamlVerif.Model.Html
import SamlVerif.Generated.Facts

namespace SamlVerif.Driver.HtmlD
open SamlVerif.Proto SamlVerif.Html

/-- `render <file> <nth template in that file> <fields: n × (name value)>` — rendered bytes -/
def runRender : P String := do
  let file ← str; let nth ← nat
  let fields ← list (do let k ← bytes; let v ← bytes; pure (k, v))
  match (Facts.templates.filter (fun t => t.1 == file))[nth]? with
  | none => pure "err site=no-such-template"
  | some t =>
    if t.2.1 ≠ "html/template" then
      pure (encBytes (renderTextTemplate t.2.2 (fun f => (fields.lookup f).getD [])))
    else
      pure (encBytes (render t.2.2 (fun f => (fields.lookup f).getD [])))

/-- `endpoint <binding> <location>` -/
def runEndpoint : P String := do
  let b ← str; let l ← bytes
  match checkEndpointLocation b l with
  | .ok v => pure ("ok " ++ encBytes v)
  | .err s => pure ("err site=" ++ s)
  | .panic w => pure ("panic " ++ w)

/-- `endpoint2 <binding> <location> <responseLocation>`: Endpoint.UnmarshalXML -/
def runEndpoint2 : P String := do
  let b ← str; let l ← bytes; let r ← bytes
  match unmarshalEndpoint b l r with
  | .ok (l', r') => pure ("ok " ++ encBytes l' ++ " " ++ encBytes r')
  | .err s => pure ("err site=" ++ s)
  | .panic w => pure ("panic " ++ w)

/-- `endpoint3 <binding> <location> <responseLocation?>`: IndexedEndpoint.UnmarshalXML -/
def runEndpoint3 : P String := do
  let b ← str; let l ← bytes; let r ← opt bytes
  match unmarshalIndexedEndpoint b l r with
  | .ok (l', none) => pure ("ok " ++ encBytes l' ++ " -")
  | .ok (l', some r') => pure ("ok " ++ encBytes l' ++ " + " ++ encBytes r')
  | .err s => pure ("err site=" ++ s)
  | .panic w => pure ("panic " ++ w)

def runHtmlEsc : P String := do
  let b ← bytes
  pure (encBytes (htmlEscape b))

def runUrlAttr : P String := do
  let b ← bytes
  pure (encBytes (urlAttrEscape b))

def handlers : List (String × P String) :=
  [("render", runRender), ("endpoint", runEndpoint), ("endpoint2", runEndpoint2), ("endpoint3", runEndpoint3), ("htmlesc", runHtmlEsc), ("urlattr", runUrlAttr)]

end SamlVerif.Driver.HtmlD
