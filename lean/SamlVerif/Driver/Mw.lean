import SamlVerif.Driver.Proto
import SamlVerif.Driver.Jwt
import SamlVerif.Model.MwFlow

namespace SamlVerif.Driver.MwD
open SamlVerif.Proto SamlVerif.Jwt SamlVerif.MW SamlVerif.Driver.JwtD

def cname : P CName := do
  let t ← tok
  match t with
  | "t" => CName.tracking <$> str
  | "s" => pure .session
  | "o" => CName.other <$> str
  | _ => failure

def cookie : P Cookie := do
  let n ← cname
  let wf ← bool
  if wf then
    let a ← alg; let c ← claims; let m ← mac
    pure ⟨n, ⟨true, a, c, m⟩⟩
  else
    pure ⟨n, ⟨false, .other, ⟨"", "", "", 0, 0, 0, false, false, [], "", ""⟩, .invalid⟩⟩

def cfg : P Cfg := do
  let tc ← codec; let sc ← codec; let d ← str; let allow ← bool; let https ← bool
  pure ⟨tc, sc, d, allow, https⟩

/-- `acs <cfg> <now> <jar> <valid> <inResponseTo> <relay>` → status, location, session?, flags, cleared -/
def runACS : P String := do
  let c ← cfg; let now ← int
  let jar ← list cookie
  let valid ← bool; let irt ← str; let relay ← str
  let r := serveACS c now jar ⟨valid, irt, ⟨some "u", [], []⟩⟩ relay
  pure (toString r.status ++ " " ++ encStr r.location ++ " " ++ (if r.session.isSome then "1" else "0") ++ " " ++
    (if r.httpOnly then "1" else "0") ++ " " ++ (if r.secure then "1" else "0") ++ " " ++
    toString r.cleared.length ++ String.join (r.cleared.map fun i => " " ++ encStr i))

def handlers : List (String × P String) := [("acs", runACS)]

end SamlVerif.Driver.MwD
