import SamlVerif.Driver.Proto
import SamlVerif.Driver.SPStruct
import SamlVerif.Model.Logout

namespace SamlVerif.Driver.LogoutD
open SamlVerif.Proto SamlVerif.Logout

def doc : P Doc := do
  let t ← tok
  match t with
  | "u" => pure .undecodable
  | "n" => pure .noRoot
  | "r" => do
    let s ← SamlVerif.Driver.SPStruct.sig
    let r ← opt (do
      let d ← str; let ii ← int; let iss ← opt str; let st ← str
      pure (⟨d, ii, iss, st⟩ : LogoutRespS))
    pure (.root s r)
  | _ => failure

/-- `logout <idp> <slo> <delay> <success> <now> <doc>` -/
def runLogout : P String := do
  let idp ← str; let slo ← str; let delay ← int; let succ ← str; let now ← int
  let d ← doc
  match validate ⟨idp, slo, delay, succ⟩ now d with
  | .ok () => pure "ok"
  | .err s => pure ("err site=" ++ s)
  | .panic w => pure ("panic " ++ w)

def handlers : List (String × P String) := [("logout", runLogout)]

end SamlVerif.Driver.LogoutD
