/-
  Props/TransArtifact — `ServiceProvider.parseArtifactResponse` and `findOneChild` as regenerated from the current
  service_provider.go: the artifact clause of C04 ("accepted only if it answers exactly the ArtifactResolve request the SP just
  issued") and the signature story of C01 one level up (an ArtifactResponse signature that verified lifts the requirement; an
  invalid one is fatal; otherwise the Response inside is judged with a signature required).
-/
import SamlVerif.Props.TransParse
open SamlVerif SamlVerif.GoSem
namespace SamlVerif.TransSP

theorem findOneChild_spec (env : Trans.Env) (el : Option Element) (ns tag : String) (x : Option Element)
    (h : Trans.findOneChild env el ns tag = .ok (x, none)) : env.findChildren el ns tag = .ok ([x], none) := by
  unfold Trans.findOneChild at h
  simp only [Outcome.pure_eq_ok] at h
  cases hf : env.findChildren el ns tag with
  | err e => simp [hf] at h
  | panic w => simp [hf] at h
  | ok r =>
    obtain ⟨l, e⟩ := r
    simp only [hf, Outcome.ok_bind'] at h
    cases e with
    | some e' => simp at h
    | none =>
      cases l with
      | nil => simp at h
      | cons y rest =>
        cases rest with
        | nil => simp [index] at h; simp [h]
        | cons z rest' =>
          simp at h
          have h1 : ¬ ((rest'.length : Int) + 1 + 1 = 0) := by omega
          have h2 : ¬ ((rest'.length : Int) + 1 + 1 = 1) := by omega
          simp [h1, h2] at h

/-- **C04 (artifact clause) and C01 on the translated `parseArtifactResponse`**: a returned assertion means the ArtifactResponse
    answers exactly the ArtifactResolve request just issued, is fresh, from the IdP and Success; its signature verified or is absent
    (never invalid); it holds exactly one Response, and the translated `parseResponse` accepted that Response with a signature
    *required* unless the ArtifactResponse's own signature verified. -/
theorem parseArtifactResponse_sound (env : Trans.Env) (sp : Trans.ServiceProvider) (el : Option Element) (ids : List String)
    (rid : String) (now : Int) (url : URL) (a : Trans.Assertion)
    (h : Trans.parseArtifactResponse env sp el ids rid now url = .ok (some a, none)) :
    ∃ ar sigErr respEl need,
      env.unmarshalElement_ArtifactResponse el = .ok (ar, none) ∧
      ar.InResponseTo = rid ∧ now ≤ ar.IssueInstant + env.MaxIssueDelay ∧
      (∀ i, ar.Issuer = some i → ∃ idp, sp.IDPMetadata = some idp ∧ i.Value = idp.EntityID) ∧
      ar.Status.StatusCode.Value = env.StatusSuccess ∧
      env.validateSignature sp el = .ok sigErr ∧
      ((sigErr = none ∧ need = 1) ∨ (sigErr ≠ none ∧ sigErr = env.errSignatureElementNotPresent ∧ need = 0)) ∧
      env.findChildren el "urn:oasis:names:tc:SAML:2.0:protocol" "Response" = .ok ([respEl], none) ∧
      Trans.parseResponse env sp respEl ids now need url = .ok (some a, none) := by
  unfold Trans.parseArtifactResponse at h
  simp only [Outcome.pure_eq_ok] at h
  cases hu : env.unmarshalElement_ArtifactResponse el with
  | err e => simp [hu] at h
  | panic w => simp [hu] at h
  | ok u =>
    obtain ⟨ar, ue⟩ := u
    simp only [hu, Outcome.ok_bind'] at h
    cases ue with
    | some e => simp at h
    | none =>
      simp only [Option.isSome_none, Bool.false_eq_true, if_false] at h
      by_cases hirt : ar.InResponseTo = rid
      · simp only [hirt, bne_self_eq_false, Bool.false_eq_true, if_false] at h
        by_cases hf : ar.IssueInstant + env.MaxIssueDelay < now
        · simp [hf] at h
        · simp only [hf, if_false] at h
          -- issuer
          have hiss : (∀ i, ar.Issuer = some i → ∃ idp, sp.IDPMetadata = some idp ∧ i.Value = idp.EntityID) ∧
              ∃ b, (if ar.Issuer.isSome = true then do
                      let i ← deref ar.Issuer
                      let m ← deref sp.IDPMetadata
                      Outcome.ok (i.Value != m.EntityID)
                    else Outcome.ok false) = Outcome.ok b ∧ b = false := by
            cases hi : ar.Issuer with
            | none => exact ⟨(by intro i h'; cases h'), false, by simp, rfl⟩
            | some i =>
              cases hidp : sp.IDPMetadata with
              | none => simp [hi, hidp] at h
              | some idp =>
                by_cases hne : i.Value = idp.EntityID
                · exact ⟨(by intro i' h'; cases h'; exact ⟨idp, rfl, hne⟩), false, by simp [hne], rfl⟩
                · have : (i.Value != idp.EntityID) = true := by simp [hne]
                  simp [hi, hidp, this] at h
          obtain ⟨hissuer, b, hb, hbf⟩ := hiss
          subst hbf
          simp only [hb, Outcome.ok_bind', Bool.false_eq_true, if_false] at h
          by_cases hst : ar.Status.StatusCode.Value = env.StatusSuccess
          · simp only [hst, bne_self_eq_false, Bool.false_eq_true, if_false] at h
            cases hsig : env.validateSignature sp el with
            | err e => simp [hsig] at h
            | panic w => simp [hsig] at h
            | ok sigErr =>
              simp only [hsig, Outcome.ok_bind'] at h
              -- the common tail, for the requirement `need`
              have tail : ∀ need : Int,
                  (do
                    let c ← Trans.findOneChild env el "urn:oasis:names:tc:SAML:2.0:protocol" "Response"
                    if Option.isSome c.snd = true then Outcome.ok (none, some "InvalidResponseError")
                      else do
                        let r ← Trans.parseResponse env sp c.fst ids now need url
                        if Option.isSome r.snd = true then Outcome.ok (none, some "InvalidResponseError")
                          else Outcome.ok (r.fst, none)) = Outcome.ok (some a, none) →
                  ∃ respEl, env.findChildren el "urn:oasis:names:tc:SAML:2.0:protocol" "Response" = .ok ([respEl], none) ∧
                    Trans.parseResponse env sp respEl ids now need url = .ok (some a, none) := by
                intro need ht
                cases hc : Trans.findOneChild env el "urn:oasis:names:tc:SAML:2.0:protocol" "Response" with
                | err e => simp [hc] at ht
                | panic w => simp [hc] at ht
                | ok c =>
                  obtain ⟨respEl, ce⟩ := c
                  simp only [hc, Outcome.ok_bind'] at ht
                  cases ce with
                  | some e => simp at ht
                  | none =>
                    simp only [Option.isSome_none, Bool.false_eq_true, if_false] at ht
                    cases hp : Trans.parseResponse env sp respEl ids now need url with
                    | err e => simp [hp] at ht
                    | panic w => simp [hp] at ht
                    | ok r =>
                      obtain ⟨ra, re⟩ := r
                      simp only [hp, Outcome.ok_bind'] at ht
                      cases re with
                      | some e => simp at ht
                      | none =>
                        simp at ht
                        subst ht
                        exact ⟨respEl, findOneChild_spec env el _ _ respEl hc, hp⟩
              cases sigErr with
              | none =>
                simp only [beq_self_eq_true, if_true] at h
                obtain ⟨respEl, hfc, hpr⟩ := tail 1 h
                exact ⟨ar, none, respEl, 1, rfl, hirt, by omega, hissuer, hst, rfl, Or.inl ⟨rfl, rfl⟩, hfc, hpr⟩
              | some e =>
                have : ((some e : GoError) == none) = false := by simp
                simp only [this, Bool.false_eq_true, if_false] at h
                by_cases hab : (some e : GoError) = env.errSignatureElementNotPresent
                · have : ((some e : GoError) == env.errSignatureElementNotPresent) = true := by simp [hab]
                  simp only [this, if_true] at h
                  obtain ⟨respEl, hfc, hpr⟩ := tail 0 h
                  exact ⟨ar, some e, respEl, 0, rfl, hirt, by omega, hissuer, hst, rfl, Or.inr ⟨by simp, hab, rfl⟩, hfc, hpr⟩
                · have : ((some e : GoError) == env.errSignatureElementNotPresent) = false := by simp [hab]
                  simp [this] at h
          · have : (ar.Status.StatusCode.Value != env.StatusSuccess) = true := by simp [hst]
            simp [this] at h
      · have : (ar.InResponseTo != rid) = true := by simp [hirt]
        simp [this] at h

/-- with the signature story spelled out: the returned assertion is covered by a verified signature on its own element, on the
    Response, or on the ArtifactResponse -/
theorem Trans_parseArtifactResponse_signed (env : Trans.Env) (sp : Trans.ServiceProvider) (el : Option Element) (ids : List String)
    (rid : String) (now : Int) (url : URL) (a : Trans.Assertion)
    (h : Trans.parseArtifactResponse env sp el ids rid now url = .ok (some a, none)) :
    env.validateSignature sp el = .ok none ∨
    ∃ respEl x, env.findChildren el "urn:oasis:names:tc:SAML:2.0:protocol" "Response" = .ok ([respEl], none) ∧
      Source env sp respEl x ∧ env.unmarshalElement_Assertion x = .ok (a, none) ∧
      (env.validateSignature sp x = .ok none ∨ env.validateSignature sp respEl = .ok none) := by
  obtain ⟨ar, sigErr, respEl, need, _, _, _, _, _, hsig, hnd, hfc, hpr⟩ := parseArtifactResponse_sound env sp el ids rid now url a h
  rcases hnd with ⟨hs, _⟩ | ⟨_, _, hn⟩
  · left; rw [hsig, hs]
  · right
    subst hn
    obtain ⟨x, hsrc, hum, hsg, _⟩ := Trans_parseResponse_signed env sp respEl ids now url a hpr
    exact ⟨respEl, x, hfc, hsrc, hum, hsg⟩

end SamlVerif.TransSP
