/-
  The models' reading of "for all sequences of message creations / validations" — package samlidp.

  Every model of a server handler method is a *function* of the configuration value and the message, so a
  sequence of calls is the single call repeated and the per-call theorems hold for every call of every
  sequence.  That is the code's behaviour only while the code keeps no state between calls.  These are
  obligations at the regenerated hidden-state facts (extract/state.go): the server's own state is the registry map and its mutex (modelled in C19 / C20); at package level only the session lifetime and the compiled login template.
  A cache on the configuration value, a buffer pool or memo table at package level, break one of them
  whatever the generators happen to reach (the harness's stateful sequences are the search for the
  failing history).
-/
import SamlVerif.Generated.Facts

namespace SamlVerif.Pure

theorem Pure_samlidp_package_state : Facts.packageState_samlidp =
    ["samlidp.defaultLoginFormTemplate (call template.Must)", "samlidp.sessionMaxAge (expr)"] := by decide

end SamlVerif.Pure
