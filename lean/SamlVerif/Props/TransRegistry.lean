/-
  Props/TransRegistry — the provider registry of the bundled IdP server (samlidp/service.go `Server.HandlePutService`, regenerated
  in full: `Generated/TransSamlidp.lean`).  The server's registry is a Go map from entity ID to metadata, modelled as an association
  list (`GoSem.mapSet / mapDelete / mapGet`, with their four lookup laws); the store, the request body's metadata parser and the
  path value are arbitrary functions; the registry lock is outside the translation (C20); writes to the store and replies are events.

  C05 / C08 / C19 ("an assertion goes only to a service provider that is registered at that moment", "the registered metadata"):
  * `putService_success`: a `PUT /services/<name>` that answers 204 has written the parsed metadata to the store first, and leaves
    the registry serving exactly that metadata under its entity ID — whatever was served under that ID before, the same service
    re-registering included; if the name was stored under another entity ID, that ID is no longer served; every other entity ID
    is served as before;
  * `putService_failure`: any other outcome (unparsable body, a store that fails to read or to write) leaves the registry as it
    was, and answers with exactly one error.
-/
import SamlVerif.Generated.TransSamlidp
import SamlVerif.Proofs.TransSP
open SamlVerif SamlVerif.GoSem
namespace SamlVerif.TransRegistry
open TransI

def evNoContent : Event := ⟨"w.WriteHeader", ["StatusNoContent"]⟩
def evBadRequest : Event := ⟨"http.Error", ["StatusBadRequest"]⟩
def evServerError : Event := ⟨"http.Error", ["StatusInternalServerError"]⟩
def evStorePut (key : String) : Event := ⟨"Store.Put", [key]⟩

theorem putService_cases (env : Env) (s s' : Server) (w : ResponseWriter) (rq : HTTPRequest) (tr : List Event)
    (h : HandlePutService env s w (some rq) = .ok (s', tr)) :
    let key := "/services/" ++ env.pathValue rq "id"
    -- the body does not parse
    (s' = s ∧ tr = [evBadRequest] ∧ ∃ m e, env.getSPMetadata (some rq) = .ok (m, some e)) ∨
    (∃ md, env.getSPMetadata (some rq) = .ok (some md, none) ∧ ∃ prev pe, env.storeGet_Service key = .ok (prev, pe) ∧
      -- the store cannot say what was there
      ((pe ≠ none ∧ pe ≠ env.ErrNotFound ∧ s' = s ∧ tr = [evServerError]) ∨
       ((pe = none ∨ pe = env.ErrNotFound) ∧
         -- the store refuses the write
         ((∃ e, env.storePut_Service key { Metadata := md } = .ok (some e) ∧ s' = s ∧ tr = [evStorePut key, evServerError]) ∨
          -- success
          (env.storePut_Service key { Metadata := md } = .ok none ∧ tr = [evStorePut key, evNoContent] ∧
            s'.serviceProviders =
              mapSet (if pe = none ∧ prev.Metadata.EntityID ≠ md.EntityID then mapDelete s.serviceProviders prev.Metadata.EntityID
                      else s.serviceProviders) md.EntityID (some md)))))) := by
  intro key
  unfold HandlePutService at h
  simp only [deref_some, Outcome.ok_bind', Outcome.pure_eq_ok] at h
  cases hm : env.getSPMetadata (some rq) with
  | err e => simp [hm] at h
  | panic p => simp [hm] at h
  | ok mres =>
    obtain ⟨m, me⟩ := mres
    simp only [hm, Outcome.ok_bind'] at h
    cases me with
    | some e =>
      simp at h
      exact Or.inl ⟨h.1.symm, h.2.symm, m, e, rfl⟩
    | none =>
      simp only [Option.isSome_none, Bool.false_eq_true, if_false] at h
      cases m with
      | none => simp at h
      | some md =>
        simp only [deref_some, Outcome.ok_bind'] at h
        refine Or.inr ⟨md, rfl, ?_⟩
        cases hg : env.storeGet_Service key with
        | err e => simp [key, hg] at h
        | panic p => simp [key, hg] at h
        | ok gres =>
          obtain ⟨prev, pe⟩ := gres
          refine ⟨prev, pe, rfl, ?_⟩
          simp only [key] at hg
          simp only [hg, Outcome.ok_bind'] at h
          by_cases hbad : pe ≠ none ∧ pe ≠ env.ErrNotFound
          · left
            have hc : (pe.isSome && (pe != env.ErrNotFound)) = true := by
              cases pe with
              | none => exact absurd rfl hbad.1
              | some x => simpa using hbad.2
            simp [hc] at h
            exact ⟨hbad.1, hbad.2, h.1.symm, h.2.symm⟩
          · right
            have hok : pe = none ∨ pe = env.ErrNotFound := by
              by_cases h1 : pe = none
              · exact Or.inl h1
              · by_cases h2 : pe = env.ErrNotFound
                · exact Or.inr h2
                · exact absurd ⟨h1, h2⟩ hbad
            refine ⟨hok, ?_⟩
            have hc : (pe.isSome && (pe != env.ErrNotFound)) = false := by
              rcases hok with h1 | h2
              · simp [h1]
              · cases pe <;> simp [h2]
            simp only [hc, Bool.false_eq_true, if_false] at h
            cases hp : env.storePut_Service key { Metadata := md } with
            | err e => simp [key, hp] at h
            | panic p => simp [key, hp] at h
            | ok pres =>
              simp only [key] at hp
              simp only [hp, Outcome.ok_bind'] at h
              cases pres with
              | some e =>
                simp at h
                exact Or.inl ⟨e, rfl, h.1.symm, by rw [← h.2]; rfl⟩
              | none =>
                simp only [Option.isSome_none, Bool.false_eq_true, if_false] at h
                refine Or.inr ⟨rfl, ?_⟩
                by_cases hd : pe = none ∧ prev.Metadata.EntityID ≠ md.EntityID
                · have hcond : (pe.isNone && (prev.Metadata.EntityID != md.EntityID)) = true := by
                    simp [hd.1, hd.2]
                  simp [hcond] at h
                  refine ⟨by rw [← h.2]; rfl, ?_⟩
                  rw [← h.1]; simp [hd]
                · have hcond : (pe.isNone && (prev.Metadata.EntityID != md.EntityID)) = false := by
                    cases pe with
                    | some x => simp
                    | none =>
                      have : prev.Metadata.EntityID = md.EntityID := by
                        by_cases he : prev.Metadata.EntityID = md.EntityID
                        · exact he
                        · exact absurd ⟨rfl, he⟩ hd
                      simp [this]
                  simp [hcond] at h
                  refine ⟨by rw [← h.2]; rfl, ?_⟩
                  rw [← h.1]; simp [hd]

/-- C05 / C08 / C19: after a PUT that answered 204 the registry serves, under the entity ID of the metadata in the request, exactly
    that metadata — also when the same service re-registers under the same entity ID —; a previous entity ID of the same service
    name is gone; every other entity ID is served as before -/
theorem putService_success (env : Env) (s s' : Server) (w : ResponseWriter) (rq : HTTPRequest) (tr : List Event)
    (h : HandlePutService env s w (some rq) = .ok (s', tr)) (hok : evNoContent ∈ tr) :
    ∃ md prev pe, env.getSPMetadata (some rq) = .ok (some md, none) ∧
      env.storeGet_Service ("/services/" ++ env.pathValue rq "id") = .ok (prev, pe) ∧
      env.storePut_Service ("/services/" ++ env.pathValue rq "id") { Metadata := md } = .ok none ∧
      tr = [evStorePut ("/services/" ++ env.pathValue rq "id"), evNoContent] ∧
      mapGet s'.serviceProviders md.EntityID = some (some md) ∧
      (pe = none → prev.Metadata.EntityID ≠ md.EntityID → mapGet s'.serviceProviders prev.Metadata.EntityID = none) ∧
      (∀ k, k ≠ md.EntityID → ¬ (pe = none ∧ k = prev.Metadata.EntityID) → mapGet s'.serviceProviders k = mapGet s.serviceProviders k) := by
  have hc := putService_cases env s s' w rq tr h
  simp only at hc
  rcases hc with ⟨_, ht, _⟩ | ⟨md, hm, prev, pe, hg, hrest⟩
  · subst ht; simp [evNoContent, evBadRequest] at hok
  · rcases hrest with ⟨_, _, _, ht⟩ | ⟨_, hrest2⟩
    · subst ht; simp [evNoContent, evServerError] at hok
    · rcases hrest2 with ⟨e, _, _, ht⟩ | ⟨hp, ht, hreg⟩
      · subst ht; simp [evNoContent, evServerError, evStorePut] at hok
      · refine ⟨md, prev, pe, hm, hg, hp, ht, ?_, ?_, ?_⟩
        · rw [hreg, mapGet_mapSet_self]
        · intro h1 h2
          rw [hreg, mapGet_mapSet_other _ _ _ _ h2]
          simp only [h1, h2, ne_eq, not_false_eq_true, and_self, if_true]
          exact mapGet_mapDelete_self _ _
        · intro k hk hnot
          rw [hreg, mapGet_mapSet_other _ _ _ _ hk]
          by_cases hd : pe = none ∧ prev.Metadata.EntityID ≠ md.EntityID
          · simp only [hd, ne_eq, not_false_eq_true, and_self, if_true]
            have hk2 : k ≠ prev.Metadata.EntityID := fun e => hnot ⟨hd.1, e⟩
            exact mapGet_mapDelete_other _ _ _ hk2
          · simp only [hd, if_false]

/-- a PUT that does not answer 204 leaves the registry as it was and answers with one error -/
theorem putService_failure (env : Env) (s s' : Server) (w : ResponseWriter) (rq : HTTPRequest) (tr : List Event)
    (h : HandlePutService env s w (some rq) = .ok (s', tr)) (hno : evNoContent ∉ tr) :
    s' = s ∧ (tr = [evBadRequest] ∨ tr = [evServerError] ∨
      tr = [evStorePut ("/services/" ++ env.pathValue rq "id"), evServerError]) := by
  have hc := putService_cases env s s' w rq tr h
  simp only at hc
  rcases hc with ⟨hs, ht, _⟩ | ⟨md, hm, prev, pe, hg, hrest⟩
  · exact ⟨hs, Or.inl ht⟩
  · rcases hrest with ⟨_, _, hs, ht⟩ | ⟨_, hrest2⟩
    · exact ⟨hs, Or.inr (Or.inl ht)⟩
    · rcases hrest2 with ⟨e, _, hs, ht⟩ | ⟨_, ht, _⟩
      · exact ⟨hs, Or.inr (Or.inr ht)⟩
      · subst ht; simp at hno

/-- the registry lookup the IdP uses (`Server.GetServiceProvider`): the registered metadata, or `os.ErrNotExist` -/
theorem getServiceProvider_eq (env : Env) (s : Server) (r : Option HTTPRequest) (id : String) :
    GetServiceProvider env s r id =
      .ok (match mapGet s.serviceProviders id with
           | some md => (md, none)
           | none => (none, some "os.ErrNotExist")) := by
  unfold GetServiceProvider
  simp only [Outcome.pure_eq_ok]
  cases mapGet s.serviceProviders id <;> simp

/-- C05 / C19: right after a successful registration the IdP's lookup of that entity ID returns the metadata just registered -/
theorem registered_at_that_moment (env : Env) (s s' : Server) (w : ResponseWriter) (rq : HTTPRequest) (tr : List Event)
    (h : HandlePutService env s w (some rq) = .ok (s', tr)) (hok : evNoContent ∈ tr) (r : Option HTTPRequest) :
    ∃ md, env.getSPMetadata (some rq) = .ok (some md, none) ∧ GetServiceProvider env s' r md.EntityID = .ok (some md, none) := by
  obtain ⟨md, _, _, hm, _, _, _, hget, _, _⟩ := putService_success env s s' w rq tr h hok
  exact ⟨md, hm, by rw [getServiceProvider_eq, hget]⟩

def evStoreDelete (key : String) : Event := ⟨"Store.Delete", [key]⟩

/-- `DELETE /services/<name>`: a 204 means the stored service was read and removed from the store, and its entity ID is no longer
    served (every other entity ID is served as before); any other outcome leaves the registry as it was -/
theorem deleteService_cases (env : Env) (s s' : Server) (w : ResponseWriter) (rq : HTTPRequest) (tr : List Event)
    (h : HandleDeleteService env s w (some rq) = .ok (s', tr)) :
    let key := "/services/" ++ env.pathValue rq "id"
    (s' = s ∧ evNoContent ∉ tr) ∨
    (∃ svc, env.storeGet_Service key = .ok (svc, none) ∧ env.storeDelete key = .ok none ∧
      tr = [evStoreDelete key, evNoContent] ∧
      s'.serviceProviders = mapDelete s.serviceProviders svc.Metadata.EntityID ∧
      mapGet s'.serviceProviders svc.Metadata.EntityID = none ∧
      ∀ k, k ≠ svc.Metadata.EntityID → mapGet s'.serviceProviders k = mapGet s.serviceProviders k) := by
  intro key
  unfold HandleDeleteService at h
  simp only [deref_some, Outcome.ok_bind', Outcome.pure_eq_ok] at h
  cases hg : env.storeGet_Service key with
  | err e => simp [key, hg] at h
  | panic p => simp [key, hg] at h
  | ok gres =>
    obtain ⟨svc, ge⟩ := gres
    simp only [key] at hg
    simp only [hg, Outcome.ok_bind'] at h
    cases ge with
    | some e =>
      simp at h
      exact Or.inl ⟨h.1.symm, by rw [← h.2]; simp [evNoContent]⟩
    | none =>
      simp only [Option.isSome_none, Bool.false_eq_true, if_false] at h
      cases hd : env.storeDelete key with
      | err e => simp [key, hd] at h
      | panic p => simp [key, hd] at h
      | ok de =>
        simp only [key] at hd
        simp only [hd, Outcome.ok_bind'] at h
        cases de with
        | some e =>
          simp at h
          exact Or.inl ⟨h.1.symm, by rw [← h.2]; simp [evNoContent]⟩
        | none =>
          simp at h
          refine Or.inr ⟨svc, rfl, rfl, by rw [← h.2]; rfl, by rw [← h.1], ?_, ?_⟩
          · rw [← h.1]; exact mapGet_mapDelete_self _ _
          · intro k hk; rw [← h.1]; exact mapGet_mapDelete_other _ _ _ hk

/-! ### the registry a server starts with (`Server.initializeServices`) -/

/-- the registry after loading the services `names` (read without error as `svc n`), in order -/
def loaded (svc : String → Service) (names : List String) (m : List (String × Option EntityDescriptor)) :
    List (String × Option EntityDescriptor) :=
  names.foldl (fun m n => mapSet m (svc n).Metadata.EntityID (some (svc n).Metadata)) m

theorem initializeServices_loop (env : Env) (svc : String → Service) (names : List String) (s : Server)
    (hget : ∀ n ∈ names, env.storeGet_Service ("/services/" ++ n) = .ok (svc n, none)) :
    forIn names ((none : Option (Server × GoError)), s) (fun serviceName (st : Option (Server × GoError) × Server) => do
        let r ← env.storeGet_Service ("/services/" ++ serviceName)
        if r.snd.isSome = true then
          (Outcome.ok (ForInStep.done (some (st.snd, r.snd), st.snd)) : Outcome (ForInStep (Option (Server × GoError) × Server)))
        else
          Outcome.ok (ForInStep.yield (none,
            { serviceProviders := mapSet st.snd.serviceProviders r.fst.Metadata.EntityID (some r.fst.Metadata) })))
      = .ok (none, { serviceProviders := loaded svc names s.serviceProviders }) := by
  induction names generalizing s with
  | nil => simp [loaded]
  | cons n ns ih =>
    have h1 := hget n (by simp)
    simp only [List.forIn_cons, h1, Outcome.ok_bind', Option.isSome_none, Bool.false_eq_true, if_false]
    rw [ih _ (fun m hm => hget m (by simp [hm]))]
    simp [loaded]

/-- C05 / C19: a server (re-)created over a store whose services all read without error serves exactly what loading them in
    order gives -/
theorem initializeServices_registry (env : Env) (s : Server) (svc : String → Service) (names : List String)
    (hl : env.storeList "/services/" = .ok (names, none))
    (hget : ∀ n ∈ names, env.storeGet_Service ("/services/" ++ n) = .ok (svc n, none)) :
    initializeServices env s = .ok ({ serviceProviders := loaded svc names s.serviceProviders }, none) := by
  unfold initializeServices
  simp only [hl, Outcome.ok_bind', Outcome.pure_eq_ok, Option.isSome_none, Bool.false_eq_true, if_false]
  rw [initializeServices_loop env svc names s hget]
  simp

theorem loaded_other (svc : String → Service) (names : List String) (m : List (String × Option EntityDescriptor)) (k : String)
    (hk : ∀ n ∈ names, (svc n).Metadata.EntityID ≠ k) : mapGet (loaded svc names m) k = mapGet m k := by
  induction names generalizing m with
  | nil => rfl
  | cons n ns ih =>
    simp only [loaded, List.foldl_cons]
    have := ih (mapSet m (svc n).Metadata.EntityID (some (svc n).Metadata)) (fun x hx => hk x (by simp [hx]))
    simp only [loaded] at this
    rw [this, mapGet_mapSet_other _ _ _ _ (fun e => hk n (by simp) e.symm)]

/-- … and when the stored services have pairwise different entity IDs, each entity ID is served with its own metadata — every
    issuer is resolved against its own registration, however many services the store holds -/
theorem loaded_own (svc : String → Service) (names : List String) (m : List (String × Option EntityDescriptor))
    (hnd : (names.map fun n => (svc n).Metadata.EntityID).Nodup) :
    ∀ n ∈ names, mapGet (loaded svc names m) (svc n).Metadata.EntityID = some (some (svc n).Metadata) := by
  induction names generalizing m with
  | nil => intro n hn; cases hn
  | cons x xs ih =>
    intro n hn
    simp only [List.map_cons, List.nodup_cons, List.mem_map, not_exists, not_and] at hnd
    simp only [loaded, List.foldl_cons]
    rcases List.mem_cons.mp hn with rfl | hmem
    · have := loaded_other svc xs (mapSet m (svc n).Metadata.EntityID (some (svc n).Metadata)) (svc n).Metadata.EntityID
        (fun y hy e => hnd.1 y hy e)
      simp only [loaded] at this
      rw [this, mapGet_mapSet_self]
    · have := ih (mapSet m (svc x).Metadata.EntityID (some (svc x).Metadata)) hnd.2 n hmem
      simpa [loaded] using this

/-! ### storing a user (`Server.HandlePutUser` from `user.Name = r.PathValue("id")` on: the decoded body is a parameter) -/

def evBadRequest' : Event := ⟨"http.Error", ["StatusBadRequest"]⟩

/-- C19: a user is written to the store only (a) under the name in the path, (b) never with the plaintext password, (c) when a
    password came with the request: only if it is one that can be set (`validPassword`) and with the bcrypt hash of exactly that
    password; without one: with the hash already stored for that user, if there is one.  A password that cannot be set answers
    400 and nothing is written. -/
theorem putUser_stored (env : Env) (s : Server) (w : ResponseWriter) (rq : HTTPRequest) (body : User) (tr : List Event) (key : String)
    (hkey : key = "/users/" ++ env.pathValue rq "id")
    (h : putUserTail env s w (some rq) body = .ok tr) (hput : evStorePut key ∈ tr) :
    ∃ u, (∃ e, env.storePut_User key u = .ok e) ∧ u.Name = env.pathValue rq "id" ∧ u.PlaintextPassword = none ∧
      ((∃ pw, body.PlaintextPassword = some pw ∧ env.validPassword pw = .ok true ∧
          env.bcryptGenerate pw = .ok (u.HashedPassword, none)) ∨
       (body.PlaintextPassword = none ∧
          ((∃ ex, env.storeGet_User key = .ok (ex, none) ∧ u.HashedPassword = ex.HashedPassword) ∨
           (∃ ex, env.storeGet_User key = .ok (ex, env.ErrNotFound) ∧ env.ErrNotFound ≠ none ∧ u.HashedPassword = body.HashedPassword)))) := by
  subst hkey
  unfold putUserTail at h
  simp only [deref_some, Outcome.ok_bind', Outcome.pure_eq_ok] at h
  cases hpw : body.PlaintextPassword with
  | some pw =>
    simp only [hpw, Option.isSome_some, if_true, deref_some, Outcome.ok_bind'] at h
    cases hv : env.validPassword pw with
    | err e => simp [hv] at h
    | panic p => simp [hv] at h
    | ok vb =>
      simp only [hv, Outcome.ok_bind'] at h
      cases vb with
      | false =>
        simp at h; subst h
        simp [evStorePut] at hput
      | true =>
        simp only [Bool.not_true, Bool.false_eq_true, if_false] at h
        cases hg : env.bcryptGenerate pw with
        | err e => simp [hg] at h
        | panic p => simp [hg] at h
        | ok gres =>
          obtain ⟨hash, ge⟩ := gres
          simp only [hg, Outcome.ok_bind'] at h
          cases ge with
          | some e =>
            simp at h; subst h
            simp [evStorePut] at hput
          | none =>
            simp only [Option.isSome_none, Bool.false_eq_true, if_false] at h
            refine ⟨{ Name := env.pathValue rq "id", PlaintextPassword := none, HashedPassword := hash }, ?_, rfl, rfl,
              Or.inl ⟨pw, rfl, hv, hg⟩⟩
            cases hp : env.storePut_User ("/users/" ++ env.pathValue rq "id")
                { Name := env.pathValue rq "id", PlaintextPassword := none, HashedPassword := hash } with
            | err e => simp [hp] at h
            | panic p => simp [hp] at h
            | ok e => exact ⟨e, rfl⟩
  | none =>
    simp only [hpw, Option.isSome_none, Bool.false_eq_true, if_false] at h
    cases hg : env.storeGet_User ("/users/" ++ env.pathValue rq "id") with
    | err e => simp [hg] at h
    | panic p => simp [hg] at h
    | ok gres =>
      obtain ⟨ex, ge⟩ := gres
      simp only [hg, Outcome.ok_bind'] at h
      cases ge with
      | none =>
        simp only [BEq.rfl, if_true] at h
        refine ⟨{ Name := env.pathValue rq "id", PlaintextPassword := none, HashedPassword := ex.HashedPassword }, ?_, rfl, rfl,
          Or.inr ⟨rfl, Or.inl ⟨ex, rfl, rfl⟩⟩⟩
        cases hp : env.storePut_User ("/users/" ++ env.pathValue rq "id")
            { Name := env.pathValue rq "id", PlaintextPassword := none, HashedPassword := ex.HashedPassword } with
        | err e => simp [hp] at h
        | panic p => simp [hp] at h
        | ok e => exact ⟨e, rfl⟩
      | some ge' =>
        have h1 : ((some ge' : GoError) == none) = false := by simp
        simp only [h1, Bool.false_eq_true, if_false] at h
        by_cases hnf : (some ge' : GoError) = env.ErrNotFound
        · have hb : ((some ge' : GoError) == env.ErrNotFound) = true := by simp [hnf]
          simp only [hb, if_true, Outcome.ok_bind'] at h
          refine ⟨{ Name := env.pathValue rq "id", PlaintextPassword := none, HashedPassword := body.HashedPassword }, ?_, rfl, rfl,
            Or.inr ⟨rfl, Or.inr ⟨ex, by rw [← hnf], by rw [← hnf]; simp, rfl⟩⟩⟩
          cases hp : env.storePut_User ("/users/" ++ env.pathValue rq "id")
              { Name := env.pathValue rq "id", PlaintextPassword := none, HashedPassword := body.HashedPassword } with
          | err e => simp [hp] at h
          | panic p => simp [hp] at h
          | ok e => exact ⟨e, rfl⟩
        · have hb : ((some ge' : GoError) == env.ErrNotFound) = false := by simpa using hnf
          simp [hb] at h; subst h
          simp [evStorePut] at hput

/-! ### shortcuts (shortcut.go `Server.HandleIDPInitiated`) -/

/-- the relay state a shortcut launch carries: the stored one when the shortcut has one, else `/` ++ the URL suffix when the shortcut
    asks for that and there is a suffix, else none -/
def shortcutRelay (sc : Shortcut) (suffix : String) : String :=
  match sc.RelayState with
  | some rs => rs
  | none => if sc.URISuffixAsRelayState = true ∧ suffix ≠ "" then "/" ++ suffix else ""

/-- C05 / C19: a shortcut request launches IdP-initiated login for exactly the service provider the stored shortcut names, with the
    relay state `shortcutRelay`; when the shortcut cannot be read the only reply is one 500 and nothing is launched -/
theorem shortcut_launch (env : Env) (s : Server) (w : ResponseWriter) (rq : HTTPRequest) (tr : List Event)
    (h : HandleIDPInitiated env s w (some rq) = .ok tr) :
    ∃ sc e, env.storeGet_Shortcut ("/shortcuts/" ++ env.pathValue rq "shortcut") = .ok (sc, e) ∧
      ((e ≠ none ∧ tr = [evServerError]) ∨
       (e = none ∧ tr = [⟨"s.IDP.ServeIDPInitiated", [sc.ServiceProviderID, shortcutRelay sc (env.pathValue rq "suffix")]⟩])) := by
  unfold HandleIDPInitiated at h
  simp only [deref_some, Outcome.ok_bind', Outcome.pure_eq_ok] at h
  cases hg : env.storeGet_Shortcut ("/shortcuts/" ++ env.pathValue rq "shortcut") with
  | err x => simp [hg] at h
  | panic x => simp [hg] at h
  | ok res =>
    obtain ⟨sc, e⟩ := res
    refine ⟨sc, e, rfl, ?_⟩
    simp only [hg, Outcome.ok_bind'] at h
    cases e with
    | some x => simp at h; exact Or.inl ⟨by simp, by rw [← h]; rfl⟩
    | none =>
      simp only [Option.isSome_none, Bool.false_eq_true, if_false] at h
      refine Or.inr ⟨rfl, ?_⟩
      unfold shortcutRelay
      cases hrs : sc.RelayState with
      | some rs => simp [hrs] at h; rw [← h]
      | none =>
        cases hu : sc.URISuffixAsRelayState with
        | false => simp [hrs, hu] at h; rw [← h]; simp
        | true =>
          by_cases hsf : env.pathValue rq "suffix" = ""
          · simp [hrs, hu, hsf] at h; rw [← h]; simp [hsf]
          · simp [hrs, hu, hsf] at h; rw [← h]; simp [hsf]

/-- C19: ending a session / removing a user deletes exactly the named key from the store, answers 204 only after the store accepted
    the deletion, and one 500 otherwise — nothing else is written, and nothing else in the store is touched by these handlers -/
theorem deleteSession_cases (env : Env) (s : Server) (w : ResponseWriter) (rq : HTTPRequest) (tr : List Event)
    (h : HandleDeleteSession env s w (some rq) = .ok tr) :
    let key := "/sessions/" ++ env.pathValue rq "id"
    (env.storeDelete key = .ok none ∧ tr = [evStoreDelete key, evNoContent]) ∨
    (∃ e, env.storeDelete key = .ok (some e) ∧ tr = [evStoreDelete key, evServerError]) := by
  intro key
  unfold HandleDeleteSession at h
  simp only [deref_some, Outcome.ok_bind', Outcome.pure_eq_ok] at h
  cases hd : env.storeDelete key with
  | err x => simp [key, hd] at h
  | panic x => simp [key, hd] at h
  | ok e =>
    simp only [key] at hd
    simp only [hd, Outcome.ok_bind'] at h
    cases e with
    | none => simp at h; exact Or.inl ⟨rfl, by rw [← h]; rfl⟩
    | some x => simp at h; exact Or.inr ⟨x, rfl, by rw [← h]; rfl⟩

theorem deleteUser_cases (env : Env) (s : Server) (w : ResponseWriter) (rq : HTTPRequest) (tr : List Event)
    (h : HandleDeleteUser env s w (some rq) = .ok tr) :
    let key := "/users/" ++ env.pathValue rq "id"
    (env.storeDelete key = .ok none ∧ tr = [evStoreDelete key, evNoContent]) ∨
    (∃ e, env.storeDelete key = .ok (some e) ∧ tr = [evStoreDelete key, evServerError]) := by
  intro key
  unfold HandleDeleteUser at h
  simp only [deref_some, Outcome.ok_bind', Outcome.pure_eq_ok] at h
  cases hd : env.storeDelete key with
  | err x => simp [key, hd] at h
  | panic x => simp [key, hd] at h
  | ok e =>
    simp only [key] at hd
    simp only [hd, Outcome.ok_bind'] at h
    cases e with
    | none => simp at h; exact Or.inl ⟨rfl, by rw [← h]; rfl⟩
    | some x => simp at h; exact Or.inr ⟨x, rfl, by rw [← h]; rfl⟩

/-- C19: a shortcut is stored under the name in the path with the body's service provider, relay state and suffix rule untouched;
    204 only after the store accepted it -/
theorem putShortcut_cases (env : Env) (s : Server) (w : ResponseWriter) (rq : HTTPRequest) (body : Shortcut) (tr : List Event)
    (h : putShortcutTail env s w (some rq) body = .ok tr) :
    let key := "/shortcuts/" ++ env.pathValue rq "id"
    let stored : Shortcut := { body with Name := env.pathValue rq "id" }
    (env.storePut_Shortcut key stored = .ok none ∧ tr = [evStorePut key, evNoContent]) ∨
    (∃ e, env.storePut_Shortcut key stored = .ok (some e) ∧ tr = [evStorePut key, evServerError]) := by
  intro key stored
  unfold putShortcutTail at h
  simp only [deref_some, Outcome.ok_bind', Outcome.pure_eq_ok] at h
  cases hp : env.storePut_Shortcut key stored with
  | err x => simp [key, stored, hp] at h
  | panic x => simp [key, stored, hp] at h
  | ok e =>
    simp only [key, stored] at hp
    simp only [hp, Outcome.ok_bind'] at h
    cases e with
    | none => simp at h; exact Or.inl ⟨rfl, by rw [← h]; rfl⟩
    | some x => simp at h; exact Or.inr ⟨x, rfl, by rw [← h]; rfl⟩

theorem deleteShortcut_cases (env : Env) (s : Server) (w : ResponseWriter) (rq : HTTPRequest) (tr : List Event)
    (h : HandleDeleteShortcut env s w (some rq) = .ok tr) :
    let key := "/shortcuts/" ++ env.pathValue rq "id"
    (env.storeDelete key = .ok none ∧ tr = [evStoreDelete key, evNoContent]) ∨
    (∃ e, env.storeDelete key = .ok (some e) ∧ tr = [evStoreDelete key, evServerError]) := by
  intro key
  unfold HandleDeleteShortcut at h
  simp only [deref_some, Outcome.ok_bind', Outcome.pure_eq_ok] at h
  cases hd : env.storeDelete key with
  | err x => simp [key, hd] at h
  | panic x => simp [key, hd] at h
  | ok e =>
    simp only [key] at hd
    simp only [hd, Outcome.ok_bind'] at h
    cases e with
    | none => simp at h; exact Or.inl ⟨rfl, by rw [← h]; rfl⟩
    | some x => simp at h; exact Or.inr ⟨x, rfl, by rw [← h]; rfl⟩

theorem TransI_registry_no_failures : TransI.transFailures = [] := by decide

end SamlVerif.TransRegistry
