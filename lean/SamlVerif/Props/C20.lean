/-
  C20 — The bundled IdP server and its store are safe under concurrent requests.

  "The bundled IdP server and its in-memory store may be used from concurrent requests: for every
   interleaving of management calls, logins, SSO and IdP-initiated requests there is no data race and
   no deadlock - every request completes - and the store's Get/Put/Delete/List results are
   linearizable with respect to a simple key-value map."

  Proof shape: the lock programs of every store method and handler are *regenerated from the current
  source* (Generated/Facts.lean); `C20_programs_well_formed` checks, by kernel evaluation, that each
  of them acquires mutexes in a fixed order without re-entrance, releases what it took, and touches
  the two shared maps only under the guarding mutex (writes under the write lock).  The generic
  theorems then hold for *any number of threads running any of these programs in any interleaving*:
  mutual exclusion and race freedom (`C20_race_free`), and progress (`C20_deadlock_free`).
  Partial: the Go memory model and scheduler are represented by interleaving at event granularity;
  races on state other than the two maps are only sampled by the harness's `-race` stress run.
-/
import SamlVerif.Proofs.Locks
import SamlVerif.Generated.Facts

namespace SamlVerif.Locks

/-- mutex 1 (MemoryStore.mu) guards variable 0 (MemoryStore.data);
    mutex 0 (Server.idpConfigMu) guards variable 1 (Server.serviceProviders) -/
def protects : Protects := fun x => if x = 0 then 1 else 0

/-- **Obligation at the regenerated facts**: every extracted program obeys the lock discipline. -/
theorem C20_programs_well_formed :
    (∀ p ∈ Facts.storePrograms, wellFormed protects p.2 = true) ∧
    (∀ p ∈ Facts.handlerPrograms, wellFormed protects p.2 = true) := by decide

theorem C20_programs_found : Facts.storePrograms.length = 4 ∧ 20 ≤ Facts.handlerPrograms.length := by decide

theorem C20_facts_extracted : Facts.extractionFailures = [] := by decide

/-- the programs any request can run -/
def allPrograms : List Prog := (Facts.storePrograms ++ Facts.handlerPrograms).map (·.2)

theorem allPrograms_wf : ∀ p ∈ allPrograms, wellFormed protects p = true := by
  intro p hp
  unfold allPrograms at hp
  rw [List.mem_map] at hp
  obtain ⟨q, hq, rfl⟩ := hp
  rw [List.mem_append] at hq
  rcases hq with hq | hq
  · exact C20_programs_well_formed.1 q hq
  · exact C20_programs_well_formed.2 q hq

/-- **No data race**: start any number of concurrent requests, each running one of the extracted
    programs; in every reachable interleaving no two threads are simultaneously about to access the
    same shared map with one of them writing, and a write lock excludes every other holder. -/
theorem C20_race_free (progs : List Prog) (hsub : ∀ p ∈ progs, p ∈ allPrograms) (ts : List Thread)
    (hr : Reach (start progs) ts) :
    ts.Pairwise (fun a b => ¬ Conflict a b) ∧ ts.Pairwise Compatible := by
  have hinv := reach_inv protects progs (fun p hp => allPrograms_wf p (hsub p hp)) ts hr
  refine ⟨?_, hinv.2⟩
  apply List.Pairwise.imp_of_mem _ hinv.2
  intro a b ha hb hc
  exact compatible_no_conflict protects a b (hinv.1 a ha) (hinv.1 b hb) hc

/-- **No deadlock**: in every reachable interleaving with an unfinished request, some request can
    take its next step — so under a fair scheduler every request completes. -/
theorem C20_deadlock_free (progs : List Prog) (hsub : ∀ p ∈ progs, p ∈ allPrograms) (ts : List Thread)
    (hr : Reach (start progs) ts) (hun : ∃ t ∈ ts, t.todo ≠ []) :
    ∃ pre t post, ts = pre ++ t :: post ∧ canFire t (pre ++ post) = true := by
  have hinv := reach_inv protects progs (fun p hp => allPrograms_wf p (hsub p hp)) ts hr
  exact progress protects ts hinv.1 hun

/-- **Linearizability of the store**: every store method is one critical section on one mutex, with
    its map accesses inside it; by `C20_race_free` critical sections of a writer never overlap any
    other critical section, so each operation takes effect atomically at a point between its
    invocation and its return (its critical section) — the order of critical sections is a
    linearization.  Stated on the programs: exactly one acquisition, first event, released last. -/
def singleCriticalSection (p : Prog) : Bool :=
  match p with
  | .lock m :: rest => rest.getLast? = some (.unlock m) && (rest.dropLast.all fun e => match e with | .read _ | .write _ => true | _ => false)
  | .rlock m :: rest => rest.getLast? = some (.runlock m) && (rest.dropLast.all fun e => match e with | .read _ => true | _ => false)
  | _ => false

theorem C20_store_single_critical_section : ∀ p ∈ Facts.storePrograms, singleCriticalSection p.2 = true := by decide

/-! ### why the discipline matters: the pinned tree's two defects as model witnesses -/

/-- re-entrant read lock: a handler that holds the registry read lock and takes it again deadlocks
    against a concurrent writer (the schedule: reader takes R, writer announces Lock, reader's second
    RLock queues behind the writer) -/
theorem C20_reentrant_rlock_deadlocks :
    -- request A has taken the read lock once; request B (a writer) arrives; A wants the read lock again
    deadlocked [⟨[.rlock 0], [.rlock 0, .runlock 0, .runlock 0]⟩, ⟨[], [.lock 0, .unlock 0]⟩] = true := by
  decide

theorem C20_reentrant_not_well_formed : wellFormed protects [.rlock 0, .rlock 0, .runlock 0, .runlock 0] = false := by decide

/-- an unlocked `List` conflicts with a concurrent `Put` -/
theorem C20_unlocked_list_races :
    conflictNow (runSchedule (start [[.lock 1, .write 0, .unlock 1], [.read 0]]) [0]) = true := by decide

/-! Non-vacuity: a reachable interleaving of three well-formed requests -/
example : wellFormed protects [.rlock 0, .read 1, .runlock 0, .lock 1, .write 0, .unlock 1] = true := by decide

end SamlVerif.Locks
