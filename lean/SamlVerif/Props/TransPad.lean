/-
  Props/TransPad — the block padding of xmlenc (cbc.go `appendPadding` / `stripPadding`) as regenerated from the current
  source (`Generated/TransXmlenc.lean`), tied to the hand model (`Model/Xmlenc.lean`) that the C10 / C11 theorems are about:

  * `appendPadding_refines`, `stripPadding_refines`: on every buffer and every positive block size the regenerated functions
    compute exactly what the hand model computes (errors included) — so `C10`'s round trip and `C11`'s totality are theorems
    about the code that is in the tree now;
  * `Trans_padding_roundtrip` (C10): for every plaintext and every block size 1…255, stripping what was appended gives the
    plaintext back, with no error; `Trans_padding_aligned`: the padded length is a multiple of the block size;
  * `Trans_stripPadding_total` (C11): no buffer makes `stripPadding` panic — it answers with a proper prefix or an error;
  * the bounds are needed: block size 0 panics (division by zero), block size 256 produces a padding that does not strip.
-/
import SamlVerif.Generated.TransXmlenc
import SamlVerif.Proofs.Xmlenc
open SamlVerif SamlVerif.GoSem
namespace SamlVerif.TransPad

/-- what a Go caller of `stripPadding` sees, from the hand model's outcome -/
def liftStrip : Outcome (List UInt8) → Outcome (List UInt8 × GoError)
  | .ok p => .ok (p, none)
  | .err "pad-zero" => .ok ([], some "padding must be at least one byte")
  | .err _ => .ok ([], some "buffer is too short for padding")
  | .panic w => .panic w

theorem appendPadding_refines (env : TransX.Env) (buf : List UInt8) (bs : Int) (h : 0 < bs) :
    TransX.appendPadding env buf bs = .ok (Xmlenc.appendPadding buf bs.toNat) := by
  unfold TransX.appendPadding Xmlenc.appendPadding
  obtain ⟨n, rfl⟩ : ∃ n : Nat, bs = n := ⟨bs.toNat, by omega⟩
  have hn : 0 < n := by omega
  have hne : ¬ ((n : Int) = 0) := by omega
  have hmod : (buf.length : Int).tmod (n : Int) = ((buf.length % n : Nat) : Int) := by
    rw [Int.tmod_eq_emod_of_nonneg (by omega)]; rfl
  have hlt : buf.length % n < n := Nat.mod_lt _ hn
  simp only [goMod, hne, if_false, Outcome.ok_bind', hmod, Outcome.pure_eq_ok, Int.toNat_natCast]
  have hk : ((n : Int) - ((buf.length % n : Nat) : Int)) = ((n - buf.length % n : Nat) : Int) := by omega
  rw [hk]
  generalize hkk : n - buf.length % n = k
  have hk1 : 1 ≤ k := by omega
  have hneg : ¬ ((k : Int) < 0) := by omega
  simp only [makeSlice, hneg, if_false, Outcome.ok_bind', Int.toNat_natCast, setIndex, List.length_replicate]
  have h1 : ¬ ((k : Int) - 1 < 0) := by omega
  have h2 : ((k : Int) - 1).toNat < k := by omega
  simp only [h1, if_false, h2, if_true, Outcome.ok_bind']
  congr 1
  rw [List.append_assoc]
  congr 1
  have h3 : ((k : Int) - 1).toNat = k - 1 := by omega
  rw [h3]
  obtain ⟨m, rfl⟩ : ∃ m, k = m + 1 := ⟨k - 1, by omega⟩
  have hb : toByte ((m + 1 : Nat) : Int) = UInt8.ofNat (m + 1) := by
    unfold toByte
    apply UInt8.toNat_inj.mp
    simp only [UInt8.toNat_ofNat']
    have : (((m + 1 : Nat) : Int) % 256).toNat = (m + 1) % 256 := by omega
    rw [this]; simp
  rw [hb]
  simp only [Nat.add_sub_cancel]
  apply List.ext_getElem
  · simp
  · intro i hi1 hi2
    simp only [List.length_set, List.length_replicate] at hi1
    by_cases hi : i = m
    · subst hi; simp
    · have : i < m := by omega
      simp [List.getElem_set, List.getElem_append, this, hi, Ne.symm hi]

theorem stripPadding_refines (env : TransX.Env) (buf : List UInt8) :
    TransX.stripPadding env buf = liftStrip (Xmlenc.stripPadding buf) := by
  unfold TransX.stripPadding Xmlenc.stripPadding
  cases hl : buf.getLast? with
  | none =>
    have : buf = [] := by simpa using hl
    subst this
    simp [liftStrip]
  | some last =>
    have hne : buf ≠ [] := by intro h; subst h; simp at hl
    have hpos : 0 < buf.length := List.length_pos_iff.mpr hne
    have h1 : ¬ ((buf.length : Int) < 1) := by omega
    have hidx : index buf ((buf.length : Int) - 1) = .ok last := by
      unfold index
      have : ¬ ((buf.length : Int) - 1 < 0) := by omega
      have h2 : ((buf.length : Int) - 1).toNat = buf.length - 1 := by omega
      simp only [this, if_false, h2]
      rw [List.getLast?_eq_getElem?] at hl
      rw [hl]
    simp only [h1, if_false, hidx, Outcome.ok_bind', Outcome.pure_eq_ok, byteToInt]
    by_cases ha : last.toNat > buf.length
    · have : ((last.toNat : Int) > (buf.length : Int)) := by omega
      simp [this, ha, liftStrip]
    · have hna : ¬ ((last.toNat : Int) > (buf.length : Int)) := by omega
      by_cases hb : last.toNat < 1
      · have : ((last.toNat : Int) < 1) := by omega
        simp [hna, ha, this, hb, liftStrip]
      · have hnb : ¬ ((last.toNat : Int) < 1) := by omega
        have hs : sliceTo buf ((buf.length : Int) - (last.toNat : Int)) = .ok (buf.take (buf.length - last.toNat)) := by
          unfold sliceTo
          have : ¬ ((buf.length : Int) - (last.toNat : Int) < 0 ∨ (buf.length : Int) - (last.toNat : Int) > (buf.length : Int)) := by omega
          have h2 : ((buf.length : Int) - (last.toNat : Int)).toNat = buf.length - last.toNat := by omega
          simp only [this, if_false, h2]
        simp only [hna, if_false, hnb, ha, hb, hs, Outcome.ok_bind', liftStrip]

/-- C10 on the regenerated code: strip ∘ append = identity, for every plaintext and block size 1…255 -/
theorem Trans_padding_roundtrip (env : TransX.Env) (p : List UInt8) (bs : Int) (h0 : 0 < bs) (h255 : bs ≤ 255) :
    (TransX.appendPadding env p bs >>= TransX.stripPadding env) = .ok (p, none) := by
  rw [appendPadding_refines env p bs h0]
  show TransX.stripPadding env _ = _
  rw [stripPadding_refines, Xmlenc.strip_append p bs.toNat (by omega) (by omega)]
  rfl

theorem Trans_padding_aligned (env : TransX.Env) (p : List UInt8) (bs : Int) (h0 : 0 < bs) :
    ∃ q, TransX.appendPadding env p bs = .ok q ∧ q.length % bs.toNat = 0 ∧ p <+: q :=
  ⟨_, appendPadding_refines env p bs h0, Xmlenc.appendPadding_length_mod p bs.toNat (by omega),
    by unfold Xmlenc.appendPadding; rw [List.append_assoc]; exact List.prefix_append _ _⟩

/-- C11 on the regenerated code: `stripPadding` never panics; what it returns without error is a proper prefix -/
theorem Trans_stripPadding_total (env : TransX.Env) (buf : List UInt8) :
    (∃ e, TransX.stripPadding env buf = .ok ([], some e)) ∨
    (∃ p, TransX.stripPadding env buf = .ok (p, none) ∧ p.length < buf.length ∧ p <+: buf) := by
  rw [stripPadding_refines]
  cases h : Xmlenc.stripPadding buf with
  | panic w => exact absurd h (Xmlenc.stripPadding_ne_panic buf w)
  | err e =>
    left
    unfold liftStrip
    by_cases he : e = "pad-zero"
    · subst he; exact ⟨_, rfl⟩
    · refine ⟨"buffer is too short for padding", ?_⟩
      split <;> simp_all
  | ok p =>
    right
    refine ⟨p, rfl, Xmlenc.stripPadding_min buf p h, ?_⟩
    unfold Xmlenc.stripPadding at h
    split at h
    · simp at h
    · split at h
      · simp at h
      · split at h
        · simp at h
        · simp only [Outcome.ok.injEq] at h
          subst h; exact List.take_prefix _ _

/-! the bounds are needed, and the premises are satisfiable -/
example : TransX.appendPadding default [1, 2, 3] 0 = .panic "integer divide by zero" := by decide
set_option maxRecDepth 8192 in
example : (TransX.appendPadding default [] 256 >>= TransX.stripPadding default) = .ok ([], some "padding must be at least one byte") := by decide
example : TransX.appendPadding default [1, 2, 3] 8 = .ok [1, 2, 3, 0, 0, 0, 0, 5] := by decide
example : (TransX.appendPadding default [] 16 >>= TransX.stripPadding default) = .ok ([], none) := by decide
example : TransX.stripPadding default [9, 9, 3] = .ok ([], none) := by decide
example : TransX.stripPadding default [9, 9, 4] = .ok ([], some "buffer is too short for padding") := by decide

theorem TransX_no_failures : TransX.transFailures = [] := by decide

end SamlVerif.TransPad
