/-
  Props/TransEncCert — `IdpAuthnRequest.getSPEncryptionCert` as regenerated from the current identity_provider.go, up to the
  point where the chosen certificate string is decoded (the statements before `certStr = regexp…`): which key descriptor's
  certificate the IdP will encrypt to, or that there is none (`os.ErrNotExist`, the only case in which `MakeAssertionEl` leaves the
  assertion in clear), or that the advertised one is unusable (an error).

  `Trans_getSPEncryptionCert_eq`: the two loops compute the hand-written model `IdP.selectEncCert` — so C08's theorems about the
  model (`C08_plaintext_iff`, `C08_no_downgrade`, `C08_selected_certificate`, …) are theorems about the translated code;
  `Trans_encCert_plaintext_iff` / `Trans_encCert_no_downgrade` spell the first two out on the regenerated types.
-/
import SamlVerif.Props.TransIdP
import SamlVerif.Props.C08
open SamlVerif SamlVerif.GoSem
namespace SamlVerif.TransIdP

/-- a loop that leaves its variables alone until the first element satisfying `p`, and stops there -/
theorem forIn_first {α σ : Type} (xs : List α) (s : σ) (B : α → σ → Outcome (ForInStep σ)) (p : α → Bool) (g : α → σ → σ)
    (h1 : ∀ x, p x = false → B x s = .ok (.yield s))
    (h2 : ∀ x, p x = true → B x s = .ok (.done (g x s))) :
    forIn xs s B = .ok (match xs.find? p with | some x => g x s | none => s) := by
  induction xs with
  | nil => simp
  | cons x xs ih =>
    simp only [List.forIn_cons, List.find?_cons]
    cases hp : p x
    · simp only [h1 x hp, Outcome.ok_bind']
      exact ih
    · simp [h2 x hp]

def absKey (k : Trans.KeyDescriptor) : IdP.KeyDesc :=
  { use := k.Use, certs := k.KeyInfo.X509Data.X509Certificates.map (·.Data) }

def certResult : Outcome IdP.EncCert → String × GoError
  | .ok (.cert c) => (c, none)
  | .ok .none => ("", some "os.ErrNotExist")
  | .err _ => ("", some "encryption key descriptor contains no certificate")
  | .panic _ => ("", some "panic")

theorem firstCert_abs (k : Trans.KeyDescriptor) :
    IdP.firstCert (absKey k) =
      match k.KeyInfo.X509Data.X509Certificates with
      | [] => none
      | c :: _ => if c.Data = "" then none else some c.Data := by
  unfold IdP.firstCert absKey
  cases k.KeyInfo.X509Data.X509Certificates <;> simp

theorem getSPEncryptionCert_eq (env : Trans.Env) (req : Trans.IdpAuthnRequest) (d : Trans.SPSSODescriptor)
    (h : req.SPSSODescriptor = some d) :
    Trans.getSPEncryptionCert env req = .ok (certResult (IdP.selectEncCert (d.KeyDescriptors.map absKey))) := by
  unfold Trans.getSPEncryptionCert
  simp only [h, deref_some, Outcome.ok_bind', Outcome.pure_eq_ok]
  rw [forIn_first d.KeyDescriptors (none, "") _ (fun k => k.Use == "encryption")
        (fun k s => match k.KeyInfo.X509Data.X509Certificates with
          | [] => (some ("", some "encryption key descriptor contains no certificate"), s.2)
          | c :: _ => if c.Data = "" then (some ("", some "encryption key descriptor contains no certificate"), s.2) else (none, c.Data))]
  · -- relate the model's first search to the translated one
    have hfind : (d.KeyDescriptors.map absKey).find? (fun k => k.use = "encryption") =
        (d.KeyDescriptors.find? (fun k => k.Use == "encryption")).map absKey := by
      rw [List.find?_map]
      congr 1
    unfold IdP.selectEncCert
    rw [hfind]
    cases hf : d.KeyDescriptors.find? (fun k => k.Use == "encryption") with
    | some k =>
      simp only [Option.map_some, Outcome.ok_bind', firstCert_abs]
      cases hc : k.KeyInfo.X509Data.X509Certificates with
      | nil => simp [certResult]
      | cons c rest =>
        by_cases hd : c.Data = ""
        · simp [hd, certResult]
        · simp [hd, certResult]
    | none =>
      simp only [Option.map_none, Outcome.ok_bind']
      rw [forIn_first d.KeyDescriptors "" _
            (fun k => k.Use == "" && (match k.KeyInfo.X509Data.X509Certificates with | [] => false | c :: _ => c.Data != ""))
            (fun k _ => match k.KeyInfo.X509Data.X509Certificates with | [] => "" | c :: _ => c.Data)]
      · have hfind2 : (d.KeyDescriptors.map absKey).find? (fun k => k.use = "" && (IdP.firstCert k).isSome) =
            (d.KeyDescriptors.find? (fun k => k.Use == "" && (match k.KeyInfo.X509Data.X509Certificates with | [] => false | c :: _ => c.Data != ""))).map absKey := by
          rw [List.find?_map]
          congr 2
          funext k
          simp only [Function.comp, firstCert_abs]
          cases hk : k.KeyInfo.X509Data.X509Certificates with
          | nil => simp [absKey]
          | cons c rest =>
            by_cases hd : c.Data = ""
            · simp [absKey, hd]
            · have : (c.Data != "") = true := by simp [hd]
              by_cases hu : k.Use = "" <;> simp [absKey, hd, this, hu]
        rw [hfind2]
        cases hf2 : d.KeyDescriptors.find? (fun k => k.Use == "" && (match k.KeyInfo.X509Data.X509Certificates with | [] => false | c :: _ => c.Data != "")) with
        | none => simp [certResult]
        | some k =>
          have hp := List.find?_some hf2
          simp only [Option.map_some, firstCert_abs]
          cases hc : k.KeyInfo.X509Data.X509Certificates with
          | nil => simp [hc] at hp
          | cons c rest =>
            simp [hc] at hp
            simp [hp.2, certResult]
      · intro k hp
        cases hc : k.KeyInfo.X509Data.X509Certificates with
        | nil => simp [hc]
        | cons c rest =>
          have hl : ¬ ((rest.length : Int) + 1 = 0) := by omega
          simp [hc] at hp
          by_cases hu : k.Use = ""
          · have hd := hp hu
            simp [hc, hu, hd, index, hl]
          · simp [hc, hu]
      · intro k hp
        cases hc : k.KeyInfo.X509Data.X509Certificates with
        | nil => simp [hc] at hp
        | cons c rest =>
          have hl : ¬ ((rest.length : Int) + 1 = 0) := by omega
          simp [hc] at hp
          simp [hc, hp.1, hp.2, index, hl]
  · intro k hp
    have hu : ¬ k.Use = "encryption" := by simpa using hp
    simp [hu]
  · intro k hp
    have hu : k.Use = "encryption" := by simpa using hp
    cases hc : k.KeyInfo.X509Data.X509Certificates with
    | nil => simp [hu, hc]
    | cons c rest =>
      have hl : ¬ ((rest.length : Int) + 1 = 0) := by omega
      by_cases hd : c.Data = ""
      · simp [hu, hc, hd, index, hl]
      · simp [hu, hc, hd, index, hl]

/-- the name the property files use -/
theorem Trans_getSPEncryptionCert_eq (env : Trans.Env) (req : Trans.IdpAuthnRequest) (d : Trans.SPSSODescriptor)
    (h : req.SPSSODescriptor = some d) :
    Trans.getSPEncryptionCert env req = .ok (certResult (IdP.selectEncCert (d.KeyDescriptors.map absKey))) :=
  getSPEncryptionCert_eq env req d h

/-- **C08 on the translated code**: "no key" (the only answer after which the assertion is emitted in clear) is returned exactly
    when the registered metadata advertises no encryption key: no descriptor with use "encryption", and no unlabeled descriptor
    with a non-empty certificate. -/
theorem Trans_encCert_plaintext_iff (env : Trans.Env) (req : Trans.IdpAuthnRequest) (d : Trans.SPSSODescriptor)
    (h : req.SPSSODescriptor = some d) :
    (∃ c, Trans.getSPEncryptionCert env req = .ok (c, some "os.ErrNotExist")) ↔ ¬ IdPOut.Advertises (d.KeyDescriptors.map absKey) := by
  rw [getSPEncryptionCert_eq env req d h, ← IdPOut.selectEncCert_none_iff]
  cases hs : IdP.selectEncCert (d.KeyDescriptors.map absKey) with
  | ok e => cases e <;> simp [certResult]
  | err e => simp [certResult]
  | panic w => simp [certResult]

/-- **no downgrade**: with an encryption key advertised the translated selection returns a certificate string or an error that
    is not "no key" -/
theorem Trans_encCert_no_downgrade (env : Trans.Env) (req : Trans.IdpAuthnRequest) (d : Trans.SPSSODescriptor)
    (h : req.SPSSODescriptor = some d) (hadv : IdPOut.Advertises (d.KeyDescriptors.map absKey)) (c : String) (e : GoError)
    (hr : Trans.getSPEncryptionCert env req = .ok (c, e)) : e ≠ some "os.ErrNotExist" := by
  intro he
  subst he
  exact ((Trans_encCert_plaintext_iff env req d h).1 ⟨c, hr⟩) hadv

end SamlVerif.TransIdP
