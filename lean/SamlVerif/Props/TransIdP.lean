/-
  Props/TransIdP — C05 on the definitions regenerated from the *current* identity_provider.go
  (`Generated/Trans.lean`: `getACSEndpoint`, and `IdpAuthnRequest.Validate` from its Destination check on).

  * `Trans_getACSEndpoint_eq` (Proofs): the four nested loops of `getACSEndpoint` compute `selectSpec` — requested index,
    else requested URL, else (neither given) the default browser-binding endpoint, else the first browser-binding one —
    over the (descriptor, endpoint) pairs of the registered metadata, and leave the request unchanged with
    `os.ErrNotExist` otherwise;
  * `selectSpec_mem` / `mem_pairs`: whatever is selected is an endpoint *listed in the registered metadata*;
  * `selectSpec_abs`: the rule is the hand-written model's `IdP.selectACS` (so the C05 theorems about the model are about it);
  * `Validate_sound`: nil from the translated `Validate` means fresh, version 2.0, Destination absent or the SSO URL,
    issuer known to the registry, endpoint = the rule's choice among the registered ones.
  Hypotheses: `req.IDP` is set; the IdP's metadata does not ask for signed requests (the code refuses all requests then,
  before the translated part); the registry returns metadata whenever it returns no error.
-/
import SamlVerif.Proofs.TransIdP
open SamlVerif SamlVerif.GoSem
namespace SamlVerif.TransIdP

/-- the closed form of the regenerated `getACSEndpoint` (proved in Proofs/TransIdP) -/
theorem Trans_getACSEndpoint_eq (env : Trans.Env) (req : Trans.IdpAuthnRequest) (md : Trans.EntityDescriptor)
    (h : req.ServiceProviderMetadata = some md) :
    Trans.getACSEndpoint env req = .ok (match selectSpec md req.Request with
      | some p => (chosen req p, none)
      | none => (req, some "os.ErrNotExist")) := getACSEndpoint_eq env req md h

theorem selectSpec_mem (md : Trans.EntityDescriptor) (r : Trans.AuthnRequest) (p) (h : selectSpec md r = some p) : p ∈ pairs md := by
  unfold selectSpec at h
  simp only at h
  split at h
  · rename_i p' hp
    cases h
    split at hp
    · exact List.mem_of_find?_eq_some hp
    · cases hp
  · split at h
    · rename_i p' hp
      cases h
      split at hp
      · exact List.mem_of_find?_eq_some hp
      · cases hp
    · split at h
      · split at h
        · rename_i q hq
          cases h
          exact List.mem_of_find?_eq_some hq
        · exact List.mem_of_find?_eq_some h
      · cases h

theorem mem_pairs (md : Trans.EntityDescriptor) (p) : p ∈ pairs md ↔ p.1 ∈ md.SPSSODescriptors ∧ p.2 ∈ p.1.AssertionConsumerServices := by
  unfold pairs
  simp only [List.mem_flatMap, List.mem_map]
  constructor
  · rintro ⟨d, hd, e, he, rfl⟩; exact ⟨hd, he⟩
  · rintro ⟨hd, he⟩; exact ⟨p.1, hd, p.2, he, rfl⟩


/-- `getACSEndpoint` never panics once the registered metadata is in place, and never selects a location that appears
    only in the request -/
theorem Trans_getACSEndpoint_registered (env : Trans.Env) (req req' : Trans.IdpAuthnRequest) (md : Trans.EntityDescriptor)
    (h : req.ServiceProviderMetadata = some md) (hr : Trans.getACSEndpoint env req = .ok (req', none)) :
    ∃ d e, d ∈ md.SPSSODescriptors ∧ e ∈ d.AssertionConsumerServices ∧ req'.SPSSODescriptor = some d ∧ req'.ACSEndpoint = some e := by
  rw [getACSEndpoint_eq env req md h] at hr
  cases hs : selectSpec md req.Request with
  | none => simp [hs] at hr
  | some p =>
    simp [hs, chosen] at hr
    have hm := (mem_pairs md p).1 (selectSpec_mem md _ p hs)
    exact ⟨p.1, p.2, hm.1, hm.2, by simp [← hr], by simp [← hr]⟩

/-- **C05 on the translated code.**  When the regenerated `Validate` (from the Destination check on) returns nil, the request
    is fresh, version 2.0, names the SSO URL if it names a Destination, its issuer is known to the registry, and the endpoint
    left in the request is the one the selection rule picks among the *registered* endpoints of that issuer. -/
theorem Validate_sound (env : Trans.Env) (req req' : Trans.IdpAuthnRequest) (desc : Trans.IDPSSODescriptor)
    (idp : Trans.IdentityProvider) (hidp : req.IDP = some idp) (hw : desc.WantAuthnRequestsSigned ≠ some true)
    (hreg : ∀ r id md, idp.ServiceProviderProvider.GetServiceProvider r id = .ok (md, none) → md.isSome)
    (h : Trans.Validate env req desc = .ok (req', none)) :
    (req.Request.Destination = "" ∨ req.Request.Destination = idp.SSOURL.str) ∧
    req.Now ≤ req.Request.IssueInstant + env.MaxIssueDelay ∧
    req.Request.Version = "2.0" ∧
    ∃ iss md p, req.Request.Issuer = some iss ∧
      idp.ServiceProviderProvider.GetServiceProvider req.HTTPRequest iss.Value = .ok (some md, none) ∧
      selectSpec md req.Request = some p ∧ p ∈ pairs md ∧
      req'.ServiceProviderMetadata = some md ∧ req'.SPSSODescriptor = some p.1 ∧ req'.ACSEndpoint = some p.2 := by
  unfold Trans.Validate at h
  simp only [hidp, deref_some, Outcome.ok_bind', Outcome.pure_eq_ok] at h
  have hw' : (if desc.WantAuthnRequestsSigned.isSome = true then deref desc.WantAuthnRequestsSigned else Outcome.ok false) = .ok false := by
    cases hd : desc.WantAuthnRequestsSigned with
    | none => simp
    | some b => cases b <;> simp_all
  simp only [hw', Outcome.ok_bind', Bool.false_or] at h
  by_cases hd : req.Request.Destination = ""
  · simp only [hd, bne_self_eq_false, Bool.false_eq_true, if_false] at h
    have hdest : req.Request.Destination = "" ∨ req.Request.Destination = idp.SSOURL.str := Or.inl hd
    by_cases hexp : req.Request.IssueInstant + env.MaxIssueDelay < req.Now
    · simp [hexp] at h
    · simp only [hexp, if_false] at h
      by_cases hver : req.Request.Version = "2.0"
      · simp only [hver, bne_self_eq_false, Bool.false_eq_true, if_false] at h
        cases hiss : req.Request.Issuer with
        | none => simp [hiss] at h
        | some iss =>
          simp only [hiss, Option.isNone_some, Bool.false_eq_true, if_false, deref_some, Outcome.ok_bind'] at h
          cases hg : idp.ServiceProviderProvider.GetServiceProvider req.HTTPRequest iss.Value with
          | err e => simp [hg] at h
          | panic w => simp [hg] at h
          | ok pr =>
            obtain ⟨md?, err⟩ := pr
            simp only [hg, Outcome.ok_bind'] at h
            cases err with
            | some e =>
              by_cases he : e = "os.ErrNotExist" <;> simp [he] at h
            | none =>
              have hsome := hreg _ _ _ hg
              cases md? with
              | none => simp at hsome
              | some md =>
                simp only [Option.isSome_none, Bool.false_eq_true, if_false] at h
                rw [getACSEndpoint_eq env _ md rfl] at h
                simp only [Outcome.ok_bind'] at h
                cases hsel : selectSpec md req.Request with
                | none => simp [hsel] at h
                | some p =>
                  simp [hsel, chosen] at h
                  refine ⟨hdest, by omega, hver, iss, md, p, rfl, hg, hsel, selectSpec_mem md _ p hsel, ?_, ?_, ?_⟩ <;> simp [← h]
      · have : (req.Request.Version != "2.0") = true := by simp [hver]
        simp [this] at h
  · have hd' : (req.Request.Destination != "") = true := by simp [hd]
    simp only [hd', if_true] at h
    by_cases hs : req.Request.Destination = idp.SSOURL.str
    · have hs' : (req.Request.Destination != idp.SSOURL.str) = false := by simp [hs]
      simp only [hs', Bool.false_eq_true, if_false] at h
      have hdest : req.Request.Destination = "" ∨ req.Request.Destination = idp.SSOURL.str := Or.inr hs
      by_cases hexp : req.Request.IssueInstant + env.MaxIssueDelay < req.Now
      · simp [hexp] at h
      · simp only [hexp, if_false] at h
        by_cases hver : req.Request.Version = "2.0"
        · simp only [hver, bne_self_eq_false, Bool.false_eq_true, if_false] at h
          cases hiss : req.Request.Issuer with
          | none => simp [hiss] at h
          | some iss =>
            simp only [hiss, Option.isNone_some, Bool.false_eq_true, if_false, deref_some, Outcome.ok_bind'] at h
            cases hg : idp.ServiceProviderProvider.GetServiceProvider req.HTTPRequest iss.Value with
            | err e => simp [hg] at h
            | panic w => simp [hg] at h
            | ok pr =>
              obtain ⟨md?, err⟩ := pr
              simp only [hg, Outcome.ok_bind'] at h
              cases err with
              | some e =>
                by_cases he : e = "os.ErrNotExist" <;> simp [he] at h
              | none =>
                have hsome := hreg _ _ _ hg
                cases md? with
                | none => simp at hsome
                | some md =>
                  simp only [Option.isSome_none, Bool.false_eq_true, if_false] at h
                  rw [getACSEndpoint_eq env _ md rfl] at h
                  simp only [Outcome.ok_bind'] at h
                  cases hsel : selectSpec md req.Request with
                  | none => simp [hsel] at h
                  | some p =>
                    simp [hsel, chosen] at h
                    refine ⟨hdest, by omega, hver, iss, md, p, rfl, hg, hsel, selectSpec_mem md _ p hsel, ?_, ?_, ?_⟩ <;> simp [← h]
        · have : (req.Request.Version != "2.0") = true := by simp [hver]
          simp [this] at h
    · have hs' : (req.Request.Destination != idp.SSOURL.str) = true := by simp [hs]
      simp [hs'] at h

/-! ### the selection rule on the regenerated types is the hand-written model's `selectACS` -/

def absE (e : Trans.IndexedEndpoint) : IdP.Endpoint :=
  { binding := e.Binding, location := e.Location, index := e.Index, isDefault := e.IsDefault }
def absD (d : Trans.SPSSODescriptor) : IdP.SPSSO := { acs := d.AssertionConsumerServices.map absE, keys := [] }
def absMD (md : Trans.EntityDescriptor) : IdP.EntityDesc := { entityID := md.EntityID, spsso := md.SPSSODescriptors.map absD }
def absP (p : Trans.SPSSODescriptor × Trans.IndexedEndpoint) : IdP.SPSSO × IdP.Endpoint := (absD p.1, absE p.2)
def absR (id : String) (r : Trans.AuthnRequest) : IdP.AuthnRequestS :=
  { id := id, issuer := r.Issuer.map (·.Value), destination := r.Destination, version := r.Version, issueInstant := r.IssueInstant,
    acsURL := r.AssertionConsumerServiceURL, acsIndex := r.AssertionConsumerServiceIndex }

theorem dec_beq {α} [DecidableEq α] (a b : α) : decide (a = b) = (a == b) := by
  by_cases h : a = b <;> simp [h]

theorem find_abs {β : Type} (q : β → Bool) (q' : Trans.SPSSODescriptor × Trans.IndexedEndpoint → Bool) (f : Trans.SPSSODescriptor × Trans.IndexedEndpoint → β)
    (h : ∀ p, q (f p) = q' p) (l : List (Trans.SPSSODescriptor × Trans.IndexedEndpoint)) : List.find? (q ∘ f) l = List.find? q' l := by
  congr 1; funext p; exact h p

theorem allEndpoints_abs (md : Trans.EntityDescriptor) : IdP.allEndpoints (absMD md) = (pairs md).map absP := by
  unfold IdP.allEndpoints pairs absMD absP
  simp [List.flatMap_map, List.map_flatMap, Function.comp_def, absD]

theorem isBrowser_abs (b : String) : isBrowser b = IdP.isBrowserBinding b := by
  unfold isBrowser IdP.isBrowserBinding IdP.postBinding IdP.redirectBinding
  by_cases h1 : b = "urn:oasis:names:tc:SAML:2.0:bindings:HTTP-POST" <;>
    by_cases h2 : b = "urn:oasis:names:tc:SAML:2.0:bindings:HTTP-Redirect" <;> simp [h1, h2]

theorem selectSpec_abs (id : String) (md : Trans.EntityDescriptor) (r : Trans.AuthnRequest) :
    (selectSpec md r).map absP = IdP.selectACS (absMD md) (absR id r) := by
  unfold selectSpec IdP.selectACS
  simp only [allEndpoints_abs, List.find?_map, absR]
  rw [find_abs (q' := fun p => itoa p.snd.Index == r.AssertionConsumerServiceIndex) (h := ?h1),
      find_abs (q' := fun p => p.snd.Location == r.AssertionConsumerServiceURL) (h := ?h2),
      find_abs (q' := fun p => p.snd.IsDefault == some true && isBrowser p.snd.Binding) (h := ?h3),
      find_abs (q' := fun p => isBrowser p.snd.Binding) (h := ?h4)]
  case h1 => intro p; simp [absP, absE, itoa, dec_beq]
  case h2 =>
    intro p
    simp only [absP, absE]
    by_cases hx : p.snd.Location = r.AssertionConsumerServiceURL <;> simp [hx]
  case h3 =>
    intro p
    simp only [absP, absE, isBrowser_abs]
    congr 1
    by_cases hx : p.snd.IsDefault = some true <;> simp [hx]
  case h4 => intro p; simp [absP, absE, isBrowser_abs]
  by_cases hi : r.AssertionConsumerServiceIndex = ""
  · by_cases hu : r.AssertionConsumerServiceURL = ""
    · simp only [hi, hu, ne_eq, not_true_eq_false, if_false, and_self, if_true]
      cases List.find? (fun p => p.snd.IsDefault == some true && isBrowser p.snd.Binding) (pairs md) with
      | some p => simp
      | none => simp
    · simp only [hi, hu, ne_eq, not_true_eq_false, not_false_eq_true, if_false, if_true, false_and]
      cases List.find? (fun p => p.snd.Location == r.AssertionConsumerServiceURL) (pairs md) <;> simp [hu]
  · simp only [hi, ne_eq, not_false_eq_true, if_true, and_false, if_false]
    cases List.find? (fun p => itoa p.snd.Index == r.AssertionConsumerServiceIndex) (pairs md) with
    | some p => simp
    | none =>
      by_cases hu : r.AssertionConsumerServiceURL = ""
      · simp [hu]
      · simp only [hu, not_false_eq_true, if_true, Option.map_none]
        cases List.find? (fun p => p.snd.Location == r.AssertionConsumerServiceURL) (pairs md) <;> simp

/-! non-vacuity: a registry entry with two endpoints; the request names the second by URL -/
def exEP (loc : String) (idx : Int) (dflt : Option Bool) : Trans.IndexedEndpoint :=
  { (default : Trans.IndexedEndpoint) with Binding := "urn:oasis:names:tc:SAML:2.0:bindings:HTTP-POST", Location := loc, Index := idx, IsDefault := dflt }
def exD : Trans.SPSSODescriptor :=
  { (default : Trans.SPSSODescriptor) with AssertionConsumerServices := [exEP "https://sp/acs0" 0 none, exEP "https://sp/acs1" 1 (some true)] }
def exMD : Trans.EntityDescriptor :=
  { (default : Trans.EntityDescriptor) with EntityID := "sp", SPSSODescriptors := [exD] }
def exReq (url idx : String) : Trans.AuthnRequest :=
  { (default : Trans.AuthnRequest) with Version := "2.0", Issuer := some ⟨"sp"⟩, AssertionConsumerServiceIndex := idx, AssertionConsumerServiceURL := url }
example : (selectSpec exMD (exReq "https://sp/acs1" "")).map (·.2.Location) = some "https://sp/acs1" := by decide
example : (selectSpec exMD (exReq "" "")).map (·.2.Location) = some "https://sp/acs1" := by decide
example : (selectSpec exMD (exReq "https://evil/acs" "")) = none := by decide
example : (selectSpec exMD (exReq "https://evil/acs" "0")).map (·.2.Location) = some "https://sp/acs0" := by decide

end SamlVerif.TransIdP
