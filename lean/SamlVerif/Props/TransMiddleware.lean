/-
  Props/TransMiddleware — the assertion consumer of `samlsp.Middleware` (middleware.go `ServeACS`,
  `CreateSessionFromAssertion`) as regenerated from the current source (`Generated/TransSamlsp.lean`): handlers return nothing,
  so the regenerated definitions return their *trace* — the calls that were handed the ResponseWriter, in order, with their string
  and error arguments.  The request tracker, the session provider, the assertion handler, `OnError`, the form of the request and
  `ServiceProvider.ParseResponse` are arbitrary functions.

  C17:
  * `createSession_trace`: every run of `CreateSessionFromAssertion` is `[stop tracking]? ++ [OnError e]`, or
    `[stop tracking]? ++ [CreateSession, OnError e]`, or `[stop tracking]? ++ [CreateSession, Redirect u 302]`; the browser is
    redirected only after the session provider accepted, and `u` is the caller's default when no RelayState came back, the URI
    recorded in the tracked request that the RelayState names (which is then cleared: the stop-tracking event comes first), or
    — only when IdP-initiated login is allowed and the tracker knows no such cookie — the RelayState itself;
  * `createSession_redirect_not_caller_chosen`: with IdP-initiated login off, the target is the default (no RelayState) or the
    tracked URI; nothing the response carries chooses it;
  * `createSession_refused_without_tracking`: with IdP-initiated login off, a RelayState the tracker cannot resolve yields
    `[OnError e]` — no session, no redirect.
  C04 / C17:
  * `serveACS_outstanding_ids`: the request IDs handed to `ParseResponse` are exactly `[""]` (only if IdP-initiated login is
    allowed) followed by the IDs of the tracked requests of this browser, in order;
  * `serveACS_session_only_after_validation`: a session is created only if `ParseResponse` returned no error for those IDs and
    the assertion handler accepted the assertion.
-/
import SamlVerif.Generated.TransSamlsp
import SamlVerif.Proofs.TransSP
import SamlVerif.Props.TransParse
open SamlVerif SamlVerif.GoSem
namespace SamlVerif.TransMiddleware
open TransM

def evStop (idx : String) : Event := ⟨"m.RequestTracker.StopTrackingRequest", [idx]⟩
def evSession : Event := ⟨"m.Session.CreateSession", []⟩
def evError (e : GoError) : Event := ⟨"m.OnError", [errStr e]⟩
def evRedirect (u : String) : Event := ⟨"http.Redirect", [u, "302"]⟩

/-- where the browser may be sent -/
inductive Target (env : Env) (m : Middleware) (rq : HTTPRequest) (dflt : String) : List Event → String → Prop where
  | default (h : env.formGet rq "RelayState" = "") : Target env m rq dflt [] dflt
  | tracked (t : TrackedRequest) (o : Option TrackedRequest)
      (h : env.formGet rq "RelayState" ≠ "")
      (hget : m.RequestTracker.GetTrackedRequest (some rq) (env.formGet rq "RelayState") = .ok (some t, none)) :
      Target env m rq dflt [evStop (env.formGet rq "RelayState")] t.URI
  | idpInitiated (o : Option TrackedRequest)
      (h : env.formGet rq "RelayState" ≠ "") (hallow : m.ServiceProvider.AllowIDPInitiated = true)
      (hget : m.RequestTracker.GetTrackedRequest (some rq) (env.formGet rq "RelayState") = .ok (o, some "http.ErrNoCookie")) :
      Target env m rq dflt [] (env.formGet rq "RelayState")

/-- the tail of every run once the redirect target is settled -/
theorem finish_trace (m : Middleware) (w : ResponseWriter) (r : Option HTTPRequest) (a : Option Assertion) (pre : List Event) (u : String)
    (tr : List Event)
    (h : (do
      let e ← m.Session.CreateSession w r a
      if e.isSome = true then do
        let f ← deref m.OnError
        f w r e
        Outcome.ok (pre ++ [evSession] ++ [evError e])
      else
        Outcome.ok (pre ++ [evSession] ++ [evRedirect u]) : Outcome (List Event)) = .ok tr) :
    (∃ e, e ≠ none ∧ m.Session.CreateSession w r a = .ok e ∧ tr = pre ++ [evSession, evError e]) ∨
    (m.Session.CreateSession w r a = .ok none ∧ tr = pre ++ [evSession, evRedirect u]) := by
  cases hc : m.Session.CreateSession w r a with
  | err e => simp [hc] at h
  | panic p => simp [hc] at h
  | ok e =>
    simp only [hc, Outcome.ok_bind'] at h
    cases e with
    | none =>
      simp at h
      exact Or.inr ⟨rfl, by rw [← h]⟩
    | some s =>
      simp only [Option.isSome_some, if_true] at h
      cases ho : m.OnError with
      | none => simp [ho] at h
      | some f =>
        simp only [ho, deref_some, Outcome.ok_bind'] at h
        cases hf : f w r (some s) with
        | err e => simp [hf] at h
        | panic p => simp [hf] at h
        | ok u' =>
          simp [hf] at h
          exact Or.inl ⟨some s, by simp, rfl, by rw [← h]⟩

/-- a run that ends in the error handler -/
theorem error_trace (m : Middleware) (w : ResponseWriter) (r : Option HTTPRequest) (e : GoError) (pre tr : List Event)
    (h : (do
        let f ← deref m.OnError
        f w r e
        Outcome.ok (pre ++ [evError e]) : Outcome (List Event)) = .ok tr) : tr = pre ++ [evError e] := by
  cases ho : m.OnError with
  | none => simp [ho] at h
  | some f =>
    simp only [ho, deref_some, Outcome.ok_bind'] at h
    cases hf : f w r e with
    | err e => simp [hf] at h
    | panic p => simp [hf] at h
    | ok u' => simp [hf] at h; exact h.symm

/-- C17: the shape of every run of `CreateSessionFromAssertion`, and where it redirects -/
theorem createSession_trace (env : Env) (m : Middleware) (w : ResponseWriter) (r : Option HTTPRequest) (a : Option Assertion)
    (dflt : String) (tr : List Event) (h : CreateSessionFromAssertion env m w r a dflt = .ok tr) :
    ∃ rq, r = some rq ∧
    ((∃ e, e ≠ none ∧ tr = [evError e] ∧ env.formGet rq "RelayState" ≠ "" ∧
        (∃ o, m.RequestTracker.GetTrackedRequest r (env.formGet rq "RelayState") = .ok (o, e)) ∧
        ¬ (e = some "http.ErrNoCookie" ∧ m.ServiceProvider.AllowIDPInitiated = true)) ∨
     (∃ e, e ≠ none ∧ tr = [evStop (env.formGet rq "RelayState"), evError e] ∧
        m.RequestTracker.StopTrackingRequest w r (env.formGet rq "RelayState") = .ok e) ∨
     (∃ pre u, Target env m rq dflt pre u ∧
        ((∃ e, e ≠ none ∧ m.Session.CreateSession w r a = .ok e ∧ tr = pre ++ [evSession, evError e]) ∨
         (m.Session.CreateSession w r a = .ok none ∧ tr = pre ++ [evSession, evRedirect u])))) := by
  cases r with
  | none => simp [CreateSessionFromAssertion] at h
  | some rq =>
  refine ⟨rq, rfl, ?_⟩
  unfold CreateSessionFromAssertion at h
  simp only [deref_some, Outcome.ok_bind', Outcome.pure_eq_ok] at h
  by_cases hr : env.formGet rq "RelayState" = ""
  · simp only [hr, bne_self_eq_false, Bool.false_eq_true, if_false] at h
    exact Or.inr (Or.inr ⟨[], dflt, Target.default hr, finish_trace m w (some rq) a [] dflt tr h⟩)
  · have hne : (env.formGet rq "RelayState" != "") = true := by simpa using hr
    simp only [hne, if_true] at h
    cases hg : m.RequestTracker.GetTrackedRequest (some rq) (env.formGet rq "RelayState") with
    | err e => simp [hg] at h
    | panic p => simp [hg] at h
    | ok res =>
      obtain ⟨o, e⟩ := res
      simp only [hg, Outcome.ok_bind'] at h
      cases e with
      | some es =>
        simp only [Option.isSome_some, if_true] at h
        by_cases hc : (es = "http.ErrNoCookie" ∧ m.ServiceProvider.AllowIDPInitiated = true)
        · obtain ⟨h1, h2⟩ := hc
          subst h1
          simp only [h2, hne, BEq.rfl, Bool.and_self, if_true, Bool.and_true] at h
          exact Or.inr (Or.inr ⟨[], _, Target.idpInitiated o hr h2 hg, finish_trace m w (some rq) a [] _ tr h⟩)
        · have hcond : ((some es == some "http.ErrNoCookie") && m.ServiceProvider.AllowIDPInitiated) = false := by
            cases hA : m.ServiceProvider.AllowIDPInitiated <;> simp_all
          simp only [hcond, Bool.false_eq_true, if_false] at h
          refine Or.inl ⟨some es, by simp, error_trace m w (some rq) (some es) [] tr h, hr, ⟨o, rfl⟩, ?_⟩
          intro ⟨h1, h2⟩
          exact hc ⟨by simpa using h1, h2⟩
      | none =>
        simp only [Option.isSome_none, Bool.false_eq_true, if_false] at h
        cases hs : m.RequestTracker.StopTrackingRequest w (some rq) (env.formGet rq "RelayState") with
        | err e => simp [hs] at h
        | panic p => simp [hs] at h
        | ok se =>
          simp only [hs, Outcome.ok_bind'] at h
          cases se with
          | some ses =>
            simp only [Option.isSome_some, if_true] at h
            exact Or.inr (Or.inl ⟨some ses, by simp, error_trace m w (some rq) (some ses) [evStop _] tr h, rfl⟩)
          | none =>
            simp only [Option.isSome_none, Bool.false_eq_true, if_false] at h
            cases o with
            | none => simp at h
            | some t =>
              simp only [deref_some, Outcome.ok_bind'] at h
              exact Or.inr (Or.inr ⟨[evStop _], t.URI, Target.tracked t (some t) hr hg, finish_trace m w (some rq) a [evStop _] t.URI tr h⟩)

theorem ev_ne1 (u : String) (e : GoError) : evRedirect u ≠ evError e := by simp [evRedirect, evError]
theorem ev_ne2 (u idx : String) : evRedirect u ≠ evStop idx := by simp [evRedirect, evStop]
theorem ev_ne3 (u : String) : evRedirect u ≠ evSession := by simp [evRedirect, evSession]
theorem ev_ne4 (e : GoError) : evSession ≠ evError e := by simp [evSession, evError]
theorem ev_ne5 (idx : String) : evSession ≠ evStop idx := by simp [evSession, evStop]

/-- C17: with IdP-initiated login off, the browser is sent to the default (no RelayState came back) or to the URI recorded in
    the tracked request the RelayState names, after that tracking cookie was cleared and the session was created — never to a
    location the response chose -/
theorem createSession_redirect_not_caller_chosen (env : Env) (m : Middleware) (w : ResponseWriter) (r : Option HTTPRequest)
    (a : Option Assertion) (dflt u : String) (tr : List Event)
    (hoff : m.ServiceProvider.AllowIDPInitiated = false)
    (h : CreateSessionFromAssertion env m w r a dflt = .ok tr) (hu : evRedirect u ∈ tr) :
    ∃ rq, r = some rq ∧ m.Session.CreateSession w r a = .ok none ∧
      ((env.formGet rq "RelayState" = "" ∧ u = dflt ∧ tr = [evSession, evRedirect u]) ∨
       (∃ t, m.RequestTracker.GetTrackedRequest r (env.formGet rq "RelayState") = .ok (some t, none) ∧ u = t.URI ∧
          tr = [evStop (env.formGet rq "RelayState"), evSession, evRedirect u])) := by
  obtain ⟨rq, hrq, hsh⟩ := createSession_trace env m w r a dflt tr h
  refine ⟨rq, hrq, ?_⟩
  rcases hsh with ⟨e, _, ht, _⟩ | ⟨e, _, ht, _⟩ | ⟨pre, u', htg, hfin⟩
  · subst ht; simp [ev_ne1] at hu
  · subst ht; simp [ev_ne1, ev_ne2] at hu
  · rcases hfin with ⟨e, _, _, ht⟩ | ⟨hcs, ht⟩
    · subst ht
      cases htg with
      | default hr => simp [ev_ne1, ev_ne3] at hu
      | tracked t o hr hg => simp [ev_ne1, ev_ne2, ev_ne3] at hu
      | idpInitiated o hr ha hg => simp [ev_ne1, ev_ne3] at hu
    · subst ht
      refine ⟨hcs, ?_⟩
      cases htg with
      | default hr =>
        simp only [List.nil_append, List.mem_cons, List.not_mem_nil, or_false] at hu
        rcases hu with hu | hu
        · exact absurd hu (ev_ne3 u)
        · have : u = dflt := by simpa [evRedirect] using hu
          subst this
          exact Or.inl ⟨hr, rfl, rfl⟩
      | tracked t o hr hg =>
        simp only [List.cons_append, List.nil_append, List.mem_cons, List.not_mem_nil, or_false] at hu
        rcases hu with hu | hu | hu
        · exact absurd hu (ev_ne2 u _)
        · exact absurd hu (ev_ne3 u)
        · have : u = t.URI := by simpa [evRedirect] using hu
          subst this
          subst hrq
          exact Or.inr ⟨t, hg, rfl, rfl⟩
      | idpInitiated o hr ha hg => rw [hoff] at ha; cases ha

/-- C17: with IdP-initiated login off, a RelayState the tracker cannot resolve ends the request in the error handler: no
    session, no redirect, no cookie touched -/
theorem createSession_refused_without_tracking (env : Env) (m : Middleware) (w : ResponseWriter) (rq : HTTPRequest)
    (a : Option Assertion) (dflt : String) (tr : List Event) (o : Option TrackedRequest) (e : String)
    (hoff : m.ServiceProvider.AllowIDPInitiated = false)
    (hr : env.formGet rq "RelayState" ≠ "")
    (hg : m.RequestTracker.GetTrackedRequest (some rq) (env.formGet rq "RelayState") = .ok (o, some e))
    (h : CreateSessionFromAssertion env m w (some rq) a dflt = .ok tr) : tr = [evError (some e)] := by
  obtain ⟨rq', hrq, hsh⟩ := createSession_trace env m w (some rq) a dflt tr h
  cases hrq
  rcases hsh with ⟨e', _, ht, _, ⟨o', hg'⟩, _⟩ | ⟨e', _, ht, hs⟩ | ⟨pre, u', htg, _⟩
  · rw [hg] at hg'; cases hg'; exact ht
  · exfalso
    -- the stop-tracking event only follows a resolved RelayState
    unfold CreateSessionFromAssertion at h
    have hne : (env.formGet rq "RelayState" != "") = true := by simpa using hr
    simp only [deref_some, Outcome.ok_bind', Outcome.pure_eq_ok, hne, if_true, hg, Option.isSome_some, hoff, Bool.and_false,
      Bool.false_eq_true, if_false] at h
    have := error_trace m w (some rq) (some e) [] tr h
    rw [ht] at this
    simp [evStop, evError] at this
  · exfalso
    cases htg with
    | default h0 => exact hr h0
    | tracked t o' _ hg' => rw [hg] at hg'; cases hg'
    | idpInitiated o' _ ha _ => rw [hoff] at ha; cases ha

theorem forIn_collect {α β : Type} (xs : List α) (acc : List β) (f : α → β) :
    forIn xs acc (fun x s => (Outcome.ok (ForInStep.yield (s ++ [f x])) : Outcome (ForInStep (List β)))) = .ok (acc ++ xs.map f) := by
  induction xs generalizing acc with
  | nil => simp
  | cons x xs ih => simp only [List.forIn_cons, Outcome.ok_bind', ih, List.map_cons]; simp

/-- what `ServeACS` does once the form is parsed, for any initial list of acceptable request IDs -/
theorem serveACS_tail (env : Env) (m : Middleware) (w : ResponseWriter) (r : Option HTTPRequest) (ids0 : List String) (tr : List Event)
    (h : (do
      let trs ← m.RequestTracker.GetTrackedRequests r
      let s ← forIn trs ids0 fun t s => Outcome.ok (ForInStep.yield (s ++ [t.SAMLRequestID]))
      let p ← env.ParseResponse m.ServiceProvider r s
      if p.snd.isSome = true then do
        let f ← deref m.OnError
        f w r p.snd
        Outcome.ok ([] ++ [evError p.snd])
      else do
        let he ← m.AssertionHandler.HandleAssertion p.fst
        if he.isSome = true then do
          let f ← deref m.OnError
          f w r he
          Outcome.ok ([] ++ [evError he])
        else do
          let t ← CreateSessionFromAssertion env m w r p.fst m.ServiceProvider.DefaultRedirectURI
          Outcome.ok ([] ++ t) : Outcome (List Event)) = .ok tr) :
    ∃ tracked a pe, m.RequestTracker.GetTrackedRequests r = .ok tracked ∧
      env.ParseResponse m.ServiceProvider r (ids0 ++ tracked.map (·.SAMLRequestID)) = .ok (a, pe) ∧
      ((pe ≠ none ∧ tr = [evError pe]) ∨
       (pe = none ∧ ∃ he, m.AssertionHandler.HandleAssertion a = .ok he ∧
          ((he ≠ none ∧ tr = [evError he]) ∨
           (he = none ∧ CreateSessionFromAssertion env m w r a m.ServiceProvider.DefaultRedirectURI = .ok tr)))) := by
  cases hg : m.RequestTracker.GetTrackedRequests r with
  | err e => simp [hg] at h
  | panic p => simp [hg] at h
  | ok tracked =>
    simp only [hg, Outcome.ok_bind', forIn_collect] at h
    cases hp : env.ParseResponse m.ServiceProvider r (ids0 ++ tracked.map (·.SAMLRequestID)) with
    | err e => simp [hp] at h
    | panic p => simp [hp] at h
    | ok res =>
      obtain ⟨a, pe⟩ := res
      refine ⟨tracked, a, pe, rfl, hp, ?_⟩
      simp only [hp, Outcome.ok_bind'] at h
      cases pe with
      | some e =>
        simp only [Option.isSome_some, if_true] at h
        exact Or.inl ⟨by simp, error_trace m w r (some e) [] tr h⟩
      | none =>
        simp only [Option.isSome_none, Bool.false_eq_true, if_false] at h
        refine Or.inr ⟨rfl, ?_⟩
        cases hh : m.AssertionHandler.HandleAssertion a with
        | err e => simp [hh] at h
        | panic p => simp [hh] at h
        | ok he =>
          refine ⟨he, rfl, ?_⟩
          simp only [hh, Outcome.ok_bind'] at h
          cases he with
          | some e =>
            simp only [Option.isSome_some, if_true] at h
            exact Or.inl ⟨by simp, error_trace m w r (some e) [] tr h⟩
          | none =>
            simp only [Option.isSome_none, Bool.false_eq_true, if_false] at h
            refine Or.inr ⟨rfl, ?_⟩
            cases hc : CreateSessionFromAssertion env m w r a m.ServiceProvider.DefaultRedirectURI with
            | err e => simp [hc] at h
            | panic p => simp [hc] at h
            | ok t => simp [hc] at h; rw [h]

/-- the request IDs `ServeACS` treats as outstanding -/
def outstanding (m : Middleware) (tracked : List TrackedRequest) : List String :=
  (if m.ServiceProvider.AllowIDPInitiated then [""] else []) ++ tracked.map (·.SAMLRequestID)

/-- C04 / C17: every run of `ServeACS` -/
theorem serveACS_trace (env : Env) (m : Middleware) (w : ResponseWriter) (r : Option HTTPRequest) (tr : List Event)
    (h : ServeACS env m w r = .ok tr) :
    (∃ e, e ≠ none ∧ env.parseForm r = .ok e ∧ tr = [evError e]) ∨
    (env.parseForm r = .ok none ∧
      ∃ tracked a pe, m.RequestTracker.GetTrackedRequests r = .ok tracked ∧
        env.ParseResponse m.ServiceProvider r (outstanding m tracked) = .ok (a, pe) ∧
        ((pe ≠ none ∧ tr = [evError pe]) ∨
         (pe = none ∧ ∃ he, m.AssertionHandler.HandleAssertion a = .ok he ∧
            ((he ≠ none ∧ tr = [evError he]) ∨
             (he = none ∧ CreateSessionFromAssertion env m w r a m.ServiceProvider.DefaultRedirectURI = .ok tr))))) := by
  unfold ServeACS at h
  simp only [Outcome.ok_bind', Outcome.pure_eq_ok] at h
  cases hf : env.parseForm r with
  | err e => simp [hf] at h
  | panic p => simp [hf] at h
  | ok fe =>
    simp only [hf, Outcome.ok_bind'] at h
    cases fe with
    | some e =>
      simp only [Option.isSome_some, if_true] at h
      exact Or.inl ⟨some e, by simp, rfl, error_trace m w r (some e) [] tr h⟩
    | none =>
      simp only [Option.isSome_none, Bool.false_eq_true, if_false] at h
      refine Or.inr ⟨rfl, ?_⟩
      unfold outstanding
      cases hA : m.ServiceProvider.AllowIDPInitiated with
      | true =>
        simp only [hA, if_true] at h
        exact serveACS_tail env m w r ([] ++ [""]) tr h
      | false =>
        simp only [hA, Bool.false_eq_true, if_false] at h
        exact serveACS_tail env m w r [] tr h

/-- C04 / C17: a session is created only for an assertion that `ParseResponse` returned without error for exactly the
    outstanding request IDs of this browser, and that the assertion handler accepted -/
theorem serveACS_session_only_after_validation (env : Env) (m : Middleware) (w : ResponseWriter) (r : Option HTTPRequest)
    (tr : List Event) (h : ServeACS env m w r = .ok tr) (hs : evSession ∈ tr) :
    ∃ tracked a, m.RequestTracker.GetTrackedRequests r = .ok tracked ∧
      env.ParseResponse m.ServiceProvider r (outstanding m tracked) = .ok (a, none) ∧
      m.AssertionHandler.HandleAssertion a = .ok none := by
  rcases serveACS_trace env m w r tr h with ⟨e, _, _, ht⟩ | ⟨_, tracked, a, pe, hg, hp, hrest⟩
  · subst ht; simp [ev_ne4] at hs
  · rcases hrest with ⟨_, ht⟩ | ⟨hpe, he, hh, hrest2⟩
    · subst ht; simp [ev_ne4] at hs
    · subst hpe
      rcases hrest2 with ⟨_, ht⟩ | ⟨hhe, _⟩
      · subst ht; simp [ev_ne4] at hs
      · subst hhe; exact ⟨tracked, a, hg, hp, hh⟩

/-- with IdP-initiated login off and no tracked request, nothing is outstanding: `ParseResponse` is asked with the empty list -/
theorem outstanding_empty (m : Middleware) (hoff : m.ServiceProvider.AllowIDPInitiated = false) : outstanding m [] = [] := by
  simp [outstanding, hoff]

theorem outstanding_no_empty_id (m : Middleware) (tracked : List TrackedRequest) (hoff : m.ServiceProvider.AllowIDPInitiated = false)
    (hne : ∀ t ∈ tracked, t.SAMLRequestID ≠ "") : "" ∉ outstanding m tracked := by
  simp only [outstanding, hoff, Bool.false_eq_true, if_false, List.nil_append, List.mem_map, not_exists, not_and]
  intro t ht h; exact hne t ht h

theorem TransM_no_failures : TransM.transFailures = [] := by decide

/-! non-vacuity: a concrete middleware, a faithful flow, an unresolvable RelayState -/
def exTracker : RequestTracker :=
  { StopTrackingRequest := fun _ _ _ => .ok none,
    GetTrackedRequests := fun _ => .ok [{ Index := "idx-1", SAMLRequestID := "id-1", URI := "/app/page" }],
    GetTrackedRequest := fun _ idx => if idx = "idx-1" then .ok (some { Index := "idx-1", SAMLRequestID := "id-1", URI := "/app/page" }, none) else .ok (none, some "http.ErrNoCookie") }
def exM : Middleware :=
  { (default : Middleware) with
    ServiceProvider := { (default : ServiceProvider) with AllowIDPInitiated := false, DefaultRedirectURI := "/" }
    OnError := some (fun _ _ _ => .ok ())
    RequestTracker := exTracker
    Session := { CreateSession := fun _ _ _ => .ok none }
    AssertionHandler := { HandleAssertion := fun _ => .ok none } }
def exEnvM (relay : String) : Env :=
  { (default : Env) with
    formGet := fun _ k => if k = "RelayState" then relay else ""
    parseForm := fun _ => .ok none
    ParseResponse := fun _ _ ids => if ids = ["id-1"] then .ok (some ⟨⟩, none) else .ok (none, some "InvalidResponseError") }
example : ServeACS (exEnvM "idx-1") exM ⟨0⟩ (some ⟨0⟩) = .ok [evStop "idx-1", evSession, evRedirect "/app/page"] := by decide
example : ServeACS (exEnvM "") exM ⟨0⟩ (some ⟨0⟩) = .ok [evSession, evRedirect "/"] := by decide
example : ServeACS (exEnvM "https://evil.example/") exM ⟨0⟩ (some ⟨0⟩) = .ok [evError (some "http.ErrNoCookie")] := by decide
example : ServeACS (exEnvM "https://evil.example/") { exM with ServiceProvider := { (default : ServiceProvider) with AllowIDPInitiated := true, DefaultRedirectURI := "/" } } ⟨0⟩ (some ⟨0⟩)
    = .ok [evError (some "InvalidResponseError")] := by decide

/-! ### the cookie request tracker (request_tracker_cookie.go `GetTrackedRequest`, `GetTrackedRequests`) -/

/-- C17: the tracked request that a RelayState names is the decoding of *this browser's* cookie of that name, and says so itself -/
theorem getTrackedRequest_sound (env : Env) (t : CookieRequestTracker) (r : Option HTTPRequest) (idx : String) (tr : Option TrackedRequest)
    (h : GetTrackedRequest env t r idx = .ok (tr, none)) :
    ∃ rq ck req, r = some rq ∧ env.cookie rq (t.NamePrefix ++ idx) = .ok (some ck, none) ∧
      t.Codec.Decode ck.Value = .ok (some req, none) ∧ req.Index = idx ∧ tr = some req := by
  cases r with
  | none => simp [GetTrackedRequest] at h
  | some rq =>
    unfold GetTrackedRequest at h
    simp only [deref_some, Outcome.ok_bind', Outcome.pure_eq_ok] at h
    cases hc : env.cookie rq (t.NamePrefix ++ idx) with
    | err e => simp [hc] at h
    | panic p => simp [hc] at h
    | ok res =>
      obtain ⟨ck, ce⟩ := res
      simp only [hc, Outcome.ok_bind'] at h
      cases ce with
      | some e => simp at h
      | none =>
        simp only [Option.isSome_none, Bool.false_eq_true, if_false] at h
        cases ck with
        | none => simp at h
        | some c =>
          simp only [deref_some, Outcome.ok_bind'] at h
          cases hd : t.Codec.Decode c.Value with
          | err e => simp [hd] at h
          | panic p => simp [hd] at h
          | ok dres =>
            obtain ⟨req, de⟩ := dres
            simp only [hd, Outcome.ok_bind'] at h
            cases de with
            | some e => simp at h
            | none =>
              simp only [Option.isSome_none, Bool.false_eq_true, if_false] at h
              cases req with
              | none => simp at h
              | some q =>
                simp only [deref_some, Outcome.ok_bind'] at h
                by_cases hi : q.Index = idx
                · simp [hi] at h
                  exact ⟨rq, c, q, rfl, hc, hd, hi, h.symm⟩
                · simp [hi] at h

/-- a tracked request of this browser: the decoding of one of its cookies whose name is the tracker's prefix followed by the
    index the decoded request carries -/
def FromCookie (env : Env) (t : CookieRequestTracker) (rq : HTTPRequest) (req : TrackedRequest) : Prop :=
  ∃ ck, some ck ∈ env.cookies rq ∧ hasPrefix ck.Name t.NamePrefix = true ∧
    t.Codec.Decode ck.Value = .ok (some req, none) ∧ trimPrefix ck.Name t.NamePrefix = req.Index

/-- C04 / C17: every request `GetTrackedRequests` reports (hence every request ID `ServeACS` treats as outstanding) comes from a
    cookie this browser presented, decoded by the tracker's codec, under that request's own index -/
theorem getTrackedRequests_sound (env : Env) (t : CookieRequestTracker) (r : Option HTTPRequest) (l : List TrackedRequest)
    (h : GetTrackedRequests env t r = .ok l) : ∃ rq, r = some rq ∧ ∀ req ∈ l, FromCookie env t rq req := by
  cases r with
  | none => simp [GetTrackedRequests] at h
  | some rq =>
    refine ⟨rq, rfl, ?_⟩
    unfold GetTrackedRequests at h
    simp only [deref_some, Outcome.ok_bind', Outcome.pure_eq_ok] at h
    generalize hB : (fun (cookie : Option Cookie) (rv : List TrackedRequest) => _) = B at h
    cases hf : forIn (env.cookies rq) ([] : List TrackedRequest) B with
    | err e => simp [hf] at h
    | panic p => simp [hf] at h
    | ok res =>
      simp only [hf, Outcome.ok_bind', Outcome.ok.injEq] at h
      subst h
      refine TransSP.forIn_inv (env.cookies rq) B (fun rv => ∀ req ∈ rv, FromCookie env t rq req) ?_ [] (by simp) res hf
      intro ck hck rv hI st hst
      subst hB
      cases ck with
      | none => simp at hst
      | some c =>
        simp only [deref_some, Outcome.ok_bind'] at hst
        by_cases hp : hasPrefix c.Name t.NamePrefix = true
        · simp only [hp, Bool.not_true, Bool.false_eq_true, if_false] at hst
          cases hd : t.Codec.Decode c.Value with
          | err e => simp [hd] at hst
          | panic p => simp [hd] at hst
          | ok dres =>
            obtain ⟨q, de⟩ := dres
            simp only [hd, Outcome.ok_bind'] at hst
            cases de with
            | some e => simp at hst; subst hst; exact hI
            | none =>
              simp only [Option.isSome_none, Bool.false_eq_true, if_false] at hst
              cases q with
              | none => simp at hst
              | some qq =>
                simp only [deref_some, Outcome.ok_bind'] at hst
                by_cases hi : trimPrefix c.Name t.NamePrefix = qq.Index
                · simp [hi] at hst
                  subst hst
                  intro req hreq
                  simp only [List.mem_append, List.mem_singleton] at hreq
                  rcases hreq with hreq | hreq
                  · exact hI req hreq
                  · subst hreq; exact ⟨c, hck, hp, hd, hi⟩
                · simp [hi] at hst; subst hst; exact hI
        · have : hasPrefix c.Name t.NamePrefix = false := by simpa using hp
          simp [this] at hst; subst hst; exact hI

/-! ### which binding starts a flow (middleware.go `HandleStartAuthFlow`, from `var binding, bindingLocation string` up to
    `authReq, err :=`; translated twice, once yielding `binding`, once `bindingLocation`) -/

def redirectBinding : String := "urn:oasis:names:tc:SAML:2.0:bindings:HTTP-Redirect"
def postBinding : String := "urn:oasis:names:tc:SAML:2.0:bindings:HTTP-POST"

/-- C12 / C13: the configured binding if there is one; otherwise HTTP-Redirect exactly when the IdP publishes a location for it,
    else HTTP-POST — and the location is the one the IdP publishes for the binding that was chosen -/
theorem startFlow_binding (env : Env) (m : Middleware) (b loc : String)
    (hb : startFlowBinding env m = .ok (b, none)) (hl : startFlowLocation env m = .ok (loc, none)) :
    env.GetSSOBindingLocation m.ServiceProvider b = .ok loc ∧
    ((m.Binding ≠ "" ∧ b = m.Binding) ∨
     (m.Binding = "" ∧ b = redirectBinding ∧ loc ≠ "") ∨
     (m.Binding = "" ∧ b = postBinding ∧ env.GetSSOBindingLocation m.ServiceProvider redirectBinding = .ok "")) := by
  unfold startFlowBinding at hb
  unfold startFlowLocation at hl
  simp only [Outcome.ok_bind', Outcome.pure_eq_ok] at hb hl
  by_cases hm : m.Binding = ""
  · have hmb : (m.Binding != "") = false := by simp [hm]
    simp only [hmb, Bool.false_eq_true, if_false] at hb hl
    cases hr : env.GetSSOBindingLocation m.ServiceProvider "urn:oasis:names:tc:SAML:2.0:bindings:HTTP-Redirect" with
    | err e => simp [hr] at hb
    | panic p => simp [hr] at hb
    | ok l1 =>
      simp only [hr, Outcome.ok_bind'] at hb hl
      by_cases he : l1 = ""
      · subst he
        simp only [BEq.rfl, if_true] at hb hl
        cases hp : env.GetSSOBindingLocation m.ServiceProvider "urn:oasis:names:tc:SAML:2.0:bindings:HTTP-POST" with
        | err e => simp [hp] at hb
        | panic p => simp [hp] at hb
        | ok l2 =>
          simp [hp] at hb hl
          subst hb; subst hl
          exact ⟨hp, Or.inr (Or.inr ⟨hm, rfl, hr⟩)⟩
      · have hne : (l1 == "") = false := by simpa using he
        simp [hne] at hb hl
        subst hb; subst hl
        exact ⟨hr, Or.inr (Or.inl ⟨hm, rfl, he⟩)⟩
  · have hmb : (m.Binding != "") = true := by simpa using hm
    simp only [hmb, if_true] at hb hl
    cases hr : env.GetSSOBindingLocation m.ServiceProvider m.Binding with
    | err e => simp [hr] at hb
    | panic p => simp [hr] at hb
    | ok l1 =>
      simp [hr] at hb hl
      subst hb; subst hl
      exact ⟨hr, Or.inl ⟨hm, rfl⟩⟩

/-! ### what `samlsp.New` makes of its options (new.go `DefaultServiceProvider` from `var forceAuthn *bool` on; fields of the
    returned `saml.ServiceProvider` whose values are keys, certificates, clients or URLs are outside the translation) -/

/-- C04 / C17: IdP-initiated login is allowed exactly when the option says so — no other option (a default redirect target,
    request signing, forced authentication, an entity ID, logout bindings) has a say; the default redirect target is the
    configured one, `/` when none is; requests are signed exactly when `SignRequest` is set -/
theorem defaultServiceProvider_flags (env : Env) (opts : Options) :
    ∃ sp, defaultServiceProviderTail env opts = .ok sp ∧
      sp.AllowIDPInitiated = opts.AllowIDPInitiated ∧
      sp.DefaultRedirectURI = (if opts.DefaultRedirectURI = "" then "/" else opts.DefaultRedirectURI) ∧
      sp.SignatureMethod = (if opts.SignRequest = true then env.defaultSigningMethodOfKey else "") ∧
      sp.EntityID = opts.EntityID ∧
      sp.ForceAuthn = (if opts.ForceAuthn = true then some true else none) := by
  unfold defaultServiceProviderTail
  simp only [Outcome.pure_eq_ok, Outcome.ok_bind']
  cases hf : opts.ForceAuthn <;> cases hs : opts.SignRequest <;>
    by_cases hd : opts.DefaultRedirectURI = "" <;>
    by_cases hl : opts.LogoutBindings = [] <;>
    simp [hf, hs, hd, hl]

/-- C17 (new.go `DefaultSessionProvider`): the session cookie provider that `samlsp.New` builds is `HttpOnly` whatever the deployment,
    `Secure` exactly on https deployments, and named as configured (`token` when no name is) — with
    `cookieCreateSession_cookie` (`Props/TransSession`): the session cookie is HttpOnly, and Secure on https -/
theorem defaultSessionProvider_flags (env : Env) (opts : Options) :
    ∃ p, DefaultSessionProvider env opts = .ok p ∧ p.HTTPOnly = true ∧
      p.Secure = (env.urlScheme_Options opts == "https") ∧
      p.Name = (if opts.CookieName = "" then "token" else opts.CookieName) := by
  unfold DefaultSessionProvider
  simp only [Outcome.pure_eq_ok]
  by_cases hn : opts.CookieName = "" <;> simp [hn]

/-! ### starting to track a request (request_tracker_cookie.go `CookieRequestTracker.TrackRequest`; the codec, the application's
    `RelayStateFunc`, the request's URL and the fresh random index are arbitrary) -/

/-- the request that is tracked for a flow: the SAML request ID handed in, the URL of *this* request, under the application's relay
    state when it gives a non-empty one, else under the fresh random index -/
def trackedFor (env : Env) (rq : HTTPRequest) (id : String) (relay : Option String) : TrackedRequest :=
  { (default : TrackedRequest) with
    Index := (match relay with | some s => if s = "" then env.randomIndex else s | none => env.randomIndex),
    SAMLRequestID := id, URI := env.requestURL rq }

/-- C17: tracking a request writes exactly one cookie — named prefix ++ index, HttpOnly, its value what the tracker's codec made of
    the tracked request `trackedFor` (this request's URL, this SAML request ID) — and answers with that index; when the codec fails
    nothing is set -/
theorem trackRequest_cookie (env : Env) (t : CookieRequestTracker) (w : ResponseWriter) (rq : HTTPRequest) (id idx : String)
    (e : GoError) (tr : List Event) (h : TrackRequest env t w (some rq) id = .ok ((idx, e), tr)) :
    ∃ relay : Option String,
      (match t.RelayStateFunc with
       | some f => ∃ s, f w (some rq) = .ok s ∧ relay = some s
       | none => relay = none) ∧
      ∃ enc ee, t.Codec.Encode (trackedFor env rq id relay) = .ok (enc, ee) ∧
        ((ee ≠ none ∧ e = ee ∧ idx = "" ∧ ¬ (∃ a, (⟨"http.SetCookie", a⟩ : Event) ∈ tr)) ∨
         (ee = none ∧ e = none ∧ idx = (trackedFor env rq id relay).Index ∧
            (⟨"http.SetCookie", ["Name=" ++ (t.NamePrefix ++ idx), "Value=" ++ enc, "HttpOnly=" ++ toString true]⟩ : Event) ∈ tr ∧
            ∀ a, (⟨"http.SetCookie", a⟩ : Event) ∈ tr → a = ["Name=" ++ (t.NamePrefix ++ idx), "Value=" ++ enc, "HttpOnly=" ++ toString true])) := by
  unfold TrackRequest at h
  simp only [deref_some, Outcome.ok_bind', Outcome.pure_eq_ok] at h
  cases hf : t.RelayStateFunc with
  | none =>
    refine ⟨none, by simp, ?_⟩
    simp only [hf, Option.isSome_none, Bool.false_eq_true, if_false] at h
    cases hen : t.Codec.Encode (trackedFor env rq id none) with
    | err x => simp [trackedFor] at hen; simp [hen] at h
    | panic x => simp [trackedFor] at hen; simp [hen] at h
    | ok res =>
      obtain ⟨enc, ee⟩ := res
      refine ⟨enc, ee, rfl, ?_⟩
      simp [trackedFor] at hen
      simp only [hen, Outcome.ok_bind'] at h
      cases ee with
      | some x => simp at h; left; refine ⟨by simp, h.1.2.symm, h.1.1, ?_⟩; rw [h.2]; simp
      | none =>
        simp at h; right
        refine ⟨rfl, h.1.2.symm, by rw [← h.1.1]; simp [trackedFor], ?_, ?_⟩
        · rw [← h.2, ← h.1.1]; simp
        · intro a ha; rw [← h.2] at ha; simp at ha; rw [ha, ← h.1.1]
  | some f =>
    simp only [hf, Option.isSome_some, if_true, deref_some, Outcome.ok_bind'] at h
    cases hr : f w (some rq) with
    | err x => simp [hr] at h
    | panic x => simp [hr] at h
    | ok s =>
      refine ⟨some s, ⟨s, hr, rfl⟩, ?_⟩
      simp only [hr, Outcome.ok_bind'] at h
      by_cases hs : s = ""
      · simp only [hs, bne_self_eq_false, Bool.false_eq_true, if_false] at h
        cases hen : t.Codec.Encode (trackedFor env rq id (some s)) with
        | err x => simp [trackedFor, hs] at hen; simp [hen] at h
        | panic x => simp [trackedFor, hs] at hen; simp [hen] at h
        | ok res =>
          obtain ⟨enc, ee⟩ := res
          refine ⟨enc, ee, rfl, ?_⟩
          simp [trackedFor, hs] at hen
          simp only [hen, Outcome.ok_bind'] at h
          cases ee with
          | some x => simp at h; left; refine ⟨by simp, h.1.2.symm, h.1.1, ?_⟩; rw [← h.2]; simp
          | none =>
            simp at h; right
            refine ⟨rfl, h.1.2.symm, by rw [← h.1.1]; simp [trackedFor, hs], ?_, ?_⟩
            · rw [← h.2, ← h.1.1]; simp
            · intro a ha; rw [← h.2] at ha; simp at ha; rw [ha, ← h.1.1]
      · have hne : (s != "") = true := by simpa using hs
        simp only [hne, if_true] at h
        cases hen : t.Codec.Encode (trackedFor env rq id (some s)) with
        | err x => simp [trackedFor, hs] at hen; simp [hen] at h
        | panic x => simp [trackedFor, hs] at hen; simp [hen] at h
        | ok res =>
          obtain ⟨enc, ee⟩ := res
          refine ⟨enc, ee, rfl, ?_⟩
          simp [trackedFor, hs] at hen
          simp only [hen, Outcome.ok_bind'] at h
          cases ee with
          | some x => simp at h; left; refine ⟨by simp, h.1.2.symm, h.1.1, ?_⟩; rw [← h.2]; simp
          | none =>
            simp at h; right
            refine ⟨rfl, h.1.2.symm, by rw [← h.1.1]; simp [trackedFor, hs], ?_, ?_⟩
            · rw [← h.2, ← h.1.1]; simp
            · intro a ha; rw [← h.2] at ha; simp at ha; rw [ha, ← h.1.1]

/-! ### routing (middleware.go `Middleware.ServeHTTP`) -/

/-- C17: a request is handled as an assertion delivery exactly when its path is the ACS path (and is not the metadata path, which is
    looked at first); every other path gets the metadata document or a 404 — no other route creates sessions -/
theorem middlewareRoute_cases (env : Env) (m : Middleware) (w : ResponseWriter) (rq : HTTPRequest) (tr : List Event)
    (h : middlewareRoute env m w (some rq) = .ok tr) :
    (env.requestPath rq = env.urlPath_ServiceProvider_MetadataURL m.ServiceProvider ∧ tr = [⟨"m.ServeMetadata", []⟩]) ∨
    (env.requestPath rq ≠ env.urlPath_ServiceProvider_MetadataURL m.ServiceProvider ∧
       env.requestPath rq = env.urlPath_ServiceProvider_AcsURL m.ServiceProvider ∧ ServeACS env m w (some rq) = .ok tr) ∨
    (env.requestPath rq ≠ env.urlPath_ServiceProvider_MetadataURL m.ServiceProvider ∧
       env.requestPath rq ≠ env.urlPath_ServiceProvider_AcsURL m.ServiceProvider ∧ tr = [⟨"http.NotFound", []⟩]) := by
  unfold middlewareRoute at h
  simp only [deref_some, Outcome.ok_bind', Outcome.pure_eq_ok] at h
  by_cases h1 : env.requestPath rq = env.urlPath_ServiceProvider_MetadataURL m.ServiceProvider
  · simp [h1] at h; exact Or.inl ⟨h1, h.symm⟩
  · have h1' : (env.requestPath rq == env.urlPath_ServiceProvider_MetadataURL m.ServiceProvider) = false := by simpa using h1
    simp only [h1', Bool.false_eq_true, if_false] at h
    by_cases h2 : env.requestPath rq = env.urlPath_ServiceProvider_AcsURL m.ServiceProvider
    · have h2' : (env.requestPath rq == env.urlPath_ServiceProvider_AcsURL m.ServiceProvider) = true := by simpa using h2
      simp only [h2', if_true] at h
      refine Or.inr (Or.inl ⟨h1, h2, ?_⟩)
      cases hs : ServeACS env m w (some rq) with
      | err x => simp [hs] at h
      | panic x => simp [hs] at h
      | ok t => simp [hs] at h; rw [h]
    · have h2' : (env.requestPath rq == env.urlPath_ServiceProvider_AcsURL m.ServiceProvider) = false := by simpa using h2
      simp [h2'] at h
      exact Or.inr (Or.inr ⟨h1, h2, h.symm⟩)

end SamlVerif.TransMiddleware
