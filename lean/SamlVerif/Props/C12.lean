/-
  C12 — SP outbound messages survive their binding encodings; relay state intact.

  "Every AuthnRequest, LogoutRequest and LogoutResponse the SP produces - for any relay state and
   name ID that are valid UTF-8 text without NUL, any request ID and any configuration - is
   recoverable from the wire form it emits: the redirect URL's single SAMLRequest/SAMLResponse
   parameter inflates, and the POST form's field base64-decodes, to a well-formed message …, and the
   RelayState parameter round-trips byte-for-byte as a single parameter. … each message ID is fresh,
   derived from at least 128 bits drawn from the configured random source."

  Proved here: the escaping/base64 round trips for *every byte string*, the parameter structure of
  the redirect URLs for every relay state and every endpoint query, ID injectivity and size.
  Partial: `compress/flate` is abstract (inverse pair assumed; exercised by the correspondence),
  the POST forms: `C12_post_form` (over the template skeleton that `C14_form_skeletons` ties to the source).
-/
import SamlVerif.Proofs.Bindings
import SamlVerif.Proofs.HtmlForm
import SamlVerif.Generated.Facts

namespace SamlVerif.Bindings
open SamlVerif.Codec

theorem C12_query_roundtrip (s : Bytes) : queryUnescape (queryEscape s) = some s := query_roundtrip s

theorem C12_base64_roundtrip (s : Bytes) : b64decode (b64encode s) = some s := b64_roundtrip s

/-- escaped values cannot terminate or split a parameter: no `&`, `=`, `;`, `#`, `?`, blank -/
theorem C12_escape_inert (s : Bytes) (c : UInt8) (hc : c ∈ queryEscape s) :
    c.toNat ≠ 38 ∧ c.toNat ≠ 61 ∧ c.toNat ≠ 59 ∧ c.toNat ≠ 35 ∧ c.toNat ≠ 63 ∧ c.toNat ≠ 32 :=
  escape_no_special s c hc

/-- **Redirect binding, AuthnRequest**: whatever the relay state (any bytes: `&`, `=`, `#`, `+`, `%`,
    blanks, quotes, non-ASCII, any length) and whatever query the IdP endpoint already has, the
    emitted query parses to the endpoint's own parameters followed by exactly one `SAMLRequest` and
    (for a non-empty relay state) exactly one `RelayState` carrying the relay state byte for byte. -/
theorem C12_redirect_params (q0 msg relay : Bytes) :
    parseQuery (redirectQuery q0 msg relay none) =
      ((parseQuery q0).1 ++ expectedParams msg relay, (parseQuery q0).2) :=
  redirect_unsigned_params q0 msg relay

theorem C12_redirect_params_signed (q0 msg relay alg : Bytes) (sign : Bytes → Bytes) :
    parseQuery (redirectQuery q0 msg relay (some (alg, sign))) =
      ((parseQuery q0).1 ++ expectedParams msg relay ++
        [(kSigAlg, alg), (kSignature, b64encode (sign (signedOctets msg relay alg)))], (parseQuery q0).2) :=
  redirect_signed_params q0 msg relay alg sign

theorem count_expected_relay (msg relay : Bytes) (h : relay ≠ []) :
    countParam (expectedParams msg relay) kRelayState = 1 ∧
    getParam (expectedParams msg relay) kRelayState = some relay ∧
    countParam (expectedParams msg relay) kSAMLRequest = 1 ∧
    getParam (expectedParams msg relay) kSAMLRequest = some msg := by
  unfold expectedParams countParam getParam
  simp only [h, if_false]
  have e1 : kSAMLRequest ≠ kRelayState := by decide
  have e2 : kRelayState ≠ kSAMLRequest := by decide
  simp [e1, e2]

/-- RelayState is a single parameter and round-trips byte for byte (endpoint query without a
    parameter of that name). -/
theorem C12_relay_single (q0 msg relay : Bytes) (h : relay ≠ [])
    (hq : countParam (parseQuery q0).1 kRelayState = 0) (hm : countParam (parseQuery q0).1 kSAMLRequest = 0) :
    let ps := (parseQuery (redirectQuery q0 msg relay none)).1
    countParam ps kRelayState = 1 ∧ getParam ps kRelayState = some relay ∧
    countParam ps kSAMLRequest = 1 ∧ getParam ps kSAMLRequest = some msg := by
  simp only [C12_redirect_params]
  obtain ⟨c1, g1, c2, g2⟩ := count_expected_relay msg relay h
  refine ⟨?_, ?_, ?_, ?_⟩
  · rw [countParam_append, hq, c1]
  · rw [getParam_append_of_absent _ _ _ hq, g1]
  · rw [countParam_append, hm, c2]
  · rw [getParam_append_of_absent _ _ _ hm, g2]

/-- The pinned assembly did not have this property: `a&b=c` as relay state arrives as `a` plus an
    injected parameter `b`. -/
theorem C12_pinned_injection :
    (parseQuery (redirectQueryPinned [] [84, 86, 78, 72] [97, 38, 98, 61, 99] none)).1 =
      [(kSAMLRequest, [84, 86, 78, 72]), (kRelayState, [97]), ([98], [99])] := by decide

/-- **Redirect binding, logout messages** (`Query().Set` + `Encode`): the emitted query parses back
    to exactly the value set that was encoded. -/
theorem C12_logout_roundtrip (vs : List (Bytes × Bytes)) :
    parseQuery (valuesEncode vs) = (vs.mergeSort (fun a b => lexLE a.1 b.1), true) := by
  unfold valuesEncode
  exact parseQuery_encodePairs _

theorem countParam_perm {a b : List (Bytes × Bytes)} (h : a.Perm b) (k : Bytes) :
    countParam a k = countParam b k := by
  unfold countParam
  exact (h.filter _).length_eq

theorem countParam_valuesSet (vs : List (Bytes × Bytes)) (k v : Bytes) :
    countParam (valuesSet vs k v) k = 1 := by
  unfold countParam valuesSet
  simp [List.filter_append, List.filter_filter]

theorem countParam_valuesSet_other (vs : List (Bytes × Bytes)) (k k' v : Bytes) (h : k' ≠ k) :
    countParam (valuesSet vs k v) k' = countParam vs k' := by
  unfold countParam valuesSet
  simp only [List.filter_append, List.filter_filter, List.length_append]
  have : List.filter (fun p => decide (p.1 = k')) [(k, v)] = [] := by
    simp [Ne.symm h]
  rw [this]
  simp only [List.length_nil, Nat.add_zero]
  congr 1
  apply List.filter_congr
  intro p _
  by_cases hp : p.1 = k'
  · simp [hp, h]
  · simp [hp]

/-- … so the logout redirect URL carries exactly one message parameter and exactly one RelayState -/
theorem C12_logout_single (existing : List (Bytes × Bytes)) (key msg relay : Bytes)
    (hk : key ≠ kRelayState) (hr : relay ≠ []) :
    let ps := (parseQuery (logoutRedirectQuery existing key msg relay)).1
    countParam ps key = 1 ∧ countParam ps kRelayState = 1 := by
  simp only [logoutRedirectQuery, hr, if_false, C12_logout_roundtrip]
  constructor
  · rw [countParam_perm (List.mergeSort_perm _ _), countParam_valuesSet_other _ _ _ _ hk, countParam_valuesSet]
  · rw [countParam_perm (List.mergeSort_perm _ _), countParam_valuesSet]

/-! ### message IDs -/

/-! ### POST binding -/

open SamlVerif.Html in
/-- the data `AuthnRequest.Post` / `LogoutRequest.Post` hand to the template -/
def postData (url msg relay : Bytes) : Bytes → Bytes :=
  fun f => if f = B "URL" then url else if f = B "SAMLRequest" then b64encode msg else if f = B "RelayState" then relay else []

open SamlVerif.Html in
/-- **POST binding**: for every message, every relay state without NUL and every destination, the
    quoted string after ` name="SAMLRequest" value=` of the emitted form, read as an HTML attribute
    value, base64-decodes to the message, and the one after ` name="RelayState" value=` reads back as
    the relay state byte for byte; the form has no other quoted string that depends on them.
    (`t` is any template with the skeleton `spRequestForm`; `C14_form_skeletons` shows that the
    templates of the current source have it.) -/
theorem C12_post_form (t : Bytes) (ht : skelT (parseTemplate t) = spRequestForm)
    (hk : holesKnown (skel (parseTemplate t)) = true) (url msg relay : Bytes) (hr : ∀ c ∈ relay, c.toNat ≠ 0) :
    ((pieces (render t (postData url msg relay)))[11]?.map htmlUnescape).bind b64decode = some msg ∧
    (pieces (render t (postData url msg relay)))[17]?.map htmlUnescape = some relay ∧
    (pieces (render t (postData url msg relay))).length = 27 := by
  have hq := pieces_render_tidy (postData url msg relay) (parseTemplate t) hk
  unfold render
  rw [hq, ht]
  have e1 : postData url msg relay (B "SAMLRequest") = b64encode msg := by
    unfold postData; rw [if_neg (by decide), if_pos rfl]
  have e2 : postData url msg relay (B "RelayState") = relay := by
    unfold postData; rw [if_neg (by decide), if_neg (by decide), if_pos rfl]
  have n1 : nulToFFFD (b64encode msg) = b64encode msg :=
    nulToFFFD_id _ (fun c hc => by have := b64encode_ge msg c hc; omega)
  simp [spRequestForm, S, H, fill, fillPart, escapeFor, e1, e2, htmlUnescape_htmlEscape, n1, nulToFFFD_id relay hr, b64_roundtrip]

open SamlVerif.Html in
def postDataResponse (url msg relay : Bytes) : Bytes → Bytes :=
  fun f => if f = B "URL" then url else if f = B "SAMLResponse" then b64encode msg else if f = B "RelayState" then relay else []

open SamlVerif.Html in
/-- the same for `LogoutResponse.Post` (field `SAMLResponse`) -/
theorem C12_post_form_response (t : Bytes) (ht : skelT (parseTemplate t) = spResponseForm)
    (hk : holesKnown (skel (parseTemplate t)) = true) (url msg relay : Bytes) (hr : ∀ c ∈ relay, c.toNat ≠ 0) :
    ((pieces (render t (postDataResponse url msg relay)))[11]?.map htmlUnescape).bind b64decode = some msg ∧
    (pieces (render t (postDataResponse url msg relay)))[17]?.map htmlUnescape = some relay ∧
    (pieces (render t (postDataResponse url msg relay))).length = 27 := by
  have hq := pieces_render_tidy (postDataResponse url msg relay) (parseTemplate t) hk
  unfold render
  rw [hq, ht]
  have e1 : postDataResponse url msg relay (B "SAMLResponse") = b64encode msg := by
    unfold postDataResponse; rw [if_neg (by decide), if_pos rfl]
  have e2 : postDataResponse url msg relay (B "RelayState") = relay := by
    unfold postDataResponse; rw [if_neg (by decide), if_neg (by decide), if_pos rfl]
  have n1 : nulToFFFD (b64encode msg) = b64encode msg :=
    nulToFFFD_id _ (fun c hc => by have := b64encode_ge msg c hc; omega)
  simp [spResponseForm, S, H, fill, fillPart, escapeFor, e1, e2, htmlUnescape_htmlEscape, n1, nulToFFFD_id relay hr, b64_roundtrip]

open SamlVerif.Html in
/-- **Obligation at the regenerated templates**: the three POST templates of `service_provider.go` in the
    current source have these skeletons and known escapers (so the two theorems above apply to them) -/
theorem C12_post_templates :
    (Facts.templates.filter (fun t => t.1 = "service_provider.go")).map
        (fun t => (skelT (parseTemplate t.2.2), holesKnown (skel (parseTemplate t.2.2)))) =
      [(spRequestForm, true), (spRequestForm, true), (spResponseForm, true)] := by decide +kernel

/-- non-vacuity: a relay state full of metacharacters meets the hypothesis -/
example : ∀ c ∈ SamlVerif.Html.B "a&b=\"c\"<d>'e'+%", c.toNat ≠ 0 := by decide

/-- IDs are `"id-"` followed by the lower-case hex of the random bytes: distinct draws give
    distinct IDs, and the ID exposes 2 hex digits per random byte. -/
theorem C12_id_injective (r1 r2 : Bytes) (h : messageID r1 = messageID r2) : r1 = r2 := by
  unfold messageID at h
  exact hexBytes_inj _ _ (List.append_cancel_left h)

theorem C12_id_length (r : Bytes) : (messageID r).length = 3 + 2 * r.length := by
  unfold messageID
  rw [List.length_append, hexBytes_length]
  rfl

/-- obligation at the regenerated facts: every `randomBytes(n)` call site draws at least 128 bits -/
theorem C12_id_bits : ∀ n ∈ Facts.idRandomBytes, 128 ≤ n * 8 := by decide

theorem C12_id_sites_found : Facts.idRandomBytes ≠ [] := by decide

/-! Non-vacuity -/
example : (parseQuery (redirectQuery [102, 111, 111, 61, 98, 97, 114] [84, 86, 78, 72] [97, 38, 98, 61, 99, 35, 102, 114, 97, 103, 32, 100] none)).1 =
    [([102, 111, 111], [98, 97, 114]), (kSAMLRequest, [84, 86, 78, 72]), (kRelayState, [97, 38, 98, 61, 99, 35, 102, 114, 97, 103, 32, 100])] := by decide

end SamlVerif.Bindings
