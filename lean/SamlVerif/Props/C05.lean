/-
  C05 — IdP answers only valid requests and routes only to registered ACS endpoints.

  "The IdP processes an authentication request only if it is fresh (IssueInstant within
   MaxIssueDelay of the IdP clock), is SAML version 2.0, names the IdP's SSO URL as Destination
   whenever it names one, and is issued by a service provider known to the IdP's provider registry.
   Whenever processing succeeds, the endpoint selected to receive the response is one of the
   assertion consumer services listed in that registered provider's metadata - chosen by the
   requested index, else the requested URL, else the default/first browser-binding endpoint - and
   never a location that appears only in the request."

  Freshness is read one-sidedly (`now ≤ IssueInstant + MaxIssueDelay`), as the anchored code and
  C02 word it; a future-dated request is not treated as a violation (DESIGN §2 C05).
-/
import SamlVerif.Model.IdP

namespace SamlVerif.IdP

theorem selectACS_mem (md : EntityDesc) (req : AuthnRequestS) (p : SPSSO × Endpoint)
    (h : selectACS md req = some p) : p ∈ allEndpoints md := by
  unfold selectACS at h
  simp only at h
  split at h
  · rename_i q hq
    cases h
    split at hq
    · exact List.mem_of_find?_eq_some hq
    · simp at hq
  · split at h
    · rename_i q hq
      cases h
      split at hq
      · exact List.mem_of_find?_eq_some hq
      · simp at hq
    · split at h
      · split at h
        · rename_i q hq
          cases h
          exact List.mem_of_find?_eq_some hq
        · exact List.mem_of_find?_eq_some h
      · simp at h

theorem mem_allEndpoints (md : EntityDesc) (p : SPSSO × Endpoint) (h : p ∈ allEndpoints md) :
    p.1 ∈ md.spsso ∧ p.2 ∈ p.1.acs := by
  unfold allEndpoints at h
  simp only [List.mem_flatMap, List.mem_map] at h
  obtain ⟨d, hd, e, he, rfl⟩ := h
  exact ⟨hd, he⟩

/-- **Guards**: processing succeeds only for a fresh, version-2.0 request whose Destination (if
    any) is the IdP's SSO URL and whose issuer is known to the registry. -/
theorem C05_guards (cfg : Cfg) (now : Int) (reg : String → Lookup) (req : AuthnRequestS) (ρ : Routing)
    (h : validate cfg now reg req = .ok ρ) :
    now ≤ req.issueInstant + cfg.delay ∧ req.version = "2.0" ∧
    (req.destination = "" ∨ req.destination = cfg.ssoURL) ∧
    ∃ iss, req.issuer = some iss ∧ reg iss = .found ρ.md := by
  unfold validate at h
  split at h
  · simp at h
  · rename_i h1
    split at h
    · simp at h
    · rename_i h2
      split at h
      · simp at h
      · rename_i h3
        split at h
        · simp at h
        · rename_i iss hiss
          split at h
          · simp at h
          · simp at h
          · rename_i md hmd
            split at h
            · simp at h
            · rename_i d e hsel
              simp at h
              subst h
              refine ⟨by omega, by simpa using h3, ?_, iss, hiss, hmd⟩
              by_cases hd : req.destination = ""
              · exact Or.inl hd
              · right
                by_cases hs : req.destination = cfg.ssoURL
                · exact hs
                · exact absurd ⟨hd, hs⟩ h1

/-- the endpoint chosen by `validate` is `selectACS` of the registered metadata -/
theorem validate_routing (cfg : Cfg) (now : Int) (reg : String → Lookup) (req : AuthnRequestS) (ρ : Routing)
    (h : validate cfg now reg req = .ok ρ) : selectACS ρ.md req = some (ρ.desc, ρ.acs) := by
  unfold validate at h
  split at h
  · simp at h
  · split at h
    · simp at h
    · split at h
      · simp at h
      · split at h
        · simp at h
        · split at h
          · simp at h
          · simp at h
          · split at h
            · simp at h
            · rename_i d e hsel
              simp at h
              subst h
              exact hsel

/-- **Registered endpoint**: the selected endpoint is one of the assertion consumer services listed
    in the registered provider's metadata — never a location that appears only in the request. -/
theorem C05_endpoint_registered (cfg : Cfg) (now : Int) (reg : String → Lookup) (req : AuthnRequestS)
    (ρ : Routing) (h : validate cfg now reg req = .ok ρ) :
    ρ.desc ∈ ρ.md.spsso ∧ ρ.acs ∈ ρ.desc.acs := by
  have := selectACS_mem _ _ _ (validate_routing cfg now reg req ρ h)
  exact mem_allEndpoints _ _ this

/-- **Priority**: by requested index (first match in document order), else by requested URL, else —
    only when the request names neither — the first default browser-binding endpoint, else the first
    browser-binding endpoint. -/
theorem C05_priority (md : EntityDesc) (req : AuthnRequestS) :
    selectACS md req =
      (if req.acsIndex ≠ "" ∧ ((allEndpoints md).find? (fun p => toString p.2.index = req.acsIndex)).isSome then
         (allEndpoints md).find? (fun p => toString p.2.index = req.acsIndex)
       else if req.acsURL ≠ "" ∧ ((allEndpoints md).find? (fun p => p.2.location = req.acsURL)).isSome then
         (allEndpoints md).find? (fun p => p.2.location = req.acsURL)
       else if req.acsURL = "" ∧ req.acsIndex = "" then
         ((allEndpoints md).find? (fun p => p.2.isDefault = some true && isBrowserBinding p.2.binding)).or
           ((allEndpoints md).find? (fun p => isBrowserBinding p.2.binding))
       else none) := by
  unfold selectACS
  simp only
  by_cases hi : req.acsIndex ≠ ""
  · cases h1 : (allEndpoints md).find? (fun p => toString p.2.index = req.acsIndex) with
    | some p => simp [hi, h1]
    | none =>
      by_cases hu : req.acsURL ≠ ""
      · cases h2 : (allEndpoints md).find? (fun p => p.2.location = req.acsURL) with
        | some p => simp [hi, h1, hu, h2]
        | none =>
          have : ¬ (req.acsURL = "" ∧ req.acsIndex = "") := fun hh => hi hh.2
          simp [hi, h1, hu, h2, this]
      · have hu' : req.acsURL = "" := by simpa using hu
        have : ¬ (req.acsURL = "" ∧ req.acsIndex = "") := fun hh => hi hh.2
        simp [hi, h1, hu', this]
  · have hi' : req.acsIndex = "" := by simpa using hi
    by_cases hu : req.acsURL ≠ ""
    · cases h2 : (allEndpoints md).find? (fun p => p.2.location = req.acsURL) with
      | some p => simp [hi', hu, h2]
      | none =>
        have : ¬ (req.acsURL = "" ∧ req.acsIndex = "") := fun hh => hu hh.1
        simp [hi', hu, h2, this]
    · have hu' : req.acsURL = "" := by simpa using hu
      simp only [hi', hu', ne_eq, not_true_eq_false, false_and, if_false, and_self, if_true]
      cases (allEndpoints md).find? (fun p => p.2.isDefault = some true && isBrowserBinding p.2.binding) <;> simp

/-- The chosen endpoint satisfies the criterion it was chosen by. -/
theorem C05_selected_matches (md : EntityDesc) (req : AuthnRequestS) (p : SPSSO × Endpoint)
    (h : selectACS md req = some p) :
    (req.acsIndex ≠ "" ∧ toString p.2.index = req.acsIndex) ∨
    (req.acsURL ≠ "" ∧ p.2.location = req.acsURL) ∨
    (req.acsURL = "" ∧ req.acsIndex = "" ∧ isBrowserBinding p.2.binding = true) := by
  unfold selectACS at h
  simp only at h
  split at h
  · rename_i q hq
    cases h
    split at hq
    · rename_i hne
      have := List.find?_some hq
      exact Or.inl ⟨hne, by simpa using this⟩
    · simp at hq
  · split at h
    · rename_i q hq
      cases h
      split at hq
      · rename_i hne
        have := List.find?_some hq
        exact Or.inr (Or.inl ⟨hne, by simpa using this⟩)
      · simp at hq
    · split at h
      · rename_i hboth
        split at h
        · rename_i q hq
          cases h
          have := List.find?_some hq
          simp at this
          exact Or.inr (Or.inr ⟨hboth.1, hboth.2, this.2⟩)
        · have := List.find?_some h
          exact Or.inr (Or.inr ⟨hboth.1, hboth.2, by simpa using this⟩)
      · simp at h

/-- IdP-initiated: the selected endpoint is the first HTTP-POST ACS of the registered metadata. -/
theorem C05_idp_initiated (md : EntityDesc) (p : SPSSO × Endpoint) (h : selectIdpInitiated md = some p) :
    p.1 ∈ md.spsso ∧ p.2 ∈ p.1.acs ∧ p.2.binding = postBinding := by
  unfold selectIdpInitiated at h
  have hm := mem_allEndpoints _ _ (List.mem_of_find?_eq_some h)
  have := List.find?_some h
  exact ⟨hm.1, hm.2, by simpa using this⟩

/-- **Totality**: request validation never panics (a request without Issuer is an error). -/
theorem C05_total (cfg : Cfg) (now : Int) (reg : String → Lookup) (req : AuthnRequestS) (w : String) :
    validate cfg now reg req ≠ .panic w := by
  unfold validate
  split
  · simp
  · split
    · simp
    · split
      · simp
      · split
        · simp
        · split
          · simp
          · simp
          · split <;> simp

/-- The pinned tree's defect, kept as a witness. -/
theorem C05_pinned_panics :
    validatePinned ⟨"https://idp/sso", 90000⟩ 0 (fun _ => .notExist)
      ⟨"id", none, "", "2.0", 0, "", ""⟩ = .panic "nil pointer dereference" := by decide

/-! Non-vacuity -/
def exMd : EntityDesc :=
  ⟨"sp", [⟨[⟨redirectBinding, "https://sp/r", 1, none⟩, ⟨postBinding, "https://sp/acs", 2, some true⟩], [], []⟩]⟩

example : (validate ⟨"https://idp/sso", 90000⟩ 50000 (fun i => if i = "sp" then .found exMd else .notExist)
    ⟨"id", some "sp", "", "2.0", 0, "", ""⟩).isOk = true := by decide
example : selectACS exMd ⟨"id", some "sp", "", "2.0", 0, "https://evil/acs", ""⟩ = none := by decide
example : (selectACS exMd ⟨"id", some "sp", "", "2.0", 0, "https://evil/acs", "1"⟩).map (·.2.location) =
    some "https://sp/r" := by decide

end SamlVerif.IdP
