/-
  Props/TransParse — soundness of `ServiceProvider.parseResponse` / `parseAssertion` / `parseEncryptedAssertion` as regenerated
  from the *current* service_provider.go (`Generated/Trans.lean`).

  What stays outside the translation — `validateSignature`, `unmarshalElement`, `decryptElement`, `findChildren` — are fields of
  the generated `Env`: arbitrary functions of their arguments (the tree-level model of C01 and the correspondence check say what
  they do; here nothing is assumed about them).  `parseResponse_sound` says, for *every* such environment: when the translated
  `parseResponse` returns an assertion `a` and a nil error,

  * the Response unmarshalled, its Destination (mandatory as soon as a required Response signature is present) is the received-at
    URL or the ACS URL, `validateRequestID` passed, it is fresh, its Issuer (if any) is the IdP, its status is Success;
  * `a` is what `unmarshalElement` made of an element `x` that is an `Assertion` child of the Response, or what an
    `EncryptedAssertion` child decrypted to (`Source`) — never anything else;
  * `validateAssertion` returned nil on `a` (so `Trans_validateAssertion_sound` applies: windows, issuer, recipient, audience, IDs);
  * the signature requirement was lifted only by a Response signature that verified: with `need = 0` (required) either
    `validateSignature x = nil` or `validateSignature responseEl = nil` (`Trans_parseResponse_signed`).

  The join points of the `do` block (`extract_lets`) are the only place where pieces of the regenerated code are named; the loop
  bodies are taken from the regenerated definition (`generalize`), and the invariant is carried by `forIn_inv`.
-/
import SamlVerif.Props.TransSP
open SamlVerif SamlVerif.GoSem
namespace SamlVerif.TransSP

/-- what `parseAssertion` establishes about an element `x` and the assertion it returns -/
structure Checked (env : Trans.Env) (sp : Trans.ServiceProvider) (ids : List String) (now : Int) (need : Int)
    (x : Option Element) (a : Trans.Assertion) : Prop where
  unmarshalled : env.unmarshalElement_Assertion x = .ok (a, none)
  signed : need = 0 → env.validateSignature sp x = .ok none
  valid : Trans.validateAssertion env sp (some a) ids now = .ok none

theorem parseAssertion_spec (env : Trans.Env) (sp : Trans.ServiceProvider) (x : Option Element) (ids : List String) (now need : Int)
    (r : Option Trans.Assertion × GoError) (h : Trans.parseAssertion env sp x ids now need = .ok r) (hr : r.2 = none) :
    ∃ a, r.1 = some a ∧ Checked env sp ids now need x a := by
  unfold Trans.parseAssertion at h
  simp only [Outcome.pure_eq_ok] at h
  -- the part after the optional signature check
  have tail : ∀ (hs : need = 0 → env.validateSignature sp x = .ok none)
      (h : (do
        let u ← env.unmarshalElement_Assertion x
        if Option.isSome u.snd = true then Outcome.ok (none, u.snd)
          else do
            let e ← Trans.validateAssertion env sp (some u.fst) ids now
            if Option.isSome e = true then Outcome.ok (none, e) else Outcome.ok (some u.fst, none)) = Outcome.ok r),
      ∃ a, r.1 = some a ∧ Checked env sp ids now need x a := by
    intro hs h
    cases hu : env.unmarshalElement_Assertion x with
    | err e => simp [hu] at h
    | panic w => simp [hu] at h
    | ok u =>
      obtain ⟨a, ue⟩ := u
      simp only [hu, Outcome.ok_bind'] at h
      cases ue with
      | some e => simp at h; rw [← h] at hr; simp at hr
      | none =>
        simp only [Option.isSome_none, Bool.false_eq_true, if_false] at h
        cases hv : Trans.validateAssertion env sp (some a) ids now with
        | err e => simp [hv] at h
        | panic w => simp [hv] at h
        | ok ve =>
          simp only [hv, Outcome.ok_bind'] at h
          cases ve with
          | some e => simp at h; rw [← h] at hr; simp at hr
          | none =>
            simp at h
            exact ⟨a, by rw [← h], ⟨hu, hs, hv⟩⟩
  by_cases hn : need = 0
  · simp only [hn, beq_self_eq_true, if_true] at h
    cases hsig : env.validateSignature sp x with
    | err e => simp [hsig] at h
    | panic w => simp [hsig] at h
    | ok se =>
      simp only [hsig, Outcome.ok_bind'] at h
      cases se with
      | some e => simp at h; rw [← h] at hr; simp at hr
      | none =>
        simp only [Option.isSome_none, Bool.false_eq_true, if_false] at h
        subst hn
        exact tail (fun _ => hsig) h
  · have : (need == 0) = false := by simp [hn]
    simp only [this, Bool.false_eq_true, if_false] at h
    exact tail (fun h0 => absurd h0 hn) h

theorem parseEncryptedAssertion_spec (env : Trans.Env) (sp : Trans.ServiceProvider) (x : Option Element) (ids : List String) (now need : Int)
    (r : Option Trans.Assertion × GoError) (h : Trans.parseEncryptedAssertion env sp x ids now need = .ok r) (hr : r.2 = none) :
    ∃ x' a, env.decryptElement sp x = .ok (x', none) ∧ r.1 = some a ∧ Checked env sp ids now need x' a := by
  unfold Trans.parseEncryptedAssertion at h
  simp only [Outcome.pure_eq_ok] at h
  cases hd : env.decryptElement sp x with
  | err e => simp [hd] at h
  | panic w => simp [hd] at h
  | ok d =>
    obtain ⟨x', de⟩ := d
    simp only [hd, Outcome.ok_bind'] at h
    cases de with
    | some e => simp at h; rw [← h] at hr; simp at hr
    | none =>
      simp only [Option.isSome_none, Bool.false_eq_true, if_false] at h
      cases hp : Trans.parseAssertion env sp x' ids now need with
      | err e => simp [hp] at h
      | panic w => simp [hp] at h
      | ok r' =>
        simp only [hp, Outcome.ok_bind'] at h
        have : r' = r := by simpa using h
        subst this
        obtain ⟨a, ha, hc⟩ := parseAssertion_spec env sp x' ids now need r' hp hr
        exact ⟨x', a, rfl, ha, hc⟩

/-- a loop invariant: whatever the loop body does to the loop variables keeps `I` -/
theorem forIn_inv {α σ : Type} (xs : List α) (B : α → σ → Outcome (ForInStep σ)) (I : σ → Prop)
    (hB : ∀ x ∈ xs, ∀ s, I s → ∀ r, B x s = .ok r → I (match r with | .yield s' => s' | .done s' => s')) :
    ∀ s0, I s0 → ∀ r, forIn xs s0 B = .ok r → I r := by
  induction xs with
  | nil => intro s0 h0 r hr; simp at hr; rw [← hr]; exact h0
  | cons x xs ih =>
    intro s0 h0 r hr
    simp only [List.forIn_cons] at hr
    cases hb : B x s0 with
    | err e => simp [hb] at hr
    | panic w => simp [hb] at hr
    | ok st =>
      have hI := hB x (by simp) s0 h0 st hb
      simp only [hb, Outcome.ok_bind'] at hr
      cases st with
      | done s' => simp at hr; rw [← hr]; exact hI
      | yield s' =>
        simp at hr
        exact ih (fun y hy => hB y (by simp [hy])) s' hI r hr

/-- where a returned assertion comes from: an `Assertion` child of the Response, or what an `EncryptedAssertion` child decrypts to -/
def Source (env : Trans.Env) (sp : Trans.ServiceProvider) (el : Option Element) (x : Option Element) : Prop :=
  (∃ l, env.findChildren el "urn:oasis:names:tc:SAML:2.0:assertion" "Assertion" = .ok (l, none) ∧ x ∈ l) ∨
  (∃ l e, env.findChildren el "urn:oasis:names:tc:SAML:2.0:assertion" "EncryptedAssertion" = .ok (l, none) ∧ e ∈ l ∧
      env.decryptElement sp e = .ok (x, none))

/-- what `parseResponse` establishes about the Response element before it looks at the assertions -/
structure RespChecked (env : Trans.Env) (sp : Trans.ServiceProvider) (ids : List String) (now : Int) (url : URL)
    (hasSig : Bool) (resp : Trans.Response) : Prop where
  dest : (hasSig = true ∨ resp.Destination ≠ "") → (resp.Destination = url.str ∨ resp.Destination = sp.AcsURL.str)
  reqId : Trans.validateRequestID env sp resp ids = .ok none
  fresh : now ≤ resp.IssueInstant + env.MaxIssueDelay
  issuer : ∀ i, resp.Issuer = some i → ∃ idp, sp.IDPMetadata = some idp ∧ i.Value = idp.EntityID
  status : resp.Status.StatusCode.Value = env.StatusSuccess

theorem parseResponse_sound (env : Trans.Env) (sp : Trans.ServiceProvider) (el : Option Element) (ids : List String) (now need : Int) (url : URL)
    (a : Trans.Assertion) (h : Trans.parseResponse env sp el ids now need url = .ok (some a, none)) :
    ∃ resp rse need' x,
      env.unmarshalElement_Response el = .ok (resp, none) ∧
      (need = 0 → env.validateSignature sp el = .ok rse) ∧ (need ≠ 0 → rse = none) ∧
      RespChecked env sp ids now url (need == 0 && rse != env.errSignatureElementNotPresent) resp ∧
      -- the requirement handed to the assertions: lifted only by a Response signature that verified
      ((need = 0 ∧ rse = none ∧ need' = 1) ∨ (need = 0 ∧ rse ≠ none ∧ rse = env.errSignatureElementNotPresent ∧ need' = 0) ∨ (need ≠ 0 ∧ need' = need)) ∧
      Source env sp el x ∧ Checked env sp ids now need' x a := by
  unfold Trans.parseResponse at h
  extract_lets sr0 rse0 rhs0 resp0 errs0 as0 jpTail sr1 sr2 jpResp rhs1 at h
  have hTail : ∀ (need' : Int) (a : Trans.Assertion), jpTail () need' = .ok (some a, none) →
      ∃ x, Source env sp el x ∧ Checked env sp ids now need' x a := by
    intro need' a ht
    simp only [jpTail, Outcome.pure_eq_ok] at ht
    let I : List GoError × List Trans.Assertion → Prop := fun s => ∀ b ∈ s.2, ∃ x, Source env sp el x ∧ Checked env sp ids now need' x b
    cases hfe : env.findChildren el "urn:oasis:names:tc:SAML:2.0:assertion" "EncryptedAssertion" with
    | err e => simp [hfe] at ht
    | panic w => simp [hfe] at ht
    | ok fe =>
      obtain ⟨encEls, fee⟩ := fe
      simp only [hfe, Outcome.ok_bind'] at ht
      cases fee with
      | some e => simp at ht
      | none =>
        simp only [Option.isSome_none, Bool.false_eq_true, if_false] at ht
        -- first loop
        generalize hB1 : (fun (encryptedAssertionEl : Option Element) (__s : List GoError × List Trans.Assertion) => _) = B1 at ht
        cases hl1 : forIn encEls (errs0, as0) B1 with
        | err e => simp [hl1] at ht
        | panic w => simp [hl1] at ht
        | ok s1 =>
          have hI1 : I s1 := by
            refine forIn_inv encEls B1 I ?_ (errs0, as0) (by intro b hb; simp [as0] at hb) s1 hl1
            intro x hx s hs r hr
            rw [← hB1] at hr
            simp only at hr
            cases hp : Trans.parseEncryptedAssertion env sp x ids now need' with
            | err e => simp [hp] at hr
            | panic w => simp [hp] at hr
            | ok pr =>
              simp only [hp, Outcome.ok_bind'] at hr
              by_cases he : pr.2.isSome = true
              · simp only [he, if_true] at hr
                cases hr
                exact hs
              · have he' : pr.2 = none := by simpa using he
                obtain ⟨x', b, hd, hb1, hc⟩ := parseEncryptedAssertion_spec env sp x ids now need' pr hp he'
                simp only [he, hb1, deref_some, Outcome.ok_bind', Bool.false_eq_true, if_false] at hr
                cases hr
                intro b' hb'
                simp only [List.mem_append, List.mem_singleton] at hb'
                rcases hb' with hb' | rfl
                · exact hs b' hb'
                · exact ⟨x', Or.inr ⟨encEls, x, hfe, hx, hd⟩, hc⟩
          simp only [hl1, Outcome.ok_bind'] at ht
          cases hfa : env.findChildren el "urn:oasis:names:tc:SAML:2.0:assertion" "Assertion" with
          | err e => simp [hfa] at ht
          | panic w => simp [hfa] at ht
          | ok fa =>
            obtain ⟨plainEls, fae⟩ := fa
            simp only [hfa, Outcome.ok_bind'] at ht
            cases fae with
            | some e => simp at ht
            | none =>
              simp only [Option.isSome_none, Bool.false_eq_true, if_false] at ht
              generalize hB2 : (fun (assertionEl : Option Element) (__s : List GoError × List Trans.Assertion) => _) = B2 at ht
              cases hl2 : forIn plainEls (s1.fst, s1.snd) B2 with
              | err e => simp [hl2] at ht
              | panic w => simp [hl2] at ht
              | ok s2 =>
                have hI2 : I s2 := by
                  refine forIn_inv plainEls B2 I ?_ (s1.fst, s1.snd) hI1 s2 hl2
                  intro x hx s hs r hr
                  rw [← hB2] at hr
                  simp only at hr
                  cases hp : Trans.parseAssertion env sp x ids now need' with
                  | err e => simp [hp] at hr
                  | panic w => simp [hp] at hr
                  | ok pr =>
                    simp only [hp, Outcome.ok_bind'] at hr
                    by_cases he : pr.2.isSome = true
                    · simp only [he, if_true] at hr
                      cases hr
                      exact hs
                    · have he' : pr.2 = none := by simpa using he
                      obtain ⟨b, hb1, hc⟩ := parseAssertion_spec env sp x ids now need' pr hp he'
                      simp only [he, hb1, deref_some, Outcome.ok_bind', Bool.false_eq_true, if_false] at hr
                      cases hr
                      intro b' hb'
                      simp only [List.mem_append, List.mem_singleton] at hb'
                      rcases hb' with hb' | rfl
                      · exact hs b' hb'
                      · exact ⟨x, Or.inl ⟨plainEls, hfa, hx⟩, hc⟩
                simp only [hl2, Outcome.ok_bind'] at ht
                cases hs2 : s2.snd with
                | nil =>
                  simp [hs2] at ht
                  split at ht
                  · cases hix : index s2.fst 0 <;> simp [hix] at ht
                  · simp at ht
                | cons b rest =>
                  simp [hs2, index] at ht
                  have hne : ¬ ((rest.length : Int) + 1 = 0) := by omega
                  simp only [hne, if_false] at ht
                  have : b = a := by simpa using ht
                  subst this
                  exact hI2 b (by simp [hs2])
  have hResp : ∀ (rse : GoError) (hasSig : Bool) (a : Trans.Assertion), jpResp () rse hasSig = .ok (some a, none) →
      ∃ resp need', env.unmarshalElement_Response el = .ok (resp, none) ∧ RespChecked env sp ids now url hasSig resp ∧
        ((need = 0 ∧ rse = none ∧ need' = 1) ∨ (need = 0 ∧ rse ≠ none ∧ rse = env.errSignatureElementNotPresent ∧ need' = 0) ∨ (need ≠ 0 ∧ need' = need)) ∧
        jpTail () need' = .ok (some a, none) := by
    intro rse hasSig a hr
    simp -zeta only [jpResp] at hr
    cases hu : env.unmarshalElement_Response el with
    | err e => simp [hu] at hr
    | panic w => simp [hu] at hr
    | ok u =>
      simp -zeta only [hu, Outcome.ok_bind'] at hr
      extract_lets c2 resp err0 jpMid at hr
      obtain ⟨r0, ue⟩ := u
      have hresp : resp = r0 := rfl
      have herr0 : err0 = ue := rfl
      have hMid : jpMid () = .ok (some a, none) →
          Trans.validateRequestID env sp r0 ids = .ok none ∧ now ≤ r0.IssueInstant + env.MaxIssueDelay ∧
          (∀ i, r0.Issuer = some i → ∃ idp, sp.IDPMetadata = some idp ∧ i.Value = idp.EntityID) ∧
          r0.Status.StatusCode.Value = env.StatusSuccess ∧
          ∃ need', ((need = 0 ∧ rse = none ∧ need' = 1) ∨ (need = 0 ∧ rse ≠ none ∧ rse = env.errSignatureElementNotPresent ∧ need' = 0) ∨ (need ≠ 0 ∧ need' = need)) ∧
            jpTail () need' = .ok (some a, none) := by
        intro hm
        simp only [jpMid, hresp, Outcome.pure_eq_ok] at hm
        cases hv : Trans.validateRequestID env sp r0 ids with
        | err e => simp [hv] at hm
        | panic w => simp [hv] at hm
        | ok ve =>
          simp only [hv, Outcome.ok_bind'] at hm
          cases ve with
          | some e => simp at hm
          | none =>
            simp only [Option.isSome_none, Bool.false_eq_true, if_false] at hm
            by_cases hf : r0.IssueInstant + env.MaxIssueDelay < now
            · simp [hf] at hm
            · simp only [hf, if_false] at hm
              have hiss : (∀ i, r0.Issuer = some i → ∃ idp, sp.IDPMetadata = some idp ∧ i.Value = idp.EntityID) ∧
                  ((if r0.Status.StatusCode.Value != env.StatusSuccess then Outcome.ok (none, some "ErrBadStatus")
                    else
                      if (sr0 == 0) = true then
                        if (rse == none) = true then jpTail () sr1
                        else if (rse == env.errSignatureElementNotPresent) = true then jpTail () sr2 else Outcome.ok (none, rse)
                      else jpTail () sr0) = Outcome.ok (some a, none)) := by
                cases hi : r0.Issuer with
                | none =>
                  simp only [hi, Option.isSome_none, Bool.false_eq_true, if_false, Outcome.ok_bind'] at hm
                  exact ⟨(by intro i h'; cases h'), hm⟩
                | some i =>
                  simp only [hi, Option.isSome_some, if_true, deref_some, Outcome.ok_bind'] at hm
                  cases hidp : sp.IDPMetadata with
                  | none => simp [hidp] at hm
                  | some idp =>
                    simp only [hidp, deref_some, Outcome.ok_bind'] at hm
                    by_cases hne : i.Value = idp.EntityID
                    · simp only [hne, bne_self_eq_false, Bool.false_eq_true, if_false] at hm
                      exact ⟨(by intro i' h'; cases h'; exact ⟨idp, rfl, hne⟩), hm⟩
                    · have : (i.Value != idp.EntityID) = true := by simp [hne]
                      simp [this] at hm
              obtain ⟨hissuer, hm⟩ := hiss
              by_cases hst : r0.Status.StatusCode.Value = env.StatusSuccess
              · simp only [hst, bne_self_eq_false, Bool.false_eq_true, if_false] at hm
                refine ⟨rfl, by omega, hissuer, hst, ?_⟩
                by_cases hn : need = 0
                · have : (sr0 == 0) = true := by simp [sr0, hn]
                  simp only [this, if_true] at hm
                  cases hrse : rse with
                  | none =>
                    simp only [hrse, beq_self_eq_true, if_true] at hm
                    exact ⟨1, Or.inl ⟨hn, rfl, rfl⟩, hm⟩
                  | some e =>
                    have : ((some e : GoError) == none) = false := by simp
                    simp only [hrse, this, Bool.false_eq_true, if_false] at hm
                    by_cases habs : (some e : GoError) = env.errSignatureElementNotPresent
                    · have : ((some e : GoError) == env.errSignatureElementNotPresent) = true := by simp [habs]
                      simp only [this, if_true] at hm
                      exact ⟨0, Or.inr (Or.inl ⟨hn, by simp, habs, rfl⟩), hm⟩
                    · have : ((some e : GoError) == env.errSignatureElementNotPresent) = false := by simp [habs]
                      simp [this] at hm
                · have : (sr0 == 0) = false := by simp [sr0, hn]
                  simp only [this, Bool.false_eq_true, if_false] at hm
                  exact ⟨need, Or.inr (Or.inr ⟨hn, rfl⟩), hm⟩
              · have : (r0.Status.StatusCode.Value != env.StatusSuccess) = true := by simp [hst]
                simp [this] at hm
      simp only [herr0, hresp, Outcome.pure_eq_ok] at hr
      cases ue with
      | some e => simp at hr
      | none =>
        simp only [Option.isSome_none, Bool.false_eq_true, if_false] at hr
        by_cases hd : (hasSig || r0.Destination != "") = true
        · simp only [hd, if_true] at hr
          by_cases h1 : r0.Destination = url.str
          · simp only [h1, bne_self_eq_false, Bool.false_eq_true, if_false, Outcome.ok_bind'] at hr
            obtain ⟨m1, m2, m3, m4, need', m5, m6⟩ := hMid hr
            exact ⟨r0, need', rfl, ⟨fun _ => Or.inl h1, m1, m2, m3, m4⟩, m5, m6⟩
          · have : (r0.Destination != url.str) = true := by simp [h1]
            simp only [this, if_true, Outcome.ok_bind'] at hr
            by_cases h2 : r0.Destination = sp.AcsURL.str
            · simp only [h2, bne_self_eq_false, Bool.false_eq_true, if_false] at hr
              obtain ⟨m1, m2, m3, m4, need', m5, m6⟩ := hMid hr
              exact ⟨r0, need', rfl, ⟨fun _ => Or.inr h2, m1, m2, m3, m4⟩, m5, m6⟩
            · have : (r0.Destination != sp.AcsURL.str) = true := by simp [h2]
              simp [this] at hr
        · simp only [hd, Bool.false_eq_true, if_false] at hr
          obtain ⟨m1, m2, m3, m4, need', m5, m6⟩ := hMid hr
          refine ⟨r0, need', rfl, ⟨?_, m1, m2, m3, m4⟩, m5, m6⟩
          intro hcon
          exfalso; apply hd
          rcases hcon with hc | hc
          · simp [hc]
          · simp [hc]
  by_cases hn : need = 0
  · have h0 : (sr0 == 0) = true := by simp [sr0, hn]
    simp -zeta only [h0, if_true] at h
    cases hsig : env.validateSignature sp el with
    | err e => simp [hsig] at h
    | panic w => simp [hsig] at h
    | ok rse =>
      simp only [hsig, Outcome.ok_bind'] at h
      by_cases hab : rse = env.errSignatureElementNotPresent
      · have : (rse != env.errSignatureElementNotPresent) = false := by simp [hab]
        simp only [this, Bool.false_eq_true, if_false] at h
        obtain ⟨resp, need', hu, hrc, hnd, ht⟩ := hResp rse rhs0 a h
        obtain ⟨x, hsrc, hck⟩ := hTail need' a ht
        refine ⟨resp, rse, need', x, hu, fun _ => rfl, fun hne => absurd hn hne, ?_, hnd, hsrc, hck⟩
        simpa [hn, this, rhs0] using hrc
      · have : (rse != env.errSignatureElementNotPresent) = true := by simp [hab]
        simp only [this, if_true] at h
        obtain ⟨resp, need', hu, hrc, hnd, ht⟩ := hResp rse rhs1 a h
        obtain ⟨x, hsrc, hck⟩ := hTail need' a ht
        refine ⟨resp, rse, need', x, hu, fun _ => rfl, fun hne => absurd hn hne, ?_, hnd, hsrc, hck⟩
        simpa [hn, this, rhs1] using hrc
  · have h0 : (sr0 == 0) = false := by simp [sr0, hn]
    simp -zeta only [h0, Bool.false_eq_true, if_false] at h
    obtain ⟨resp, need', hu, hrc, hnd, ht⟩ := hResp rse0 rhs0 a h
    obtain ⟨x, hsrc, hck⟩ := hTail need' a ht
    refine ⟨resp, none, need', x, hu, fun h' => absurd h' hn, fun _ => rfl, ?_, ?_, hsrc, hck⟩
    · have : (need == 0) = false := by simp [hn]
      simpa [this, rhs0] using hrc
    · simpa [rse0] using hnd

/-- **C01 (struct level) on the translated code**: with a signature required, a returned assertion is the unmarshalling of an
    element that is a child of the Response (or the decryption of one) and either that element's own signature verified or the
    Response's did. -/
theorem Trans_parseResponse_signed (env : Trans.Env) (sp : Trans.ServiceProvider) (el : Option Element) (ids : List String)
    (now : Int) (url : URL) (a : Trans.Assertion)
    (h : Trans.parseResponse env sp el ids now 0 url = .ok (some a, none)) :
    ∃ x, Source env sp el x ∧ env.unmarshalElement_Assertion x = .ok (a, none) ∧
      (env.validateSignature sp x = .ok none ∨ env.validateSignature sp el = .ok none) ∧
      Trans.validateAssertion env sp (some a) ids now = .ok none := by
  obtain ⟨resp, rse, need', x, _, hs, _, _, hnd, hsrc, hck⟩ := parseResponse_sound env sp el ids now 0 url a h
  refine ⟨x, hsrc, hck.unmarshalled, ?_, hck.valid⟩
  rcases hnd with ⟨_, hr, _⟩ | ⟨_, _, _, hn'⟩ | ⟨hne, _⟩
  · right; rw [hs rfl, hr]
  · left; exact hck.signed hn'
  · exact absurd rfl hne

/-- **C02 / C03 / C04 on the translated code**, response level and assertion level together (no application hooks, IdP
    metadata configured). -/
theorem Trans_parseResponse_checks (env : Trans.Env) (sp : Trans.ServiceProvider) (idp : Trans.EntityDescriptor) (el : Option Element)
    (ids : List String) (now need : Int) (url : URL) (a : Trans.Assertion)
    (hidp : sp.IDPMetadata = some idp) (hv : sp.ValidateAudienceRestriction = none) (hq : sp.ValidateRequestID = none)
    (h : Trans.parseResponse env sp el ids now need url = .ok (some a, none)) :
    ∃ resp, env.unmarshalElement_Response el = .ok (resp, none) ∧
      (resp.Destination ≠ "" → resp.Destination = url.str ∨ resp.Destination = sp.AcsURL.str) ∧
      (sp.AllowIDPInitiated = true ∨ resp.InResponseTo ∈ ids) ∧
      now ≤ resp.IssueInstant + env.MaxIssueDelay ∧
      (∀ i, resp.Issuer = some i → i.Value = idp.EntityID) ∧
      resp.Status.StatusCode.Value = env.StatusSuccess ∧
      now ≤ a.IssueInstant + env.MaxIssueDelay ∧ a.Issuer.Value = idp.EntityID ∧
      (∃ s, a.Subject = some s ∧ ∀ sc ∈ s.SubjectConfirmations, ∃ d, sc.SubjectConfirmationData = some d ∧
          (sp.AllowIDPInitiated = true ∨ d.InResponseTo ∈ ids) ∧ d.Recipient = sp.AcsURL.str ∧
          now ≤ d.NotOnOrAfter + env.MaxClockSkew) ∧
      (∃ c, a.Conditions = some c ∧ c.NotBefore - env.MaxClockSkew ≤ now ∧ now ≤ c.NotOnOrAfter + env.MaxClockSkew ∧
          (c.AudienceRestrictions = [] ∨
            ∃ r ∈ c.AudienceRestrictions, r.Audience.Value = SP.firstSet sp.EntityID sp.MetadataURL.str)) := by
  obtain ⟨resp, rse, need', x, hu, _, _, hrc, _, _, hck⟩ := parseResponse_sound env sp el ids now need url a h
  obtain ⟨h1, h2, h3, h4⟩ := Trans_validateAssertion_sound env sp idp a ids now hidp hv hck.valid
  refine ⟨resp, hu, fun hd => hrc.dest (Or.inr hd), (Trans_validateRequestID_iff env sp resp ids hq).1 hrc.reqId, hrc.fresh, ?_, hrc.status, h1, h2, h3, h4⟩
  intro i hi
  obtain ⟨idp', hidp', hval⟩ := hrc.issuer i hi
  rw [hidp] at hidp'
  cases hidp'
  exact hval

/-- Destination is mandatory as soon as a required Response signature is present (C03) -/
theorem Trans_parseResponse_destination_when_signed (env : Trans.Env) (sp : Trans.ServiceProvider) (el : Option Element)
    (ids : List String) (now : Int) (url : URL) (a : Trans.Assertion) (e : GoError)
    (hsig : env.validateSignature sp el = .ok e) (hpresent : e ≠ env.errSignatureElementNotPresent)
    (h : Trans.parseResponse env sp el ids now 0 url = .ok (some a, none)) :
    ∃ resp, env.unmarshalElement_Response el = .ok (resp, none) ∧
      (resp.Destination = url.str ∨ resp.Destination = sp.AcsURL.str) := by
  obtain ⟨resp, rse, need', x, hu, hs, _, hrc, _, _, _⟩ := parseResponse_sound env sp el ids now 0 url a h
  have : rse = e := by
    have := hs rfl
    rw [hsig] at this
    cases this; rfl
  subst this
  refine ⟨resp, hu, hrc.dest (Or.inl ?_)⟩
  simp [hpresent]

end SamlVerif.TransSP
