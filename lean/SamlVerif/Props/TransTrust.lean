/-
  Props/TransTrust — where the SP's trusted certificates come from: `ServiceProvider.validateSignature` as regenerated from the
  current service_provider.go, up to (excluding) the statement `certificateStore := …` (`Trans.trustRoots`; the callees
  `findChild`, `getIDPSigningCerts`, `getCertBasedOnFingerprint`, `parseCert` are arbitrary functions in `Env`).

  `trustRoots_from_configuration` (C01 "one of the IdP certificates the SP is configured to trust", C18 "a trusted IdP
  certificate"): when the function goes on to verify anything, the certificates it hands to the verifier are — according to the
  configuration alone — exactly the signing certificates of the IdP metadata (no pin configured), or exactly what the fingerprint
  lookup returned (fingerprint *and* algorithm configured, no certificate), or exactly the one configured certificate (certificate
  configured, no fingerprint fields); and never an empty list.  Every other combination of the three pin fields — a fingerprint
  without its algorithm, an algorithm alone, either together with a certificate, no IdP metadata — trusts nothing
  (`trustRoots_unusable_configuration`): nothing in the message can add a root.
-/
import SamlVerif.Props.TransSP
open SamlVerif SamlVerif.GoSem
namespace SamlVerif.TransSP

theorem trustRoots_from_configuration (env : Trans.Env) (sp : Trans.ServiceProvider) (el : Option Element)
    (certs : List (Option Certificate)) (hsent : env.errSignatureElementNotPresent ≠ none)
    (h : Trans.trustRoots env sp el = .ok (certs, none)) :
    certs ≠ [] ∧
    ((sp.IDPMetadata.isSome ∧ sp.IDPCertificateFingerprint = none ∧ sp.IDPCertificateFingerprintAlgorithm = none ∧ sp.IDPCertificate = none ∧
        env.getIDPSigningCerts sp = .ok (certs, none)) ∨
     (sp.IDPMetadata.isSome ∧ sp.IDPCertificateFingerprint.isSome ∧ sp.IDPCertificateFingerprintAlgorithm.isSome ∧ sp.IDPCertificate = none ∧
        env.getCertBasedOnFingerprint sp el = .ok (certs, none)) ∨
     (∃ c cert, sp.IDPMetadata.isSome ∧ sp.IDPCertificateFingerprint = none ∧ sp.IDPCertificateFingerprintAlgorithm = none ∧ sp.IDPCertificate = some c ∧
        env.parseCert c = .ok (cert, none) ∧ certs = [cert])) := by
  unfold Trans.trustRoots at h
  simp only [Outcome.pure_eq_ok] at h
  cases hfc : env.findChild el "http://www.w3.org/2000/09/xmldsig#" "Signature" with
  | err e => simp [hfc] at h
  | panic w => simp [hfc] at h
  | ok fc =>
    obtain ⟨sigEl, fe⟩ := fc
    simp only [hfc, Outcome.ok_bind'] at h
    cases fe with
    | some e => simp at h
    | none =>
      cases sigEl with
      | none => simp at h; exact absurd h.2 hsent
      | some sg =>
        simp only [Option.isSome_none, Option.isNone_some, Bool.false_eq_true, if_false] at h
        cases hm : sp.IDPMetadata with
        | none => simp [hm] at h
        | some md =>
          cases hf : sp.IDPCertificateFingerprint <;> cases ha : sp.IDPCertificateFingerprintAlgorithm <;> cases hc : sp.IDPCertificate <;>
            simp only [hm, hf, ha, hc, Option.isSome_some, Option.isSome_none, Option.isNone_some, Option.isNone_none, Bool.and_true, Bool.and_false,
              Bool.true_and, Bool.false_and, Bool.false_eq_true, if_false, if_true, deref_some, Outcome.ok_bind'] at h
          all_goals first
            | (simp at h; done)
            | skip
          · -- no pin: the signing certificates of the IdP metadata
            cases hg : env.getIDPSigningCerts sp with
            | err e => simp [hg] at h
            | panic w => simp [hg] at h
            | ok r =>
              obtain ⟨cs, ce⟩ := r
              simp only [hg, Outcome.ok_bind'] at h
              cases ce with
              | some e => simp at h
              | none =>
                cases cs with
                | nil => simp at h
                | cons c0 rest =>
                  have hl : ¬ ((rest.length : Int) + 1 = 0) := by omega
                  simp [hl] at h
                  subst h
                  exact ⟨by simp, Or.inl ⟨rfl, rfl, rfl, rfl, rfl⟩⟩
          · -- a pinned certificate
            rename_i c
            cases hg : env.parseCert c with
            | err e => simp [hg] at h
            | panic w => simp [hg] at h
            | ok r =>
              obtain ⟨cert, ce⟩ := r
              simp only [hg, Outcome.ok_bind'] at h
              cases ce with
              | some e => simp at h
              | none =>
                simp at h
                subst h
                exact ⟨by simp, Or.inr (Or.inr ⟨c, cert, rfl, rfl, rfl, rfl, hg, rfl⟩)⟩
          · -- fingerprint and algorithm
            cases hg : env.getCertBasedOnFingerprint sp el with
            | err e => simp [hg] at h
            | panic w => simp [hg] at h
            | ok r =>
              obtain ⟨cs, ce⟩ := r
              simp only [hg, Outcome.ok_bind'] at h
              cases ce with
              | some e => simp at h
              | none =>
                cases cs with
                | nil => simp at h
                | cons c0 rest =>
                  have hl : ¬ ((rest.length : Int) + 1 = 0) := by omega
                  simp [hl] at h
                  subst h
                  exact ⟨by simp, Or.inr (Or.inl ⟨rfl, rfl, rfl, rfl, rfl⟩)⟩


/-- an unusable configuration — no IdP metadata, a fingerprint without its algorithm, an algorithm alone, a certificate together with
    either — trusts nothing: the function never gets as far as verifying, whatever the message contains -/
theorem trustRoots_unusable_configuration (env : Trans.Env) (sp : Trans.ServiceProvider) (el : Option Element)
    (certs : List (Option Certificate)) (hsent : env.errSignatureElementNotPresent ≠ none)
    (hbad : sp.IDPMetadata = none ∨
      (sp.IDPCertificateFingerprint.isSome ∧ sp.IDPCertificateFingerprintAlgorithm = none) ∨
      (sp.IDPCertificateFingerprint = none ∧ sp.IDPCertificateFingerprintAlgorithm.isSome) ∨
      (sp.IDPCertificate.isSome ∧ (sp.IDPCertificateFingerprint.isSome ∨ sp.IDPCertificateFingerprintAlgorithm.isSome))) :
    Trans.trustRoots env sp el ≠ .ok (certs, none) := by
  intro h
  obtain ⟨_, hsrc⟩ := trustRoots_from_configuration env sp el certs hsent h
  rcases hsrc with ⟨hm, hf, ha, hc, _⟩ | ⟨hm, hf, ha, hc, _⟩ | ⟨c, cert, hm, hf, ha, hc, _⟩ <;>
    rcases hbad with hb | ⟨hb1, hb2⟩ | ⟨hb1, hb2⟩ | ⟨hb1, hb2⟩ <;> simp_all

/-! non-vacuity: a metadata-only configuration reaches the verifier with exactly the metadata's certificates; the same
    configuration with a stray fingerprint reaches nothing -/
def exTrustEnv : Trans.Env :=
  { exEnv with
    errSignatureElementNotPresent := some "Signature element not present",
    findChild := fun el _ _ => .ok (el, none),
    getIDPSigningCerts := fun _ => .ok ([some ⟨7⟩], none),
    getCertBasedOnFingerprint := fun _ _ => .ok ([some ⟨8⟩], none),
    parseCert := fun _ => .ok (some ⟨9⟩, none) }
example : Trans.trustRoots exTrustEnv exSP (some default) = .ok ([some ⟨7⟩], none) := by decide
example : Trans.trustRoots exTrustEnv { exSP with IDPCertificate := some "pem" } (some default) = .ok ([some ⟨9⟩], none) := by decide
example : Trans.trustRoots exTrustEnv { exSP with IDPCertificateFingerprint := some "ab" } (some default) ≠ .ok ([some ⟨7⟩], none) := by decide

end SamlVerif.TransSP
