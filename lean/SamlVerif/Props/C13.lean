/-
  C13 — Signatures on SP outbound messages verify under the SP's published certificate.

  "… for the redirect binding over exactly the octets 'SAMLRequest=...[&RelayState=...]&SigAlg=...'
   as they appear in the emitted URL, and for POST-binding requests, logout messages and artifact
   resolution as an enveloped XML signature over the emitted element.  A signature method that does
   not match the key type, or is unknown, is refused with an error instead of producing an unsigned
   or unverifiable message."

  Proved: the signed octets are exactly that substring of the emitted query, for every relay state and
  every endpoint query; the method/key table (regenerated from the source) is consistent.
  Partial: the signature primitive is a parameter (`sign`); that the emitted signature verifies under
  the published certificate is checked on the real code by the correspondence (independent
  verification with crypto/rsa, crypto/ecdsa and an independent dsig validation context).
-/
import SamlVerif.Proofs.Bindings
import SamlVerif.Model.Signing
import SamlVerif.Generated.Facts

namespace SamlVerif.Bindings
open SamlVerif.Codec SamlVerif.Signing

/-- **Redirect octets**: the emitted query is `pre ‖ S ‖ "&Signature=" ‖ esc(base64(sign S))` where
    `S = SAMLRequest=…[&RelayState=…]&SigAlg=…` is exactly what was signed, and `pre` is empty or the
    endpoint's own query followed by `&` — so a verifier that reconstructs `S` from the URL's
    SAMLRequest/RelayState/SigAlg parameters checks the same octets. -/
theorem C13_redirect_octets (q0 msg relay alg : Bytes) (sign : Bytes → Bytes) :
    redirectQuery q0 msg relay (some (alg, sign)) =
      pre q0 ++ signedOctets msg relay alg ++
        (38 :: encodePair kSignature (b64encode (sign (signedOctets msg relay alg)))) := rfl

/-- the signed octets, parsed on their own, are exactly the three parameters in the order the
    binding specification prescribes -/
theorem C13_signed_octets_shape (msg relay alg : Bytes) :
    (parseQuery (signedOctets msg relay alg)).1 = expectedParams msg relay ++ [(kSigAlg, alg)] := by
  have := signedOctets_params [] msg relay alg
  simp only [pre, if_true, List.nil_append, parseQuery_nil] at this
  rw [this]

/-- The pinned assembly signed the endpoint's own query as well: with `foo=bar` on the endpoint the
    signature input differs from the octets a verifier reconstructs (toy signer = identity). -/
theorem C13_pinned_signs_endpoint_query :
    let q := redirectQueryPinned [102, 61, 49] [77] [] (some ([65], id))
    let q' := redirectQuery [102, 61, 49] [77] [] (some ([65], id))
    q ≠ q' := by decide

/-! ### method / key consistency at the regenerated facts -/

/-- a signing context is produced exactly for a known method whose key has the required Go type -/
theorem C13_method_key (table : List (String × String)) (m k : String) :
    signingContext table m k = .ok () ↔ table.lookup m = some k := by
  unfold signingContext
  cases h : table.lookup m with
  | none => simp
  | some t =>
    simp only
    by_cases ht : t = k
    · simp [ht]
    · simp [ht]

/-- the table in the source maps every one of the eight method URIs to the key family of that URI,
    and nothing else -/
theorem C13_table_consistent :
    (∀ p ∈ Facts.signingMethods, familyOfURI p.1 = some p.2) ∧
    (∀ m ∈ knownMethods, (Facts.signingMethods.lookup m).isSome = true) := by decide

/-- hence an unknown method, or a method of the other key family, is refused -/
theorem C13_refuses_mismatch (m k : String) (h : signingContext Facts.signingMethods m k = .ok ()) :
    familyOfURI m = some k := by
  rw [C13_method_key] at h
  have hmem : (m, k) ∈ Facts.signingMethods := by
    have := List.lookup_eq_some_iff.mp h
    obtain ⟨l1, l2, hl, _⟩ := this
    rw [hl]; simp
  exact C13_table_consistent.1 (m, k) hmem

theorem C13_facts_extracted : Facts.extractionFailures = [] := by decide

end SamlVerif.Bindings
