/-
  Props/TransServe — the gate of `IdentityProvider.ServeSSO` (identity_provider.go), regenerated from the current source up to
  the statement `assertionMaker := idp.AssertionMaker` (`Trans.serveSSOGate`; `NewIdpAuthnRequest`, `IdpAuthnRequest.Validate` and
  the session provider are arbitrary functions; log lines are dropped; the trace ends with the continuation mark exactly when the
  handler goes on to make an assertion).

  C05 / C06 / C19: `serveSSOGate_cases` — an assertion is made only for a request that parsed, that `Validate` accepted, and for
  which the session provider returned a session; a request that does not parse or validate gets exactly one reply (HTTP 400)
  and the session provider is never consulted; without a session nothing is written by this handler (the session provider has
  answered).
-/
import SamlVerif.Generated.Trans
import SamlVerif.Proofs.TransSP
open SamlVerif SamlVerif.GoSem
namespace SamlVerif.TransServe

def evBadRequest : Event := ⟨"http.Error", ["StatusBadRequest"]⟩
def evGetSession : Event := ⟨"idp.SessionProvider.GetSession", []⟩
def evContinues : Event := ⟨"(continues)", []⟩

theorem serveSSOGate_cases (env : Trans.Env) (idp : Trans.IdentityProvider) (w : ResponseWriter) (r : Option HTTPRequest)
    (tr : List Event) (h : Trans.serveSSOGate env idp w r = .ok tr) :
    (tr = [evBadRequest] ∧
       ((∃ q e, env.NewIdpAuthnRequest (some idp) r = .ok (q, some e)) ∨
        (∃ q e, env.NewIdpAuthnRequest (some idp) r = .ok (some q, none) ∧ env.Validate q = .ok (some e)))) ∨
    (∃ q, env.NewIdpAuthnRequest (some idp) r = .ok (some q, none) ∧ env.Validate q = .ok none ∧
       ((tr = [evGetSession] ∧ env.sessionProviderGetSession idp w r (some q) = .ok none) ∨
        (tr = [evGetSession, evContinues] ∧ ∃ sess, env.sessionProviderGetSession idp w r (some q) = .ok (some sess)))) := by
  unfold Trans.serveSSOGate at h
  simp only [Outcome.ok_bind', Outcome.pure_eq_ok] at h
  cases hn : env.NewIdpAuthnRequest (some idp) r with
  | err e => simp [hn] at h
  | panic p => simp [hn] at h
  | ok res =>
    obtain ⟨q, ne⟩ := res
    simp only [hn, Outcome.ok_bind'] at h
    cases ne with
    | some e =>
      simp at h
      exact Or.inl ⟨h.symm, Or.inl ⟨q, e, rfl⟩⟩
    | none =>
      simp only [Option.isSome_none, Bool.false_eq_true, if_false] at h
      cases q with
      | none => simp at h
      | some qq =>
        simp only [deref_some, Outcome.ok_bind'] at h
        cases hv : env.Validate qq with
        | err e => simp [hv] at h
        | panic p => simp [hv] at h
        | ok ve =>
          simp only [hv, Outcome.ok_bind'] at h
          cases ve with
          | some e =>
            simp at h
            exact Or.inl ⟨h.symm, Or.inr ⟨qq, e, rfl, hv⟩⟩
          | none =>
            simp only [Option.isSome_none, Bool.false_eq_true, if_false] at h
            refine Or.inr ⟨qq, rfl, hv, ?_⟩
            cases hs : env.sessionProviderGetSession idp w r (some qq) with
            | err e => simp [hs] at h
            | panic p => simp [hs] at h
            | ok so =>
              simp only [hs, Outcome.ok_bind'] at h
              cases so with
              | none => simp at h; exact Or.inl ⟨h.symm, rfl⟩
              | some sess => simp at h; exact Or.inr ⟨h.symm, sess, rfl⟩

/-- an assertion is made only behind all three gates -/
theorem serveSSOGate_continues (env : Trans.Env) (idp : Trans.IdentityProvider) (w : ResponseWriter) (r : Option HTTPRequest)
    (tr : List Event) (h : Trans.serveSSOGate env idp w r = .ok tr) (hc : evContinues ∈ tr) :
    ∃ q sess, env.NewIdpAuthnRequest (some idp) r = .ok (some q, none) ∧ env.Validate q = .ok none ∧
      env.sessionProviderGetSession idp w r (some q) = .ok (some sess) := by
  rcases serveSSOGate_cases env idp w r tr h with ⟨ht, _⟩ | ⟨q, hn, hv, hrest⟩
  · subst ht; simp [evContinues, evBadRequest] at hc
  · rcases hrest with ⟨ht, _⟩ | ⟨_, sess, hs⟩
    · subst ht; simp [evContinues, evGetSession] at hc
    · exact ⟨q, sess, hn, hv, hs⟩

end SamlVerif.TransServe
