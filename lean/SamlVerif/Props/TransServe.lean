/-
  Props/TransServe — the gate of `IdentityProvider.ServeSSO` (identity_provider.go), regenerated from the current source up to
  the statement `assertionMaker := idp.AssertionMaker` (`Trans.serveSSOGate`; `NewIdpAuthnRequest`, `IdpAuthnRequest.Validate` and
  the session provider are arbitrary functions; log lines are dropped; the trace ends with the continuation mark exactly when the
  handler goes on to make an assertion).

  C05 / C06 / C19: `serveSSOGate_cases` — an assertion is made only for a request that parsed, that `Validate` accepted, and for
  which the session provider returned a session; a request that does not parse or validate gets exactly one reply (HTTP 400)
  and the session provider is never consulted; without a session nothing is written by this handler (the session provider has
  answered).
-/
import SamlVerif.Generated.Trans
import SamlVerif.Proofs.TransSP
open SamlVerif SamlVerif.GoSem
namespace SamlVerif.TransServe

def evBadRequest : Event := ⟨"http.Error", ["StatusBadRequest"]⟩
def evGetSession : Event := ⟨"idp.SessionProvider.GetSession", []⟩
def evContinues : Event := ⟨"(continues)", []⟩

theorem serveSSOGate_cases (env : Trans.Env) (idp : Trans.IdentityProvider) (w : ResponseWriter) (r : Option HTTPRequest)
    (tr : List Event) (h : Trans.serveSSOGate env idp w r = .ok tr) :
    (tr = [evBadRequest] ∧
       ((∃ q e, env.NewIdpAuthnRequest (some idp) r = .ok (q, some e)) ∨
        (∃ q e, env.NewIdpAuthnRequest (some idp) r = .ok (some q, none) ∧ env.Validate q = .ok (some e)))) ∨
    (∃ q, env.NewIdpAuthnRequest (some idp) r = .ok (some q, none) ∧ env.Validate q = .ok none ∧
       ((tr = [evGetSession] ∧ env.sessionProviderGetSession idp w r (some q) = .ok none) ∨
        (tr = [evGetSession, evContinues] ∧ ∃ sess, env.sessionProviderGetSession idp w r (some q) = .ok (some sess)))) := by
  unfold Trans.serveSSOGate at h
  simp only [Outcome.ok_bind', Outcome.pure_eq_ok] at h
  cases hn : env.NewIdpAuthnRequest (some idp) r with
  | err e => simp [hn] at h
  | panic p => simp [hn] at h
  | ok res =>
    obtain ⟨q, ne⟩ := res
    simp only [hn, Outcome.ok_bind'] at h
    cases ne with
    | some e =>
      simp at h
      exact Or.inl ⟨h.symm, Or.inl ⟨q, e, rfl⟩⟩
    | none =>
      simp only [Option.isSome_none, Bool.false_eq_true, if_false] at h
      cases q with
      | none => simp at h
      | some qq =>
        simp only [deref_some, Outcome.ok_bind'] at h
        cases hv : env.Validate qq with
        | err e => simp [hv] at h
        | panic p => simp [hv] at h
        | ok ve =>
          simp only [hv, Outcome.ok_bind'] at h
          cases ve with
          | some e =>
            simp at h
            exact Or.inl ⟨h.symm, Or.inr ⟨qq, e, rfl, hv⟩⟩
          | none =>
            simp only [Option.isSome_none, Bool.false_eq_true, if_false] at h
            refine Or.inr ⟨qq, rfl, hv, ?_⟩
            cases hs : env.sessionProviderGetSession idp w r (some qq) with
            | err e => simp [hs] at h
            | panic p => simp [hs] at h
            | ok so =>
              simp only [hs, Outcome.ok_bind'] at h
              cases so with
              | none => simp at h; exact Or.inl ⟨h.symm, rfl⟩
              | some sess => simp at h; exact Or.inr ⟨h.symm, sess, rfl⟩

/-- an assertion is made only behind all three gates -/
theorem serveSSOGate_continues (env : Trans.Env) (idp : Trans.IdentityProvider) (w : ResponseWriter) (r : Option HTTPRequest)
    (tr : List Event) (h : Trans.serveSSOGate env idp w r = .ok tr) (hc : evContinues ∈ tr) :
    ∃ q sess, env.NewIdpAuthnRequest (some idp) r = .ok (some q, none) ∧ env.Validate q = .ok none ∧
      env.sessionProviderGetSession idp w r (some q) = .ok (some sess) := by
  rcases serveSSOGate_cases env idp w r tr h with ⟨ht, _⟩ | ⟨q, hn, hv, hrest⟩
  · subst ht; simp [evContinues, evBadRequest] at hc
  · rcases hrest with ⟨ht, _⟩ | ⟨_, sess, hs⟩
    · subst ht; simp [evContinues, evGetSession] at hc
    · exact ⟨q, sess, hn, hv, hs⟩

def evNotFound : Event := ⟨"http.Error", ["StatusNotFound"]⟩
def evServerError : Event := ⟨"http.Error", ["StatusInternalServerError"]⟩

/-- the gate of `ServeIDPInitiated` (from `session := idp.SessionProvider.GetSession(w, r, req)` up to the endpoint selection; the
    request value under construction is the state): the handler goes on only with a session and with the metadata the registry
    returned, without error, for the service provider that was asked for — which is what the endpoint is then selected from
    (`Props/TransIdpInit`); an unknown provider gets exactly one 404, a failing registry one 500, and without a session this
    handler writes nothing -/
theorem idpInitiatedGate_cases (env : Trans.Env) (idp : Trans.IdentityProvider) (w : ResponseWriter) (r : Option HTTPRequest)
    (spID : String) (req req' : Trans.IdpAuthnRequest) (tr : List Event)
    (h : Trans.idpInitiatedGate env (some idp) w r spID req = .ok (req', tr)) :
    (tr = [evGetSession] ∧ req' = req ∧ env.sessionProviderGetSession idp w r (some req) = .ok none) ∨
    (∃ sess md e, env.sessionProviderGetSession idp w r (some req) = .ok (some sess) ∧
        idp.ServiceProviderProvider.GetServiceProvider r spID = .ok (md, e) ∧
        req' = { req with ServiceProviderMetadata := md } ∧
        ((e = some "os.ErrNotExist" ∧ tr = [evGetSession, evNotFound]) ∨
         (e ≠ some "os.ErrNotExist" ∧ e ≠ none ∧ tr = [evGetSession, evServerError]) ∨
         (e = none ∧ tr = [evGetSession, evContinues]))) := by
  unfold Trans.idpInitiatedGate at h
  simp only [deref_some, Outcome.ok_bind', Outcome.pure_eq_ok] at h
  cases hs : env.sessionProviderGetSession idp w r (some req) with
  | err e => simp [hs] at h
  | panic p => simp [hs] at h
  | ok so =>
    simp only [hs, Outcome.ok_bind'] at h
    cases so with
    | none => simp at h; exact Or.inl ⟨h.2.symm, h.1.symm, rfl⟩
    | some sess =>
      simp only [Option.isNone_some, Bool.false_eq_true, if_false] at h
      cases hg : idp.ServiceProviderProvider.GetServiceProvider r spID with
      | err e => simp [hg] at h
      | panic p => simp [hg] at h
      | ok res =>
        obtain ⟨md, e⟩ := res
        simp only [hg, Outcome.ok_bind'] at h
        refine Or.inr ⟨sess, md, e, rfl, rfl, ?_⟩
        by_cases hnf : e = some "os.ErrNotExist"
        · subst hnf
          simp at h
          exact ⟨h.1.symm, Or.inl ⟨rfl, h.2.symm⟩⟩
        · have hb : (e == some "os.ErrNotExist") = false := by simpa using hnf
          simp only [hb, Bool.false_eq_true, if_false] at h
          cases e with
          | none => simp at h; exact ⟨h.1.symm, Or.inr (Or.inr ⟨rfl, h.2.symm⟩)⟩
          | some m => simp at h; exact ⟨h.1.symm, Or.inr (Or.inl ⟨hnf, by simp, h.2.symm⟩)⟩

/-! ### the validity window the IdP writes into `Conditions` (`DefaultAssertionMaker.MakeAssertion`, the statements from
    `notBefore := req.Now.Add(-1 * MaxClockSkew)` up to `nameIDFormat :=`; translated twice, once per yielded local) -/

/-- C06: `Conditions/@NotBefore` is the later of (now − MaxClockSkew) and the request's IssueInstant; `@NotOnOrAfter` is
    MaxIssueDelay after the request's IssueInstant in the second case and after now in the first -/
theorem conditions_window (env : Trans.Env) (req : Trans.IdpAuthnRequest) :
    Trans.conditionsNotBefore env (some req) = .ok (max (req.Now - env.MaxClockSkew) req.Request.IssueInstant, none) ∧
    Trans.conditionsNotOnOrAfter env (some req) =
      .ok (if req.Now - env.MaxClockSkew < req.Request.IssueInstant then req.Request.IssueInstant + env.MaxIssueDelay
           else req.Now + env.MaxIssueDelay, none) := by
  unfold Trans.conditionsNotBefore Trans.conditionsNotOnOrAfter
  have e : req.Now + -1 * env.MaxClockSkew = req.Now - env.MaxClockSkew := by omega
  simp only [deref_some, Outcome.ok_bind', Outcome.pure_eq_ok, e]
  by_cases h : req.Now - env.MaxClockSkew < req.Request.IssueInstant
  · have hm : max (req.Now - env.MaxClockSkew) req.Request.IssueInstant = req.Request.IssueInstant := by
      rw [Int.max_def]; split <;> omega
    simp only [h, if_true, hm]
    exact ⟨trivial, trivial⟩
  · have hm : max (req.Now - env.MaxClockSkew) req.Request.IssueInstant = req.Now - env.MaxClockSkew := by
      rw [Int.max_def]; split <;> omega
    simp only [h, if_false, hm]
    exact ⟨trivial, trivial⟩

/-- "Conditions that open no earlier than MaxClockSkew before issuance" and never later than the later of that and the request -/
theorem conditions_notBefore_bounds (env : Trans.Env) (req : Trans.IdpAuthnRequest) (nb : Int)
    (h : Trans.conditionsNotBefore env (some req) = .ok (nb, none)) :
    req.Now - env.MaxClockSkew ≤ nb ∧ req.Request.IssueInstant ≤ nb ∧
    (nb = req.Now - env.MaxClockSkew ∨ nb = req.Request.IssueInstant) := by
  rw [(conditions_window env req).1] at h
  simp only [Outcome.ok.injEq, Prod.mk.injEq, and_true] at h
  rw [Int.max_def] at h
  split at h <;> omega

/-! ### the header of the Response the IdP builds (`IdpAuthnRequest.MakeResponse`, the statement `response := &Response{…}`; the
    nested Issuer and Status literals and the IssueInstant are outside the translation) -/

/-- C06: the Response is addressed to the selected endpoint's location *as the string that was registered* (no parse / print round
    trip), answers the request's own ID, and is version 2.0 -/
theorem responseHeader_fields (env : Trans.Env) (req : Trans.IdpAuthnRequest) (ep : Trans.IndexedEndpoint)
    (hep : req.ACSEndpoint = some ep) :
    ∃ resp, Trans.responseHeader env req = .ok (some resp, none) ∧
      resp.Destination = ep.Location ∧ resp.InResponseTo = req.Request.ID ∧ resp.Version = "2.0" ∧ resp.ID = env.freshID := by
  unfold Trans.responseHeader
  simp [hep]

/-- without a selected endpoint `MakeResponse` does not build a Response: it panics on the nil endpoint -/
theorem responseHeader_needs_endpoint (env : Trans.Env) (req : Trans.IdpAuthnRequest) (h : req.ACSEndpoint = none) :
    Trans.responseHeader env req = .panic "nil dereference" := by
  unfold Trans.responseHeader
  simp [h]

end SamlVerif.TransServe
