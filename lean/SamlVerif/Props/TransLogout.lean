/-
  Props/TransLogout — C18 on the regenerated entry points: `ServiceProvider.ValidateLogoutResponseForm` and
  `ValidateLogoutResponseRedirect` from the statement `if err := sp.validateSignature(doc.Root()); err != nil {` to the end
  (`Trans.logoutFormTail`, `Trans.logoutRedirectTail`; the root of the document parsed just before is the unknown `env.docRoot`,
  signature validation and unmarshalling are arbitrary functions, `validateLogoutResponse` is the translated one).

  `logoutTail_sound`: either entry point reports a logout response valid only if the signature validation of the document's root
  returned no error — an absent signature is an error there: the function is not told to tolerate `errSignatureElementNotPresent`,
  unlike the response parser — and the unmarshalled message is addressed to the SP's logout URL, fresh, issued by the IdP and
  Success (`Trans_validateLogoutResponse_iff`).  `logoutTails_agree`: the two encodings run the same checks.
-/
import SamlVerif.Props.TransSP
open SamlVerif SamlVerif.GoSem
namespace SamlVerif.TransSP

theorem logoutFormTail_cases (env : Trans.Env) (sp : Trans.ServiceProvider) (retErr : GoError) (res : GoError)
    (h : Trans.logoutFormTail env sp retErr = .ok res) :
    (∃ e, env.validateSignature sp env.docRoot = .ok (some e) ∧ res = retErr) ∨
    (env.validateSignature sp env.docRoot = .ok none ∧
      ((∃ r e, env.unmarshalElement_LogoutResponse env.docRoot = .ok (r, some e) ∧ res = retErr) ∨
       (∃ r, env.unmarshalElement_LogoutResponse env.docRoot = .ok (r, none) ∧
          Trans.validateLogoutResponse env sp (some r) = .ok res))) := by
  unfold Trans.logoutFormTail at h
  simp only [Outcome.ok_bind', Outcome.pure_eq_ok] at h
  cases hs : env.validateSignature sp env.docRoot with
  | err e => simp [hs] at h
  | panic p => simp [hs] at h
  | ok se =>
    simp only [hs, Outcome.ok_bind'] at h
    cases se with
    | some e => simp at h; exact Or.inl ⟨e, rfl, h.symm⟩
    | none =>
      simp only [Option.isSome_none, Bool.false_eq_true, if_false] at h
      refine Or.inr ⟨rfl, ?_⟩
      cases hu : env.unmarshalElement_LogoutResponse env.docRoot with
      | err e => simp [hu] at h
      | panic p => simp [hu] at h
      | ok ures =>
        obtain ⟨r, ue⟩ := ures
        simp only [hu, Outcome.ok_bind'] at h
        cases ue with
        | some e => simp at h; exact Or.inl ⟨r, e, rfl, h.symm⟩
        | none =>
          simp only [Option.isSome_none, Bool.false_eq_true, if_false] at h
          refine Or.inr ⟨r, rfl, ?_⟩
          cases hv : Trans.validateLogoutResponse env sp (some r) with
          | err e => simp [hv] at h
          | panic p => simp [hv] at h
          | ok v => simp [hv] at h; rw [h]

/-- the redirect encoding runs the same tail -/
theorem logoutTails_agree (env : Trans.Env) (sp : Trans.ServiceProvider) (retErr : GoError) :
    Trans.logoutRedirectTail env sp retErr = Trans.logoutFormTail env sp retErr := rfl

/-- C18: reported valid ⇒ the root's signature validated (an absent signature does not), and the message is addressed to the SP's
    logout URL, fresh, from the IdP and Success -/
theorem logoutTail_sound (env : Trans.Env) (sp : Trans.ServiceProvider) (idp : Trans.EntityDescriptor) (retErr : GoError)
    (hret : retErr ≠ none) (hidp : sp.IDPMetadata = some idp)
    (h : Trans.logoutFormTail env sp retErr = .ok none ∨ Trans.logoutRedirectTail env sp retErr = .ok none) :
    env.validateSignature sp env.docRoot = .ok none ∧
    ∃ r, env.unmarshalElement_LogoutResponse env.docRoot = .ok (r, none) ∧
      r.Destination = sp.SloURL.str ∧ env.timeNow ≤ r.IssueInstant + env.MaxIssueDelay ∧
      (∃ i, r.Issuer = some i ∧ i.Value = idp.EntityID) ∧ r.Status.StatusCode.Value = env.StatusSuccess := by
  have h' : Trans.logoutFormTail env sp retErr = .ok none := by
    rcases h with h | h
    · exact h
    · rw [logoutTails_agree] at h; exact h
  rcases logoutFormTail_cases env sp retErr none h' with ⟨e, _, hr⟩ | ⟨hs, hrest⟩
  · exact absurd hr.symm hret
  · refine ⟨hs, ?_⟩
    rcases hrest with ⟨r, e, _, hr⟩ | ⟨r, hu, hv⟩
    · exact absurd hr.symm hret
    · exact ⟨r, hu, (Trans_validateLogoutResponse_iff env sp idp r hidp).mp hv⟩

/-- an unsigned logout response is refused: the validator's "no Signature element" answer is an error like any other here -/
theorem logoutTail_unsigned_refused (env : Trans.Env) (sp : Trans.ServiceProvider) (retErr : GoError) (hret : retErr ≠ none)
    (hsent : env.errSignatureElementNotPresent ≠ none)
    (hs : env.validateSignature sp env.docRoot = .ok env.errSignatureElementNotPresent) :
    Trans.logoutFormTail env sp retErr = .ok retErr := by
  unfold Trans.logoutFormTail
  simp only [hs, Outcome.ok_bind', Outcome.pure_eq_ok]
  cases he : env.errSignatureElementNotPresent with
  | none => exact absurd he hsent
  | some e => simp

end SamlVerif.TransSP
