/-
  C17 — Middleware login completes only in the browser that started it, at its URL.

  "Through the middleware, with IdP-initiated login disabled, a SAML response establishes a session
   only for a browser that presents the authentic, unexpired tracking cookie of the very request the
   response answers.  That browser is then redirected only to a URL it originally asked for - the one
   recorded in the authentic tracking cookie named by the accompanying RelayState, which is then
   cleared - or to the configured default when no RelayState comes back, never to a caller-chosen
   location, and the session cookie is HttpOnly (and Secure on https deployments).  With RelayState
   echoed faithfully, any interleaving of several pending login flows in one browser completes each
   flow at its own original URL, and a response delivered without, or with only another flow's,
   tracking cookie - or after the tracking lifetime - is refused with no session cookie set."

  The request jar is *any* list of cookies (subset, renaming, tampering, replay are all just lists);
  histories are lists of flows of any length.
-/
import SamlVerif.Model.MwFlow
import SamlVerif.Props.C16
import SamlVerif.Generated.Facts

namespace SamlVerif.MW
open SamlVerif.Jwt

/-- what an accepted tracking token is -/
structure AuthenticTracker (c : Codec) (now : Int) (t : Token) (tr : TrackedRequest) : Prop where
  wf : t.wellFormed = true
  alg : t.alg = c.alg
  mac : t.mac = .by c.keyId c.alg
  marker : t.claims.samlAuthnRequest = true
  aud : t.claims.aud = c.audience
  iss : t.claims.iss = c.issuer
  unexpired : t.claims.exp = 0 ∨ now < t.claims.exp
  content : tr = ⟨t.claims.sub, t.claims.trackedID, t.claims.trackedURI⟩

theorem decodeTracker_sound (c : Codec) (now : Int) (t : Token) (tr : TrackedRequest)
    (h : decodeTracker c now t = .ok tr) : AuthenticTracker c now t tr := by
  unfold decodeTracker at h
  split at h
  · rename_i cl hp
    obtain ⟨h1, h2, h3, h4, h5⟩ := parse_ok c now t cl hp
    split at h
    · simp at h
    · rename_i ha
      split at h
      · simp at h
      · rename_i hi
        split at h
        · simp at h
        · rename_i hm
          simp at h
          unfold audOK at ha
          unfold issOK at hi
          unfold claimsValid at h5
          simp at ha hi hm h5
          subst h4
          exact ⟨h1, h2, h3, hm, ha.2, hi.2, h5.1.1, h.symm⟩
  · simp at h
  · simp at h

theorem decodeTracker_complete (c : Codec) (t0 now : Int) (tr : TrackedRequest)
    (haud : c.audience ≠ "") (hiss : c.issuer ≠ "") (hother : c.alg ≠ .other) (ht0 : t0 ≠ 0)
    (h1 : t0 ≤ now) (h2 : now < t0 + c.maxAge) :
    decodeTracker c now (encodeTracker c t0 tr) = .ok tr := by
  unfold decodeTracker parse encodeTracker claimsValid audOK issOK
  simp [hother, haud, hiss, ht0, h1, h2]

/-- after its lifetime a tracking token is worthless -/
theorem decodeTracker_expired (c : Codec) (t0 now : Int) (tr : TrackedRequest) (hne : t0 + c.maxAge ≠ 0)
    (h : t0 + c.maxAge ≤ now) : ∀ tr', decodeTracker c now (encodeTracker c t0 tr) ≠ .ok tr' := by
  intro tr' hd
  have := (decodeTracker_sound _ _ _ _ hd).unexpired
  simp only [encodeTracker] at this
  rcases this with h0 | h0
  · exact hne h0
  · omega

theorem trackedOf_some (cfg : Cfg) (now : Int) (c : Cookie) (tr : TrackedRequest)
    (h : trackedOf cfg now c = some tr) :
    c.name = .tracking tr.index ∧ decodeTracker cfg.trackCodec now c.tok = .ok tr := by
  unfold trackedOf at h
  split at h
  · rename_i i hn
    split at h
    · rename_i tr' hd
      split at h
      · rename_i hi
        simp at h
        subst h
        exact ⟨by rw [hn, hi], hd⟩
      · simp at h
    · simp at h
  · simp at h

theorem acc_of (v a c : Bool) (h : ¬ ((!(v && (a || c))) = true)) (ha : a = false) : v = true ∧ c = true := by
  cases v <;> cases a <;> cases c <;> simp_all

theorem mem_possibleIDs (tracked : List TrackedRequest) (id : String)
    (h : id ∈ possibleRequestIDs false tracked) : ∃ t ∈ tracked, t.samlRequestID = id := by
  unfold possibleRequestIDs at h
  simpa using h

/-- **Binding**: a session cookie is set only if the request's own jar holds a cookie that (a) is an
    authentic, unexpired tracking token of this SP, (b) is stored under the name its signed index
    prescribes, and (c) records exactly the request ID the response answers. -/
theorem C17_bound (cfg : Cfg) (now : Int) (jar : List Cookie) (resp : SamlResp) (relay : String)
    (hidp : cfg.allowIdP = false) (s : Token) (h : (serveACS cfg now jar resp relay).session = some s) :
    resp.valid = true ∧
    ∃ c ∈ jar, ∃ tr, c.name = .tracking tr.index ∧ AuthenticTracker cfg.trackCodec now c.tok tr ∧
      tr.samlRequestID = resp.inResponseTo := by
  unfold serveACS at h
  simp only at h
  split at h
  · simp [forbidden] at h
  · rename_i hacc
    have hacc' := acc_of _ _ _ hacc hidp
    rw [hidp] at hacc'
    refine ⟨hacc'.1, ?_⟩
    have hmem : resp.inResponseTo ∈ possibleRequestIDs false (getTrackedRequests cfg now jar) := by
      simpa using hacc'.2
    obtain ⟨tr, htr, hid⟩ := mem_possibleIDs _ _ hmem
    unfold getTrackedRequests at htr
    rw [List.mem_filterMap] at htr
    obtain ⟨c, hc, hto⟩ := htr
    obtain ⟨hn, hd⟩ := trackedOf_some cfg now c tr hto
    exact ⟨c, hc, tr, hn, decodeTracker_sound _ _ _ _ hd, hid⟩

/-- **Refusal**: without a matching authentic tracking cookie — none at all, only other flows', forged,
    renamed or expired ones — the response is refused and no session cookie is set. -/
theorem C17_refuse (cfg : Cfg) (now : Int) (jar : List Cookie) (resp : SamlResp) (relay : String)
    (hidp : cfg.allowIdP = false)
    (h : ∀ c ∈ jar, ∀ tr, trackedOf cfg now c = some tr → tr.samlRequestID ≠ resp.inResponseTo) :
    serveACS cfg now jar resp relay = forbidden := by
  unfold serveACS
  simp only
  split
  · rfl
  · rename_i hacc
    exfalso
    have hacc' := acc_of _ _ _ hacc hidp
    rw [hidp] at hacc'
    have hmem : resp.inResponseTo ∈ possibleRequestIDs false (getTrackedRequests cfg now jar) := by
      simpa using hacc'.2
    obtain ⟨tr, htr, hid⟩ := mem_possibleIDs _ _ hmem
    unfold getTrackedRequests at htr
    rw [List.mem_filterMap] at htr
    obtain ⟨c, hc, hto⟩ := htr
    exact h c hc tr hto hid

/-- **Redirect target and clearing**: on success the Location is the default (no RelayState) or the
    URI recorded in the authentic tracking cookie named by RelayState, which this reply clears —
    never any other request data. -/
theorem C17_redirect (cfg : Cfg) (now : Int) (jar : List Cookie) (resp : SamlResp) (relay : String)
    (hidp : cfg.allowIdP = false) (h : (serveACS cfg now jar resp relay).status = 302) :
    (relay = "" ∧ (serveACS cfg now jar resp relay).location = cfg.defaultURI ∧
        (serveACS cfg now jar resp relay).cleared = []) ∨
    (relay ≠ "" ∧ ∃ c ∈ jar, ∃ tr, c.name = .tracking relay ∧ tr.index = relay ∧
        AuthenticTracker cfg.trackCodec now c.tok tr ∧
        (serveACS cfg now jar resp relay).location = tr.uri ∧
        (serveACS cfg now jar resp relay).cleared = [relay]) := by
  unfold serveACS at h ⊢
  simp only at h ⊢
  split
  · rename_i hacc
    rw [if_pos hacc] at h
    simp [forbidden] at h
  · rename_i hacc
    rw [if_neg hacc] at h
    by_cases hr : relay = ""
    · left
      simp [hr]
    · right
      refine ⟨hr, ?_⟩
      simp only [hr, if_false] at h ⊢
      cases hg : getTrackedRequest cfg now jar relay with
      | ok tr =>
        simp only [hg]
        unfold getTrackedRequest at hg
        split at hg
        · simp at hg
        · rename_i c hf
          split at hg
          · rename_i tr' hd
            split at hg
            · rename_i hi
              simp at hg
              subst hg
              have hmem := List.mem_of_find?_eq_some hf
              have hname := List.find?_some hf
              exact ⟨c, hmem, tr', by simpa using hname, hi, decodeTracker_sound _ _ _ _ hd, by simp, by simp⟩
            · simp at hg
          · simp at hg
          · simp at hg
      | err e =>
        simp only [hg, hidp, Bool.false_eq_true, and_false, if_false] at h
        simp [forbidden] at h
      | panic w =>
        simp only [hg] at h
        simp [forbidden] at h

/-- **Cookie flags**: the session cookie is HttpOnly, and Secure on https deployments. -/
theorem C17_flags (cfg : Cfg) (now : Int) (jar : List Cookie) (resp : SamlResp) (relay : String) (s : Token)
    (h : (serveACS cfg now jar resp relay).session = some s) :
    (serveACS cfg now jar resp relay).httpOnly = true ∧ (serveACS cfg now jar resp relay).secure = cfg.https := by
  unfold serveACS at h ⊢
  simp only at h ⊢
  split
  · rename_i hacc; rw [if_pos hacc] at h; simp [forbidden] at h
  · rename_i hacc
    rw [if_neg hacc] at h
    split
    · exact ⟨rfl, rfl⟩
    · rename_i hr
      simp only [hr, if_false] at h
      split
      · exact ⟨rfl, rfl⟩
      · rename_i e hg
        rw [hg] at h
        split
        · exact ⟨rfl, rfl⟩
        · rename_i hc; simp only [hc, if_false] at h; simp [forbidden] at h
      · rename_i w hg; rw [hg] at h; simp [forbidden] at h

/-! ### interleaved flows -/

/-- a login flow the browser started: index (= RelayState), request ID, original URL, start time -/
structure Flow where
  index : String
  id : String
  uri : String
  t0 : Int
  deriving DecidableEq, Repr

def flowCookie (cfg : Cfg) (f : Flow) : Cookie :=
  ⟨.tracking f.index, encodeTracker cfg.trackCodec f.t0 ⟨f.index, f.id, f.uri⟩⟩

/-- codec sanity (true of every `samlsp.New` deployment) -/
structure CodecOK (c : Codec) : Prop where
  aud : c.audience ≠ ""
  iss : c.issuer ≠ ""
  alg : c.alg ≠ .other

/-- the flow is pending at `now`: started, not yet past the tracking lifetime -/
def Pending (cfg : Cfg) (now : Int) (f : Flow) : Prop :=
  f.t0 ≠ 0 ∧ f.t0 ≤ now ∧ now < f.t0 + cfg.trackCodec.maxAge

theorem trackedOf_flowCookie (cfg : Cfg) (now : Int) (f : Flow) (hc : CodecOK cfg.trackCodec)
    (hp : Pending cfg now f) : trackedOf cfg now (flowCookie cfg f) = some ⟨f.index, f.id, f.uri⟩ := by
  unfold trackedOf flowCookie
  simp only
  rw [decodeTracker_complete _ _ _ _ hc.aud hc.iss hc.alg hp.1 hp.2.1 hp.2.2]
  simp

/-- **One flow among many**: in a jar with unique cookie names that contains the cookie of a pending
    flow `f` — next to any number of other cookies, pending flows included — the response answering
    `f`, delivered with `f`'s RelayState, is accepted, sets a session, redirects to `f`'s own URL and
    clears exactly `f`'s tracking cookie. -/
theorem C17_completes (cfg : Cfg) (now : Int) (jar : List Cookie) (f : Flow) (a : AssertionA)
    (hc : CodecOK cfg.trackCodec) (hp : Pending cfg now f) (hidx : f.index ≠ "")
    (hmem : flowCookie cfg f ∈ jar)
    (huniq : ∀ c ∈ jar, c.name = .tracking f.index → c = flowCookie cfg f) :
    let r := serveACS cfg now jar ⟨true, f.id, a⟩ f.index
    r.status = 302 ∧ r.location = f.uri ∧ r.cleared = [f.index] ∧ r.session.isSome = true := by
  have hto := trackedOf_flowCookie cfg now f hc hp
  have hids : (possibleRequestIDs cfg.allowIdP (getTrackedRequests cfg now jar)).contains f.id = true := by
    rw [List.contains_iff_mem]
    unfold possibleRequestIDs getTrackedRequests
    rw [List.mem_append]
    right
    rw [List.mem_map]
    refine ⟨⟨f.index, f.id, f.uri⟩, ?_, rfl⟩
    rw [List.mem_filterMap]
    exact ⟨_, hmem, hto⟩
  have hget : getTrackedRequest cfg now jar f.index = .ok ⟨f.index, f.id, f.uri⟩ := by
    unfold getTrackedRequest
    cases hf : jar.find? (fun c => c.name = .tracking f.index) with
    | none =>
      have := List.find?_eq_none.mp hf (flowCookie cfg f) hmem
      simp [flowCookie] at this
    | some c =>
      have hcm := List.mem_of_find?_eq_some hf
      have hcn := List.find?_some hf
      have := huniq c hcm (by simpa using hcn)
      subst this
      simp only [flowCookie]
      rw [decodeTracker_complete _ _ _ _ hc.aud hc.iss hc.alg hp.1 hp.2.1 hp.2.2]
      simp
  have hcond : (!(true && (cfg.allowIdP || (possibleRequestIDs cfg.allowIdP (getTrackedRequests cfg now jar)).contains f.id))) = false := by
    rw [hids]; simp
  unfold serveACS
  simp only [hcond, Bool.false_eq_true, if_false, hidx, hget]
  simp

/-- the other flows' cookies survive the completion of `f` -/
theorem applyReply_keeps_others (jar : List Cookie) (r : Reply) (c : Cookie) (i : String)
    (hc : c ∈ jar) (hn : c.name = .tracking i) (hi : i ∉ r.cleared) (ht : r.tracked = none) :
    c ∈ applyReply jar r := by
  unfold applyReply
  simp only [ht]
  have h1 : c ∈ jar.filter (fun c => match c.name with | .tracking i => !r.cleared.contains i | _ => true) := by
    rw [List.mem_filter]
    refine ⟨hc, ?_⟩
    rw [hn]
    simpa using hi
  cases r.session with
  | none => exact h1
  | some t =>
    simp only [List.mem_cons]
    right
    rw [List.mem_filter]
    exact ⟨h1, by rw [hn]; simp⟩

/-- **Any interleaving**: deliver the responses of pending flows with distinct indexes in *any* order
    (the list `order`), applying each reply to the browser's jar: every one of them completes at its
    own URL.  By induction over the order, for any number of flows. -/
def completeAll (cfg : Cfg) (now : Int) (a : AssertionA) : List Cookie → List Flow → List Reply
  | _, [] => []
  | jar, f :: rest =>
    let r := serveACS cfg now jar ⟨true, f.id, a⟩ f.index
    r :: completeAll cfg now a (applyReply jar r) rest

/-- every reply completes its own flow -/
def AllComplete : List Reply → List Flow → Prop
  | [], [] => True
  | r :: rs, f :: fs => (r.status = 302 ∧ r.location = f.uri ∧ r.session.isSome = true) ∧ AllComplete rs fs
  | _, _ => False

theorem C17_interleave (cfg : Cfg) (now : Int) (a : AssertionA) (hc : CodecOK cfg.trackCodec)
    (order : List Flow) (jar : List Cookie)
    (hpend : ∀ f ∈ order, Pending cfg now f ∧ f.index ≠ "")
    (hdistinct : order.Pairwise (fun f g => f.index ≠ g.index))
    (hjar : ∀ f ∈ order, flowCookie cfg f ∈ jar ∧ ∀ c ∈ jar, c.name = .tracking f.index → c = flowCookie cfg f) :
    AllComplete (completeAll cfg now a jar order) order := by
  induction order generalizing jar with
  | nil => simp [completeAll, AllComplete]
  | cons f rest ih =>
    unfold completeAll
    have hf := hpend f (by simp)
    have hj := hjar f (by simp)
    have hcomp := C17_completes cfg now jar f a hc hf.1 hf.2 hj.1 hj.2
    simp only at hcomp
    refine ⟨⟨hcomp.1, hcomp.2.1, hcomp.2.2.2⟩, ?_⟩
    apply ih
    · intro g hg; exact hpend g (by simp [hg])
    · exact (List.pairwise_cons.mp hdistinct).2
    · intro g hg
      have hne : f.index ≠ g.index := (List.pairwise_cons.mp hdistinct).1 g hg
      have hgj := hjar g (by simp [hg])
      constructor
      · apply applyReply_keeps_others _ _ _ g.index hgj.1 rfl
        · rw [hcomp.2.2.1]; simp; exact fun h => hne h.symm
        · unfold serveACS; simp only; split
          · rfl
          · split
            · rfl
            · split
              · rfl
              · split <;> rfl
              · rfl
      · intro c hcm hcn
        apply hgj.2 c _ hcn
        -- members of the new jar with a tracking name were members of the old jar
        unfold applyReply at hcm
        have htr : (serveACS cfg now jar ⟨true, f.id, a⟩ f.index).tracked = none := by
          unfold serveACS; simp only; split
          · rfl
          · split
            · rfl
            · split
              · rfl
              · split <;> rfl
              · rfl
        simp only [htr] at hcm
        cases hs : (serveACS cfg now jar ⟨true, f.id, a⟩ f.index).session with
        | none =>
          simp only [hs] at hcm
          exact (List.mem_filter.mp hcm).1
        | some t =>
          simp only [hs, List.mem_cons] at hcm
          rcases hcm with rfl | hcm
          · simp at hcn
          · exact (List.mem_filter.mp (List.mem_filter.mp hcm).1).1

/-! ### obligations at the regenerated facts -/

/-- the tracking lifetime is the response-freshness tolerance: the default tracker and its codec both
    take `MaxAge` from `saml.MaxIssueDelay` -/
theorem C17_lifetime :
    Facts.trackerMaxAge = [("DefaultTrackedRequestCodec", "saml.MaxIssueDelay"), ("DefaultRequestTracker", "saml.MaxIssueDelay")] := by
  decide

/-- the tracking cookie is written with the literal `HttpOnly: true`; the session cookie takes the
    provider's field, which `DefaultSessionProvider` sets to `true` (checked dynamically by the harness) -/
theorem C17_httponly_literals :
    ("request_tracker_cookie.go", "true") ∈ Facts.cookieHttpOnly ∧ ("session_cookie.go", "c.HTTPOnly") ∈ Facts.cookieHttpOnly := by
  decide

/-! Non-vacuity -/
def exCfg : Cfg := ⟨⟨.rs256, 1, "https://sp/", "https://sp/", 90⟩, ⟨.rs256, 1, "https://sp/", "https://sp/", 3600⟩, "/", false, true⟩
def fA : Flow := ⟨"ia", "id-a", "/a", 1000⟩
def fB : Flow := ⟨"ib", "id-b", "/b?x=1", 1010⟩

example : (completeAll exCfg 1050 ⟨some "u", [], []⟩ [flowCookie exCfg fA, flowCookie exCfg fB] [fB, fA]).map
    (fun r => (r.status, r.location)) = [(302, "/b?x=1"), (302, "/a")] := by decide
example : serveACS exCfg 1050 [flowCookie exCfg fB] ⟨true, "id-a", ⟨some "u", [], []⟩⟩ "ib" = forbidden := by decide
example : serveACS exCfg 1095 [flowCookie exCfg fA] ⟨true, "id-a", ⟨some "u", [], []⟩⟩ "ia" = forbidden := by decide

end SamlVerif.MW
