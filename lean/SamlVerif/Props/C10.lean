/-
  C10 — XML encryption round-trips for every offered algorithm and interoperates.

  "For every plaintext, every key of the right size and every block cipher and key-transport
   algorithm the xmlenc package offers for encryption, decrypting what the package encrypted returns
   the plaintext unchanged. …"

  Full statement (kept visible):   ∀ bc ∈ offered block ciphers, ∀ kt ∈ offered key transports ∪ {direct},
      Decrypt key (Encrypt bc kt key plaintext nonce) = plaintext.
  Proved: the framing theorems for every abstract block cipher / AEAD (`C10_cbc_roundtrip`,
  `C10_gcm_roundtrip_spec`, `C10_padding`), the table obligations at the regenerated facts
  (`C10_block_table`, `C10_keytransport_table`), and the composition `C10_all_offered_partial` for
  every offered combination whose block cipher runs in CBC mode.  AES-128-GCM *encryption* is a known
  finding of the pinned tree that its own golden file makes unrepairable (DESIGN §3); the
  counterexample is `C10_gcm_encrypt_counterexample`.
-/
import SamlVerif.Proofs.Xmlenc
import SamlVerif.Generated.Facts

namespace SamlVerif.Xmlenc

/-- xmlenc padding round-trips for every plaintext and every block size 1..255. -/
theorem C10_padding (p : Bytes) (bs : Nat) (h0 : 0 < bs) (h255 : bs ≤ 255) :
    stripPadding (appendPadding p bs) = .ok p := strip_append p bs h0 h255

/-- CBC: decrypt ∘ encrypt = id for every plaintext length (0 included), every IV, every cipher. -/
theorem C10_cbc_roundtrip (c : Block) (hc : c.Good) (iv : Bytes) (hiv : iv.length = c.bs) (p : Bytes) :
    cbcDecrypt c (cbcEncrypt c iv p) = .ok p := cbc_roundtrip c hc iv hiv p

/-- GCM as the W3C identifier prescribes it (nonce ‖ seal) round-trips through `GCM.Decrypt`. -/
theorem C10_gcm_roundtrip_spec (a : Aead) (ha : a.Good) (nonce p : Bytes) (hn : nonce.length = a.nonceSize) :
    gcmDecrypt a (gcmEncryptSpec a nonce p) = .ok p := gcm_roundtrip_spec a ha nonce p hn

/-! ### obligations at the regenerated facts -/

/-- Every offered block cipher: its constructor accepts its key size, the key size is the one its
    W3C identifier prescribes, and a decrypter is registered under its identifier. -/
theorem C10_block_table :
    ∀ f ∈ Facts.blockCiphers, f.WF Facts.registeredDecrypters = true := by decide

/-- Every offered key transport has a registered decrypter and writes a digest identifier that the
    decrypting side knows. -/
theorem C10_keytransport_table :
    ∀ f ∈ Facts.keyTransports, f.WF Facts.registeredDecrypters Facts.registeredDigests = true := by decide

theorem C10_facts_extracted : Facts.extractionFailures = [] := by decide

/-- Every table entry's key is accepted by its constructor (so `Encrypt`/`Decrypt` reach the framing). -/
theorem C10_ctor_accepts (f : BlockCipherFact) (hf : f ∈ Facts.blockCiphers) :
    ∃ bs, ctorAccepts f.ctor f.keySize = some bs ∧ 0 < bs ∧ bs ≤ 255 := by
  have h := C10_block_table f hf
  unfold BlockCipherFact.WF at h
  simp only [Bool.and_eq_true] at h
  obtain ⟨⟨h1, _⟩, _⟩ := h
  unfold ctorAccepts at h1 ⊢
  split
  · split
    · exact ⟨16, rfl, by decide, by decide⟩
    · rename_i hc hk; simp [hc, hk] at h1
  · split
    · split
      · exact ⟨8, rfl, by decide, by decide⟩
      · rename_i hc1 hc2 hk; simp [hc1, hc2, hk] at h1
    · split
      · split
        · exact ⟨8, rfl, by decide, by decide⟩
        · rename_i hc1 hc2 hc3 hk; simp [hc1, hc2, hc3, hk] at h1
      · rename_i hc1 hc2 hc3; simp [hc1, hc2, hc3] at h1

/-- **Composition (partial: CBC-mode block ciphers)**.  For every offered CBC block cipher `f`,
    every key transport (modelled by the key it delivers: `rsaDec` returns the transported key, or the
    key is given directly), every key of the table's size, every IV and plaintext: the element the
    package builds — EncryptionMethod = f.algorithm, CipherValue = IV ‖ CBC(pad p) — decrypts to `p`
    through the registry dispatch. -/
theorem C10_all_offered_partial (env : Env) (f : BlockCipherFact) (hf : f ∈ Facts.blockCiphers)
    (hmode : f.mode = .cbc) (hreg : env.lookup f.algorithm = some (.block f))
    (kb : Bytes) (hk : kb.length = f.keySize) (c : Block) (hc : c.Good) (hblock : env.blockOf f kb = some c)
    (iv : Bytes) (hiv : iv.length = c.bs) (p : Bytes) (dg : Option String) (cert : Option Bool) :
    decrypt env (.bytes kb) [⟨some f.algorithm, dg, cert, .bytes (cbcEncrypt c iv p)⟩] = .ok p := by
  unfold decrypt
  simp only [hreg]
  have e : ¬ (kb.length ≠ f.keySize) := by simp [hk]
  simp only [if_neg e, getCiphertext, hmode, hblock]
  exact cbc_roundtrip c hc iv hiv p

/-- … and with the content key delivered through an RSA key transport layer. -/
theorem C10_all_offered_transport_partial (env : Env) (f : BlockCipherFact)
    (hmode : f.mode = .cbc) (hreg : env.lookup f.algorithm = some (.block f))
    (kt : String) (s : RsaScheme) (hkt : env.lookup kt = some (.rsa s))
    (kb : Bytes) (hk : kb.length = f.keySize) (c : Block) (hc : c.Good) (hblock : env.blockOf f kb = some c)
    (iv : Bytes) (hiv : iv.length = c.bs) (p : Bytes)
    (id : Nat) (wrapped : Bytes) (d : String) (hd : env.digests.contains d = true)
    (hrsa : env.rsaDec s d id wrapped = some kb) :
    decrypt env (.rsa id)
      [⟨some f.algorithm, none, none, .bytes (cbcEncrypt c iv p)⟩,
       ⟨some kt, some d, some true, .bytes wrapped⟩] = .ok p := by
  have hinner : decrypt env (.rsa id) [⟨some kt, some d, some true, .bytes wrapped⟩] = .ok kb := by
    unfold decrypt
    simp only [hkt]
    unfold rsaDecrypt getCiphertext
    have hd' : d ∈ env.digests := by simpa using hd
    simp [hd', hrsa]
  unfold decrypt
  simp only [hreg, hinner, Outcome.map]
  have e : ¬ (kb.length ≠ f.keySize) := by simp [hk]
  simp only [if_neg e, getCiphertext, hmode, hblock]
  exact cbc_roundtrip c hc iv hiv p

/-! ### the GCM encryption defect (known finding) -/

/-- a toy AEAD: seal n p = p ‖ [sum of nonce bytes + length]; satisfies `Aead.Good`-style opening -/
def toyAead : Aead :=
  { nonceSize := 2, overhead := 1,
    sealF := fun n p => p ++ [n.foldl (· + ·) 0 + UInt8.ofNat p.length],
    openF := fun n c =>
      match c.getLast? with
      | none => none
      | some t => if t = n.foldl (· + ·) 0 + UInt8.ofNat (c.length - 1) then some c.dropLast else none }

/-- What the pinned `GCM.Encrypt` emits does not decrypt to the plaintext (it is not even
    `nonce ‖ seal nonce p`): replayed on the real code by the correspondence check. -/
theorem C10_gcm_encrypt_counterexample :
    gcmDecrypt toyAead (gcmEncryptPinned toyAead 16 [7, 9] [1, 2, 3]) ≠ .ok [1, 2, 3] := by decide

/-! Non-vacuity: the hypotheses of the round-trip theorems are satisfiable. -/
def idBlock : Block := ⟨16, id, id⟩
example : idBlock.Good := ⟨by decide, by decide, fun _ h => h, fun _ _ => rfl⟩
example : cbcDecrypt idBlock (cbcEncrypt idBlock (List.replicate 16 5) []) = .ok [] := by decide
example : cbcDecrypt (toyBlock [9, 8, 7] 8) (cbcEncrypt (toyBlock [9, 8, 7] 8) (List.replicate 8 3)
    [1, 2, 3, 4, 5, 6, 7, 8, 9]) = .ok [1, 2, 3, 4, 5, 6, 7, 8, 9] := by decide

end SamlVerif.Xmlenc
