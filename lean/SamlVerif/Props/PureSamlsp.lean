/-
  The models' reading of "for all sequences of message creations / validations" — package samlsp.

  Every model of a middleware / tracker / codec method is a *function* of the configuration value and the message, so a
  sequence of calls is the single call repeated and the per-call theorems hold for every call of every
  sequence.  That is the code's behaviour only while the code keeps no state between calls.  These are
  obligations at the regenerated hidden-state facts (extract/state.go): no unexported field in `Middleware`, `CookieRequestTracker`, `CookieSessionProvider`, `JWTSessionCodec`, `JWTTrackedRequestCodec`, no assignment through their pointer receivers, no package-level variable other than error values.
  A cache on the configuration value, a buffer pool or memo table at package level, break one of them
  whatever the generators happen to reach (the harness's stateful sequences are the search for the
  failing history).
-/
import SamlVerif.Generated.Facts

namespace SamlVerif.Pure

theorem Pure_samlsp_no_hidden_fields : Facts.configUnexportedFields_samlsp = [] := by decide

theorem Pure_samlsp_no_receiver_writes : Facts.configReceiverWrites_samlsp = [] := by decide

theorem Pure_samlsp_package_state : Facts.packageState_samlsp = [] := by decide

end SamlVerif.Pure
