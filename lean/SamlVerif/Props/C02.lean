/-
  C02 — SP enforces assertion and response validity windows at documented tolerances.

  "With the current time taken from the library clock, a response is accepted only if that time is
   no later than the Response and Assertion IssueInstant plus MaxIssueDelay, no earlier than
   Conditions.NotBefore minus MaxClockSkew, and no later than Conditions.NotOnOrAfter and every
   SubjectConfirmationData.NotOnOrAfter plus MaxClockSkew; an otherwise valid response strictly
   inside all of these windows is accepted.  The tolerances are exactly the public MaxIssueDelay and
   MaxClockSkew settings, whatever values they hold, and the windows hold for the assertion actually
   returned and for every one of its subject confirmations, whatever its position in the response."

  All theorems quantify over every configuration (`cfg.delay`, `cfg.skew : Int`, negative and zero
  included), every instant, every response with any number of assertions in any order and any
  number of subject confirmations.
-/
import SamlVerif.Proofs.SPStruct

namespace SamlVerif.SP

/-- The windows of the property, for a response `r` and the returned assertion `a`. -/
structure Windows (cfg : Cfg) (now : Int) (r : ResponseS) (a : AssertionS) : Prop where
  respFresh : now ≤ r.issueInstant + cfg.delay
  assnFresh : now ≤ a.issueInstant + cfg.delay
  cond : ∃ c, a.conditions = some c ∧ c.notBefore - cfg.skew ≤ now ∧ now ≤ c.notOnOrAfter + cfg.skew
  confs : ∃ scs, a.subject = some scs ∧
            ∀ sc ∈ scs, ∃ d, sc.data = some d ∧ now ≤ d.notOnOrAfter + cfg.skew

theorem firstGood_valid {cfg now ids need l a} (h : FirstGood cfg now ids need l a) :
    AssertionValid cfg now ids a := by
  obtain ⟨pre, e, post, _, hg, rfl, _⟩ := h
  exact hg.valid

theorem firstGood_mem {cfg now ids need l a} (h : FirstGood cfg now ids need l a) :
    ∃ e ∈ l, e.a = a ∧ EntryGood cfg now ids need e := by
  obtain ⟨pre, e, post, hl, hg, ha, _⟩ := h
  exact ⟨e, by simp [hl], ha, hg⟩

/-- **Soundness**: whatever is accepted lies inside every window, at exactly the configured
    tolerances; this is about the assertion actually returned, whatever its index, and about every
    one of its confirmations. -/
theorem C02_sound (cfg : Cfg) (now : Int) (ids : List String) (url : String) (need : Need)
    (respSig : SigState) (r : ResponseS) (a : AssertionS)
    (h : parseResponse cfg now ids url need respSig r = .ok a) : Windows cfg now r a := by
  obtain ⟨hr, hf⟩ := (accept_iff _ _ _ _ _ _ _ _).mp h
  have hv := firstGood_valid hf
  obtain ⟨scs, hs, hall⟩ := hv.subj
  obtain ⟨c, hc, h1, h2, _⟩ := hv.cond
  refine ⟨hr.fresh, hv.fresh, ⟨c, hc, h1, h2⟩, ⟨scs, hs, ?_⟩⟩
  intro sc hsc
  obtain ⟨d, hd, _, _, h3⟩ := (hall sc hsc).ex
  exact ⟨d, hd, h3⟩

/-- The returned assertion is one of the response's assertion children (no other content). -/
theorem C02_returned_is_child (cfg : Cfg) (now : Int) (ids : List String) (url : String)
    (need : Need) (respSig : SigState) (r : ResponseS) (a : AssertionS)
    (h : parseResponse cfg now ids url need respSig r = .ok a) : ∃ e ∈ r.entries, e.a = a := by
  obtain ⟨_, hf⟩ := (accept_iff _ _ _ _ _ _ _ _).mp h
  obtain ⟨e, he, ha, _⟩ := firstGood_mem hf
  refine ⟨e, ?_, ha⟩
  unfold ordered at he
  simp at he
  rcases he with h | h <;> exact h.1

theorem exists_firstGood (cfg : Cfg) (now : Int) (ids : List String) (need : Need) (l : List Entry)
    (h : ∃ e ∈ l, EntryGood cfg now ids need e) : ∃ a, FirstGood cfg now ids need l a := by
  induction l with
  | nil => simp at h
  | cons x rest ih =>
    by_cases hx : EntryGood cfg now ids need x
    · exact ⟨x.a, [], x, rest, rfl, hx, rfl, by simp⟩
    · obtain ⟨e, he, hg⟩ := h
      simp at he
      rcases he with rfl | he
      · exact absurd hg hx
      · obtain ⟨a, pre, e', post, hl, hg', ha, hpre⟩ := ih ⟨e, he, hg⟩
        refine ⟨a, x :: pre, e', post, by simp [hl], hg', ha, ?_⟩
        intro e'' he''
        simp at he''
        rcases he'' with rfl | he''
        · exact hx
        · exact hpre e'' he''

theorem mem_ordered (es : List Entry) (e : Entry) : e ∈ ordered es ↔ e ∈ es := by
  unfold ordered
  simp
  constructor
  · rintro (h | h) <;> exact h.1
  · intro h
    by_cases hb : isEnc e = true
    · exact Or.inl ⟨h, hb⟩
    · exact Or.inr ⟨h, by simpa using hb⟩

/-- **Completeness**: a response whose response-level conditions hold and which contains an
    acceptable assertion child (in particular one strictly inside all windows) is accepted. -/
theorem C02_complete (cfg : Cfg) (now : Int) (ids : List String) (url : String) (need : Need)
    (respSig : SigState) (r : ResponseS)
    (hr : RespOK cfg now ids url need respSig r)
    (he : ∃ e ∈ r.entries, EntryGood cfg now ids (needAfter need respSig) e) :
    ∃ a, parseResponse cfg now ids url need respSig r = .ok a := by
  obtain ⟨e, hm, hg⟩ := he
  obtain ⟨a, hf⟩ := exists_firstGood cfg now ids (needAfter need respSig) (ordered r.entries)
    ⟨e, (mem_ordered _ _).mpr hm, hg⟩
  exact ⟨a, (accept_iff _ _ _ _ _ _ _ _).mpr ⟨hr, hf⟩⟩

/-- Window-wise rejection: each bound, when violated on the only path to acceptance, rejects.
    Stated contrapositively from soundness for the single bounds (the forms the mutants break). -/
theorem C02_reject_stale_response (cfg now ids url need respSig r)
    (h : r.issueInstant + cfg.delay < now) :
    ∀ a, parseResponse cfg now ids url need respSig r ≠ .ok a := by
  intro a ha
  have := (C02_sound _ _ _ _ _ _ _ _ ha).respFresh
  omega

theorem C02_reject_expired_confirmation (cfg now ids url need respSig r a)
    (h : parseResponse cfg now ids url need respSig r = .ok a) (scs : List SubjConf)
    (hs : a.subject = some scs) (sc : SubjConf) (hsc : sc ∈ scs) (d : SCData) (hd : sc.data = some d) :
    now ≤ d.notOnOrAfter + cfg.skew := by
  obtain ⟨scs', hs', hall⟩ := (C02_sound _ _ _ _ _ _ _ _ h).confs
  rw [hs] at hs'
  cases hs'
  obtain ⟨d', hd', hle⟩ := hall sc hsc
  rw [hd] at hd'
  cases hd'
  exact hle

/-- The boundary is inclusive on every bound, as the property words it ("no later than"). -/
theorem C02_boundary_inclusive (cfg : Cfg) (ids : List String) (a : AssertionS) (c : Conditions)
    (d : SCData) (t : Int)
    (hi : a.issuer = cfg.idpEntityID) (hs : a.subject = some [⟨some d⟩]) (hc : a.conditions = some c)
    (hia : a.issueInstant + cfg.delay = t)
    (hnb : c.notBefore - cfg.skew = t) (hna : c.notOnOrAfter + cfg.skew = t)
    (hd : d.notOnOrAfter + cfg.skew = t) (hrec : d.recipient = cfg.acsURL)
    (hid : cfg.allowIdP = false → d.inResponseTo ∈ ids) (haud : AudienceOK cfg a c) :
    AssertionValid cfg t ids a := by
  refine ⟨by omega, hi, ⟨_, hs, ?_⟩, ⟨c, hc, by omega, by omega, haud⟩⟩
  intro sc hsc
  simp at hsc
  subst hsc
  exact ⟨d, rfl, hid, hrec, by omega⟩

/-! Non-vacuity: a concrete response that is accepted, with two assertions of which the first is
    expired (so the returned one is at index 1) and two confirmations. -/
def exCfg : Cfg :=
  { idpEntityID := "idp", acsURL := "https://sp/acs", entityID := "sp", metadataURL := "https://sp/md",
    allowIdP := false, reqIdValidator := none, audValidator := none,
    delay := 90000, skew := 180000, statusSuccess := "Success" }

def exGood : AssertionS :=
  { issueInstant := 1000000, issuer := "idp",
    subject := some [⟨some ⟨"id-1", "https://sp/acs", 1000000⟩⟩, ⟨some ⟨"id-1", "https://sp/acs", 1090000⟩⟩],
    conditions := some ⟨1000000, 1090000, ["sp"]⟩, ident := "alice" }

def exStale : AssertionS := { exGood with issueInstant := 0, ident := "mallory" }

def exResp : ResponseS :=
  { destination := "https://sp/acs", inResponseTo := "id-1", issueInstant := 1000000,
    issuer := some "idp", status := "Success",
    entries := [⟨.plain, .valid, exStale⟩, ⟨.plain, .valid, exGood⟩] }

example : parseResponse exCfg 1090000 ["id-1"] "https://sp/acs" .required .absent exResp = .ok exGood := by
  decide

example : Windows exCfg 1090000 exResp exGood :=
  C02_sound exCfg 1090000 ["id-1"] "https://sp/acs" .required .absent exResp exGood (by decide)

end SamlVerif.SP
