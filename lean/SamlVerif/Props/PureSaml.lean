/-
  The models' reading of "for all sequences of message creations / validations" — package saml.

  Every model of a ServiceProvider / IdentityProvider method is a *function* of the configuration value and the message, so a
  sequence of calls is the single call repeated and the per-call theorems hold for every call of every
  sequence.  That is the code's behaviour only while the code keeps no state between calls.  These are
  obligations at the regenerated hidden-state facts (extract/state.go): no unexported field in `ServiceProvider` / `IdentityProvider`, no assignment through their pointer receivers, and no package-level variable beyond the documented knobs the harness pins (`TimeNow`, `Clock`, `RandReader`, `MaxIssueDelay`, `MaxClockSkew`, `StatusSuccess`), the compiled template and regular expressions and the write settings.
  A cache on the configuration value, a buffer pool or memo table at package level, break one of them
  whatever the generators happen to reach (the harness's stateful sequences are the search for the
  failing history).
-/
import SamlVerif.Generated.Facts

namespace SamlVerif.Pure

/-- the configuration types have exported fields only: what a deployment sets is all there is -/
theorem Pure_saml_no_hidden_fields : Facts.configUnexportedFields_saml = [] := by decide

/-- no method of `ServiceProvider` / `IdentityProvider` assigns through its pointer receiver -/
theorem Pure_saml_no_receiver_writes : Facts.configReceiverWrites_saml = [] := by decide

theorem Pure_saml_package_state : Facts.packageState_saml =
    ["saml.Clock (declared <*ast.StarExpr>)", "saml.MaxClockSkew (expr)", "saml.MaxIssueDelay (expr)",
     "saml.Metadata (literal <*ast.StructType>)", "saml.RandReader (expr)", "saml.StatusSuccess (constant)",
     "saml.TimeNow (func)", "saml.defaultResponseFormTemplate (call template.Must)",
     "saml.durationRegexp (call regexp.MustCompile)", "saml.durationTimeRegexp (call regexp.MustCompile)",
     "saml.xmlWriteSettings (literal etree.WriteSettings)"] := by decide

end SamlVerif.Pure
