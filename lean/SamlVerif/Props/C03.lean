/-
  C03 — SP accepts only assertions addressed to it by its configured IdP.

  "An assertion is accepted only if it comes from the configured IdP and is meant for this SP: the
   Response Issuer (when present) and the Assertion Issuer equal the IdP entity ID, every
   SubjectConfirmation Recipient equals the SP's ACS URL, audience restrictions (when present) name
   the SP's entity ID (or its metadata URL when no entity ID is set, or satisfy the application's own
   audience validator), the Response status is Success, and Destination - mandatory whenever a
   Response delivered through the browser carries a signature - equals the ACS URL or the URL at
   which the response was received.  An otherwise valid response satisfying all of these is
   accepted, and a non-Success status is reported as such."
-/
import SamlVerif.Props.C02

namespace SamlVerif.SP

/-- The addressing conditions of the property. -/
structure Addressed (cfg : Cfg) (url : String) (need : Need) (respSig : SigState)
    (r : ResponseS) (a : AssertionS) : Prop where
  respIssuer : ∀ i, r.issuer = some i → i = cfg.idpEntityID
  assnIssuer : a.issuer = cfg.idpEntityID
  recipients : ∃ scs, a.subject = some scs ∧
                ∀ sc ∈ scs, ∃ d, sc.data = some d ∧ d.recipient = cfg.acsURL
  audience : ∃ c, a.conditions = some c ∧
      match cfg.audValidator with
      | some f => f a = true
      | none => c.audiences = [] ∨ (if cfg.entityID = "" then cfg.metadataURL else cfg.entityID) ∈ c.audiences
  status : r.status = cfg.statusSuccess
  /-- Destination is mandatory when a browser-delivered Response carries a signature
      (`need = required` is the browser entry point; under an artifact envelope whose own signature
      verified the Response signature is not looked at). -/
  destination : ((need = .required ∧ respSig ≠ .absent) ∨ r.destination ≠ "") →
      r.destination = url ∨ r.destination = cfg.acsURL

theorem C03_sound (cfg : Cfg) (now : Int) (ids : List String) (url : String) (need : Need)
    (respSig : SigState) (r : ResponseS) (a : AssertionS)
    (h : parseResponse cfg now ids url need respSig r = .ok a) :
    Addressed cfg url need respSig r a := by
  obtain ⟨hr, hf⟩ := (accept_iff _ _ _ _ _ _ _ _).mp h
  have hv := firstGood_valid hf
  obtain ⟨scs, hs, hall⟩ := hv.subj
  obtain ⟨c, hc, _, _, haud⟩ := hv.cond
  refine ⟨hr.issuer, hv.issuer, ⟨scs, hs, ?_⟩, ⟨c, hc, ?_⟩, hr.status, hr.dest⟩
  · intro sc hsc
    obtain ⟨d, hd, _, h2, _⟩ := (hall sc hsc).ex
    exact ⟨d, hd, h2⟩
  · unfold AudienceOK Cfg.audience firstSet at haud
    exact haud

/-- A signed browser-delivered Response without Destination is rejected. -/
theorem C03_destination_mandatory_when_signed (cfg now ids url respSig r)
    (hs : respSig ≠ .absent) (hd : r.destination = "") (hu : url ≠ "") (ha : cfg.acsURL ≠ "") :
    ∀ a, parseResponse cfg now ids url .required respSig r ≠ .ok a := by
  intro a h
  have := (C03_sound _ _ _ _ _ _ _ _ h).destination (Or.inl ⟨rfl, hs⟩)
  rw [hd] at this
  rcases this with h | h
  · exact hu h.symm
  · exact ha h.symm

/-- Comparison is equality of whole strings: nothing that differs from the expected value — in
    particular no proper prefix, extension or case variant — is accepted as Recipient. -/
theorem C03_no_near_miss_recipient (cfg now ids url need respSig r a)
    (h : parseResponse cfg now ids url need respSig r = .ok a)
    (scs : List SubjConf) (hs : a.subject = some scs) (sc : SubjConf) (hsc : sc ∈ scs)
    (d : SCData) (hd : sc.data = some d) : ¬ (d.recipient ≠ cfg.acsURL) := by
  obtain ⟨scs', hs', hall⟩ := (C03_sound _ _ _ _ _ _ _ _ h).recipients
  rw [hs] at hs'; cases hs'
  obtain ⟨d', hd', he⟩ := hall sc hsc
  rw [hd] at hd'; cases hd'
  simp [he]

/-- **Completeness** (same statement as C02_complete, restated for the addressing reading). -/
theorem C03_complete (cfg : Cfg) (now : Int) (ids : List String) (url : String) (need : Need)
    (respSig : SigState) (r : ResponseS)
    (hr : RespOK cfg now ids url need respSig r)
    (he : ∃ e ∈ r.entries, EntryGood cfg now ids (needAfter need respSig) e) :
    ∃ a, parseResponse cfg now ids url need respSig r = .ok a :=
  C02_complete cfg now ids url need respSig r hr he

/-- A non-Success status is reported as such (the error carries the status value). -/
theorem C03_bad_status (cfg : Cfg) (now : Int) (ids : List String) (url : String) (need : Need)
    (respSig : SigState) (r : ResponseS)
    (hd : ((need = .required ∧ respSig ≠ .absent) ∨ r.destination ≠ "") →
          r.destination = url ∨ r.destination = cfg.acsURL)
    (hr : ReqIdOK cfg r ids) (hf : now ≤ r.issueInstant + cfg.delay)
    (hi : ∀ i, r.issuer = some i → i = cfg.idpEntityID)
    (hs : r.status ≠ cfg.statusSuccess) :
    parseResponse cfg now ids url need respSig r = .err ("bad-status:" ++ r.status) :=
  bad_status_reported cfg now ids url need respSig r hd hr hf hi hs

/-- Same checks for artifact responses: envelope issuer/status, then the inner Response. -/
theorem C03_artifact (cfg : Cfg) (now : Int) (ids : List String) (resolveId url : String)
    (ar : ArtifactResponseS) (a : AssertionS)
    (h : parseArtifactResponse cfg now ids resolveId url ar = .ok a) :
    (∀ i, ar.issuer = some i → i = cfg.idpEntityID) ∧ ar.status = cfg.statusSuccess ∧
    ∃ rs r, ar.response = some (rs, r) ∧
      Addressed cfg url (if ar.sig = .valid then .notRequired else .required) rs r a := by
  obtain ⟨_, _, h3, h4, _, rs, r, hr, hp⟩ := (artifact_accept_iff _ _ _ _ _ _ _).mp h
  exact ⟨h3, h4, rs, r, hr, C03_sound _ _ _ _ _ _ _ _ hp⟩

/-! Non-vacuity -/
example : Addressed exCfg "https://sp/acs" .required .absent exResp exGood :=
  C03_sound exCfg 1090000 ["id-1"] "https://sp/acs" .required .absent exResp exGood (by decide)

example : parseResponse exCfg 1090000 ["id-1"] "https://sp/acs" .required .absent
    { exResp with status := "Responder" } = .err "bad-status:Responder" := by decide

end SamlVerif.SP
