/-
  C18 — Logout responses are valid only if IdP-signed, fresh and addressed to this SP.

  "A logout response, in POST or redirect encoding, is reported valid only if it carries an
   enveloped signature verifying under a trusted IdP certificate, is addressed to the SP's logout
   URL, was issued by the configured IdP no longer than MaxIssueDelay ago and has status Success.
   A well-formed logout response meeting all of these is reported valid, and every other input
   yields an error."
-/
import SamlVerif.Model.Logout

namespace SamlVerif.Logout
open SamlVerif.SP

/-- the conditions of the property -/
structure Valid (cfg : Cfg) (now : Int) (d : Doc) : Prop where
  ex : ∃ r, d = .root .valid (some r) ∧ r.destination = cfg.sloURL ∧ now ≤ r.issueInstant + cfg.delay ∧
        r.issuer = some cfg.idpEntityID ∧ r.status = cfg.statusSuccess

/-- **Soundness and completeness in one**: reported valid exactly when signed (root signature
    verified), addressed, fresh, from the configured IdP and successful. -/
theorem C18_valid_iff (cfg : Cfg) (now : Int) (d : Doc) : validate cfg now d = .ok () ↔ Valid cfg now d := by
  unfold validate
  constructor
  · intro h
    split at h
    · simp at h
    · simp at h
    · rename_i sig r
      split at h
      · simp at h
      · rename_i hs
        split at h
        · simp at h
        · rename_i r'
          unfold validateFields at h
          split at h
          · simp at h
          · rename_i h1
            split at h
            · simp at h
            · rename_i h2
              split at h
              · simp at h
              · rename_i i hi
                split at h
                · simp at h
                · rename_i h3
                  split at h
                  · simp at h
                  · rename_i h4
                    have hs' : sig = .valid := by simpa using hs
                    have h3' : i = cfg.idpEntityID := by simpa using h3
                    refine ⟨r', by rw [hs'], by simpa using h1, by omega, by rw [hi, h3'], by simpa using h4⟩
  · rintro ⟨r, rfl, h1, h2, h3, h4⟩
    simp only [ne_eq, not_true_eq_false, if_false]
    unfold validateFields
    have e1 : ¬ (r.destination ≠ cfg.sloURL) := by simp [h1]
    have e2 : ¬ (r.issueInstant + cfg.delay < now) := by omega
    rw [if_neg e1, if_neg e2]
    simp [h3, h4]

/-- every other input yields an error — never a panic, never "valid" -/
theorem C18_total (cfg : Cfg) (now : Int) (d : Doc) :
    validate cfg now d = .ok () ∨ ∃ e, validate cfg now d = .err e := by
  unfold validate
  split
  · exact Or.inr ⟨_, rfl⟩
  · exact Or.inr ⟨_, rfl⟩
  · split
    · exact Or.inr ⟨_, rfl⟩
    · split
      · exact Or.inr ⟨_, rfl⟩
      · unfold validateFields
        split
        · exact Or.inr ⟨_, rfl⟩
        · split
          · exact Or.inr ⟨_, rfl⟩
          · split
            · exact Or.inr ⟨_, rfl⟩
            · split
              · exact Or.inr ⟨_, rfl⟩
              · split
                · exact Or.inr ⟨_, rfl⟩
                · exact Or.inl rfl

theorem C18_unsigned_rejected (cfg : Cfg) (now : Int) (sig : SigState) (r : Option LogoutRespS)
    (h : sig ≠ .valid) : validate cfg now (.root sig r) = .err "signature" := by
  unfold validate
  simp [h]

/-- Both encodings go through the same validator: with `inflate (deflate b) = b`, the redirect
    decoding of the deflated bytes and the POST decoding of the bytes yield the same `Doc`, hence the
    same verdict. -/
theorem C18_encodings_agree (cfg : Cfg) (now : Int) (decodeXML : Bytes → Doc)
    (inflate deflate : Bytes → Option Bytes) (b z : Bytes)
    (hz : deflate b = some z) (hinv : inflate z = some b) :
    validate cfg now (match inflate z with | some x => decodeXML x | none => .undecodable) =
    validate cfg now (decodeXML b) := by
  rw [hinv]

/-- the pinned tree panicked on a document without root element and on a signed response without Issuer -/
theorem C18_pinned_panics (cfg : Cfg) (now : Int) :
    (validatePinned cfg now .noRoot).isPanic = true := rfl

/-! Non-vacuity -/
example : validate ⟨"idp", "https://sp/slo", 90000, "Success"⟩ 1000
    (.root .valid (some ⟨"https://sp/slo", 500, some "idp", "Success"⟩)) = .ok () := by decide
example : Valid ⟨"idp", "https://sp/slo", 90000, "Success"⟩ 1000
    (.root .valid (some ⟨"https://sp/slo", 500, some "idp", "Success"⟩)) :=
  (C18_valid_iff _ _ _).mp (by decide)

end SamlVerif.Logout
