/-
  C09 — Message-consuming APIs are total: a result or an error, never a panic or blow-up.
-/
import SamlVerif.Proofs.SPStruct
import SamlVerif.Model.Flate
import SamlVerif.Model.IdP
import SamlVerif.Props.C05
import SamlVerif.Props.C11
import SamlVerif.Props.C18
import SamlVerif.Generated.Facts

namespace SamlVerif.SP

/-- Response parsing never panics, whatever optional parts are absent (struct level). -/
theorem C09_parseResponse_total (cfg : Cfg) (now : Int) (ids : List String) (url : String)
    (need : Need) (respSig : SigState) (r : ResponseS) :
    (parseResponse cfg now ids url need respSig r).isPanic = false := by
  cases h : parseResponse cfg now ids url need respSig r with
  | ok a => rfl
  | err s => rfl
  | panic w => exact absurd h (parseResponse_ne_panic _ _ _ _ _ _ _ _)

theorem C09_parseArtifactResponse_total (cfg : Cfg) (now : Int) (ids : List String)
    (resolveId url : String) (ar : ArtifactResponseS) :
    (parseArtifactResponse cfg now ids resolveId url ar).isPanic = false := by
  cases h : parseArtifactResponse cfg now ids resolveId url ar with
  | ok a => rfl
  | err s => rfl
  | panic w => exact absurd h (parseArtifactResponse_ne_panic _ _ _ _ _ _ _)

/-- Absent optional parts are rejections, not acceptances (and not panics). -/
theorem C09_missing_parts_rejected (cfg : Cfg) (now : Int) (ids : List String) (a : AssertionS)
    (h : a.subject = none ∨ a.conditions = none ∨
         ∃ scs sc, a.subject = some scs ∧ sc ∈ scs ∧ sc.data = none) :
    ¬ AssertionValid cfg now ids a := by
  intro hv
  obtain ⟨scs, hs, hall⟩ := hv.subj
  obtain ⟨c, hc, _⟩ := hv.cond
  rcases h with h | h | ⟨scs', sc, hs', hm, hd⟩
  · rw [h] at hs; cases hs
  · rw [h] at hc; cases hc
  · rw [hs] at hs'; cases hs'
    obtain ⟨d, hd', _⟩ := (hall sc hm).ex
    rw [hd] at hd'; cases hd'

end SamlVerif.SP

namespace SamlVerif.Flate

/-- **Inflate bound**: whatever the inflater offers and however the caller sizes its buffers, the
    bytes handed out never exceed the limit — for every sequence of reads of any length. -/
theorem C09_inflate_bound (limit : Nat) (calls : List Call) (count : Nat) (h : count ≤ limit) :
    (readAll limit count calls).1 ≤ limit := by
  induction calls generalizing count with
  | nil => exact h
  | cons c rest ih =>
    unfold readAll read
    split
    · rename_i c' n' hr
      split at hr
      · simp at hr
      · rename_i hle
        simp at hr
        apply ih
        rw [← hr.1]
        have : min c.delivered c.bufLen ≤ c.bufLen := Nat.min_le_right _ _
        omega
    · exact h

/-- demanding more than the limit allows is an error, not a silent truncation -/
theorem C09_inflate_refuses (limit count : Nat) (c : Call) (h : limit < count + c.bufLen) :
    read limit count c = .err "uncompress-limit" := by
  unfold read
  rw [if_pos h]

/-- obligation at the regenerated facts: the limit in the source is at most 10 MB -/
theorem C09_limit_fact : Facts.flateUncompressLimit ≤ 10 * 1024 * 1024 ∧ 0 < Facts.flateUncompressLimit := by decide

end SamlVerif.Flate

namespace SamlVerif.IdP

/-- `getSPEncryptionCert`'s selection never panics: a key descriptor without certificate is an error -/
theorem C09_selectEncCert_total (keys : List KeyDesc) (w : String) : selectEncCert keys ≠ .panic w := by
  unfold selectEncCert
  repeat' split
  all_goals simp

/-- request validation is total (C05_total, restated for the list of entry points) -/
theorem C09_validate_total (cfg : Cfg) (now : Int) (reg : String → Lookup) (req : AuthnRequestS) (w : String) :
    validate cfg now reg req ≠ .panic w := C05_total cfg now reg req w

end SamlVerif.IdP

namespace SamlVerif.Logout

/-- logout validation is total: valid or an error (C18_total) -/
theorem C09_logout_total (cfg : Cfg) (now : Int) (d : Doc) :
    validate cfg now d = .ok () ∨ ∃ e, validate cfg now d = .err e := C18_total cfg now d

end SamlVerif.Logout

namespace SamlVerif.Xmlenc

/-- decryption of attacker-built EncryptedAssertion content is total (C11_total) -/
theorem C09_decrypt_total (env : Env) (key : Key) (ls : List Layer) (w : String) :
    decrypt env key ls ≠ .panic w := C11_total env key ls w

end SamlVerif.Xmlenc
