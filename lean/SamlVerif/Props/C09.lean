/-
  C09 — Message-consuming APIs are total: a result or an error, never a panic or blow-up.
-/
import SamlVerif.Proofs.SPStruct

namespace SamlVerif.SP

/-- Response parsing never panics, whatever optional parts are absent (struct level). -/
theorem C09_parseResponse_total (cfg : Cfg) (now : Int) (ids : List String) (url : String)
    (need : Need) (respSig : SigState) (r : ResponseS) :
    (parseResponse cfg now ids url need respSig r).isPanic = false := by
  cases h : parseResponse cfg now ids url need respSig r with
  | ok a => rfl
  | err s => rfl
  | panic w => exact absurd h (parseResponse_ne_panic _ _ _ _ _ _ _ _)

theorem C09_parseArtifactResponse_total (cfg : Cfg) (now : Int) (ids : List String)
    (resolveId url : String) (ar : ArtifactResponseS) :
    (parseArtifactResponse cfg now ids resolveId url ar).isPanic = false := by
  cases h : parseArtifactResponse cfg now ids resolveId url ar with
  | ok a => rfl
  | err s => rfl
  | panic w => exact absurd h (parseArtifactResponse_ne_panic _ _ _ _ _ _ _)

/-- Absent optional parts are rejections, not acceptances (and not panics). -/
theorem C09_missing_parts_rejected (cfg : Cfg) (now : Int) (ids : List String) (a : AssertionS)
    (h : a.subject = none ∨ a.conditions = none ∨
         ∃ scs sc, a.subject = some scs ∧ sc ∈ scs ∧ sc.data = none) :
    ¬ AssertionValid cfg now ids a := by
  intro hv
  obtain ⟨scs, hs, hall⟩ := hv.subj
  obtain ⟨c, hc, _⟩ := hv.cond
  rcases h with h | h | ⟨scs', sc, hs', hm, hd⟩
  · rw [h] at hs; cases hs
  · rw [h] at hc; cases hc
  · rw [hs] at hs'; cases hs'
    obtain ⟨d, hd', _⟩ := (hall sc hm).ex
    rw [hd] at hd'; cases hd'

end SamlVerif.SP
