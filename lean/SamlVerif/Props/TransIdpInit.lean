/-
  Props/TransIdpInit — the endpoint selection of `IdentityProvider.ServeIDPInitiated`, regenerated from the current
  identity_provider.go as `Trans.idpInitiatedSelect`: the statements from `for _, spssoDescriptor := range
  req.ServiceProviderMetadata.SPSSODescriptors` up to (excluding) `if req.ACSEndpoint == nil`, with the local `req` as state.
  `idpInitiatedSelect_eq`: it leaves in the request the first HTTP-POST assertion consumer service of the registered metadata
  (document order) and nothing when there is none; `idpInitiatedSelect_abs` ties that to the hand model `IdP.selectIdpInitiated`.
-/
import SamlVerif.Props.TransEncCert
open SamlVerif SamlVerif.GoSem
namespace SamlVerif.TransIdP

def isPost (e : Trans.IndexedEndpoint) : Bool := e.Binding == "urn:oasis:names:tc:SAML:2.0:bindings:HTTP-POST"

theorem pairs_find_post (md : Trans.EntityDescriptor) :
    (pairs md).find? (fun p => isPost p.2) =
      md.SPSSODescriptors.findSome? (fun d => (d.AssertionConsumerServices.find? isPost).map (fun e => (d, e))) := by
  unfold pairs
  rw [List.find?_flatMap]
  congr 1
  funext d
  rw [List.find?_map]
  congr 1

theorem first_post_eq (req : Trans.IdpAuthnRequest) (ds : List Trans.SPSSODescriptor) :
    (match ds.find? (fun d => (d.AssertionConsumerServices.find? isPost).isSome) with
      | some d => (match d.AssertionConsumerServices.find? isPost with | some e => chosen req (d, e) | none => req)
      | none => req) =
    (match ds.findSome? (fun d => (d.AssertionConsumerServices.find? isPost).map (fun e => (d, e))) with
      | some p => chosen req p
      | none => req) := by
  induction ds with
  | nil => simp
  | cons d ds ih =>
    simp only [List.find?_cons, List.findSome?_cons]
    cases hf : List.find? isPost d.AssertionConsumerServices with
    | some e => simp [hf]
    | none =>
      simp only [Option.isSome_none, Option.map_none]
      exact ih

/-- **C05, IdP-initiated clause, on the translated code**: the loop of `ServeIDPInitiated` that picks the endpoint leaves in the
    request the first HTTP-POST assertion consumer service of the registered metadata (document order), and nothing when there is
    none — never anything that is not listed there. -/
theorem idpInitiatedSelect_eq (env : Trans.Env) (req : Trans.IdpAuthnRequest) (md : Trans.EntityDescriptor)
    (h : req.ServiceProviderMetadata = some md) (h0 : req.ACSEndpoint = none) :
    Trans.idpInitiatedSelect env req =
      .ok (match (pairs md).find? (fun p => isPost p.2) with | some p => chosen req p | none => req, ()) := by
  unfold Trans.idpInitiatedSelect
  simp only [h, deref_some, Outcome.ok_bind', Outcome.pure_eq_ok]
  rw [forIn_first md.SPSSODescriptors req _ (fun d => (d.AssertionConsumerServices.find? isPost).isSome)
        (fun d s => match d.AssertionConsumerServices.find? isPost with | some e => chosen s (d, e) | none => s)]
  · simp only [Outcome.ok_bind']
    rw [pairs_find_post, ← first_post_eq req md.SPSSODescriptors]
    cases List.find? (fun d => (List.find? isPost d.AssertionConsumerServices).isSome) md.SPSSODescriptors with
    | none => rfl
    | some d => cases List.find? isPost d.AssertionConsumerServices <;> rfl
  · intro d hp
    have hnone : List.find? isPost d.AssertionConsumerServices = none := by
      cases hf : List.find? isPost d.AssertionConsumerServices with
      | none => rfl
      | some e => simp [hf] at hp
    rw [forIn_first d.AssertionConsumerServices req _ isPost (fun e s => chosen s (d, e))]
    · simp [hnone, h0]
    · intro e he
      have : ¬ e.Binding = "urn:oasis:names:tc:SAML:2.0:bindings:HTTP-POST" := by simpa [isPost] using he
      simp [this]
    · intro e he
      have : e.Binding = "urn:oasis:names:tc:SAML:2.0:bindings:HTTP-POST" := by simpa [isPost] using he
      simp [this, chosen]
  · intro d hp
    cases hf : List.find? isPost d.AssertionConsumerServices with
    | none => simp [hf] at hp
    | some e =>
      rw [forIn_first d.AssertionConsumerServices req _ isPost (fun e s => chosen s (d, e))]
      · simp [hf, chosen]
      · intro e he
        have : ¬ e.Binding = "urn:oasis:names:tc:SAML:2.0:bindings:HTTP-POST" := by simpa [isPost] using he
        simp [this]
      · intro e he
        have : e.Binding = "urn:oasis:names:tc:SAML:2.0:bindings:HTTP-POST" := by simpa [isPost] using he
        simp [this, chosen]


/-- whatever is selected is listed in the registered metadata, and is an HTTP-POST endpoint -/
theorem idpInitiatedSelect_registered (env : Trans.Env) (req req' : Trans.IdpAuthnRequest) (md : Trans.EntityDescriptor)
    (h : req.ServiceProviderMetadata = some md) (h0 : req.ACSEndpoint = none)
    (hr : Trans.idpInitiatedSelect env req = .ok (req', ())) (e : Trans.IndexedEndpoint) (he : req'.ACSEndpoint = some e) :
    ∃ d ∈ md.SPSSODescriptors, e ∈ d.AssertionConsumerServices ∧ req'.SPSSODescriptor = some d ∧
      e.Binding = "urn:oasis:names:tc:SAML:2.0:bindings:HTTP-POST" := by
  rw [idpInitiatedSelect_eq env req md h h0] at hr
  cases hf : (pairs md).find? (fun p => isPost p.2) with
  | none =>
    simp [hf] at hr
    rw [← hr, h0] at he
    cases he
  | some p =>
    simp [hf] at hr
    have hm := (mem_pairs md p).1 (List.mem_of_find?_eq_some hf)
    have hp : isPost p.2 = true := by simpa using List.find?_some hf
    have he' : p.2 = e := by
      rw [← hr] at he
      simpa [chosen] using he
    subst he'
    exact ⟨p.1, hm.1, hm.2, by rw [← hr]; simp [chosen], by simpa [isPost] using hp⟩

/-- the hand model's `selectIdpInitiated` is the same rule -/
theorem idpInitiatedSelect_abs (md : Trans.EntityDescriptor) :
    ((pairs md).find? (fun p => isPost p.2)).map absP = IdP.selectIdpInitiated (absMD md) := by
  unfold IdP.selectIdpInitiated
  rw [allEndpoints_abs, List.find?_map]
  congr 2

end SamlVerif.TransIdP
