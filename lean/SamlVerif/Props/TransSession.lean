/-
  Props/TransSession — who counts as logged in, on the regenerated code.

  C19 (`samlidp/session.go`, the branch of `Server.GetSession` that handles a request without credentials — from the statement
  `if sessionCookie, err := r.Cookie("session"); err == nil {` to the end; `Generated/TransSamlidp.lean`, `TransI.cookieSession`;
  the store and the request's cookies are arbitrary functions, the rendering of the login form and `http.Error` are events):
  * `cookieSession_sound`: a session is returned only for a request that presents a cookie named `session` whose value names a
    session the store holds (`/sessions/<value>`, read without error) and whose stored expiry has not passed (`now ≤ ExpireTime`);
    nothing is written to the response then;
  * `cookieSession_otherwise`: in every other case nothing is returned and the response is exactly one event — the login form
    (no cookie; unknown session; expired session) or one HTTP 500 (the store failed otherwise);
  * `cookieSession_expired_refused`: a stored session whose expiry lies before now — by however little — yields the login form.

  C16 (`samlsp/session_cookie.go` `CookieSessionProvider.GetSession`; `Generated/TransSamlsp.lean`, `TransM.cookieGetSession`;
  the codec and the request's cookies are arbitrary functions):
  * `cookieGetSession_sound`: a session is reported only if the request carries the provider's cookie and the provider's codec
    decodes its value, without error, to that session;
  * `cookieGetSession_errors`: a missing cookie and an undecodable value are both reported as `ErrNoSession` with no session.
-/
import SamlVerif.Generated.TransSamlidp
import SamlVerif.Generated.TransSamlsp
import SamlVerif.Proofs.TransSP
open SamlVerif SamlVerif.GoSem
namespace SamlVerif.TransSession

def evLoginForm : Event := ⟨"s.sendLoginForm", [""]⟩
def evServerError : Event := ⟨"http.Error", ["StatusInternalServerError"]⟩

/-- C19: every run of the cookie branch -/
theorem cookieSession_cases (env : TransI.Env) (s : TransI.Server) (w : ResponseWriter) (r : Option HTTPRequest)
    (req : Option TransI.IdpAuthnRequest) (out : Option TransI.Session) (tr : List Event)
    (h : TransI.cookieSession env s w r req = .ok (out, tr)) :
    ∃ rq, r = some rq ∧
    (-- no cookie
     (∃ ck e, env.cookie rq "session" = .ok (ck, some e) ∧ out = none ∧ tr = [evLoginForm]) ∨
     -- a cookie naming no stored session / a failing store
     (∃ ck v e, env.cookie rq "session" = .ok (some ck, none) ∧ env.storeGet_Session ("/sessions/" ++ ck.Value) = .ok (v, some e) ∧
        out = none ∧ tr = [if some e = env.ErrNotFound then evLoginForm else evServerError]) ∨
     -- a stored session
     (∃ ck v, env.cookie rq "session" = .ok (some ck, none) ∧ env.storeGet_Session ("/sessions/" ++ ck.Value) = .ok (v, none) ∧
        ((env.timeNow > v.ExpireTime ∧ out = none ∧ tr = [evLoginForm]) ∨
         (env.timeNow ≤ v.ExpireTime ∧ out = some v ∧ tr = [])))) := by
  cases r with
  | none => simp [TransI.cookieSession] at h
  | some rq =>
    refine ⟨rq, rfl, ?_⟩
    unfold TransI.cookieSession at h
    simp only [deref_some, Outcome.ok_bind', Outcome.pure_eq_ok] at h
    cases hc : env.cookie rq "session" with
    | err e => simp [hc] at h
    | panic p => simp [hc] at h
    | ok res =>
      obtain ⟨ck, ce⟩ := res
      simp only [hc, Outcome.ok_bind'] at h
      cases ce with
      | some e =>
        simp at h
        exact Or.inl ⟨ck, e, rfl, h.1.symm, h.2.symm⟩
      | none =>
        simp only [Option.isNone_none, if_true] at h
        cases ck with
        | none => simp at h
        | some c =>
          simp only [deref_some, Outcome.ok_bind'] at h
          cases hg : env.storeGet_Session ("/sessions/" ++ c.Value) with
          | err e => simp [hg] at h
          | panic p => simp [hg] at h
          | ok gres =>
            obtain ⟨v, ge⟩ := gres
            simp only [hg, Outcome.ok_bind'] at h
            cases ge with
            | some e =>
              simp only [Option.isSome_some, if_true] at h
              refine Or.inr (Or.inl ⟨c, v, e, rfl, hg, ?_⟩)
              by_cases hnf : (some e == env.ErrNotFound) = true
              · have : some e = env.ErrNotFound := by simpa using hnf
                simp [hnf] at h
                simp [this, h.1.symm, h.2.symm, evLoginForm]
              · have hne : ¬ (some e = env.ErrNotFound) := by simpa using hnf
                simp [hnf] at h
                simp [hne, h.1.symm, h.2.symm, evServerError]
            | none =>
              simp only [Option.isSome_none, Bool.false_eq_true, if_false, deref_some, Outcome.ok_bind'] at h
              refine Or.inr (Or.inr ⟨c, v, rfl, hg, ?_⟩)
              by_cases hexp : env.timeNow > v.ExpireTime
              · simp [hexp] at h
                exact Or.inl ⟨hexp, h.1.symm, by rw [← h.2]; rfl⟩
              · simp [hexp] at h
                exact Or.inr ⟨by omega, h.1.symm, h.2⟩

/-- C19: "the cookie of a stored, unexpired session" -/
theorem cookieSession_sound (env : TransI.Env) (s : TransI.Server) (w : ResponseWriter) (r : Option HTTPRequest)
    (req : Option TransI.IdpAuthnRequest) (v : TransI.Session) (tr : List Event)
    (h : TransI.cookieSession env s w r req = .ok (some v, tr)) :
    ∃ rq ck, r = some rq ∧ env.cookie rq "session" = .ok (some ck, none) ∧
      env.storeGet_Session ("/sessions/" ++ ck.Value) = .ok (v, none) ∧ env.timeNow ≤ v.ExpireTime ∧ tr = [] := by
  obtain ⟨rq, hr, hc⟩ := cookieSession_cases env s w r req (some v) tr h
  rcases hc with ⟨_, _, _, ho, _⟩ | ⟨_, _, _, _, _, ho, _⟩ | ⟨ck, v', hck, hg, hrest⟩
  · cases ho
  · cases ho
  · rcases hrest with ⟨_, ho, _⟩ | ⟨hle, ho, ht⟩
    · cases ho
    · cases ho; exact ⟨rq, ck, hr, hck, hg, hle, ht⟩

/-- C19: whenever no session is returned, the browser gets exactly one reply: the login form or a 500 -/
theorem cookieSession_otherwise (env : TransI.Env) (s : TransI.Server) (w : ResponseWriter) (r : Option HTTPRequest)
    (req : Option TransI.IdpAuthnRequest) (tr : List Event)
    (h : TransI.cookieSession env s w r req = .ok (none, tr)) : tr = [evLoginForm] ∨ tr = [evServerError] := by
  obtain ⟨rq, hr, hc⟩ := cookieSession_cases env s w r req none tr h
  rcases hc with ⟨_, _, _, _, ht⟩ | ⟨_, _, e, _, _, _, ht⟩ | ⟨ck, v', hck, hg, hrest⟩
  · exact Or.inl ht
  · by_cases hnf : some e = env.ErrNotFound
    · simp [hnf] at ht; exact Or.inl ht
    · simp [hnf] at ht; exact Or.inr ht
  · rcases hrest with ⟨_, _, ht⟩ | ⟨_, ho, _⟩
    · exact Or.inl ht
    · cases ho

/-- C19: an expired session — by one unit of time or by a year — is no session -/
theorem cookieSession_expired_refused (env : TransI.Env) (s : TransI.Server) (w : ResponseWriter) (rq : HTTPRequest)
    (req : Option TransI.IdpAuthnRequest) (ck : Cookie) (v : TransI.Session) (out : Option TransI.Session) (tr : List Event)
    (hck : env.cookie rq "session" = .ok (some ck, none))
    (hg : env.storeGet_Session ("/sessions/" ++ ck.Value) = .ok (v, none))
    (hexp : v.ExpireTime < env.timeNow)
    (h : TransI.cookieSession env s w (some rq) req = .ok (out, tr)) : out = none ∧ tr = [evLoginForm] := by
  obtain ⟨rq', hr, hc⟩ := cookieSession_cases env s w (some rq) req out tr h
  cases hr
  rcases hc with ⟨_, _, hck', _⟩ | ⟨_, _, _, hck', hg', _⟩ | ⟨ck', v', hck', hg', hrest⟩
  · rw [hck] at hck'; cases hck'
  · rw [hck] at hck'; cases hck'; rw [hg] at hg'; cases hg'
  · rw [hck] at hck'; cases hck'; rw [hg] at hg'; cases hg'
    rcases hrest with ⟨_, ho, ht⟩ | ⟨hle, _, _⟩
    · exact ⟨ho, ht⟩
    · omega

/-- C16: the SP's cookie session provider reports a session only if its codec decodes the value of its cookie -/
theorem cookieGetSession_sound (env : TransM.Env) (c : TransM.CookieSessionProvider) (r : Option HTTPRequest) (sess : TransM.Session)
    (h : TransM.cookieGetSession env c r = .ok (some sess, none)) :
    ∃ rq ck, r = some rq ∧ env.cookie rq c.Name = .ok (some ck, none) ∧ c.Codec.Decode ck.Value = .ok (some sess, none) := by
  cases r with
  | none => simp [TransM.cookieGetSession] at h
  | some rq =>
    unfold TransM.cookieGetSession at h
    simp only [deref_some, Outcome.ok_bind', Outcome.pure_eq_ok] at h
    cases hc : env.cookie rq c.Name with
    | err e => simp [hc] at h
    | panic p => simp [hc] at h
    | ok res =>
      obtain ⟨ck, ce⟩ := res
      simp only [hc, Outcome.ok_bind'] at h
      cases ce with
      | some e =>
        by_cases hno : (some e == some "http.ErrNoCookie") = true
        · simp [hno] at h
        · simp [hno] at h
      | none =>
        have h1 : ((none : GoError) == some "http.ErrNoCookie") = false := by decide
        simp only [h1, Bool.false_eq_true, if_false, Option.isSome_none] at h
        cases ck with
        | none => simp at h
        | some k =>
          simp only [deref_some, Outcome.ok_bind'] at h
          cases hd : c.Codec.Decode k.Value with
          | err e => simp [hd] at h
          | panic p => simp [hd] at h
          | ok dres =>
            obtain ⟨so, de⟩ := dres
            simp only [hd, Outcome.ok_bind'] at h
            cases de with
            | some e => simp at h
            | none =>
              simp at h
              subst h
              exact ⟨rq, k, rfl, hc, hd⟩

def evBadLogin : Event := ⟨"s.sendLoginForm", ["Invalid username or password"]⟩
/-- the last event of a translated prefix that ran to its end: the handler goes on -/
def evContinues : Event := ⟨"(continues)", []⟩

/-- C19 (the credentials branch of `Server.GetSession`, up to the creation of the session): the code goes on to create a session
    (its trace ends with the continuation mark) only if the store holds the named user (read without error), the presented password is one that can have been set, and bcrypt
    accepts it against that user's stored hash; every refusal is the same reply, the login form with the same message, whichever
    check failed — and nothing else is written -/
theorem credentialGuards_cases (env : TransI.Env) (s : TransI.Server) (w : ResponseWriter) (r : Option HTTPRequest)
    (req : Option TransI.IdpAuthnRequest) (out : Option TransI.Session) (tr : List Event)
    (h : TransI.credentialGuards env s w r req = .ok (out, tr)) :
    ∃ rq, r = some rq ∧ out = none ∧
      ((tr = [evContinues] ∧ ∃ u, env.storeGet_User ("/users/" ++ env.postFormGet rq "user") = .ok (u, none) ∧
          env.validPassword (env.postFormGet rq "password") = .ok true ∧
          env.bcryptCompare u.HashedPassword (env.postFormGet rq "password") = none) ∨
       (tr = [evBadLogin] ∧
          ((∃ u e, env.storeGet_User ("/users/" ++ env.postFormGet rq "user") = .ok (u, some e)) ∨
           env.validPassword (env.postFormGet rq "password") = .ok false ∨
           (∃ u, env.storeGet_User ("/users/" ++ env.postFormGet rq "user") = .ok (u, none) ∧
              env.bcryptCompare u.HashedPassword (env.postFormGet rq "password") ≠ none)))) := by
  cases r with
  | none => simp [TransI.credentialGuards] at h
  | some rq =>
    refine ⟨rq, rfl, ?_⟩
    unfold TransI.credentialGuards at h
    simp only [deref_some, Outcome.ok_bind', Outcome.pure_eq_ok] at h
    cases hu : env.storeGet_User ("/users/" ++ env.postFormGet rq "user") with
    | err e => simp [hu] at h
    | panic p => simp [hu] at h
    | ok res =>
      obtain ⟨u, ue⟩ := res
      simp only [hu, Outcome.ok_bind'] at h
      cases ue with
      | some e =>
        simp at h
        exact ⟨h.1.symm, Or.inr ⟨h.2.symm, Or.inl ⟨u, e, rfl⟩⟩⟩
      | none =>
        simp only [Option.isSome_none, Bool.false_eq_true, if_false] at h
        cases hv : env.validPassword (env.postFormGet rq "password") with
        | err e => simp [hv] at h
        | panic p => simp [hv] at h
        | ok vb =>
          simp only [hv, Outcome.ok_bind'] at h
          cases vb with
          | false =>
            simp at h
            exact ⟨h.1.symm, Or.inr ⟨h.2.symm, Or.inr (Or.inl rfl)⟩⟩
          | true =>
            simp only [Bool.not_true, Bool.false_eq_true, if_false] at h
            cases hb : env.bcryptCompare u.HashedPassword (env.postFormGet rq "password") with
            | some e =>
              simp [hb] at h
              exact ⟨h.1.symm, Or.inr ⟨h.2.symm, Or.inr (Or.inr ⟨u, rfl, by simp [hb]⟩)⟩⟩
            | none =>
              simp [hb] at h
              exact ⟨h.1.symm, Or.inl ⟨h.2.symm, u, rfl, rfl, hb⟩⟩

/-- C16 / C17 (`samlsp/request_tracker_jwt.go` `JWTTrackedRequestCodec.Decode` from `if err != nil {` on — what happens to the claims
    once the JWT library has parsed and verified the token; the library's audience and issuer checks are arbitrary functions of
    the claims): a tracked request is returned only if the parse reported no error, the audience and issuer checks (asked with
    this codec's audience and issuer, as required claims) both passed, and the token says of itself that it is a request-tracking
    token (`saml-authn-request`); its index is then the token's subject.  A session token of the same SP — same key, audience and
    issuer, but without that mark — is therefore no tracked request. -/
theorem trackedRequestClaimsCheck_sound (env : TransM.Env) (s : TransM.JWTTrackedRequestCodec) (claims : TransM.JWTTrackedRequestClaims)
    (err : GoError) (tr : TransM.TrackedRequest)
    (h : TransM.trackedRequestClaimsCheck env s claims err = .ok (some tr, none)) :
    err = none ∧ env.verifyAudience_JWTTrackedRequestClaims claims s.Audience true = true ∧
    env.verifyIssuer_JWTTrackedRequestClaims claims s.Issuer true = true ∧ claims.SAMLAuthnRequest = true ∧
    tr = { claims.TrackedRequest with Index := claims.Subject } := by
  unfold TransM.trackedRequestClaimsCheck at h
  simp only [Outcome.pure_eq_ok] at h
  cases err with
  | some e => simp at h
  | none =>
    simp only [Option.isSome_none, Bool.false_eq_true, if_false] at h
    cases ha : env.verifyAudience_JWTTrackedRequestClaims claims s.Audience true with
    | false => simp [ha] at h
    | true =>
      cases hi : env.verifyIssuer_JWTTrackedRequestClaims claims s.Issuer true with
      | false => simp [ha, hi] at h
      | true =>
        cases hm : claims.SAMLAuthnRequest with
        | false => simp [ha, hi, hm] at h
        | true =>
          simp [ha, hi, hm] at h
          exact ⟨rfl, rfl, rfl, rfl, h.symm⟩

/-- a token without the request-tracking mark is refused, whatever else it says -/
theorem trackedRequestClaimsCheck_needs_mark (env : TransM.Env) (s : TransM.JWTTrackedRequestCodec) (claims : TransM.JWTTrackedRequestClaims)
    (err : GoError) (hm : claims.SAMLAuthnRequest = false) :
    ∃ e, TransM.trackedRequestClaimsCheck env s claims err = .ok (none, some e) := by
  unfold TransM.trackedRequestClaimsCheck
  simp only [Outcome.pure_eq_ok]
  cases err with
  | some e => exact ⟨e, by simp⟩
  | none =>
    cases ha : env.verifyAudience_JWTTrackedRequestClaims claims s.Audience true <;>
      cases hi : env.verifyIssuer_JWTTrackedRequestClaims claims s.Issuer true <;> simp [ha, hi, hm]

/-- C16 (`samlsp/session_jwt.go` `JWTSessionCodec.Decode` from `if err != nil {` on): a session comes out of the codec only if the
    JWT library reported no error for the token (signature, algorithm, time window: the library's part), its audience and issuer
    checks passed for *this* codec's audience and issuer, and the token carries the session mark — a request-tracking token of the
    same SP, which does not, is no session -/
theorem sessionClaimsCheck_sound (env : TransM.Env) (c : TransM.JWTSessionCodec) (claims : TransM.JWTSessionClaims)
    (err : GoError) (sess : TransM.Session)
    (h : TransM.sessionClaimsCheck env c claims err = .ok (some sess, none)) :
    err = none ∧ env.verifyAudience_JWTSessionClaims claims c.Audience true = true ∧
    env.verifyIssuer_JWTSessionClaims claims c.Issuer true = true ∧ claims.SAMLSession = true := by
  unfold TransM.sessionClaimsCheck at h
  simp only [Outcome.pure_eq_ok] at h
  cases err with
  | some e => simp at h
  | none =>
    simp only [Option.isSome_none, Bool.false_eq_true, if_false] at h
    cases ha : env.verifyAudience_JWTSessionClaims claims c.Audience true with
    | false => simp [ha] at h
    | true =>
      cases hi : env.verifyIssuer_JWTSessionClaims claims c.Issuer true with
      | false => simp [ha, hi] at h
      | true =>
        cases hm : claims.SAMLSession with
        | false => simp [ha, hi, hm] at h
        | true => exact ⟨rfl, rfl, rfl, rfl⟩

/-- every refusal is an error with no session; every acceptance carries no error: never both, never neither -/
theorem sessionClaimsCheck_total (env : TransM.Env) (c : TransM.JWTSessionCodec) (claims : TransM.JWTSessionClaims) (err : GoError) :
    (∃ e, TransM.sessionClaimsCheck env c claims err = .ok (none, some e)) ∨
    (∃ s, TransM.sessionClaimsCheck env c claims err = .ok (some s, none)) := by
  unfold TransM.sessionClaimsCheck
  simp only [Outcome.pure_eq_ok]
  cases err with
  | some e => exact Or.inl ⟨e, by simp⟩
  | none =>
    cases ha : env.verifyAudience_JWTSessionClaims claims c.Audience true <;>
      cases hi : env.verifyIssuer_JWTSessionClaims claims c.Issuer true <;>
      cases hm : claims.SAMLSession <;> simp [ha, hi, hm]

/-- the cookie `CreateSession` sets -/
def sessionCookieEvent (c : TransM.CookieSessionProvider) (domain value path : String) (secure : Bool) : Event :=
  ⟨"http.SetCookie", ["Name=" ++ c.Name, "Domain=" ++ domain, "Value=" ++ value, "HttpOnly=" ++ toString c.HTTPOnly,
    "Secure=" ++ toString secure, "Path=" ++ path]⟩

theorem createSession_tail (env : TransM.Env) (c cc c' : TransM.CookieSessionProvider) (rq : HTTPRequest) (a : Option TransM.Assertion)
    (dom' : String) (e : GoError) (tr : List Event)
    (h : (do
      let r1 ← c.Codec.New a
      if r1.snd.isSome = true then Outcome.ok (cc, r1.snd, ([] : List Event))
      else do
        let r2 ← c.Codec.Encode r1.fst
        if r2.snd.isSome = true then Outcome.ok (cc, r2.snd, ([] : List Event))
        else
          if c.Path = "" then do
            let sec ← (if c.Secure = true then (Outcome.ok true : Outcome Bool) else Outcome.ok (env.requestScheme rq == "https"))
            Outcome.ok (cc, none, [sessionCookieEvent c dom' r2.fst "/" sec])
          else do
            let sec ← (if c.Secure = true then (Outcome.ok true : Outcome Bool) else Outcome.ok (env.requestScheme rq == "https"))
            Outcome.ok (cc, none, [sessionCookieEvent c dom' r2.fst c.Path sec])) = .ok (c', (e, tr))) :
    (e ≠ none ∧ tr = []) ∨
    (e = none ∧ ∃ sess value, c.Codec.New a = .ok (sess, none) ∧ c.Codec.Encode sess = .ok (value, none) ∧
      ∃ path, tr = [sessionCookieEvent c dom' value path (c.Secure || env.requestScheme rq == "https")] ∧
        (path = c.Path ∨ (c.Path = "" ∧ path = "/"))) := by
  cases hn : c.Codec.New a with
  | err x => simp [hn] at h
  | panic x => simp [hn] at h
  | ok nres =>
    obtain ⟨sess, ne⟩ := nres
    simp only [hn, Outcome.ok_bind'] at h
    cases ne with
    | some x => simp at h; exact Or.inl ⟨by rw [← h.2.1]; simp, h.2.2⟩
    | none =>
      simp only [Option.isSome_none, Bool.false_eq_true, if_false] at h
      cases hen : c.Codec.Encode sess with
      | err x => simp [hen] at h
      | panic x => simp [hen] at h
      | ok eres =>
        obtain ⟨value, ee⟩ := eres
        simp only [hen, Outcome.ok_bind'] at h
        cases ee with
        | some x => simp at h; exact Or.inl ⟨by rw [← h.2.1]; simp, h.2.2⟩
        | none =>
          simp only [Option.isSome_none, Bool.false_eq_true, if_false] at h
          refine Or.inr ?_
          by_cases hp : c.Path = ""
          · cases hsc : c.Secure <;> simp [hp, hsc] at h <;>
              exact ⟨h.2.1.symm, sess, value, rfl, hen, "/", by rw [← h.2.2]; simp [hsc], Or.inr ⟨hp, rfl⟩⟩
          · cases hsc : c.Secure <;> simp [hp, hsc] at h <;>
              exact ⟨h.2.1.symm, sess, value, rfl, hen, c.Path, by rw [← h.2.2]; simp [hsc], Or.inl rfl⟩

/-- C17 (`samlsp/session_cookie.go` `CookieSessionProvider.CreateSession`; the codec, `net.SplitHostPort` and the request's scheme
    are arbitrary functions): the only thing written to the response is one `Set-Cookie`, after the codec minted and encoded the
    session without error; the cookie carries the provider's name, the encoded session as its value, `HttpOnly` exactly as
    configured and `Secure` when configured *or* when the request came over https; any codec error writes nothing -/
theorem cookieCreateSession_cookie (env : TransM.Env) (c c' : TransM.CookieSessionProvider) (w : ResponseWriter) (rq : HTTPRequest)
    (a : Option TransM.Assertion) (e : GoError) (tr : List Event)
    (h : TransM.cookieCreateSession env c w (some rq) a = .ok (c', (e, tr))) :
    (e ≠ none ∧ tr = []) ∨
    (e = none ∧ ∃ sess value, c.Codec.New a = .ok (sess, none) ∧ c.Codec.Encode sess = .ok (value, none) ∧
      ∃ domain path, tr = [sessionCookieEvent c domain value path (c.Secure || env.requestScheme rq == "https")] ∧
        (path = c.Path ∨ (c.Path = "" ∧ path = "/"))) := by
  unfold TransM.cookieCreateSession at h
  simp only [deref_some, Outcome.ok_bind', Outcome.pure_eq_ok] at h
  cases hs : env.splitHostPort c.Domain with
  | err x => simp [hs] at h
  | panic x => simp [hs] at h
  | ok sres =>
    obtain ⟨dom, port, se⟩ := sres
    simp only [hs, Outcome.ok_bind'] at h
    cases se with
    | none =>
      simp only [Option.isNone_none, if_true] at h
      rcases createSession_tail env c { c with Domain := dom } c' rq a dom e tr (by simpa [sessionCookieEvent] using h) with h1 | ⟨h1, sess, value, hn, he, path, ht, hp⟩
      · exact Or.inl h1
      · exact Or.inr ⟨h1, sess, value, hn, he, dom, path, ht, hp⟩
    | some x =>
      simp only [Option.isNone_some, Bool.false_eq_true, if_false] at h
      rcases createSession_tail env c c c' rq a c.Domain e tr (by simpa [sessionCookieEvent] using h) with h1 | ⟨h1, sess, value, hn, he, path, ht, hp⟩
      · exact Or.inl h1
      · exact Or.inr ⟨h1, sess, value, hn, he, c.Domain, path, ht, hp⟩

theorem TransI_no_failures : TransI.transFailures = [] := by decide

/-! non-vacuity -/
def exEnvI (now : Int) : TransI.Env :=
  { (default : TransI.Env) with
    ErrNotFound := some "not found"
    timeNow := now
    cookie := fun _ n => if n = "session" then .ok (some ⟨"session", "abc"⟩, none) else .ok (none, some "http.ErrNoCookie")
    storeGet_Session := fun k => if k = "/sessions/abc" then .ok (⟨3600⟩, none) else .ok (default, some "not found") }
example : TransI.cookieSession (exEnvI 3600) default ⟨0⟩ (some ⟨0⟩) none = .ok (some ⟨3600⟩, []) := by rfl
example : TransI.cookieSession (exEnvI 3601) default ⟨0⟩ (some ⟨0⟩) none = .ok (none, [evLoginForm]) := by rfl

end SamlVerif.TransSession
