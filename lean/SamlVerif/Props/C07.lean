/-
  C07 — the IdP-to-SP round trip preserves the authenticated identity exactly.

  Three layers:
  1. characters: what etree writes for a string is read back by encoding/xml as that string
     (`Proofs/XmlText.lean`), in the writer mode the code installs today (Facts obligations);
  2. structure: the response the IdP model emits is accepted by the SP model configured from the
     IdP's metadata, and the accepted assertion is the emitted one (`C07_accept`);
  3. registration: the metadata the SP publishes routes the SP's own requests to its HTTP-POST
     endpoint and advertises its certificate for encryption (`C07_published_metadata_*`), so that the
     whole flow SP request → IdP → SP goes through (`C07_end_to_end`).
-/
import SamlVerif.Model.IdPOut
import SamlVerif.Proofs.SPStruct
import SamlVerif.Proofs.XmlText
import SamlVerif.Props.C06
import SamlVerif.Generated.Facts

namespace SamlVerif.IdPOut
open SamlVerif.IdP SamlVerif.XmlText

/-! ### 1. characters -/

/-- every string of XML characters — markup, quotes, CR/LF/TAB, blanks, `]]>`, non-BMP — written as
    character data in the canonical text mode is read back exactly, whatever follows -/
theorem C07_text_roundtrip (s rest : List Char) (hs : ∀ c ∈ s, inRange c = true) :
    readText (escape .canonText s ++ '<' :: rest) = .ok (s, '<' :: rest) :=
  text_roundtrip .canonText (Or.inl rfl) s ⟨hs, by simp, by simp⟩ rest

/-- **attribute values**: the library writes them in etree's normal mode and then replaces every raw
    carriage return by `&#xD;` (`crEscaper`); every string of XML characters — CR, LF, TAB, `]]>`,
    quotes, markup — is read back exactly -/
theorem C07_attr_roundtrip (s rest : List Char) (hs : ∀ c ∈ s, inRange c = true) :
    readAttr (crReplace (escape .normal s) ++ '"' :: rest) = .ok (s, rest) := by
  rw [crReplace_escape_normal]
  exact attr_roundtrip .attrCR (Or.inr (Or.inr rfl)) s ⟨hs, by simp, by simp⟩ rest

/-- the text writer leaves no raw carriage return for `crEscaper` to touch: character data is
    unaffected by it -/
theorem C07_text_unaffected_by_cr_escaper (s : List Char) : crReplace (escape .canonText s) = escape .canonText s := by
  induction s with
  | nil => rfl
  | cons c cs ih =>
    simp only [escape, List.flatMap_cons] at ih ⊢
    rw [crReplace_append, ih]
    congr 1
    unfold crReplace escChar
    repeat' split
    all_goals first | rfl | simp_all

/-- etree's normal mode alone (what the pinned tree and the first repair did): exact only for strings
    without a carriage return — `C07_attr_cr_counterexample` -/
theorem C07_attr_roundtrip_partial (s rest : List Char) (hs : ∀ c ∈ s, inRange c = true) (hcr : '\r' ∉ s) :
    readAttr (escape .normal s ++ '"' :: rest) = .ok (s, rest) :=
  attr_roundtrip .normal (Or.inl rfl) s ⟨hs, fun _ => hcr, by simp⟩ rest

/-- the reason the text mode matters: in etree's normal mode a carriage return comes back as LF -/
theorem C07_cr_counterexample :
    readText (escape .normal ['a', '\r', 'b'] ++ ['<']) = .ok (['a', '\n', 'b'], ['<']) := by decide

theorem C07_attr_cr_counterexample :
    readAttr (escape .normal ['a', '\r', 'b'] ++ ['"']) = .ok (['a', '\n', 'b'], []) := by decide

/-- the reason attribute values are *not* written in the canonical attribute mode: `]]>` is left raw
    and the reader refuses it -/
theorem C07_canon_attr_counterexample :
    readAttr (escape .canonAttr [']', ']', '>'] ++ ['"']) = .err "cdata-end-in-text" := by decide

/-- in the canonical attribute mode everything but `>` round-trips (CR, LF, TAB included) -/
theorem C07_canon_attr_roundtrip (s rest : List Char) (hs : ∀ c ∈ s, inRange c = true) (hgt : '>' ∉ s) :
    readAttr (escape .canonAttr s ++ '"' :: rest) = .ok (s, rest) :=
  attr_roundtrip .canonAttr (Or.inr (Or.inl rfl)) s ⟨hs, by simp, fun _ => hgt⟩ rest

/-- the writer never emits markup for data: no `<` and no unescaped `&`-less quote in an attribute -/
theorem C07_no_markup (m : Mode) (s : List Char) : '<' ∉ escape m s := by
  unfold escape
  simp only [List.mem_flatMap, not_exists, not_and]
  intro c _
  unfold escChar
  repeat' split
  all_goals first
    | decide
    | (intro h; simp only [List.mem_singleton] at h; subst h; simp_all)

/-- obligations on the current source: the writer settings and their use at every serialisation site -/
theorem C07_writer_mode : Facts.xmlWriteSettingsCanonical = (true, false) := by decide
/-- every serialisation site goes through the package's writer, never through etree's `WriteTo*` directly -/
theorem C07_every_site_uses_it : Facts.xmlWriteSites.all (·.2) = true ∧ Facts.xmlWriteSites.length = 11 := by decide
/-- the package's writer installs the write settings and wraps the destination in `crEscaper`, which
    replaces carriage returns by `&#xD;` (the `crReplace` of the model) -/
theorem C07_package_writer :
    Facts.writeXMLBody = ["doc.WriteSettings = xmlWriteSettings", "_, err := doc.WriteTo(crEscaper{w})", "return err"] ∧
    Facts.crEscaperReplace = ["bytes.ReplaceAll(p, []byte{'\\r'}, []byte(\"&#xD;\"))"] := by decide
theorem C07_extraction_clean : Facts.extractionFailures = [] := by decide

/-! ### 2. structure -/

/-- the SP is configured from this IdP's metadata and is the SP the response was made for -/
structure ConfigMatch (icfg : IdpCfg) (md : EntityDesc) (e : Endpoint) (sp : SP.Cfg) : Prop where
  idp : sp.idpEntityID = icfg.entityID
  acs : sp.acsURL = e.location
  aud : sp.audience = md.entityID
  noReqIdOverride : sp.reqIdValidator = none
  noAudOverride : sp.audValidator = none
  status : sp.statusSuccess = success
  delay : sp.delay = icfg.delay
  skew : sp.skew = icfg.skew
  skewNonneg : 0 ≤ icfg.skew

/-- the clocks: receipt ≤ issuance ≤ consumption ≤ receipt + MaxIssueDelay, and the request's own
    IssueInstant is not ahead of the consumer's clock by more than the skew -/
structure Timely (icfg : IdpCfg) (q : Request) (reqNow now t : Int) : Prop where
  mono : reqNow ≤ now
  later : now ≤ t
  fresh : t ≤ reqNow + icfg.delay
  request : q.issueInstant ≤ t + icfg.skew

theorem ordered_single (e : SP.Entry) : SP.ordered [e] = [e] := by
  unfold SP.ordered SP.isEnc
  by_cases h : e.wrap = .plain <;> simp [h]

/-- **C07 (structure)**: whatever the IdP emits for endpoint `e` of SP `md` is accepted by that SP,
    and the accepted assertion is the emitted one: same NameID, same attributes in the same order. -/
theorem C07_accept (icfg : IdpCfg) (md : EntityDesc) (e : Endpoint) (ras : List ReqAttr) (q : Request)
    (s : Session) (reqNow now t : Int) (enc : Bool) (r : ResponseOut) (sp : SP.Cfg) (ids : List String)
    (url : String) (need : SP.Need)
    (hr : respond icfg md e ras q s reqNow now enc = .ok r)
    (hm : ConfigMatch icfg md e sp) (ht : Timely icfg q reqNow now t)
    (hid : sp.allowIdP = true ∨ q.id ∈ ids) :
    SP.parseResponse sp t ids url need .valid (toSPResponse r) = .ok (toSPAssertion r.assertion) ∧
    (toSPAssertion r.assertion).ident = identOf r.assertion ∧
    r.assertion.nameID = s.nameID ∧ r.assertion.attrs = requestedAttrs s ras ++ standardAttrs s := by
  obtain ⟨_, rfl⟩ := respond_ok hr
  refine ⟨?_, rfl, rfl, rfl⟩
  rw [SP.accept_iff]
  obtain ⟨hmi, hma, hmaud, hmr, hmv, hms, hmd, hmk, hk0⟩ := hm
  obtain ⟨h1, h2, h3, h4⟩ := ht
  constructor
  · refine ⟨fun _ => Or.inr (by simp [toSPResponse, hma]), ?_, ?_, ?_, ?_, by simp⟩
    · unfold SP.ReqIdOK; rw [hmr]
      rcases hid with h | h
      · exact Or.inl h
      · exact Or.inr (by simpa [toSPResponse] using h)
    · simp only [toSPResponse]; omega
    · intro i hi; simp only [toSPResponse, Option.some.injEq] at hi; rw [← hi, hmi]
    · simp [toSPResponse, hms, success]
  · refine ⟨[], ⟨if enc then .encOk else .plain, .valid,
        toSPAssertion (makeAssertion icfg md.entityID e.location ras q s reqNow now)⟩, [], ?_, ?_, rfl, by simp⟩
    · simp only [toSPResponse, ordered_single]; rfl
    · refine ⟨?_, fun _ => rfl, ?_⟩
      · cases enc <;> simp
      · refine ⟨?_, ?_, ?_, ?_⟩
        · simp only [toSPAssertion, makeAssertion]; omega
        · simp [toSPAssertion, makeAssertion, hmi]
        · refine ⟨_, rfl, ?_⟩
          intro sc hsc
          simp only [makeAssertion, List.map_cons, List.map_nil, List.mem_singleton] at hsc
          subst hsc
          refine ⟨⟨_, rfl, ?_, hma.symm, by show t ≤ reqNow + icfg.delay + sp.skew; omega⟩⟩
          intro hno
          rcases hid with h | h
          · rw [h] at hno; exact absurd hno (by simp)
          · exact h
        · refine ⟨_, rfl, ?_, ?_, ?_⟩
          · simp only [makeAssertion]; split <;> omega
          · simp only [makeAssertion]; split <;> omega
          · unfold SP.AudienceOK; rw [hmv]
            exact Or.inr (by simp [makeAssertion, hmaud])

/-! ### 3. registration from published metadata -/

/-- the SP wants (and can take) encrypted assertions: it has a certificate with an RSA key -/
def SPPub.encrypts (p : SPPub) : Bool := p.cert.isSome && p.certIsRSA

theorem C07_published_metadata_routes (p : SPPub) (id : String) (ii : Int) (dest : String) :
    ∃ d, selectACS (spMetadata p) (authnRequestOf p id ii dest) = some (d, postEndpoint p) ∧
      d ∈ (spMetadata p).spsso ∧ d.attrSvcs = [] ∧ d.keys = publishedKeys p := by
  refine ⟨_, ?_, List.mem_singleton.mpr rfl, rfl, rfl⟩
  unfold selectACS allEndpoints spMetadata authnRequestOf postEndpoint
  by_cases h : p.acsURL = ""
  · simp [h, isBrowserBinding, postBinding]
  · simp [h]

/-- an RSA certificate is selected for encryption -/
theorem C07_published_metadata_encrypts (p : SPPub) (c : String) (hc : p.cert = some c) (hr : p.certIsRSA = true)
    (hne : c ≠ "") : selectEncCert (publishedKeys p) = .ok (.cert c) := by
  unfold publishedKeys selectEncCert
  simp [hc, hr, firstCert, hne]

/-- no certificate, or a certificate that cannot receive an RSA key transport (ECDSA): nothing is
    advertised for encryption — also not through the signing descriptor — and the assertion is sent
    signed but unencrypted -/
theorem C07_published_metadata_plain (p : SPPub) (h : p.encrypts = false) :
    selectEncCert (publishedKeys p) = .ok .none := by
  unfold SPPub.encrypts at h
  unfold publishedKeys selectEncCert
  cases hc : p.cert with
  | none => simp
  | some c =>
    have hr : p.certIsRSA = false := by simpa [hc] using h
    cases hs : p.signs <;> simp [hr]

/-- **C07 (end to end)**: the SP's own metadata is sufficient registration.  A request made by SP `p`,
    received by an IdP whose registry holds `p`'s published metadata, is answered — encrypted exactly
    when `p` has an RSA certificate (which must decode) — and the answer is accepted by `p` with
    exactly the session's name identifier and standard attributes.  ECDSA and key-less SPs are
    answered in clear. -/
theorem C07_end_to_end (p : SPPub) (vcfg : Cfg) (icfg : IdpCfg) (usable : String → Bool)
    (registry : String → Lookup) (id : String) (ii : Int) (dest : String) (s : Session)
    (reqNow now t : Int) (url : String) (need : SP.Need) (allowIdP : Bool)
    (hreg : registry p.id = .found (spMetadata p))
    (hdest : dest = "" ∨ dest = vcfg.ssoURL)
    (hfresh : reqNow ≤ ii + vcfg.delay)
    (hcert : ∀ c, p.cert = some c → p.certIsRSA = true → c ≠ "" ∧ usable c = true)
    (ht : Timely icfg ⟨id, ii⟩ reqNow now t) (hk : 0 ≤ icfg.skew) :
    ∃ r, serveSSO vcfg icfg usable registry (authnRequestOf p id ii dest) s reqNow now = .ok r ∧
      r.encrypted = p.encrypts ∧
      SP.parseResponse (spCfgOf p icfg allowIdP) t [id] url need .valid (toSPResponse r) =
        .ok (toSPAssertion r.assertion) ∧
      r.assertion.nameID = s.nameID ∧ r.assertion.attrs = standardAttrs s := by
  obtain ⟨d, hsel, _, hattr, hkeys⟩ := C07_published_metadata_routes p id ii dest
  have hv : validate vcfg reqNow registry (authnRequestOf p id ii dest) = .ok ⟨spMetadata p, d, postEndpoint p⟩ := by
    unfold validate
    have h1 : ¬((authnRequestOf p id ii dest).destination ≠ "" ∧ (authnRequestOf p id ii dest).destination ≠ vcfg.ssoURL) := by
      simp only [authnRequestOf]; rcases hdest with h | h <;> simp [h]
    rw [if_neg h1]
    have h2 : ¬((authnRequestOf p id ii dest).issueInstant + vcfg.delay < reqNow) := by
      simp only [authnRequestOf]; omega
    rw [if_neg h2]
    have h3 : ¬((authnRequestOf p id ii dest).version ≠ "2.0") := by simp [authnRequestOf]
    rw [if_neg h3]
    simp only [authnRequestOf] at hsel ⊢
    simp only [hreg, hsel]
  have henc : encryptionOf usable d.keys = .ok p.encrypts := by
    unfold encryptionOf
    rw [hkeys]
    cases he : p.encrypts with
    | false => rw [C07_published_metadata_plain p he]
    | true =>
      unfold SPPub.encrypts at he
      simp only [Bool.and_eq_true, Option.isSome_iff_exists] at he
      obtain ⟨⟨c, hc⟩, hr⟩ := he
      obtain ⟨hne, hu⟩ := hcert c hc hr
      rw [C07_published_metadata_encrypts p c hc hr hne]
      simp [hu]
  let r : ResponseOut :=
    { url := p.acsURL, destination := p.acsURL, inResponseTo := id, issueInstant := reqNow,
      issuer := icfg.entityID, status := success,
      assertion := makeAssertion icfg p.id p.acsURL [] ⟨id, ii⟩ s reqNow now, encrypted := p.encrypts }
  have hresp : respond icfg (spMetadata p) (postEndpoint p) [] ⟨id, ii⟩ s reqNow now p.encrypts = .ok r := by
    unfold respond postEndpoint; simp [r, success, spMetadata]
  have hserve : serveSSO vcfg icfg usable registry (authnRequestOf p id ii dest) s reqNow now = .ok r := by
    unfold serveSSO
    rw [hv]
    simp only [produce, henc, hattr, chooseReqAttrs, List.find?_nil]
    simpa [authnRequestOf] using hresp
  refine ⟨r, hserve, rfl, ?_, rfl, ?_⟩
  · have hm : ConfigMatch icfg (spMetadata p) (postEndpoint p) (spCfgOf p icfg allowIdP) :=
      ⟨rfl, rfl, rfl, rfl, rfl, rfl, rfl, rfl, hk⟩
    exact (C07_accept icfg (spMetadata p) (postEndpoint p) [] ⟨id, ii⟩ s reqNow now t p.encrypts r
      (spCfgOf p icfg allowIdP) [id] url need hresp hm ht (Or.inr (by simp))).1
  · simp [r, makeAssertion, requestedAttrs]

/-- the pinned publication advertised any certificate for encryption; for an ECDSA SP the IdP then
    could not answer at all -/
theorem C07_pinned_ecdsa_counterexample :
    encryptionOf (fun _ => false) [⟨"encryption", ["MIIB-ec"]⟩, ⟨"signing", ["MIIB-ec"]⟩] =
      .err "bad-encryption-certificate" := by decide

/-! ### non-vacuity -/

def exPub : SPPub := ⟨"", "https://sp/md", "https://sp/acs", some "MIIB", true, true⟩

example : ∃ r, serveSSO ⟨"https://idp/sso", 90000⟩ ⟨"https://idp/md", 90000, 180000⟩ (fun _ => true)
    (fun i => if i = "https://sp/md" then .found (spMetadata exPub) else .notExist)
    (authnRequestOf exPub "id-1" 1000 "https://idp/sso") exSession 1500 1501 = .ok r ∧ r.encrypted = true ∧
    SP.parseResponse (spCfgOf exPub ⟨"https://idp/md", 90000, 180000⟩ false) 2000 ["id-1"] "https://sp/acs" .required .valid
      (toSPResponse r) = .ok (toSPAssertion r.assertion) := by
  refine ⟨_, rfl, rfl, ?_⟩
  decide +kernel

end SamlVerif.IdPOut
