/-
  C06 — every response the IdP emits is scoped to one SP, one request and one moment.

  `IdPOut.serveSSO` / `serveInit` are the flows of `ServeSSO` / `ServeIDPInitiated` (validation and
  routing from the C05 model, then `MakeAssertion`, `MakeAssertionEl`, `MakeResponse`,
  `PostBinding`).  The theorems below hold for every registry, request, session, configuration and
  clock reading.  Signature bytes are outside this model; the harness verifies both signatures of
  every emitted response under the IdP certificate (trusted base, see DESIGN).
-/
import SamlVerif.Model.IdPOut
import SamlVerif.Props.C05
import SamlVerif.Generated.Facts

namespace SamlVerif.IdPOut
open SamlVerif.IdP

def bearer : String := "urn:oasis:names:tc:SAML:2.0:cm:bearer"

/-- what "scoped to SP `md`, endpoint `e`, request `q`" means for an emitted response -/
structure Scoped (cfg : IdpCfg) (md : EntityDesc) (e : Endpoint) (q : Request) (reqNow : Int)
    (r : ResponseOut) : Prop where
  post : e.binding = postBinding
  url : r.url = e.location
  destination : r.destination = e.location
  recipient : r.assertion.confirmations = [⟨bearer, q.id, e.location, reqNow + cfg.delay⟩]
  audience : r.assertion.audiences = [md.entityID]
  spQualifier : r.assertion.spNameQualifier = md.entityID
  inResponseTo : r.inResponseTo = q.id
  issuer : r.issuer = cfg.entityID
  assertionIssuer : r.assertion.issuer = cfg.entityID
  status : r.status = "urn:oasis:names:tc:SAML:2.0:status:Success"
  issueInstant : r.issueInstant = reqNow

theorem respond_ok {cfg md acs ras req s reqNow now enc r}
    (h : respond cfg md acs ras req s reqNow now enc = .ok r) :
    acs.binding = postBinding ∧
    r = { url := acs.location, destination := acs.location, inResponseTo := req.id, issueInstant := reqNow,
          issuer := cfg.entityID, status := "urn:oasis:names:tc:SAML:2.0:status:Success",
          assertion := makeAssertion cfg md.entityID acs.location ras req s reqNow now, encrypted := enc } := by
  unfold respond at h
  split at h
  · simp at h
  · rename_i hb
    simp only [Outcome.ok.injEq] at h
    exact ⟨by simpa using hb, h.symm⟩

theorem produce_ok {cfg usable ρ req s reqNow now r} (h : produce cfg usable ρ req s reqNow now = .ok r) :
    ∃ enc, encryptionOf usable ρ.desc.keys = .ok enc ∧
      respond cfg ρ.md ρ.acs (chooseReqAttrs ρ.desc.attrSvcs) req s reqNow now enc = .ok r := by
  unfold produce at h
  split at h
  · rename_i enc he; exact ⟨enc, he, h⟩
  · simp at h
  · simp at h

theorem produce_scoped {cfg usable ρ req s reqNow now r} (h : produce cfg usable ρ req s reqNow now = .ok r) :
    Scoped cfg ρ.md ρ.acs req reqNow r := by
  obtain ⟨enc, _, hr⟩ := produce_ok h
  obtain ⟨hb, rfl⟩ := respond_ok hr
  exact ⟨hb, rfl, rfl, rfl, rfl, rfl, rfl, rfl, rfl, rfl, rfl⟩

theorem serveSSO_ok {vcfg cfg usable registry areq s reqNow now r}
    (h : serveSSO vcfg cfg usable registry areq s reqNow now = .ok r) :
    ∃ ρ, validate vcfg reqNow registry areq = .ok ρ ∧
      produce cfg usable ρ ⟨areq.id, areq.issueInstant⟩ s reqNow now = .ok r := by
  unfold serveSSO at h
  split at h
  · rename_i ρ hv; exact ⟨ρ, hv, h⟩
  · simp at h
  · simp at h

/-- **C06 (SP-initiated)**: an emitted response answers a request that passed validation, targets
    an HTTP-POST endpoint registered for the request's issuer, and every scoping field is that
    endpoint's location, that SP's entity ID, the request's ID and the IdP's entity ID. -/
theorem C06_scope_sso (vcfg : Cfg) (cfg : IdpCfg) (usable : String → Bool) (registry : String → Lookup)
    (areq : AuthnRequestS) (s : Session) (reqNow now : Int) (r : ResponseOut)
    (h : serveSSO vcfg cfg usable registry areq s reqNow now = .ok r) :
    ∃ iss md d e, areq.issuer = some iss ∧ registry iss = .found md ∧ d ∈ md.spsso ∧ e ∈ d.acs ∧
      selectACS md areq = some (d, e) ∧
      Scoped cfg md e ⟨areq.id, areq.issueInstant⟩ reqNow r := by
  obtain ⟨ρ, hv, hp⟩ := serveSSO_ok h
  obtain ⟨_, _, _, iss, hi, hreg⟩ := C05_guards _ _ _ _ _ hv
  obtain ⟨hd, he⟩ := C05_endpoint_registered _ _ _ _ _ hv
  exact ⟨iss, ρ.md, ρ.desc, ρ.acs, hi, hreg, hd, he, validate_routing _ _ _ _ _ hv, produce_scoped hp⟩

/-- **C06 (IdP-initiated)**: same scoping against the named SP's first HTTP-POST endpoint, and
    `InResponseTo` is absent (empty) at both levels. -/
theorem C06_scope_init (cfg : IdpCfg) (usable : String → Bool) (registry : String → Lookup) (spID : String)
    (s : Session) (reqNow now : Int) (r : ResponseOut)
    (h : serveInit cfg usable registry spID s reqNow now = .ok r) :
    ∃ md d e, registry spID = .found md ∧ d ∈ md.spsso ∧ e ∈ d.acs ∧
      Scoped cfg md e ⟨"", zeroTime⟩ reqNow r ∧ r.inResponseTo = "" ∧
      r.assertion.confirmations.map (·.inResponseTo) = [""] := by
  unfold serveInit at h
  split at h
  · simp at h
  · simp at h
  · rename_i md hreg
    split at h
    · simp at h
    · rename_i d e hsel
      obtain ⟨hd, he, _⟩ := C05_idp_initiated _ _ hsel
      have hs := produce_scoped h
      exact ⟨md, d, e, hreg, hd, he, hs, hs.inResponseTo, by rw [hs.recipient]; rfl⟩

/-- **C06 (moment)**: the Conditions window opens no earlier than `MaxClockSkew` before the request
    was received and never later than `max (reqNow − skew) IssueInstant`; it stays open exactly
    `MaxIssueDelay` past the later of (receipt, request IssueInstant); the bearer confirmation expires
    `MaxIssueDelay` after receipt; the assertion is stamped with the clock at issuance. -/
theorem C06_window (cfg : IdpCfg) (sp loc : String) (ras : List ReqAttr) (q : Request) (s : Session)
    (reqNow now : Int) :
    let a := makeAssertion cfg sp loc ras q s reqNow now
    reqNow - cfg.skew ≤ a.notBefore ∧
    (a.notBefore = reqNow - cfg.skew ∨ a.notBefore = q.issueInstant) ∧
    a.notBefore = max (reqNow - cfg.skew) q.issueInstant ∧
    (a.notOnOrAfter = reqNow + cfg.delay ∨ a.notOnOrAfter = q.issueInstant + cfg.delay) ∧
    (0 ≤ cfg.skew → a.notOnOrAfter = max reqNow q.issueInstant + cfg.delay ∨
        (reqNow - cfg.skew < q.issueInstant ∧ q.issueInstant ≤ reqNow)) ∧
    a.confirmations.map (·.notOnOrAfter) = [reqNow + cfg.delay] ∧
    a.issueInstant = now := by
  simp only [makeAssertion, List.map_cons, List.map_nil]
  refine ⟨?_, ?_, ?_, ?_, ?_, trivial, trivial⟩
  · split <;> omega
  · split <;> simp
  · split <;> omega
  · split <;> simp
  · intro _; split <;> omega

/-- the window is never empty when `MaxIssueDelay` is positive -/
theorem C06_window_nonempty (cfg : IdpCfg) (sp loc ras q s reqNow now) (hd : 0 < cfg.delay) (hs : 0 ≤ cfg.skew) :
    (makeAssertion cfg sp loc ras q s reqNow now).notBefore <
    (makeAssertion cfg sp loc ras q s reqNow now).notOnOrAfter := by
  simp only [makeAssertion]
  split <;> omega

/-! ### provenance of the identity -/

theorem requestedValue_mem (s : Session) (n v : String) (h : requestedValue s n = some v) :
    v ∈ sessionStrings s := by
  unfold requestedValue at h
  simp only [sessionStrings]
  repeat' split at h
  all_goals first
    | (simp only [Option.some.injEq] at h; subst h; simp)
    | simp at h

theorem requestedAttrs_values (s : Session) (ras : List ReqAttr) (a : AttrS) (ha : a ∈ requestedAttrs s ras)
    (v : String) (hv : v ∈ a.values) : v ∈ sessionStrings s := by
  unfold requestedAttrs at ha
  simp only [List.mem_filterMap] at ha
  obtain ⟨ra, _, h⟩ := ha
  split at h
  · simp only [Option.map_eq_some_iff] at h
    obtain ⟨w, hw, rfl⟩ := h
    simp only [List.mem_singleton] at hv
    subst hv
    exact requestedValue_mem _ _ _ hw
  · simp at h

theorem mem_optAttr {c : Bool} {a x : AttrS} (h : x ∈ optAttr c a) : x = a := by
  unfold optAttr at h
  split at h <;> simp_all

theorem standardAttrs_values (s : Session) (a : AttrS) (ha : a ∈ standardAttrs s)
    (v : String) (hv : v ∈ a.values) : v ∈ sessionStrings s := by
  unfold standardAttrs at ha
  simp only [List.mem_append] at ha
  simp only [sessionStrings, List.mem_append, List.mem_flatMap]
  rcases ha with (((((((((h | h) | h) | h) | h) | h) | h) | h) | h) | h)
  · have := mem_optAttr h; subst this; simp at hv; exact Or.inl (Or.inl (by simp [hv]))
  · have := mem_optAttr h; subst this; simp at hv; exact Or.inl (Or.inl (by simp [hv]))
  · have := mem_optAttr h; subst this
    simp only [List.mem_singleton] at hv
    split at hv <;> exact Or.inl (Or.inl (by simp [hv]))
  · have := mem_optAttr h; subst this; simp at hv; exact Or.inl (Or.inl (by simp [hv]))
  · have := mem_optAttr h; subst this; simp at hv; exact Or.inl (Or.inl (by simp [hv]))
  · have := mem_optAttr h; subst this; simp at hv; exact Or.inl (Or.inl (by simp [hv]))
  · have := mem_optAttr h; subst this; simp at hv; exact Or.inl (Or.inl (by simp [hv]))
  · exact Or.inr ⟨a, h, hv⟩
  · have := mem_optAttr h; subst this; exact Or.inl (Or.inr hv)
  · have := mem_optAttr h; subst this; simp at hv; exact Or.inl (Or.inl (by simp [hv]))

/-- **C06 (identity)**: the name identifier is the session's, the attribute statement is a function
    of the session and the SP's requested attributes alone, every attribute value in it is a string
    of the session, and the session index is the session's. -/
theorem C06_identity (cfg : IdpCfg) (sp loc : String) (ras : List ReqAttr) (q : Request) (s : Session)
    (reqNow now : Int) :
    let a := makeAssertion cfg sp loc ras q s reqNow now
    a.nameID = s.nameID ∧ a.sessionIndex = s.index ∧ a.nameQualifier = cfg.entityID ∧
    a.attrs = requestedAttrs s ras ++ standardAttrs s ∧
    ∀ x ∈ a.attrs, ∀ v ∈ x.values, v ∈ sessionStrings s := by
  refine ⟨rfl, rfl, rfl, rfl, ?_⟩
  intro x hx v hv
  simp only [makeAssertion, List.mem_append] at hx
  rcases hx with hx | hx
  · exact requestedAttrs_values s ras x hx v hv
  · exact standardAttrs_values s x hx v hv

/-- two users' responses to the same request differ in nothing but identity: all scoping fields of
    `makeAssertion` are independent of the session -/
theorem C06_session_independent (cfg : IdpCfg) (sp loc ras q) (s s' : Session) (reqNow now : Int) :
    let a := makeAssertion cfg sp loc ras q s reqNow now
    let a' := makeAssertion cfg sp loc ras q s' reqNow now
    a.confirmations = a'.confirmations ∧ a.audiences = a'.audiences ∧ a.issuer = a'.issuer ∧
    a.notBefore = a'.notBefore ∧ a.notOnOrAfter = a'.notOnOrAfter := ⟨rfl, rfl, rfl, rfl, rfl⟩

/-- **C06 (POST only)**: a response is never produced for an endpoint whose binding is not HTTP-POST -/
theorem C06_post_only (cfg md acs ras req s reqNow now enc) (h : acs.binding ≠ postBinding) :
    respond cfg md acs ras req s reqNow now enc = .err "unsupported-binding" := by
  unfold respond; simp [h]

/-- totality: the producer never panics -/
theorem C06_total (vcfg cfg usable registry areq s reqNow now w) :
    serveSSO vcfg cfg usable registry areq s reqNow now ≠ .panic w := by
  unfold serveSSO
  split
  · unfold produce encryptionOf
    have hs : ∀ ks w, selectEncCert ks ≠ .panic w := by
      intro ks w; unfold selectEncCert; repeat' split
      all_goals simp
    split
    · unfold respond; split <;> simp
    · simp
    · rename_i w' hw
      split at hw
      · simp at hw
      · split at hw <;> simp at hw
      · simp at hw
      · rename_i w'' h''; exact absurd h'' (hs _ _)
  · simp
  · rename_i w' hw; exact absurd hw (C05_total _ _ _ _ _)

/-! ### obligations on the regenerated facts: where each emitted field comes from in the source -/

/-- the data flow of `MakeAssertion` / `MakeResponse` as written in identity_provider.go today -/
def expectedFieldSources : List (String × String) :=
  [ ("Assertion.Issuer.Value", "req.IDP.Metadata().EntityID"),
    ("Assertion.Subject.NameID.NameQualifier", "req.IDP.Metadata().EntityID"),
    ("Assertion.Subject.NameID.SPNameQualifier", "req.ServiceProviderMetadata.EntityID"),
    ("Assertion.Subject.NameID.Value", "session.NameID"),
    ("Assertion.Subject.SubjectConfirmations[0].Method", "\"urn:oasis:names:tc:SAML:2.0:cm:bearer\""),
    ("Assertion.Subject.SubjectConfirmations[0].SubjectConfirmationData.InResponseTo", "req.Request.ID"),
    ("Assertion.Subject.SubjectConfirmations[0].SubjectConfirmationData.NotOnOrAfter", "req.Now.Add(MaxIssueDelay)"),
    ("Assertion.Subject.SubjectConfirmations[0].SubjectConfirmationData.Recipient", "req.ACSEndpoint.Location"),
    ("Assertion.Conditions.NotBefore", "notBefore"),
    ("Assertion.Conditions.NotOnOrAfter", "notOnOrAfterAfter"),
    ("Assertion.Conditions.AudienceRestrictions[0].Audience.Value", "req.ServiceProviderMetadata.EntityID"),
    ("Assertion.AuthnStatements[0].SessionIndex", "session.Index"),
    ("Assertion.AttributeStatements[0].Attributes", "attributes"),
    ("Assertion.IssueInstant", "TimeNow()"),
    ("Response.Destination", "req.ACSEndpoint.Location"),
    ("Response.InResponseTo", "req.Request.ID"),
    ("Response.IssueInstant", "req.Now"),
    ("Response.Issuer.Value", "req.IDP.MetadataURL.String()"),
    ("Response.Status.StatusCode.Value", "StatusSuccess"),
    ("Form.URL", "req.ACSEndpoint.Location") ]

/-- every scoping field of the model is read from the same source expression in the code -/
theorem C06_field_sources :
    expectedFieldSources.all (fun p => Facts.idpFieldSources.lookup p.1 = some p.2) = true := by decide

/-- the single-element shapes the model assumes: one confirmation, one audience restriction, one
    authn statement, one attribute statement -/
theorem C06_shapes : Facts.idpListLengths =
    [("Assertion.Subject.SubjectConfirmations", 1), ("Assertion.Conditions.AudienceRestrictions", 1),
     ("Assertion.AuthnStatements", 1), ("Assertion.AttributeStatements", 1)] := by decide

/-- both `SignEnveloped` calls (assertion, response) obtain their context from `signingContext` -/
theorem C06_signing_sites : Facts.idpSignEnvelopedSites = ["MakeAssertionEl:signingContext", "MakeResponse:signingContext"] := by
  decide

theorem C06_extraction_clean : Facts.extractionFailures = [] := by decide

/-! ### non-vacuity -/

def exSession : Session :=
  { nameID := "alice", nameIDFormat := "", index := "i1", subjectID := "", groups := ["g"], userName := "alice",
    userEmail := "a@x", userCommonName := "", userSurname := "", userGivenName := "", userScopedAffiliation := "",
    eduPersonPrincipalName := "", custom := [] }

def exMd : EntityDesc :=
  ⟨"sp", [{ acs := [⟨redirectBinding, "https://sp/r", 1, none⟩, ⟨postBinding, "https://sp/acs", 2, none⟩],
            keys := [] }]⟩

example : (serveSSO ⟨"https://idp/sso", 90000⟩ ⟨"https://idp/md", 90000, 180000⟩ (fun _ => false)
    (fun i => if i = "sp" then .found exMd else .notExist)
    ⟨"id1", some "sp", "", "2.0", 0, "https://sp/acs", ""⟩ exSession 50000 50001).isOk = true := by decide

example : (serveSSO ⟨"https://idp/sso", 90000⟩ ⟨"https://idp/md", 90000, 180000⟩ (fun _ => false)
    (fun i => if i = "sp" then .found exMd else .notExist)
    ⟨"id1", some "sp", "", "2.0", 0, "", ""⟩ exSession 50000 50001) = .err "unsupported-binding" := by decide

example : (serveInit ⟨"https://idp/md", 90000, 180000⟩ (fun _ => false)
    (fun i => if i = "sp" then .found exMd else .notExist) "sp" exSession 50000 50001).isOk = true := by decide

end SamlVerif.IdPOut
