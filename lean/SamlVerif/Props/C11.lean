/-
  C11 — XML decryption is total and rejects malformed or mismatched ciphertext.

  "Decrypt returns either plaintext or an error for every element and key - never a panic -
   including truncated, non-block-aligned or empty cipher values, missing or unknown algorithm and
   digest identifiers, nested or repeated encrypted keys, and keys of the wrong type or size.  An
   RSA-wrapped key whose embedded certificate does not match the supplied private key is rejected,
   and for AES-GCM any modification of the cipher value is rejected."
-/
import SamlVerif.Proofs.Xmlenc

namespace SamlVerif.Xmlenc

theorem getCiphertext_ne_panic (l : Layer) (w : String) : getCiphertext l ≠ .panic w := by
  unfold getCiphertext
  split <;> simp

theorem rsaDecrypt_ne_panic (env : Env) (s : RsaScheme) (key : Key) (l : Layer) (w : String) :
    rsaDecrypt env s key l ≠ .panic w := by
  unfold rsaDecrypt
  split
  · split
    · simp
    · split
      · simp
      · rename_i h; exact absurd h (getCiphertext_ne_panic _ _)
      · simp only
        split
        · simp
        · split <;> simp
  · simp

/-- **Totality**: for every element (any nesting depth of encrypted keys, any combination of
    missing/unknown identifiers, any cipher value of any length) and every key of every admitted
    type, `Decrypt` returns plaintext or an error — never a panic. -/
theorem C11_total (env : Env) (key : Key) (ls : List Layer) (w : String) :
    decrypt env key ls ≠ .panic w := by
  induction ls generalizing key w with
  | nil => simp [decrypt]
  | cons l inner ih =>
    unfold decrypt
    split
    · simp
    · split
      · simp
      · exact rsaDecrypt_ne_panic _ _ _ _ _
      · rename_i f _
        simp only
        have hk : ∀ w', (match inner with
            | [] => Outcome.ok key
            | _ :: _ => (decrypt env key inner).map Key.bytes) ≠ .panic w' := by
          intro w'
          cases inner with
          | nil => simp
          | cons l' rest =>
            simp only
            cases hd : decrypt env key (l' :: rest) with
            | ok v => simp [Outcome.map]
            | err e => simp [Outcome.map]
            | panic w'' => exact absurd hd (ih key w'')
        split
        · simp
        · rename_i h; exact absurd h (hk _)
        · split
          · simp
          · split
            · simp
            · rename_i h; exact absurd h (getCiphertext_ne_panic _ _)
            · split
              · split
                · simp
                · exact cbcDecrypt_ne_panic _ _ _
              · split
                · simp
                · exact gcmDecrypt_ne_panic _ _ _
        · simp

/-- Non-block-aligned, truncated and empty CBC cipher values are errors. -/
theorem C11_cbc_malformed (c : Block) (ct : Bytes) (h : ct.length < c.bs ∨ ct.length % c.bs ≠ 0) :
    ∃ e, cbcDecrypt c ct = .err e := by
  unfold cbcDecrypt
  rcases h with h | h
  · exact ⟨_, by rw [if_pos h]⟩
  · by_cases h1 : ct.length < c.bs
    · exact ⟨_, by rw [if_pos h1]⟩
    · exact ⟨_, by rw [if_neg h1, if_pos h]⟩

/-- Padding must be at least one byte and at most the buffer. -/
theorem C11_min_padding (buf p : Bytes) (h : stripPadding buf = .ok p) : p.length < buf.length :=
  stripPadding_min buf p h

/-- An RSA-wrapped key whose embedded certificate does not match the supplied key is rejected. -/
theorem C11_cert_mismatch (env : Env) (s : RsaScheme) (id : Nat) (l : Layer) (h : l.certOK = some false) :
    rsaDecrypt env s (.rsa id) l = .err "cert-mismatch" := by
  unfold rsaDecrypt
  simp [h]

/-- Keys of the wrong type are rejected by the RSA transport. -/
theorem C11_rsa_key_type (env : Env) (s : RsaScheme) (key : Key) (l : Layer) (h : ∀ id, key ≠ .rsa id) :
    rsaDecrypt env s key l = .err "key-type" := by
  unfold rsaDecrypt
  cases key with
  | rsa id => exact absurd rfl (h id)
  | bytes b => rfl
  | other => rfl

/-- Missing or unknown algorithm identifiers are errors. -/
theorem C11_unknown_alg (env : Env) (key : Key) (l : Layer) (inner : List Layer)
    (h : l.alg = none ∨ ∃ a, l.alg = some a ∧ env.lookup a = none) :
    ∃ e, decrypt env key (l :: inner) = .err e := by
  unfold decrypt
  rcases h with h | ⟨a, h1, h2⟩
  · exact ⟨"no-encryptionmethod", by simp [h]⟩
  · exact ⟨"alg-unknown", by simp [h1, h2]⟩

/-- An unknown digest identifier is an error. -/
theorem C11_unknown_digest (env : Env) (s : RsaScheme) (id : Nat) (l : Layer) (d : String) (ct : Bytes)
    (hc : l.certOK ≠ some false) (hct : l.cipher = .bytes ct) (hd : l.digest = some d)
    (hn : env.digests.contains d = false) :
    rsaDecrypt env s (.rsa id) l = .err "digest-unknown" := by
  unfold rsaDecrypt getCiphertext
  have hn' : d ∉ env.digests := by simpa using hn
  simp [hc, hct, hd, hn']

/-- For AES-GCM any modification of the cipher value is rejected: whatever decrypts to `p` is
    exactly `nonce ‖ seal nonce p` (authenticity of the AEAD is the hypothesis `Aead.Good.auth`). -/
theorem C11_gcm_tamper (a : Aead) (ha : a.Good) (ct ct' p : Bytes)
    (h : gcmDecrypt a ct = .ok p) (hsame : ct'.take a.nonceSize = ct.take a.nonceSize) (hne : ct' ≠ ct) :
    gcmDecrypt a ct' ≠ .ok p := by
  intro h'
  have e1 := gcm_tamper a ha ct p h
  have e2 := gcm_tamper a ha ct' p h'
  rw [hsame] at e2
  exact hne (e2.trans e1.symm)

/-! The pinned tree did panic: witnesses on the toy cipher (tests of the `…Pinned` definitions). -/
example : cbcDecryptPinned (toyBlock [1, 2, 3] 16) (List.replicate 17 0) =
    .panic "crypto/cipher: input not full blocks" := by decide
example : cbcDecryptPinned (toyBlock [1, 2, 3] 8) (List.replicate 16 0) =
    .panic "cipher.NewCBCDecrypter: IV length must equal block size" := by decide
example : ∃ e, cbcDecrypt (toyBlock [1, 2, 3] 16) (List.replicate 17 0) = .err e :=
  C11_cbc_malformed _ _ (Or.inr (by decide))

end SamlVerif.Xmlenc
