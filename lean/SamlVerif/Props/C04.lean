/-
  C04 — SP accepts only responses to requests it has outstanding (unless IdP-initiated).

  "Unless IdP-initiated login is explicitly allowed or the application installs its own request-ID
   validator, a response is accepted only if its InResponseTo - and the InResponseTo of every
   subject confirmation of the accepted assertion - equals one of the request IDs the caller
   declares outstanding; with no outstanding IDs nothing is accepted, and an empty or absent
   InResponseTo matches only an explicitly listed empty ID.  An artifact response is additionally
   accepted only if it answers exactly the ArtifactResolve request the SP just issued.  A valid
   response to an outstanding request is accepted."

  (An absent InResponseTo attribute unmarshals to the empty string; both are `""` here.)
-/
import SamlVerif.Props.C03
import SamlVerif.Model.Middleware

namespace SamlVerif.SP

theorem C04_sound (cfg : Cfg) (now : Int) (ids : List String) (url : String) (need : Need)
    (respSig : SigState) (r : ResponseS) (a : AssertionS)
    (hidp : cfg.allowIdP = false) (hcust : cfg.reqIdValidator = none)
    (h : parseResponse cfg now ids url need respSig r = .ok a) :
    r.inResponseTo ∈ ids ∧
    ∃ scs, a.subject = some scs ∧ ∀ sc ∈ scs, ∃ d, sc.data = some d ∧ d.inResponseTo ∈ ids := by
  obtain ⟨hr, hf⟩ := (accept_iff _ _ _ _ _ _ _ _).mp h
  have hv := firstGood_valid hf
  obtain ⟨scs, hs, hall⟩ := hv.subj
  constructor
  · have := hr.reqId
    unfold ReqIdOK at this
    rw [hcust] at this
    simp [hidp] at this
    exact this
  · refine ⟨scs, hs, ?_⟩
    intro sc hsc
    obtain ⟨d, hd, h1, _, _⟩ := (hall sc hsc).ex
    exact ⟨d, hd, h1 hidp⟩

/-- With no outstanding IDs nothing is accepted. -/
theorem C04_empty (cfg : Cfg) (now : Int) (url : String) (need : Need)
    (respSig : SigState) (r : ResponseS)
    (hidp : cfg.allowIdP = false) (hcust : cfg.reqIdValidator = none) :
    ∀ a, parseResponse cfg now [] url need respSig r ≠ .ok a := by
  intro a h
  have := (C04_sound _ _ _ _ _ _ _ _ hidp hcust h).1
  simp at this

/-- An empty or absent InResponseTo matches only an explicitly listed empty ID. -/
theorem C04_absent (cfg : Cfg) (now : Int) (ids : List String) (url : String) (need : Need)
    (respSig : SigState) (r : ResponseS) (a : AssertionS)
    (hidp : cfg.allowIdP = false) (hcust : cfg.reqIdValidator = none)
    (h : parseResponse cfg now ids url need respSig r = .ok a) (he : r.inResponseTo = "") :
    "" ∈ ids := by
  have := (C04_sound _ _ _ _ _ _ _ _ hidp hcust h).1
  rwa [he] at this

/-- With a custom validator the response-level test is the validator's verdict; the
    confirmation-level test still applies unless IdP-initiated login is allowed. -/
theorem C04_custom (cfg : Cfg) (now : Int) (ids : List String) (url : String) (need : Need)
    (respSig : SigState) (r : ResponseS) (a : AssertionS) (f : ResponseS → List String → Bool)
    (hcust : cfg.reqIdValidator = some f)
    (h : parseResponse cfg now ids url need respSig r = .ok a) :
    f r ids = true ∧
    (cfg.allowIdP = false →
      ∃ scs, a.subject = some scs ∧ ∀ sc ∈ scs, ∃ d, sc.data = some d ∧ d.inResponseTo ∈ ids) := by
  obtain ⟨hr, hf⟩ := (accept_iff _ _ _ _ _ _ _ _).mp h
  have hv := firstGood_valid hf
  obtain ⟨scs, hs, hall⟩ := hv.subj
  constructor
  · have := hr.reqId
    unfold ReqIdOK at this
    rw [hcust] at this
    exact this
  · intro hidp
    refine ⟨scs, hs, ?_⟩
    intro sc hsc
    obtain ⟨d, hd, h1, _, _⟩ := (hall sc hsc).ex
    exact ⟨d, hd, h1 hidp⟩

/-- An artifact response is accepted only if it answers exactly the ArtifactResolve just issued,
    and the inner response is then subject to the same request-ID rule. -/
theorem C04_artifact (cfg : Cfg) (now : Int) (ids : List String) (resolveId url : String)
    (ar : ArtifactResponseS) (a : AssertionS)
    (h : parseArtifactResponse cfg now ids resolveId url ar = .ok a) :
    ar.inResponseTo = resolveId ∧
    (cfg.allowIdP = false → cfg.reqIdValidator = none →
      ∃ rs r, ar.response = some (rs, r) ∧ r.inResponseTo ∈ ids) := by
  obtain ⟨h1, _, _, _, _, rs, r, hr, hp⟩ := (artifact_accept_iff _ _ _ _ _ _ _).mp h
  refine ⟨h1, fun hidp hcust => ⟨rs, r, hr, (C04_sound _ _ _ _ _ _ _ _ hidp hcust hp).1⟩⟩

/-- A valid response to an outstanding request is accepted. -/
theorem C04_complete (cfg : Cfg) (now : Int) (ids : List String) (url : String) (need : Need)
    (respSig : SigState) (r : ResponseS)
    (hr : RespOK cfg now ids url need respSig r)
    (he : ∃ e ∈ r.entries, EntryGood cfg now ids (needAfter need respSig) e) :
    ∃ a, parseResponse cfg now ids url need respSig r = .ok a :=
  C02_complete cfg now ids url need respSig r hr he

/-! ### What the middleware hands to the validator (samlsp/middleware.go ServeACS) -/

open SamlVerif.MW in
/-- The IDs the middleware declares outstanding are exactly the IDs of the authentic tracking
    cookies in the request (plus `""` when IdP-initiated login is allowed). -/
theorem C04_middleware_ids (allowIdP : Bool) (tracked : List TrackedRequest) (id : String)
    (h : id ∈ possibleRequestIDs allowIdP tracked) :
    (allowIdP = true ∧ id = "") ∨ ∃ t ∈ tracked, t.samlRequestID = id := by
  unfold possibleRequestIDs at h
  simp at h
  rcases h with ⟨h1, h2⟩ | ⟨t, ht, rfl⟩
  · exact Or.inl ⟨h1, h2⟩
  · exact Or.inr ⟨t, ht, rfl⟩

/-! Non-vacuity -/
example : parseResponse exCfg 1090000 ["other", "id-1"] "https://sp/acs" .required .absent exResp
    = .ok exGood := by decide
example : parseResponse exCfg 1090000 ["id-10", "id-"] "https://sp/acs" .required .absent exResp
    = .err "response-inresponseto" := by decide

end SamlVerif.SP
