/-
  C14 — Peer-controlled strings cannot alter emitted HTML forms or smuggle script URLs.

  "No caller- or peer-controlled string - relay state, destination and ACS locations, encoded
   messages, login-form toast - can change the structure of the HTML auto-submit forms the library
   emits: each form has exactly the intended action and hidden fields, with those strings as inert
   attribute values.  Endpoint locations obtained by parsing metadata XML are, for the standard
   bindings, http or https URLs or else parsing fails, and for unknown bindings are blanked, so
   script-bearing URL schemes from metadata never reach a form action or redirect."

  Shape of the argument: (1) the escapers' output can neither close the quoted attribute value / text
  run it sits in nor open a tag, and decodes back to the input (`C14_attr_inert`, `C14_attr_decodes`,
  `C14_attr_scan`, `C14_text_scan`); (2) every interpolation point of every template in the current
  source sits in such a context and the templates are parsed by html/template (`C14_templates_ok`,
  an obligation over the regenerated facts); (3) form actions pass the URL filter
  (`C14_action_scheme`); (4) metadata locations (`C14_location`).
  (5) the forms as wholes (`C14_quote_structure`, `C14_form_skeletons`): cut at every `"`, a rendered
  form is the template's skeleton with the holes filled by escaped values, for every data; the
  skeletons of the templates in the current source are the readable lists in `Proofs/HtmlForm.lean`.
  Partial: the full WHATWG tokenizer is not modelled — the argument is carried for the states the
  templates use (double-quoted attribute value: ends at the next `"`; data state after a tag: ends at
  the next `<`); that x/net/html reads the real output the same way is checked by the harness.
-/
import SamlVerif.Proofs.HtmlForm
import SamlVerif.Generated.Facts

namespace SamlVerif.Html

/-- escaped values contain no `"`, `<`, `>`, `'`, NUL or `+` — for every string -/
theorem C14_attr_inert (s : Bytes) (c : UInt8) (hc : c ∈ htmlEscape s) :
    c.toNat ≠ 34 ∧ c.toNat ≠ 60 ∧ c.toNat ≠ 62 ∧ c.toNat ≠ 39 ∧ c.toNat ≠ 0 ∧ c.toNat ≠ 43 :=
  htmlEscape_inert s c hc

/-- the value a browser decodes from the attribute is the original string (NUL → U+FFFD) -/
theorem C14_attr_decodes (s : Bytes) : htmlUnescape (htmlEscape s) = nulToFFFD s :=
  htmlUnescape_htmlEscape s

/-- the double-quoted attribute value ends at the template's own closing quote, whatever the value -/
theorem C14_attr_scan (s rest : Bytes) :
    (htmlEscape s ++ 34 :: rest).takeWhile (fun c => c.toNat ≠ 34) = htmlEscape s ∧
    (htmlEscape s ++ 34 :: rest).dropWhile (fun c => c.toNat ≠ 34) = 34 :: rest :=
  attr_value_scan s rest

/-- interpolated text ends at the template's own next tag, whatever the value -/
theorem C14_text_scan (s rest : Bytes) :
    (htmlEscape s ++ 60 :: rest).takeWhile (fun c => c.toNat ≠ 60) = htmlEscape s ∧
    (htmlEscape s ++ 60 :: rest).dropWhile (fun c => c.toNat ≠ 60) = 60 :: rest :=
  text_scan s rest

/-- form actions: the value the browser reads is the normalised input URL, or `#ZgotmplZ` -/
theorem C14_action_value (s : Bytes) :
    htmlUnescape (urlAttrEscape s) = urlNormalize s ∨ htmlUnescape (urlAttrEscape s) = urlNormalize failsafe := by
  rw [action_value]
  rcases urlFilter_cases s with h | h <;> rw [h]
  · exact Or.inl rfl
  · exact Or.inr rfl

/-- … and never carries a scheme other than http, https or mailto -/
theorem C14_action_scheme (s proto : Bytes) (h : beforeColon (urlFilter s) = some proto)
    (hns : proto.any (fun b => b.toNat = 47) = false) :
    lower proto = http ∨ lower proto = https ∨ lower proto = mailto :=
  urlFilter_scheme s proto h hns

/-- the escaped action is inert as an attribute value too -/
theorem C14_action_inert (s : Bytes) (c : UInt8) (hc : c ∈ urlAttrEscape s) :
    c.toNat ≠ 34 ∧ c.toNat ≠ 60 ∧ c.toNat ≠ 62 ∧ c.toNat ≠ 39 ∧ c.toNat ≠ 0 ∧ c.toNat ≠ 43 :=
  htmlEscape_inert _ c hc

/-! ### the forms as a whole: "each form has exactly the intended action and hidden fields" -/

/-- **Quote structure.** Cut the rendered document at every `"` (which is how a tokenizer inside a tag
    finds the end of a double-quoted attribute value): for *every* data the pieces are the template's
    own skeleton with each hole filled by the escaped value.  No value adds, removes or moves a quote. -/
theorem C14_quote_structure (t : Bytes) (data : Bytes → Bytes) (hk : holesKnown (skel (parseTemplate t)) = true) :
    pieces (render t data) = (skelT (parseTemplate t)).map (fill data) :=
  pieces_render_tidy data (parseTemplate t) hk

/-- … so two renderings of one template differ in no static piece and have the same number of pieces -/
theorem C14_structure_independent_of_data (t : Bytes) (d1 d2 : Bytes → Bytes) (hk : holesKnown (skel (parseTemplate t)) = true) :
    (pieces (render t d1)).length = (pieces (render t d2)).length :=
  pieces_render_length d1 d2 (parseTemplate t) hk

/-- **Obligation at the regenerated templates**: every template of the current source has exactly this
    skeleton — the intended action and hidden fields, each interpolated string alone between its own
    pair of quotes (the toast: between its own pair of tags) — and every hole has a known escaper. -/
theorem C14_form_skeletons :
    Facts.templates.map (fun t => (t.1, skelT (parseTemplate t.2.2))) =
      [("identity_provider.go", idpResponseForm), ("service_provider.go", spRequestForm), ("service_provider.go", spRequestForm),
       ("service_provider.go", spResponseForm), ("samlidp/session.go", idpLoginForm)] := by decide +kernel

theorem C14_holes_known : ∀ t ∈ Facts.templates, holesKnown (skel (parseTemplate t.2.2)) = true := by decide +kernel

/-- what that means for one field, spelled out: in every rendering of the SP's request form the
    twelfth piece — the quoted string after ` name="SAMLRequest" value=` — is the escaped message and
    the eighteenth the escaped relay state, whatever either contains -/
theorem C14_sp_request_fields (t : Bytes) (ht : skelT (parseTemplate t) = spRequestForm)
    (hk : holesKnown (skel (parseTemplate t)) = true) (data : Bytes → Bytes) :
    (pieces (render t data))[3]? = some (urlAttrEscape (data (B "URL"))) ∧
    (pieces (render t data))[11]? = some (htmlEscape (data (B "SAMLRequest"))) ∧
    (pieces (render t data))[17]? = some (htmlEscape (data (B "RelayState"))) ∧
    (pieces (render t data)).length = 27 := by
  rw [C14_quote_structure t data hk, ht]
  simp [spRequestForm, S, H, fill, fillPart, escapeFor]

/-! ### obligations at the regenerated facts -/

/-- Every template in the current source is parsed by `html/template`, and each of its actions sits
    inside a double-quoted attribute value (closed by the template's own quote) or in text directly
    between two tags. -/
theorem C14_templates_ok : ∀ t ∈ Facts.templates, templateOK t.2.1 t.2.2 = true := by decide +kernel

theorem C14_templates_found : Facts.templates.length ≥ 5 := by decide

theorem C14_facts_extracted : Facts.extractionFailures = [] := by decide

/-- With `text/template` the forms are not safe: a relay state closes the attribute and opens a tag.
    (Shows that `C14_templates_ok` is sensitive to the import fact.) -/
theorem C14_text_template_counterexample :
    let t : Bytes := [60, 105, 32, 118, 61, 34, 123, 123, 46, 82, 125, 125, 34, 62]   -- <i v="{{.R}}">
    let evil : Bytes := [34, 62, 60, 115, 62]                                          -- "><s>
    (renderTextTemplate t (fun _ => evil)).takeWhile (fun c => c.toNat ≠ 34) ≠
      [60, 105, 32, 118, 61] ++ evil ∧
    templateOK "text/template" t = false := by decide

/-! ### metadata locations -/

/-- **Metadata locations**: for a standard binding an accepted location is returned unchanged and
    has scheme http or https (any case); for an unknown binding it is blanked. -/
theorem C14_location (binding : String) (loc loc' : Bytes) (h : checkEndpointLocation binding loc = .ok loc') :
    (knownBindings.contains binding = true →
      loc' = loc ∧ hasCTL (cutFragment loc) = false ∧
      ∃ scheme rest, getScheme (cutFragment loc) = some (scheme, rest) ∧ (lower scheme = http ∨ lower scheme = https)) ∧
    (knownBindings.contains binding = false → loc' = []) := by
  unfold checkEndpointLocation at h
  constructor
  · intro hk
    rw [if_pos hk] at h
    split at h
    · simp at h
    · rename_i hctl
      split at h
      · simp at h
      · rename_i scheme rest hs
        split at h
        · rename_i hsch
          simp at h
          exact ⟨h.symm, by simpa using hctl, scheme, rest, hs, hsch⟩
        · simp at h
  · intro hk
    have hk' : ¬ (knownBindings.contains binding = true) := by rw [hk]; simp
    rw [if_neg hk'] at h
    simp at h
    exact h

/-- a location that survives `checkEndpointLocation` is empty or has an http(s) scheme -/
def SafeLoc (l : Bytes) : Prop :=
  l = [] ∨ ∃ scheme rest, getScheme (cutFragment l) = some (scheme, rest) ∧ (lower scheme = http ∨ lower scheme = https)

theorem check_safe (binding : String) (loc loc' : Bytes) (h : checkEndpointLocation binding loc = .ok loc') : SafeLoc loc' := by
  have hh := C14_location binding loc loc' h
  by_cases hk : knownBindings.contains binding = true
  · obtain ⟨he, _, sch, rest, hs, hok⟩ := hh.1 hk
    rw [he]
    exact Or.inr ⟨sch, rest, hs, hok⟩
  · exact Or.inl (hh.2 (by simpa using hk))

/-- **Both attributes of both endpoint types**: whatever `Endpoint.UnmarshalXML` /
    `IndexedEndpoint.UnmarshalXML` leave in Location and ResponseLocation is empty or http(s). -/
theorem C14_endpoint_attrs (binding : String) (loc resp loc' resp' : Bytes)
    (h : unmarshalEndpoint binding loc resp = .ok (loc', resp')) : SafeLoc loc' ∧ SafeLoc resp' := by
  unfold unmarshalEndpoint at h
  split at h
  · simp at h
  · simp at h
  · rename_i l hl
    split at h
    · simp at h
      exact ⟨h.1 ▸ check_safe _ _ _ hl, Or.inl h.2⟩
    · split at h
      · simp at h
      · simp at h
      · rename_i r hr
        simp at h
        exact ⟨h.1 ▸ check_safe _ _ _ hl, h.2 ▸ check_safe _ _ _ hr⟩

theorem C14_indexed_endpoint_attrs (binding : String) (loc : Bytes) (resp : Option Bytes) (loc' : Bytes)
    (resp' : Option Bytes) (h : unmarshalIndexedEndpoint binding loc resp = .ok (loc', resp')) :
    SafeLoc loc' ∧ ∀ r, resp' = some r → SafeLoc r := by
  unfold unmarshalIndexedEndpoint at h
  split at h
  · simp at h
  · simp at h
  · rename_i l hl
    split at h
    · simp at h
      exact ⟨h.1 ▸ check_safe _ _ _ hl, fun r hr => by rw [← h.2] at hr; simp at hr⟩
    · split at h
      · simp at h
      · simp at h
      · rename_i r0 x hx
        simp at h
        refine ⟨h.1 ▸ check_safe _ _ _ hl, ?_⟩
        intro r hr
        rw [← h.2] at hr
        split at hr
        · simp at hr
        · simp at hr
          exact hr ▸ check_safe _ _ _ hx

/-- script-bearing schemes are rejected for every standard binding -/
theorem C14_rejects_javascript :
    ∀ b ∈ knownBindings, (checkEndpointLocation b
      [106, 97, 118, 97, 115, 99, 114, 105, 112, 116, 58, 97, 108, 101, 114, 116, 40, 49, 41]).isErr = true := by
  decide

/-! Non-vacuity -/
example : checkEndpointLocation "urn:oasis:names:tc:SAML:2.0:bindings:HTTP-POST"
    [72, 84, 84, 80, 115, 58, 47, 47, 120] = .ok [72, 84, 84, 80, 115, 58, 47, 47, 120] := by decide
example : htmlEscape [34, 62, 60, 0, 43, 38] ≠ [34, 62, 60, 0, 43, 38] := by decide

/-- every value handed to a template execution is a plain `string` field filled from a plain expression: no field has one
    of the html/template types that bypass contextual escaping, and nothing is converted to one -/
def hasInfix (pat : List Char) : List Char → Bool
  | [] => pat.isEmpty
  | c :: cs => pat.isPrefixOf (c :: cs) || hasInfix pat cs

theorem C14_template_data_plain :
    Facts.templateData.all (fun r => r.2.2.1 = "string" && !hasInfix "template.".toList r.2.2.2.toList) = true ∧
    Facts.templateData.length = 16 := by decide +kernel

end SamlVerif.Html
