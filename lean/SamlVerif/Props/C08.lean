/-
  C08 — assertions for SPs that publish an encryption key never leave the IdP in clear.

  * selection: `getSPEncryptionCert` answers "no key" only when the metadata advertises none; every
    malformed, empty or unusable certificate is an error, never a silent downgrade;
  * clear view: for an encrypted response, everything outside the EncryptedAssertion is a function of
    the endpoint, the request and the IdP configuration — identical for any two sessions;
  * freshness: the library's draws from `RandReader` (content key, IV, Ids) occupy pairwise disjoint
    segments of the random stream, within one response and across responses;
  * SP side: a decrypted assertion goes through exactly the checks of a plaintext one, and ciphertext
    that does not decrypt is a validation failure.
  The cipher itself (RSA-OAEP, AES-CBC) is not modelled: the harness decrypts every emitted response
  with the SP key and with a foreign key (trusted base, see DESIGN).
-/
import SamlVerif.Model.IdPOut
import SamlVerif.Proofs.SPStruct
import SamlVerif.Props.C06
import SamlVerif.Generated.Facts

namespace SamlVerif.IdPOut
open SamlVerif.IdP

/-! ### selection -/

/-- the metadata advertises an encryption key: a descriptor marked `use="encryption"`, or an
    unmarked descriptor carrying a certificate -/
def Advertises (keys : List KeyDesc) : Prop :=
  (∃ k ∈ keys, k.use = "encryption") ∨ (∃ k ∈ keys, k.use = "" ∧ (firstCert k).isSome = true)

theorem selectEncCert_none_iff (keys : List KeyDesc) :
    selectEncCert keys = .ok .none ↔ ¬ Advertises keys := by
  unfold selectEncCert Advertises
  constructor
  · intro h
    split at h
    · split at h <;> simp at h
    · rename_i hnone
      split at h
      · rename_i k' hk'
        have := List.find?_some hk'
        simp only [Bool.and_eq_true, decide_eq_true_eq] at this
        split at h
        · simp at h
        · rename_i hf; rw [hf] at this; simp at this
      · rename_i hnone2
        rintro (⟨k, hk, hu⟩ | ⟨k, hk, hu, hc⟩)
        · have := List.find?_eq_none.mp hnone k hk; simp [hu] at this
        · have := List.find?_eq_none.mp hnone2 k hk; simp [hu, hc] at this
  · intro h
    have h1 : keys.find? (fun k => k.use = "encryption") = none := by
      apply List.find?_eq_none.mpr
      intro k hk hu
      exact h (Or.inl ⟨k, hk, by simpa using hu⟩)
    have h2 : keys.find? (fun k => k.use = "" && (firstCert k).isSome) = none := by
      apply List.find?_eq_none.mpr
      intro k hk hu
      simp only [Bool.and_eq_true, decide_eq_true_eq] at hu
      exact h (Or.inr ⟨k, hk, hu.1, hu.2⟩)
    simp [h1, h2]

/-- **C08 (no downgrade)**: the assertion travels in clear exactly when no encryption key is
    advertised.  Any other outcome of the selection is either "encrypt" or an error. -/
theorem C08_plaintext_iff (usable : String → Bool) (keys : List KeyDesc) :
    encryptionOf usable keys = .ok false ↔ ¬ Advertises keys := by
  rw [← selectEncCert_none_iff]
  unfold encryptionOf
  constructor
  · intro h
    split at h
    · assumption
    · split at h <;> simp at h
    · simp at h
    · simp at h
  · intro h; rw [h]

theorem C08_no_downgrade (usable : String → Bool) (keys : List KeyDesc) (h : Advertises keys) :
    encryptionOf usable keys = .ok true ∨ ∃ e, encryptionOf usable keys = .err e := by
  have hne : encryptionOf usable keys ≠ .ok false := fun hf => (C08_plaintext_iff usable keys).mp hf h
  cases hr : encryptionOf usable keys with
  | ok b => cases b with
    | true => exact Or.inl rfl
    | false => exact absurd hr hne
  | err e => exact Or.inr ⟨e, rfl⟩
  | panic w =>
    exfalso
    unfold encryptionOf at hr
    split at hr
    · simp at hr
    · split at hr <;> simp at hr
    · simp at hr
    · rename_i w' hw
      unfold selectEncCert at hw
      repeat' split at hw
      all_goals simp at hw

/-- a certificate that does not decode, or whose key cannot be used for key transport, is an error -/
theorem C08_bad_certificate_is_error (usable : String → Bool) (keys : List KeyDesc) (c : String)
    (hs : selectEncCert keys = .ok (.cert c)) (hu : usable c = false) :
    encryptionOf usable keys = .err "bad-encryption-certificate" := by
  unfold encryptionOf; rw [hs]; simp [hu]

/-- an encryption descriptor with no certificate or an empty one is an error even when other
    descriptors hold good certificates -/
theorem C08_empty_certificate_is_error (keys : List KeyDesc) (k : KeyDesc)
    (hk : keys.find? (fun k => k.use = "encryption") = some k) (he : firstCert k = none) (usable : String → Bool) :
    encryptionOf usable keys = .err "encryption-descriptor-without-certificate" := by
  unfold encryptionOf selectEncCert; simp [hk, he]

/-- the encryption descriptor wins over unmarked ones, the first of several wins -/
theorem C08_selected_certificate (keys : List KeyDesc) (c : String) (h : selectEncCert keys = .ok (.cert c)) :
    (∃ k, keys.find? (fun k => k.use = "encryption") = some k ∧ firstCert k = some c) ∨
    (keys.find? (fun k => k.use = "encryption") = none ∧
      ∃ k, keys.find? (fun k => k.use = "" && (firstCert k).isSome) = some k ∧ firstCert k = some c) := by
  unfold selectEncCert at h
  split at h
  · rename_i k hk
    split at h
    · rename_i c' hc'
      simp only [Outcome.ok.injEq, EncCert.cert.injEq] at h
      exact Or.inl ⟨k, hk, by rw [hc', h]⟩
    · simp at h
  · rename_i hnone
    split at h
    · rename_i k' hk'
      split at h
      · rename_i c' hc'
        simp only [Outcome.ok.injEq, EncCert.cert.injEq] at h
        exact Or.inr ⟨hnone, k', hk', by rw [hc', h]⟩
      · simp at h
    · simp at h

/-- the pinned selection downgraded: an empty certificate in the encryption descriptor hid a later
    good one and the assertion went out in clear -/
theorem C08_pinned_downgrade :
    selectEncCertPinned [⟨"encryption", [""]⟩, ⟨"encryption", ["MIIB"]⟩] = .ok .none ∧
    selectEncCert [⟨"encryption", [""]⟩, ⟨"encryption", ["MIIB"]⟩] =
      .err "encryption-descriptor-without-certificate" := by decide

/-- the source sends the signed assertion unencrypted under one condition only, and encrypts with
    RSA-OAEP / AES-128-CBC / SHA-1 as the model's producer assumes -/
theorem C08_plaintext_only_when_not_exist : Facts.idpPlaintextConditions = ["err == os.ErrNotExist"] := by decide
theorem C08_encryptor : Facts.idpEncryptorParams =
    ["encryptor=xmlenc.OAEP()", "encryptor.BlockCipher=xmlenc.AES128CBC", "encryptor.DigestMethod=&xmlenc.SHA1"] := by
  decide
theorem C08_extraction_clean : Facts.extractionFailures = [] := by decide

/-! ### clear view -/

/-- everything of a response that is outside the (possibly encrypted) assertion -/
def envelope (r : ResponseOut) : List String :=
  [r.url, r.destination, r.inResponseTo, toString r.issueInstant, r.issuer, r.status]

/-- what an observer of the form sees in clear -/
def clearView (r : ResponseOut) : List String × Option AssertionOut :=
  (envelope r, if r.encrypted then none else some r.assertion)

/-- **C08 (no clear strings)**: with an advertised key, two users' responses to the same request
    are indistinguishable outside the ciphertext — nothing of the session (name identifier, attribute
    values, session index) is in the clear part. -/
theorem C08_clear_view_independent (cfg : IdpCfg) (usable : String → Bool) (ρ : Routing) (q : Request)
    (s s' : Session) (reqNow now : Int) (r r' : ResponseOut) (hadv : Advertises ρ.desc.keys)
    (h : produce cfg usable ρ q s reqNow now = .ok r) (h' : produce cfg usable ρ q s' reqNow now = .ok r') :
    r.encrypted = true ∧ clearView r = clearView r' := by
  obtain ⟨enc, he, hr⟩ := produce_ok h
  obtain ⟨enc', he', hr'⟩ := produce_ok h'
  rw [he] at he'
  simp only [Outcome.ok.injEq] at he'
  subst he'
  have henc : enc = true := by
    rcases C08_no_downgrade usable ρ.desc.keys hadv with h1 | ⟨e, h1⟩
    · rw [he] at h1; simpa using h1
    · rw [he] at h1; simp at h1
  subst henc
  obtain ⟨_, rfl⟩ := respond_ok hr
  obtain ⟨_, rfl⟩ := respond_ok hr'
  exact ⟨rfl, rfl⟩

/-- and the clear part of any response carries none of the session's strings unless the deployment's
    own identifiers coincide with them -/
theorem C08_envelope_sources (cfg : IdpCfg) (usable : String → Bool) (ρ : Routing) (q : Request) (s : Session)
    (reqNow now : Int) (r : ResponseOut) (h : produce cfg usable ρ q s reqNow now = .ok r) :
    envelope r = [ρ.acs.location, ρ.acs.location, q.id, toString reqNow, cfg.entityID,
                  "urn:oasis:names:tc:SAML:2.0:status:Success"] := by
  obtain ⟨enc, _, hr⟩ := produce_ok h
  obtain ⟨_, rfl⟩ := respond_ok hr
  rfl

/-! ### freshness of key and IV -/

theorem layout_lower (off : Nat) (ds : List Draw) : ∀ x ∈ layout off ds, off ≤ x.2.1 := by
  induction ds generalizing off with
  | nil => simp [layout]
  | cons d rest ih =>
    intro x hx
    simp only [layout, List.mem_cons] at hx
    rcases hx with rfl | hx
    · exact Nat.le_refl _
    · exact Nat.le_trans (Nat.le_add_right _ _) (ih _ x hx)

/-- **C08 (fresh)**: segments of one stream handed out by consecutive draws never overlap — each
    byte of randomness is used for one purpose in one response only. -/
theorem C08_draws_disjoint (off : Nat) (ds : List Draw) :
    (layout off ds).Pairwise (fun a b => a.2.1 + a.2.2 ≤ b.2.1) := by
  induction ds generalizing off with
  | nil => simp [layout]
  | cons d rest ih =>
    simp only [layout, List.pairwise_cons]
    exact ⟨fun x hx => layout_lower _ _ x hx, ih _⟩

/-- across any number of responses, every content key and every IV comes from its own segment -/
theorem C08_fresh (kts : List Nat) :
    (layout 0 (runDraws kts)).Pairwise (fun a b => a.2.1 + a.2.2 ≤ b.2.1) :=
  C08_draws_disjoint 0 _

/-- per response exactly one content key of the cipher's key size and one IV of its block size are
    drawn (sizes for AES-128-CBC, the cipher named by `Facts.idpEncryptorParams`) -/
theorem C08_one_key_one_iv (kt : Nat) :
    ((responseDraws kt).filter (·.label = "content-key")).map (·.size) = [16] ∧
    ((responseDraws kt).filter (·.label = "iv")).map (·.size) = [16] := by
  constructor <;> rfl

/-! ### SP side -/

/-- **C08 (same checks)**: a decrypted assertion is validated exactly like a plaintext one -/
theorem C08_same_checks (cfg : SP.Cfg) (now : Int) (ids : List String) (need : SP.Need) (sig : SP.SigState)
    (a : SP.AssertionS) :
    SP.parseEntry cfg now ids need ⟨.encOk, sig, a⟩ = SP.parseEntry cfg now ids need ⟨.plain, sig, a⟩ := by
  unfold SP.parseEntry; simp

/-- ciphertext that does not decrypt or parse is a validation failure -/
theorem C08_bad_ciphertext_is_error (cfg : SP.Cfg) (now : Int) (ids : List String) (need : SP.Need)
    (sig : SP.SigState) (a : SP.AssertionS) :
    SP.parseEntry cfg now ids need ⟨.encBad, sig, a⟩ = .err "decrypt" := by
  unfold SP.parseEntry; simp

/-- an assertion encrypted to the SP by a party without the IdP key (so neither the response nor the
    assertion carries a valid IdP signature) is never accepted when signatures are required -/
theorem C08_attacker_encrypted_rejected (cfg : SP.Cfg) (now : Int) (ids : List String) (url : String)
    (respSig : SP.SigState) (r : SP.ResponseS) (a : SP.AssertionS)
    (hresp : respSig ≠ .valid) (hent : ∀ e ∈ r.entries, e.sig ≠ .valid) :
    SP.parseResponse cfg now ids url .required respSig r ≠ .ok a := by
  intro h
  rw [SP.accept_iff] at h
  obtain ⟨_, pre, e, post, hl, hg, _, _⟩ := h
  have hneed : SP.needAfter .required respSig = .required := by
    unfold SP.needAfter; simp [hresp]
  rw [hneed] at hg
  have hmem : e ∈ r.entries := by
    have : e ∈ SP.ordered r.entries := by rw [hl]; simp
    unfold SP.ordered at this
    simp only [List.mem_append, List.mem_filter] at this
    rcases this with h | h <;> exact h.1
  exact hent e hmem (hg.signed rfl)

/-! ### non-vacuity -/

example : Advertises [⟨"signing", ["MIIA"]⟩, ⟨"encryption", ["MIIB"]⟩] :=
  Or.inl ⟨⟨"encryption", ["MIIB"]⟩, by simp, rfl⟩
example : ¬ Advertises [⟨"signing", ["MIIA"]⟩] := by
  rintro (⟨k, hk, hu⟩ | ⟨k, hk, hu, _⟩) <;> simp at hk <;> subst hk <;> simp at hu
example : encryptionOf (fun _ => true) [⟨"signing", ["MIIA"]⟩, ⟨"", ["MIIC"]⟩] = .ok true := by decide
example : encryptionOf (fun _ => false) [⟨"", ["MIIC"]⟩] = .err "bad-encryption-certificate" := by decide
example : (layout 0 (runDraws [20, 21])).length = 14 := by decide

end SamlVerif.IdPOut
