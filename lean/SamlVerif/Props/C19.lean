/-
  C19 — The bundled IdP server issues assertions only to authenticated users.

  "The bundled IdP server emits a SAML response only for a user who presented that user's current
   password or the cookie of a stored, unexpired session created by such a login, and only towards a
   service provider that is registered at that moment.  For every history of user, session, service
   and shortcut management calls, logins, SSO and IdP-initiated requests and clock advances - and
   every pattern of backing-store failures - no other request obtains an assertion, the assertion
   describes the user as stored at login, stored password hashes are never disclosed, and each
   request receives exactly one well-formed HTTP reply.  A server re-created over the same store at
   any point between requests continues every history exactly as the original would."

  `step` returns exactly one reply per request by construction; on the real server that is measured
  by the harness (testing, said so).  Password hashing is symbolic.
-/
import SamlVerif.Proofs.IdpServer

namespace SamlVerif.IdpServer

/-! ### who obtains an assertion -/

def credOf : Req → Cred
  | .sso _ _ c _ _ => c
  | .login c _ => c
  | _ => .none

def cookieOf : Req → Option String
  | .sso _ _ _ ck _ => ck
  | .login _ ck => ck
  | .shortcut _ _ ck => ck
  | _ => none

def allowCredOf : Req → Bool
  | .sso .. => true
  | .login .. => true
  | _ => false

/-- **Authentication**: whatever the state, the faults and the request, a reply that carries a SAML
    response for user `u` with profile `prof` comes from a session obtained in one of the two
    legitimate ways — the request presented the password of the stored user record (and the
    assertion describes that record), or the cookie of a stored session that has not expired (and the
    assertion describes that session's snapshot). -/
theorem C19_authn (s : State) (fs : List Fault) (req : Req) (u prof e relay : String)
    (h : (step s fs req).2.body = .saml u prof e relay) :
    ∃ id σ c, SessionVia s (credOf req) (cookieOf req) (allowCredOf req) id σ c ∧ σ.user = u ∧ σ.profile = prof := by
  cases req with
  | sso entity reqValid cred cookie relay' =>
    simp only [step] at h
    split at h
    · simp [st] at h
    · split at h
      · simp [st] at h
      · rename_i md hmd
        cases hg : getSession s fs cred cookie true with
        | mk s' rest =>
          obtain ⟨fs', res⟩ := rest
          rw [hg] at h
          cases res with
          | session id σ c =>
            simp only at h
            split at h
            · simp at h
              exact ⟨id, σ, c, getSession_session _ _ _ _ _ _ _ _ _ _ hg, h.1, h.2.1⟩
            · simp at h
          | wrote r =>
            simp only at h
            have hw := getSession_wrote _ _ _ _ _ _ _ _ hg
            rcases hw with hw | hw <;> rw [hw] at h <;> simp at h
  | shortcut name suffix cookie =>
    simp only [step] at h
    split at h
    · rename_i sc hsc
      cases hg : getSession s (nextFault fs).2 .none cookie false with
      | mk s' rest =>
        obtain ⟨fs', res⟩ := rest
        rw [hg] at h
        cases res with
        | session id σ c =>
          simp only at h
          split at h
          · simp at h
          · split at h
            · simp at h
              exact ⟨id, σ, c, getSession_session _ _ _ _ _ _ _ _ _ _ hg, h.1, h.2.1⟩
            · simp at h
        | wrote r =>
          simp only at h
          have hw := getSession_wrote _ _ _ _ _ _ _ _ hg
          rcases hw with hw | hw <;> rw [hw] at h <;> simp at h
    · simp [st] at h
  | login cred cookie =>
    simp only [step] at h
    split at h
    · simp at h
    · rename_i s' x r hg
      have hw := getSession_wrote _ _ _ _ _ _ _ _ hg
      rcases hw with hw | hw <;> rw [hw] at h <;> simp at h
  | putUser name profile pw =>
    simp only [step] at h
    split at h
    · split at h
      · simp [st] at h
      · split at h <;> simp [st] at h
    · split at h
      · simp [st] at h
      · split at h <;> simp [st] at h
  | getUser name => simp only [step] at h; split at h <;> simp [st] at h
  | deleteUser name => simp only [step] at h; split at h <;> simp [st] at h
  | putService id md =>
    simp only [step] at h
    split at h
    · simp [st] at h
    · split at h
      · simp [st] at h
      · split at h <;> simp [st] at h
  | getService id => simp only [step] at h; split at h <;> simp [st] at h
  | deleteService id =>
    simp only [step] at h
    split at h
    · split at h <;> simp [st] at h
    · simp [st] at h
  | putShortcut name sc =>
    simp only [step] at h
    split at h
    · simp [st] at h
    · split at h <;> simp [st] at h
  | getShortcut name => simp only [step] at h; split at h <;> simp [st] at h
  | deleteShortcut name => simp only [step] at h; split at h <;> simp [st] at h
  | getSession id => simp only [step] at h; split at h <;> simp [st] at h
  | deleteSession id => simp only [step] at h; split at h <;> simp [st] at h
  | list kind =>
    simp only [step] at h
    split at h
    · simp [st] at h
    · split at h
      · simp at h
      · split at h
        · simp at h
        · split at h <;> simp at h
  | advance dt => simp [step, st] at h
  | restart => simp [step, st] at h

/-- **Registered at that moment**: a SAML response for SSO goes to the entity the request named, and
    that entity is in the registry when the request is processed. -/
theorem C19_registered_sso (s : State) (fs : List Fault) (entity : String) (v : Bool) (cred : Cred)
    (cookie : Option String) (relay u prof e relay' : String)
    (h : (step s fs (.sso entity v cred cookie relay)).2.body = .saml u prof e relay') :
    ∃ md, s.registry entity = some md ∧ md.entityID = e ∧ md.hasPostACS = true ∧ v = true ∧ relay' = relay := by
  simp only [step] at h
  split at h
  · simp [st] at h
  · rename_i hv
    split at h
    · simp [st] at h
    · rename_i md hmd
      cases hg : getSession s fs cred cookie true with
      | mk s' rest =>
        obtain ⟨fs', res⟩ := rest
        rw [hg] at h
        cases res with
        | session id σ c =>
          simp only at h
          split at h
          · rename_i hp
            simp at h
            exact ⟨md, hmd, h.2.2.1, hp, by simpa using hv, h.2.2.2.symm⟩
          · simp at h
        | wrote r =>
          simp only at h
          have hw := getSession_wrote _ _ _ _ _ _ _ _ hg
          rcases hw with hw | hw <;> rw [hw] at h <;> simp at h

/-! ### invariants over histories -/

/-- every stored session was created by a successful password login, and snapshots the user record the
    password was checked against -/
structure SessionsFromLogins (s : State) : Prop where
  log : ∀ x ∈ s.loginLog, x.2.2.1.hash = some x.2.2.2 ∧ x.2.1.user ≠ "" ∧ x.2.1.profile = x.2.2.1.profile
  origin : ∀ sid σ, s.store.sessions.get sid = some σ → ∃ usr p, (sid, σ, usr, p) ∈ s.loginLog

theorem getSession_inv (s : State) (fs : List Fault) (cred : Cred) (cookie : Option String) (allow : Bool)
    (h : SessionsFromLogins s) : SessionsFromLogins (getSession s fs cred cookie allow).1 := by
  unfold getSession
  simp only
  split
  · rename_i u p hcu
    have hu : u ≠ "" := by
      cases cred with
      | none => simp at hcu
      | form u' p' =>
        simp only at hcu
        split at hcu
        · rename_i hc; simp at hcu; exact hcu.1 ▸ hc.2
        · simp at hcu
    split
    · rename_i usr hg
      split
      · rename_i hpw
        split
        · simp only
          constructor
          · intro x hx
            simp only [List.mem_cons] at hx
            rcases hx with rfl | hx
            · exact ⟨hpw.2, hu, rfl⟩
            · exact h.log x hx
          · intro sid σ hget
            simp only at hget
            rw [Map.get_put] at hget
            split at hget
            · rename_i hsid
              simp at hget
              exact ⟨usr, p, by simp [hsid, ← hget]⟩
            · obtain ⟨usr', p', hm⟩ := h.origin sid σ hget
              exact ⟨usr', p', by simp [hm]⟩
        · exact ⟨h.log, h.origin⟩
      · exact h
    · exact h
  · split
    · split
      · split <;> exact h
      · exact h
      · exact h
    · exact h

theorem getSession_sessions_only (s : State) (fs : List Fault) (cred : Cred) (cookie : Option String) (allow : Bool) :
    (getSession s fs cred cookie allow).1.store.users = s.store.users ∧
    (getSession s fs cred cookie allow).1.store.services = s.store.services ∧
    (getSession s fs cred cookie allow).1.store.shortcuts = s.store.shortcuts ∧
    (getSession s fs cred cookie allow).1.registry = s.registry ∧
    (getSession s fs cred cookie allow).1.now = s.now := getSession_frame s fs cred cookie allow

/-- the session invariant is preserved by every request, under every fault pattern -/
theorem step_sessions_inv (s : State) (fs : List Fault) (req : Req) (h : SessionsFromLogins s) :
    SessionsFromLogins (step s fs req).1 := by
  cases req with
  | sso entity reqValid cred cookie relay =>
    simp only [step]
    split
    · exact h
    · split
      · exact h
      · have := getSession_inv s fs cred cookie true h
        cases hg : getSession s fs cred cookie true with
        | mk s' rest =>
          obtain ⟨fs', res⟩ := rest
          rw [hg] at this
          cases res with
          | session id σ c => simp only; split <;> exact this
          | wrote r => exact this
  | shortcut name suffix cookie =>
    simp only [step]
    split
    · have := getSession_inv s (nextFault fs).2 .none cookie false h
      cases hg : getSession s (nextFault fs).2 .none cookie false with
      | mk s' rest =>
        obtain ⟨fs', res⟩ := rest
        rw [hg] at this
        cases res with
        | session id σ c =>
          simp only
          split
          · exact this
          · split <;> exact this
        | wrote r => exact this
    · exact h
  | login cred cookie =>
    simp only [step]
    have := getSession_inv s fs cred cookie true h
    cases hg : getSession s fs cred cookie true with
    | mk s' rest =>
      obtain ⟨fs', res⟩ := rest
      rw [hg] at this
      cases res <;> exact this
  | deleteSession id =>
    simp only [step]
    split
    · constructor
      · exact h.log
      · intro sid σ hget
        simp only at hget
        rw [Map.get_del] at hget
        split at hget
        · simp at hget
        · exact h.origin sid σ hget
    · exact h
  | putUser name profile pw =>
    simp only [step]
    split
    · split
      · exact h
      · split
        · exact ⟨h.log, h.origin⟩
        · exact h
    · split
      · exact h
      · split
        · exact ⟨h.log, h.origin⟩
        · exact h
  | getUser name => simp only [step]; split <;> exact h
  | deleteUser name => simp only [step]; split <;> first | exact ⟨h.log, h.origin⟩ | exact h
  | putService id md =>
    simp only [step]
    split
    · exact h
    · split
      · exact h
      · split
        · exact ⟨h.log, h.origin⟩
        · exact h
  | getService id => simp only [step]; split <;> exact h
  | deleteService id =>
    simp only [step]
    split
    · split
      · exact ⟨h.log, h.origin⟩
      · exact h
    · exact h
  | putShortcut name sc =>
    simp only [step]
    split
    · exact h
    · split
      · exact ⟨h.log, h.origin⟩
      · exact h
  | getShortcut name => simp only [step]; split <;> exact h
  | deleteShortcut name => simp only [step]; split <;> first | exact ⟨h.log, h.origin⟩ | exact h
  | getSession id => simp only [step]; split <;> exact h
  | list kind =>
    simp only [step]
    split
    · exact h
    · split
      · exact h
      · split
        · exact h
        · split <;> exact h
  | advance dt => exact ⟨h.log, h.origin⟩
  | restart => exact ⟨h.log, h.origin⟩

/-- … hence it holds after every history from the empty server (any length, any faults) -/
theorem C19_sessions_from_logins (hist : List (Req × List Fault)) : SessionsFromLogins (run init hist).1 := by
  suffices ∀ s, SessionsFromLogins s → SessionsFromLogins (run s hist).1 by
    exact this init ⟨by simp [init], by simp [init, Map.get]⟩
  induction hist with
  | nil => intro s h; exact h
  | cons x rest ih =>
    intro s h
    obtain ⟨r, fs⟩ := x
    simp only [run]
    exact ih _ (step_sessions_inv s fs r h)

/-- **Assertion describes the user as stored at login**: in a reachable state, a SAML response
    obtained through a session cookie describes a user record whose password was presented when the
    session was created. -/
theorem C19_snapshot (s : State) (hinv : SessionsFromLogins s) (fs : List Fault) (req : Req)
    (u prof e relay : String) (h : (step s fs req).2.body = .saml u prof e relay)
    (hnocred : credOf req = .none) :
    ∃ sid σ usr p, cookieOf req = some sid ∧ (sid, σ, usr, p) ∈ s.loginLog ∧ usr.hash = some p ∧
      usr.profile = prof ∧ σ.user = u ∧ ¬ s.now > σ.expire := by
  obtain ⟨id, σ, c, hvia, hu, hp⟩ := C19_authn s fs req u prof e relay h
  cases hvia with
  | password u' p' usr hcred _ _ _ _ _ _ _ => rw [hnocred] at hcred; simp at hcred
  | cookie hcookie hstored hfresh hc =>
    obtain ⟨usr, p, hm⟩ := hinv.origin id σ hstored
    have := hinv.log _ hm
    exact ⟨id, σ, usr, p, hcookie, hm, this.1, by rw [← this.2.2, hp], hu, hfresh⟩

end SamlVerif.IdpServer

namespace SamlVerif.IdpServer

/-! ### the registry is in step with the stored services; restart transparency -/

structure RegInv (s : State) : Prop where
  unique : UniqueKeys s.store.services
  distinct : DistinctEntities s.store.services
  spec : RegSpec s.registry s.store.services

/-- the request does not give a second service name the entity ID of another stored service
    (with duplicate entity IDs the registry a restart builds depends on map iteration order, so the
    property cannot hold for such stores; DESIGN §2 C19) -/
def StepOK (s : State) : Req → Prop
  | .putService id (some m) => ∀ id' m', id' ≠ id → s.store.services.get id' = some m' → m'.entityID ≠ m.entityID
  | _ => True

/-- the backing store does not answer "not found" for a key it holds (I/O errors are unrestricted) -/
def Truthful (fs : List Fault) : Prop := ∀ f ∈ fs, f ≠ .notFound

theorem nextFault_truthful (fs : List Fault) (h : Truthful fs) :
    (nextFault fs).1 ≠ .notFound ∧ Truthful (nextFault fs).2 := by
  cases fs with
  | nil => simp [nextFault, Truthful]
  | cons f r => exact ⟨h f (by simp), fun g hg => h g (by simp only [nextFault] at hg; simp [hg])⟩

theorem storeGet_truthful {α} (f : Fault) (m : Map α) (k : String) (hf : f ≠ .notFound) :
    (storeGet f m k = GetRes.err ∧ f = .ioErr) ∨
    (f = .ok ∧ ((∃ v, m.get k = some v ∧ storeGet f m k = .found v) ∨ (m.get k = none ∧ storeGet f m k = .notFound))) := by
  cases f with
  | ok =>
    right
    refine ⟨rfl, ?_⟩
    unfold storeGet
    cases hg : m.get k with
    | none => right; simp
    | some v => left; exact ⟨v, rfl, by simp⟩
  | notFound => exact absurd rfl hf
  | ioErr => left; exact ⟨rfl, rfl⟩

theorem init_regInv : RegInv init := by
  refine ⟨by simp [init, UniqueKeys], ?_, ?_⟩
  · intro a b c d h; simp [init, Map.get] at h
  · intro e md
    show (none : Option Md) = some md ↔ ∃ id, Map.get ([] : Map Md) id = some md ∧ md.entityID = e
    simp [Map.get]

/-- services and registry are untouched -/
theorem regInv_of_same (s s' : State) (h : RegInv s) (h1 : s'.store.services = s.store.services)
    (h2 : s'.registry = s.registry) : RegInv s' := by
  refine ⟨by rw [h1]; exact h.unique, by rw [h1]; exact h.distinct, by rw [h1, h2]; exact h.spec⟩

theorem step_reg_inv (s : State) (fs : List Fault) (req : Req) (h : RegInv s) (hok : StepOK s req)
    (hf : Truthful fs) : RegInv (step s fs req).1 := by
  cases req with
  | putService id md =>
    cases md with
    | none => simpa [step] using h
    | some m =>
      simp only [step]
      obtain ⟨hf0, hfs0⟩ := nextFault_truthful fs hf
      rcases storeGet_truthful (nextFault fs).1 s.store.services id hf0 with ⟨herr, _⟩ | ⟨_, hcase⟩
      · rw [herr]; exact h
      · -- the Get told the truth: `old` is the entity currently stored under this name, if any
        have hold : ∀ o, s.store.services.get id = some o →
            storeGet (nextFault fs).1 s.store.services id = .found o := by
          intro o ho
          rcases hcase with ⟨v, hv, hs⟩ | ⟨hn, _⟩
          · rw [ho] at hv; cases hv; exact hs
          · rw [ho] at hn; simp at hn
        by_cases hput : (nextFault (nextFault fs).2).1 = .ok
        · have hres : ∀ r0, storeGet (nextFault fs).1 s.store.services id = r0 → r0 ≠ GetRes.err := by
            intro r0 hr0
            rcases hcase with ⟨v, _, hs⟩ | ⟨_, hs⟩ <;> rw [hs] at hr0 <;> rw [← hr0] <;> simp
          -- compute the new state explicitly
          cases hcur : s.store.services.get id with
          | none =>
            have hs : storeGet (nextFault fs).1 s.store.services id = .notFound := by
              rcases hcase with ⟨v, hv, _⟩ | ⟨_, hs⟩
              · rw [hcur] at hv; simp at hv
              · exact hs
            simp only [hs, hput, if_true]
            refine ⟨uniqueKeys_put _ _ _ h.unique, ?_, ?_⟩
            · intro id1 id2 m1 m2 h1 h2 he
              simp only at h1 h2
              rw [Map.get_put] at h1 h2
              split at h1 <;> split at h2
              · rename_i a b; rw [a, b]
              · rename_i a b; simp at h1; subst h1; exact absurd he.symm (hok id2 m2 b h2)
              · rename_i a b; simp at h2; subst h2; exact absurd he (hok id1 m1 a h1)
              · exact h.distinct id1 id2 m1 m2 h1 h2 he
            · intro e md
              simp only [regPut]
              constructor
              · intro hr
                split at hr
                · rename_i he; simp at hr; subst hr
                  exact ⟨id, by simp [Map.get_put], he.symm⟩
                · obtain ⟨id', hg, he'⟩ := (h.spec e md).mp hr
                  have : id' ≠ id := by intro hh; rw [hh, hcur] at hg; simp at hg
                  exact ⟨id', by rw [Map.get_put]; simp [this, hg], he'⟩
              · rintro ⟨id', hg, he'⟩
                rw [Map.get_put] at hg
                split at hg
                · simp at hg; subst hg; simp [he']
                · rename_i hne
                  have hne2 : md.entityID ≠ m.entityID := hok id' md hne hg
                  have : ¬ (e = m.entityID) := by rw [← he']; exact hne2
                  simp only [this, if_false]
                  exact (h.spec e md).mpr ⟨id', hg, he'⟩
          | some o =>
            have hs := hold o hcur
            simp only [hs, hput, if_true]
            refine ⟨uniqueKeys_put _ _ _ h.unique, ?_, ?_⟩
            · intro id1 id2 m1 m2 h1 h2 he
              simp only at h1 h2
              rw [Map.get_put] at h1 h2
              split at h1 <;> split at h2
              · rename_i a b; rw [a, b]
              · rename_i a b; simp at h1; subst h1; exact absurd he.symm (hok id2 m2 b h2)
              · rename_i a b; simp at h2; subst h2; exact absurd he (hok id1 m1 a h1)
              · exact h.distinct id1 id2 m1 m2 h1 h2 he
            · intro e md
              simp only [regPut]
              constructor
              · intro hr
                split at hr
                · rename_i he; simp at hr; subst hr
                  exact ⟨id, by simp [Map.get_put], he.symm⟩
                · rename_i hene
                  -- e ≠ m.entityID: the lookup goes to the (possibly cleaned) old registry
                  have hr' : s.registry e = some md ∧ ¬ (o.entityID ≠ m.entityID ∧ e = o.entityID) := by
                    split at hr
                    · rename_i hoe
                      simp only [regDel] at hr
                      split at hr
                      · simp at hr
                      · rename_i he2; exact ⟨hr, fun hh => he2 hh.2⟩
                    · rename_i hoe
                      refine ⟨hr, fun hh => hoe hh.1⟩
                  obtain ⟨id', hg, he'⟩ := (h.spec e md).mp hr'.1
                  have : id' ≠ id := by
                    intro hh
                    rw [hh, hcur] at hg
                    simp at hg
                    subst hg
                    -- then e = o.entityID and e ≠ m.entityID, contradicting hr'.2
                    exact hr'.2 ⟨by rw [he']; exact hene, he'.symm⟩
                  exact ⟨id', by rw [Map.get_put]; simp [this, hg], he'⟩
              · rintro ⟨id', hg, he'⟩
                rw [Map.get_put] at hg
                split at hg
                · simp at hg; subst hg; simp [he']
                · rename_i hne
                  have hne2 : md.entityID ≠ m.entityID := hok id' md hne hg
                  have hem : ¬ (e = m.entityID) := by rw [← he']; exact hne2
                  simp only [hem, if_false]
                  have hreg : s.registry e = some md := (h.spec e md).mpr ⟨id', hg, he'⟩
                  split
                  · rename_i hoe
                    simp only [regDel]
                    have : ¬ (e = o.entityID) := by
                      intro hh
                      -- two services (id and id') with the same entity ID
                      have := h.distinct id' id md o hg hcur (by rw [he', hh])
                      exact hne this
                    simp [this, hreg]
                  · exact hreg
        · -- the Put failed: nothing changed
          rcases hcase with ⟨v, _, hs⟩ | ⟨_, hs⟩ <;> rw [hs] <;> simp only [hput, if_false] <;> exact h
  | deleteService id =>
    simp only [step]
    obtain ⟨hf0, hfs0⟩ := nextFault_truthful fs hf
    split
    · rename_i m hg
      have hcur := storeGet_found _ _ _ _ hg
      split
      · refine ⟨uniqueKeys_del _ _ h.unique, ?_, ?_⟩
        · intro id1 id2 m1 m2 h1 h2 he
          simp only at h1 h2
          rw [Map.get_del] at h1 h2
          split at h1
          · simp at h1
          · split at h2
            · simp at h2
            · exact h.distinct id1 id2 m1 m2 h1 h2 he
        · intro e md
          simp only [regDel]
          constructor
          · intro hr
            split at hr
            · simp at hr
            · rename_i hne
              obtain ⟨id', hg', he'⟩ := (h.spec e md).mp hr
              have : id' ≠ id := by
                intro hh; rw [hh, hcur] at hg'; simp at hg'; subst hg'; exact hne he'.symm
              exact ⟨id', by rw [Map.get_del]; simp [this, hg'], he'⟩
          · rintro ⟨id', hg', he'⟩
            rw [Map.get_del] at hg'
            split at hg'
            · simp at hg'
            · rename_i hne
              have : ¬ (e = m.entityID) := by
                intro hh
                have := h.distinct id' id md m hg' hcur (by rw [he', hh])
                exact hne this
              simp only [this, if_false]
              exact (h.spec e md).mpr ⟨id', hg', he'⟩
      · exact h
    · exact h
  | sso entity reqValid cred cookie relay =>
    simp only [step]
    split
    · exact h
    · split
      · exact h
      · have hfr := getSession_frame s fs cred cookie true
        cases hg : getSession s fs cred cookie true with
        | mk s' rest =>
          obtain ⟨fs', res⟩ := rest
          rw [hg] at hfr
          cases res with
          | session id σ c => simp only; split <;> exact regInv_of_same s s' h hfr.2.1 hfr.2.2.2.1
          | wrote r => exact regInv_of_same s s' h hfr.2.1 hfr.2.2.2.1
  | shortcut name suffix cookie =>
    simp only [step]
    split
    · have hfr := getSession_frame s (nextFault fs).2 .none cookie false
      cases hg : getSession s (nextFault fs).2 .none cookie false with
      | mk s' rest =>
        obtain ⟨fs', res⟩ := rest
        rw [hg] at hfr
        cases res with
        | session id σ c =>
          simp only
          split
          · exact regInv_of_same s s' h hfr.2.1 hfr.2.2.2.1
          · split <;> exact regInv_of_same s s' h hfr.2.1 hfr.2.2.2.1
        | wrote r => exact regInv_of_same s s' h hfr.2.1 hfr.2.2.2.1
    · exact h
  | login cred cookie =>
    simp only [step]
    have hfr := getSession_frame s fs cred cookie true
    cases hg : getSession s fs cred cookie true with
    | mk s' rest =>
      obtain ⟨fs', res⟩ := rest
      rw [hg] at hfr
      cases res <;> exact regInv_of_same s s' h hfr.2.1 hfr.2.2.2.1
  | putUser name profile pw =>
    simp only [step]
    split
    · split
      · exact h
      · split <;> exact regInv_of_same s _ h rfl rfl
    · split
      · exact h
      · split <;> exact regInv_of_same s _ h rfl rfl
  | getUser name => simp only [step]; split <;> exact h
  | deleteUser name => simp only [step]; split <;> exact regInv_of_same s _ h rfl rfl
  | getService id => simp only [step]; split <;> exact h
  | putShortcut name sc =>
    simp only [step]
    split
    · exact h
    · split <;> exact regInv_of_same s _ h rfl rfl
  | getShortcut name => simp only [step]; split <;> exact h
  | deleteShortcut name => simp only [step]; split <;> exact regInv_of_same s _ h rfl rfl
  | getSession id => simp only [step]; split <;> exact h
  | deleteSession id => simp only [step]; split <;> exact regInv_of_same s _ h rfl rfl
  | list kind =>
    simp only [step]
    split
    · exact h
    · split
      · exact h
      · split
        · exact h
        · split <;> exact h
  | advance dt => exact regInv_of_same s _ h rfl rfl
  | restart =>
    simp only [step, restart]
    exact ⟨h.unique, h.distinct, registryOf_spec _ h.unique h.distinct⟩

/-- **Restart transparency** (`_partial`: under `RegInv`, i.e. for histories that never give two service
    names one entity ID — the full statement "for every reachable state" is false, see
    `C19_restart_duplicate_counterexample` below): in a state where the registry is in step with the
    store, re-creating the server over the same store yields *the same state* — so every continuation of
    the history, with every fault pattern, gets exactly the same replies. -/
theorem C19_restart_partial (s : State) (h : RegInv s) : restart s = s := by
  have := regSpec_unique (fun e => (registryOf s.store.services).get e) s.registry s.store.services
    (registryOf_spec _ h.unique h.distinct) h.spec
  unfold restart
  rw [this]

/-- **The excluded point, run** (the hypothesis `StepOK` was forced by the proof; this is what happens
    without it, and the real server does the same: known finding `c19-duplicate-entity-restart`).
    `PUT /services/a` and `PUT /services/b` with the same entity ID, then `DELETE /services/a`: service
    `b` is still stored with that entity ID, the running server no longer serves it, and a server
    re-created over the same store serves it again — the restart is observable. -/
theorem C19_restart_duplicate_counterexample :
    let md : Md := ⟨"https://sp.example.com/md", true, "m"⟩
    let s := (run init [(.putService "a" (some md), []), (.putService "b" (some md), []), (.deleteService "a", [])]).1
    s.store.services.get "b" = some md ∧ s.registry md.entityID = none ∧ (restart s).registry md.entityID = some md := by
  decide

theorem C19_restart_continues (s : State) (h : RegInv s) (hist : List (Req × List Fault)) :
    run (restart s) hist = run s hist := by rw [C19_restart_partial s h]

/-- well-behaved histories: no duplicate entity IDs are introduced, and the store does not lie about
    absence -/
def HistOK : State → List (Req × List Fault) → Prop
  | _, [] => True
  | s, (r, fs) :: rest => StepOK s r ∧ Truthful fs ∧ HistOK (step s fs r).1 rest

/-- the registry invariant holds after every well-behaved history from the empty server, so a restart
    may be inserted at *any* position -/
theorem run_reg_inv (hist : List (Req × List Fault)) : ∀ s, RegInv s → HistOK s hist → RegInv (run s hist).1 := by
  induction hist with
  | nil => intro s hs _; exact hs
  | cons x rest ih =>
    intro s hs hh
    obtain ⟨r, fs⟩ := x
    simp only [run]
    exact ih (step s fs r).1 (step_reg_inv s fs r hs hh.1 hh.2.1) hh.2.2

theorem C19_registry_in_step (hist : List (Req × List Fault)) (h : HistOK init hist) : RegInv (run init hist).1 :=
  run_reg_inv hist init init_regInv h

/-- **Registered at that moment, against the store**: in a reachable state the entity an assertion is
    issued towards is the metadata of a currently stored service. -/
theorem C19_registered_stored (s : State) (hinv : RegInv s) (fs : List Fault) (entity : String) (v : Bool)
    (cred : Cred) (cookie : Option String) (relay u prof e relay' : String)
    (h : (step s fs (.sso entity v cred cookie relay)).2.body = .saml u prof e relay') :
    ∃ id md, s.store.services.get id = some md ∧ md.entityID = entity ∧ e = entity := by
  obtain ⟨md, hreg, he, _⟩ := C19_registered_sso s fs entity v cred cookie relay u prof e relay' h
  obtain ⟨id, hg, hent⟩ := (hinv.spec entity md).mp hreg
  exact ⟨id, md, hg, hent, by rw [← he, hent]⟩

/-! ### stored hashes are never disclosed -/

/-- No constructor of `Body` carries a password hash, and the only place a hash is read is the
    comparison in `getSession`; concretely: reading a user back never returns more than name and
    profile, whatever the stored hash. -/
theorem C19_no_hash_in_user_reply (s : State) (fs : List Fault) (name : String) :
    (step s fs (.getUser name)).2.body = .empty ∨
    ∃ prof, (step s fs (.getUser name)).2.body = .userJson name prof := by
  simp only [step]
  split
  · rename_i u _; exact Or.inr ⟨u.profile, rfl⟩
  · exact Or.inl rfl

/-! ### the password domain (fix 791b1c9) -/

/-- a password bcrypt cannot tell apart from others (longer than 72 bytes, or containing NUL) is refused
    at PUT: nothing is stored -/
theorem C19_unusable_password_refused (s : State) (fs : List Fault) (name profile p : String)
    (h : validPw p = false) : step s fs (.putUser name profile (some p)) = (s, st 400) := by
  simp [step, h]

/-- … and never creates a session from form credentials, whatever is stored -/
theorem C19_unusable_password_no_session (s : State) (fs : List Fault) (u p : String) (cookie : Option String)
    (allow : Bool) (h : validPw p = false) (s' : State) (fs' : List Fault) (id : String) (σ : SessionRec) (c : Option String)
    (hg : getSession s fs (.form u p) cookie allow = (s', fs', .session id σ c)) : c = none := by
  have hv := getSession_session s fs (.form u p) cookie allow s' fs' id σ c hg
  cases hv with
  | password u' p' usr hcred hallow hu huser hvalid hpw hσ hc =>
    cases hcred
    rw [h] at hvalid
    exact absurd hvalid (by simp)
  | cookie hcookie hstored hfresh hc => exact hc

example : validPw "pw-d\x00pw-d" = false ∧ validPw (String.ofList (List.replicate 73 'k')) = false ∧
    validPw (String.ofList (List.replicate 72 'k')) = true ∧ validPw "pw-d" = true ∧ validPw "" = true := by decide

/-! Non-vacuity: a concrete history with an overwrite under a new entity ID, a restart in the middle,
    a wrong password, a deleted user with a live session, an expired session. -/
def mdA : Md := ⟨"https://a/md", true, "A"⟩
def mdB : Md := ⟨"https://b/md", true, "B"⟩
def exHist : List (Req × List Fault) :=
  [(.putUser "alice" "alice-profile" (some "pw"), []), (.putService "svc" (some mdA), []),
   (.sso "https://a/md" true (.form "alice" "bad") none "rs", []),
   (.sso "https://a/md" true (.form "alice" "pw") none "rs", []),
   (.putService "svc" (some mdB), []),
   (.sso "https://a/md" true .none (some "s0") "rs", []),      -- old entity: no longer registered
   (.restart, []),
   (.sso "https://b/md" true .none (some "s0") "rs", []),
   (.deleteUser "alice", []),
   (.sso "https://b/md" true .none (some "s0") "rs2", []),     -- session outlives the user record
   (.advance 3601, []),
   (.sso "https://b/md" true .none (some "s0") "rs", [])]

example : (run init exHist).2.map (fun r => (r.status, r.body)) =
    [(204, .empty), (204, .empty), (200, .loginForm), (200, .saml "alice" "alice-profile" "https://a/md" "rs"),
     (204, .empty), (400, .empty), (0, .empty), (200, .saml "alice" "alice-profile" "https://b/md" "rs"),
     (204, .empty), (200, .saml "alice" "alice-profile" "https://b/md" "rs2"), (0, .empty), (200, .loginForm)] := by
  decide

example : HistOK init [(.putService "svc" (some mdA), []), (.putService "svc" (some mdB), [.ioErr])] := by
  refine ⟨?_, by simp [Truthful], ?_, by simp [Truthful], trivial⟩
  · intro id' m' _ hg; simp [init, Map.get] at hg
  · intro id' m' hne hg
    simp [step, init, nextFault, storeGet, Map.get, Map.put, Map.del, List.lookup] at hg
    split at hg
    · rename_i heq; simp at heq; exact absurd heq hne
    · simp at hg

end SamlVerif.IdpServer
