/-
  Props/TransBinding — where the SP sends its requests (service_provider.go `GetSSOBindingLocation`, `GetSLOBindingLocation`,
  regenerated): the location is that of the first endpoint, in document order over all IdP role descriptors, whose binding is the
  one asked for — and the empty string when the IdP publishes none (C12: "the configured … destination"; it is what
  `samlsp`'s `HandleStartAuthFlow` decides on, `startFlow_binding`).
-/
import SamlVerif.Generated.Trans
import SamlVerif.Proofs.TransSP
open SamlVerif SamlVerif.GoSem
namespace SamlVerif.TransBinding

theorem inner_search {α : Type} (xs : List α) (p : α → Bool) (f : α → String) :
    forIn xs ((none : Option String), ()) (fun x (_ : Option String × Unit) =>
        if p x = true then (Outcome.ok (ForInStep.done (some (f x), ())) : Outcome (ForInStep (Option String × Unit)))
        else Outcome.ok (ForInStep.yield (none, ())))
      = .ok ((xs.find? p).map f, ()) := by
  induction xs with
  | nil => simp
  | cons x xs ih =>
    simp only [List.forIn_cons, List.find?_cons]
    cases hp : p x <;> simp [ih]

theorem outer_search {δ α : Type} (ds : List δ) (g : δ → List α) (p : α → Bool) (f : α → String)
    (K : Option String → Outcome (ForInStep (Option String × Unit)))
    (hK1 : ∀ r, K (some r) = .ok (.done (some r, ()))) (hK2 : K none = .ok (.yield (none, ()))) :
    forIn ds ((none : Option String), ()) (fun d (_ : Option String × Unit) => K (((g d).find? p).map f))
      = .ok (((ds.flatMap g).find? p).map f, ()) := by
  induction ds with
  | nil => simp
  | cons d ds ih =>
    simp only [List.forIn_cons, List.flatMap_cons, List.find?_append]
    cases hf : (g d).find? p with
    | some a => simp [hK1]
    | none => simp [hK2, ih]

def Kdef (o : Option String) : Outcome (ForInStep (Option String × Unit)) :=
  match o with
  | some r => .ok (.done (some r, ()))
  | none => .ok (.yield (none, ()))

/-- the first endpoint with the binding, over all role descriptors in document order -/
def firstLocation (ends : List Trans.Endpoint) (b : String) : String :=
  match ends.find? (fun e => e.Binding == b) with
  | some e => e.Location
  | none => ""

theorem GetSSOBindingLocation_eq (env : Trans.Env) (sp : Trans.ServiceProvider) (md : Trans.EntityDescriptor) (b : String)
    (h : sp.IDPMetadata = some md) :
    Trans.GetSSOBindingLocation env sp b =
      .ok (firstLocation (md.IDPSSODescriptors.flatMap (·.SingleSignOnServices)) b) := by
  unfold Trans.GetSSOBindingLocation firstLocation
  simp only [h, deref_some, Outcome.ok_bind', Outcome.pure_eq_ok]
  simp only [inner_search _ (fun (e : Trans.Endpoint) => e.Binding == b) (·.Location), Outcome.ok_bind']
  generalize hB : (fun (d : Trans.IDPSSODescriptor) (s : Option String × Unit) => _) = B
  have hB' : B = fun d _ => Kdef (Option.map (·.Location) (List.find? (fun e => e.Binding == b) d.SingleSignOnServices)) := by
    subst hB
    funext d s
    cases Option.map (fun (x : Trans.Endpoint) => x.Location) (List.find? (fun e => e.Binding == b) d.SingleSignOnServices) <;> rfl
  rw [hB', outer_search md.IDPSSODescriptors (·.SingleSignOnServices) (fun e => e.Binding == b) (·.Location) Kdef (fun r => rfl) rfl]
  simp only [Outcome.ok_bind']
  cases List.find? (fun e => e.Binding == b) (md.IDPSSODescriptors.flatMap (·.SingleSignOnServices)) <;> rfl

theorem GetSLOBindingLocation_eq (env : Trans.Env) (sp : Trans.ServiceProvider) (md : Trans.EntityDescriptor) (b : String)
    (h : sp.IDPMetadata = some md) :
    Trans.GetSLOBindingLocation env sp b =
      .ok (firstLocation (md.IDPSSODescriptors.flatMap (·.SingleLogoutServices)) b) := by
  unfold Trans.GetSLOBindingLocation firstLocation
  simp only [h, deref_some, Outcome.ok_bind', Outcome.pure_eq_ok]
  simp only [inner_search _ (fun (e : Trans.Endpoint) => e.Binding == b) (·.Location), Outcome.ok_bind']
  generalize hB : (fun (d : Trans.IDPSSODescriptor) (s : Option String × Unit) => _) = B
  have hB' : B = fun d _ => Kdef (Option.map (·.Location) (List.find? (fun e => e.Binding == b) d.SingleLogoutServices)) := by
    subst hB
    funext d s
    cases Option.map (fun (x : Trans.Endpoint) => x.Location) (List.find? (fun e => e.Binding == b) d.SingleLogoutServices) <;> rfl
  rw [hB', outer_search md.IDPSSODescriptors (·.SingleLogoutServices) (fun e => e.Binding == b) (·.Location) Kdef (fun r => rfl) rfl]
  simp only [Outcome.ok_bind']
  cases List.find? (fun e => e.Binding == b) (md.IDPSSODescriptors.flatMap (·.SingleLogoutServices)) <;> rfl

/-- a non-empty answer is the location of an endpoint the IdP publishes under that binding -/
theorem GetSSOBindingLocation_published (env : Trans.Env) (sp : Trans.ServiceProvider) (md : Trans.EntityDescriptor) (b loc : String)
    (h : sp.IDPMetadata = some md) (hl : Trans.GetSSOBindingLocation env sp b = .ok loc) (hne : loc ≠ "") :
    ∃ d ∈ md.IDPSSODescriptors, ∃ e ∈ d.SingleSignOnServices, e.Binding = b ∧ e.Location = loc := by
  rw [GetSSOBindingLocation_eq env sp md b h] at hl
  unfold firstLocation at hl
  cases hf : List.find? (fun e => e.Binding == b) (md.IDPSSODescriptors.flatMap (·.SingleSignOnServices)) with
  | none => simp [hf] at hl; exact absurd hl.symm hne.symm |> False.elim
  | some e =>
    simp [hf] at hl
    have hmem := List.mem_of_find?_eq_some hf
    have hp := List.find?_some hf
    obtain ⟨d, hd, he⟩ := List.mem_flatMap.mp hmem
    exact ⟨d, hd, e, he, by simpa using hp, hl⟩

/-- the IdP is never dereferenced when it is missing without the caller noticing: no metadata is a panic, not a location -/
example (env : Trans.Env) (sp : Trans.ServiceProvider) (h : sp.IDPMetadata = none) :
    Trans.GetSSOBindingLocation env sp "b" = .panic "nil dereference" := by
  simp [Trans.GetSSOBindingLocation, h]

theorem GetArtifactBindingLocation_eq (env : Trans.Env) (sp : Trans.ServiceProvider) (md : Trans.EntityDescriptor) (b : String)
    (h : sp.IDPMetadata = some md) :
    Trans.GetArtifactBindingLocation env sp b =
      .ok (match (md.IDPSSODescriptors.flatMap (·.ArtifactResolutionServices)).find? (fun e => e.Binding == b) with
           | some e => e.Location
           | none => "") := by
  unfold Trans.GetArtifactBindingLocation
  simp only [h, deref_some, Outcome.ok_bind', Outcome.pure_eq_ok]
  simp only [inner_search _ (fun (e : Trans.Endpoint) => e.Binding == b) (·.Location), Outcome.ok_bind']
  generalize hB : (fun (d : Trans.IDPSSODescriptor) (s : Option String × Unit) => _) = B
  have hB' : B = fun d _ => Kdef (Option.map (·.Location) (List.find? (fun e => e.Binding == b) d.ArtifactResolutionServices)) := by
    subst hB
    funext d s
    cases Option.map (fun (x : Trans.Endpoint) => x.Location) (List.find? (fun e => e.Binding == b) d.ArtifactResolutionServices) <;> rfl
  rw [hB', outer_search md.IDPSSODescriptors (·.ArtifactResolutionServices) (fun e => e.Binding == b) (·.Location) Kdef (fun r => rfl) rfl]
  simp only [Outcome.ok_bind']
  cases List.find? (fun e => e.Binding == b) (md.IDPSSODescriptors.flatMap (·.ArtifactResolutionServices)) <;> rfl

/-- C12 (service_provider.go `nameIDFormat`): the name-ID format that goes on the wire is the configured one — transient when none is
    configured, none at all for "unspecified" — whatever string the configuration holds, a constant of the package or not -/
theorem nameIDFormat_eq (env : Trans.Env) (sp : Trans.ServiceProvider) :
    Trans.nameIDFormat env sp =
      .ok (if sp.AuthnNameIDFormat = "" then "urn:oasis:names:tc:SAML:2.0:nameid-format:transient"
           else if sp.AuthnNameIDFormat = "urn:oasis:names:tc:SAML:1.1:nameid-format:unspecified" then ""
           else sp.AuthnNameIDFormat) := by
  unfold Trans.nameIDFormat
  simp only [Outcome.pure_eq_ok]
  by_cases h1 : sp.AuthnNameIDFormat = ""
  · simp [h1]
  · by_cases h2 : sp.AuthnNameIDFormat = "urn:oasis:names:tc:SAML:1.1:nameid-format:unspecified"
    · simp [h2]
    · simp [h1, h2]

end SamlVerif.TransBinding
