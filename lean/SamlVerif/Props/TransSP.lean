/-
  Props/TransSP — theorems about the definitions regenerated from the *current* service_provider.go
  (`Generated/Trans.lean`, written by `extract/trans.go` on every run).

  The hand-written models of C02 / C03 / C04 / C18 are tied to the code by the correspondence check; these
  theorems tie them a second time, by proof: the regenerated `validateAssertion`, `validateRequestID`,
  `validateAudienceRestriction`, `validateLogoutResponse` refine the models' `SP.validateAssertion`,
  `SP.reqIdOK`, `Logout.validateFields`, so the property statements hold of the translated code itself
  (`Trans_*_sound`), and a change of one of these Go functions that alters their verdict makes `lake build` fail here.

  Hypotheses: `IDPMetadata` is set (a nil `IDPMetadata` panics in the Go code too — configuration, not input) and, for the
  statements that read like the property text, no application hook replaces the check (the hooks are covered by
  `Trans_validateRequestID_hook` / `Trans_validateAudienceRestriction_hook`: the hook's answer is the answer).
-/
import SamlVerif.Proofs.TransSP
import SamlVerif.Proofs.SPStruct
import SamlVerif.Props.C18

namespace SamlVerif.TransSP
open SamlVerif SamlVerif.GoSem

/-- the translator recognised every construct of the functions it was asked to translate -/
theorem Trans_no_failures : Trans.transFailures = [] := by decide

/-- `validateAssertion` as regenerated from the source has the verdict of the model (ok / error / panic). -/
theorem Trans_validateAssertion_refines (env : Trans.Env) (sp : Trans.ServiceProvider) (idp : Trans.EntityDescriptor)
    (a : Trans.Assertion) (ids : List String) (now : Int)
    (hidp : sp.IDPMetadata = some idp) (hv : sp.ValidateAudienceRestriction = none) :
    (toOutcome (Trans.validateAssertion env sp (some a) ids now)).cls =
      (SP.validateAssertion (absCfg env sp idp) now ids (absA a)).cls :=
  validateAssertion_cls env sp idp a ids now hidp hv

theorem cls_ok_iff {α} (o : Outcome α) : o.cls = "ok" ↔ ∃ a, o = .ok a := by
  cases o <;> simp [Outcome.cls]

theorem toOutcome_ok_iff (o : Outcome GoError) : (toOutcome o).cls = "ok" ↔ o = .ok none := by
  cases o with
  | ok e => cases e <;> simp [toOutcome, Outcome.cls]
  | err e => simp [toOutcome, Outcome.cls]
  | panic w => simp [toOutcome, Outcome.cls]

/-- **C02 / C03 / C04 on the translated code**: when the regenerated `validateAssertion` returns nil, the assertion is
    inside every window at the configured tolerances, comes from the configured IdP, every confirmation names the ACS URL
    and an outstanding request, and the audience restriction names this SP. -/
theorem Trans_validateAssertion_sound (env : Trans.Env) (sp : Trans.ServiceProvider) (idp : Trans.EntityDescriptor)
    (a : Trans.Assertion) (ids : List String) (now : Int)
    (hidp : sp.IDPMetadata = some idp) (hv : sp.ValidateAudienceRestriction = none)
    (h : Trans.validateAssertion env sp (some a) ids now = .ok none) :
    now ≤ a.IssueInstant + env.MaxIssueDelay ∧
    a.Issuer.Value = idp.EntityID ∧
    (∃ s, a.Subject = some s ∧ ∀ sc ∈ s.SubjectConfirmations, ∃ d, sc.SubjectConfirmationData = some d ∧
        (sp.AllowIDPInitiated = true ∨ d.InResponseTo ∈ ids) ∧ d.Recipient = sp.AcsURL.str ∧
        now ≤ d.NotOnOrAfter + env.MaxClockSkew) ∧
    (∃ c, a.Conditions = some c ∧ c.NotBefore - env.MaxClockSkew ≤ now ∧ now ≤ c.NotOnOrAfter + env.MaxClockSkew ∧
        (c.AudienceRestrictions = [] ∨
          ∃ r ∈ c.AudienceRestrictions, r.Audience.Value = SP.firstSet sp.EntityID sp.MetadataURL.str)) := by
  have hcls := Trans_validateAssertion_refines env sp idp a ids now hidp hv
  rw [(toOutcome_ok_iff _).2 h] at hcls
  obtain ⟨u, hu⟩ := (cls_ok_iff _).1 hcls.symm
  cases u
  have hvld := (SP.validateAssertion_ok_iff (absCfg env sp idp) now ids (absA a)).1 hu
  refine ⟨hvld.fresh, hvld.issuer, ?_, ?_⟩
  · obtain ⟨scs, hs, hall⟩ := hvld.subj
    cases hsub : a.Subject with
    | none => simp [absA, hsub] at hs
    | some s =>
      refine ⟨s, rfl, ?_⟩
      intro sc hsc
      simp [absA, hsub] at hs
      have := hall (absSC sc) (by rw [← hs]; exact List.mem_map_of_mem hsc)
      obtain ⟨d, hd, h1, h2, h3⟩ := this.ex
      cases hdat : sc.SubjectConfirmationData with
      | none => simp [absSC, hdat] at hd
      | some d' =>
        simp [absSC, hdat] at hd
        subst hd
        refine ⟨d', rfl, ?_, by simpa [absCfg] using h2, by simpa [absCfg] using h3⟩
        have h1' : sp.AllowIDPInitiated = false → d'.InResponseTo ∈ ids := by simpa [absCfg] using h1
        cases hA : sp.AllowIDPInitiated
        · exact Or.inr (h1' hA)
        · exact Or.inl rfl
  · obtain ⟨c, hc, h1, h2, haud⟩ := hvld.cond
    cases hcond : a.Conditions with
    | none => simp [absA, hcond] at hc
    | some c' =>
      simp [absA, hcond] at hc
      subst hc
      refine ⟨c', rfl, by simpa [absCfg] using h1, by simpa [absCfg] using h2, ?_⟩
      simp [SP.AudienceOK, absCfg, SP.Cfg.audience] at haud
      rcases haud with h0 | ⟨r, hr, hrv⟩
      · exact Or.inl h0
      · exact Or.inr ⟨r, hr, hrv⟩

/-- **completeness on the translated code**: inside all windows, addressed to this SP by its IdP → nil. -/
theorem Trans_validateAssertion_complete (env : Trans.Env) (sp : Trans.ServiceProvider) (idp : Trans.EntityDescriptor)
    (a : Trans.Assertion) (ids : List String) (now : Int)
    (hidp : sp.IDPMetadata = some idp) (hv : sp.ValidateAudienceRestriction = none)
    (hvalid : SP.AssertionValid (absCfg env sp idp) now ids (absA a)) :
    Trans.validateAssertion env sp (some a) ids now = .ok none := by
  have hcls := Trans_validateAssertion_refines env sp idp a ids now hidp hv
  rw [(SP.validateAssertion_ok_iff _ _ _ _).2 hvalid] at hcls
  exact (toOutcome_ok_iff _).1 hcls

/-- the translated `validateAssertion` never panics on an assertion (nil Subject / Conditions / confirmation data are errors) -/
theorem Trans_validateAssertion_total (env : Trans.Env) (sp : Trans.ServiceProvider) (idp : Trans.EntityDescriptor)
    (a : Trans.Assertion) (ids : List String) (now : Int)
    (hidp : sp.IDPMetadata = some idp) (hv : sp.ValidateAudienceRestriction = none) (w : String) :
    Trans.validateAssertion env sp (some a) ids now ≠ .panic w := by
  intro hp
  have hcls := Trans_validateAssertion_refines env sp idp a ids now hidp hv
  rw [hp] at hcls
  have : (SP.validateAssertion (absCfg env sp idp) now ids (absA a)).cls = "panic" := by
    simpa [toOutcome, Outcome.cls] using hcls.symm
  cases hm : SP.validateAssertion (absCfg env sp idp) now ids (absA a) with
  | ok u => rw [hm] at this; simp [Outcome.cls] at this
  | err e => rw [hm] at this; simp [Outcome.cls] at this
  | panic w' => exact SP.validateAssertion_ne_panic _ _ _ _ _ hm

/-- **C04 on the translated code** (`validateRequestID`): nil exactly when IdP-initiated login is allowed or InResponseTo
    is one of the outstanding IDs; with no outstanding IDs and the switch off, never. -/
theorem Trans_validateRequestID_iff (env : Trans.Env) (sp : Trans.ServiceProvider) (r : Trans.Response) (ids : List String)
    (h : sp.ValidateRequestID = none) :
    Trans.validateRequestID env sp r ids = .ok none ↔ (sp.AllowIDPInitiated = true ∨ r.InResponseTo ∈ ids) := by
  rw [validateRequestID_eq env sp r ids h]
  by_cases ha : sp.AllowIDPInitiated = true <;> by_cases hm : r.InResponseTo ∈ ids <;> simp [ha, hm]

theorem Trans_validateRequestID_empty (env : Trans.Env) (sp : Trans.ServiceProvider) (r : Trans.Response)
    (h : sp.ValidateRequestID = none) (ha : sp.AllowIDPInitiated = false) :
    Trans.validateRequestID env sp r [] ≠ .ok none := by
  intro hh
  have := (Trans_validateRequestID_iff env sp r [] h).1 hh
  simp [ha] at this

/-- an installed request-ID hook decides alone -/
theorem Trans_validateRequestID_hook (env : Trans.Env) (sp : Trans.ServiceProvider) (r : Trans.Response) (ids : List String)
    (f) (h : sp.ValidateRequestID = some f) :
    Trans.validateRequestID env sp r ids = f r ids := by
  unfold Trans.validateRequestID
  simp [h]

/-- an installed audience hook decides alone (any error it returns is an error, nil is nil) -/
theorem Trans_validateAudienceRestriction_hook (env : Trans.Env) (sp : Trans.ServiceProvider) (a : Option Trans.Assertion)
    (f) (h : sp.ValidateAudienceRestriction = some f) :
    (toOutcome (Trans.validateAudienceRestriction env sp a)).cls = (toOutcome (f a)).cls := by
  unfold Trans.validateAudienceRestriction
  simp [h]
  cases hf : f a with
  | ok e => cases e <;> simp [toOutcome, Outcome.cls]
  | err e => simp [toOutcome, Outcome.cls]
  | panic w => simp [toOutcome, Outcome.cls]

/-- **C18 on the translated code**: `validateLogoutResponse` returns nil exactly when the response is addressed to the
    logout URL, fresh, issued by the configured IdP and Success. -/
theorem Trans_validateLogoutResponse_iff (env : Trans.Env) (sp : Trans.ServiceProvider) (idp : Trans.EntityDescriptor)
    (r : Trans.LogoutResponse) (hidp : sp.IDPMetadata = some idp) :
    Trans.validateLogoutResponse env sp (some r) = .ok none ↔
      (r.Destination = sp.SloURL.str ∧ env.timeNow ≤ r.IssueInstant + env.MaxIssueDelay ∧
        (∃ i, r.Issuer = some i ∧ i.Value = idp.EntityID) ∧ r.Status.StatusCode.Value = env.StatusSuccess) := by
  have hcls := validateLogoutResponse_cls env sp idp r hidp
  rw [← toOutcome_ok_iff, hcls, cls_ok_iff]
  unfold Logout.validateFields
  simp [absLogout, absLogoutCfg]
  by_cases h1 : r.Destination = sp.SloURL.str <;> simp [h1]
  by_cases h2 : r.IssueInstant + env.MaxIssueDelay < env.timeNow
  · simp [h2]; omega
  · simp [h2]
    have h2' : env.timeNow ≤ r.IssueInstant + env.MaxIssueDelay := by omega
    simp [h2']
    cases h3 : r.Issuer with
    | none => simp
    | some i =>
      simp
      by_cases h4 : i.Value = idp.EntityID <;> simp [h4]
      by_cases h5 : r.Status.StatusCode.Value = env.StatusSuccess <;> simp [h5]

/-- the translated `validateLogoutResponse` never panics on a response (a missing Issuer is an error) -/
theorem Trans_validateLogoutResponse_total (env : Trans.Env) (sp : Trans.ServiceProvider) (idp : Trans.EntityDescriptor)
    (r : Trans.LogoutResponse) (hidp : sp.IDPMetadata = some idp) (w : String) :
    Trans.validateLogoutResponse env sp (some r) ≠ .panic w := by
  intro hp
  have hcls := validateLogoutResponse_cls env sp idp r hidp
  rw [hp] at hcls
  have hnp : ∀ w', Logout.validateFields (absLogoutCfg env sp idp) env.timeNow (absLogout r) ≠ .panic w' := by
    intro w'
    unfold Logout.validateFields
    repeat' split
    all_goals simp
  cases hm : Logout.validateFields (absLogoutCfg env sp idp) env.timeNow (absLogout r) with
  | ok u => rw [hm] at hcls; simp [toOutcome, Outcome.cls] at hcls
  | err e => rw [hm] at hcls; simp [toOutcome, Outcome.cls] at hcls
  | panic w' => exact hnp w' hm

/-! non-vacuity: a concrete assertion that the translated validator accepts, and one it refuses -/

def exEnv : Trans.Env :=
  { (default : Trans.Env) with MaxClockSkew := 180000, MaxIssueDelay := 90000, StatusSuccess := "ok", timeNow := 1000 }
def exSP : Trans.ServiceProvider :=
  { (default : Trans.ServiceProvider) with
    EntityID := "sp", MetadataURL := ⟨"https://sp/md"⟩, AcsURL := ⟨"https://sp/acs"⟩, SloURL := ⟨"https://sp/slo"⟩,
    IDPMetadata := some { (default : Trans.EntityDescriptor) with EntityID := "idp" }, AllowIDPInitiated := false,
    ValidateAudienceRestriction := none, ValidateRequestID := none }
def exA : Trans.Assertion :=
  { IssueInstant := 1000, Issuer := ⟨"idp"⟩,
    Subject := some ⟨[⟨some { NotOnOrAfter := 2000, Recipient := "https://sp/acs", InResponseTo := "id-1" }⟩]⟩,
    Conditions := some { NotBefore := 900, NotOnOrAfter := 2000, AudienceRestrictions := [⟨⟨"sp"⟩⟩] } }

example : Trans.validateAssertion exEnv exSP (some exA) ["id-1"] 1000 = .ok none := by decide
example : Trans.validateAssertion exEnv exSP (some exA) ["id-2"] 1000 ≠ .ok none := by decide
example : Trans.validateAssertion exEnv exSP (some { exA with Subject := none }) ["id-1"] 1000 ≠ .ok none := by decide

end SamlVerif.TransSP
