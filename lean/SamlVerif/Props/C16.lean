/-
  C16 — Only session tokens minted by this SP, unexpired, authenticate a request.

  "A request is treated as authenticated only if it presents a session token that this SP's session
   codec issued - same key, issuer and audience - no longer ago than the session lifetime; anything
   else, including tokens signed by another key or algorithm ('none', HMAC keyed with the public
   key), request-tracking tokens minted by the same SP, expired or not-yet-valid tokens, tokens for
   another audience or issuer, and truncated or altered tokens, yields no session.  The subject and
   attributes exposed to the application are exactly those of the assertion that created the session,
   and attribute-gated handlers admit a request only when the named attribute carries the required
   value."

  Partial: signatures are symbolic (`Mac`); golang-jwt's parsing/validation order is modelled, not
  verified (tied by the correspondence on structure-aware token mutations).
-/
import SamlVerif.Model.Jwt

namespace SamlVerif.Jwt

/-- what `decodeSession` accepting means -/
structure Authentic (c : Codec) (now : Int) (t : Token) (cl : Claims) : Prop where
  wf : t.wellFormed = true
  alg : t.alg = c.alg
  mac : t.mac = .by c.keyId c.alg
  same : cl = t.claims
  aud : cl.aud = c.audience ∧ cl.aud ≠ ""
  iss : cl.iss = c.issuer ∧ cl.iss ≠ ""
  marker : cl.samlSession = true
  exp : cl.exp = 0 ∨ now < cl.exp
  iat : cl.iat = 0 ∨ cl.iat ≤ now
  nbf : cl.nbf = 0 ∨ cl.nbf ≤ now

theorem parse_ok (c : Codec) (now : Int) (t : Token) (cl : Claims) (h : parse c now t = .ok cl) :
    t.wellFormed = true ∧ t.alg = c.alg ∧ t.mac = .by c.keyId c.alg ∧ cl = t.claims ∧ claimsValid now cl = true := by
  unfold parse at h
  split at h
  · simp at h
  · rename_i h1
    split at h
    · simp at h
    · split at h
      · simp at h
      · rename_i h3
        split at h
        · simp at h
        · rename_i h4
          split at h
          · simp at h
          · rename_i h5
            simp at h
            subst h
            exact ⟨by simpa using h1, by simpa using h3, by simpa using h4, rfl, by simpa using h5⟩

/-- **Soundness**: a session is obtained only from a well-formed token, under the codec's own
    algorithm, carrying a signature made with the codec's key over exactly these claims, addressed to
    and issued by this SP, marked as a session token, and inside its validity interval. -/
theorem C16_sound (c : Codec) (now : Int) (t : Token) (cl : Claims)
    (h : decodeSession c now t = .ok cl) : Authentic c now t cl := by
  unfold decodeSession at h
  split at h
  · rename_i cl' hp
    obtain ⟨h1, h2, h3, h4, h5⟩ := parse_ok c now t cl' hp
    split at h
    · simp at h
    · rename_i ha
      split at h
      · simp at h
      · rename_i hi
        split at h
        · simp at h
        · rename_i hm
          simp at h
          subst h
          unfold audOK at ha
          unfold issOK at hi
          unfold claimsValid at h5
          simp at ha hi hm h5
          exact ⟨h1, h2, h3, h4, ⟨ha.2, ha.1⟩, ⟨hi.2, hi.1⟩, hm, h5.1.1, h5.1.2, h5.2⟩
  · simp at h
  · simp at h

/-- **Completeness**: a token this codec minted at `t0` from assertion `a` is accepted at every
    instant `t0 ≤ now < t0 + maxAge`, and yields exactly the minted claims. -/
theorem C16_complete (c : Codec) (t0 now : Int) (a : AssertionA)
    (haud : c.audience ≠ "") (hiss : c.issuer ≠ "") (hother : c.alg ≠ .other) (ht0 : t0 ≠ 0)
    (h1 : t0 ≤ now) (h2 : now < t0 + c.maxAge) :
    decodeSession c now (encodeSession c (newSession c t0 a)) = .ok (newSession c t0 a) := by
  have hexp : (decide (t0 + c.maxAge = 0) || decide (now < t0 + c.maxAge)) = true := by simp [h2]
  unfold decodeSession parse encodeSession newSession claimsValid audOK issOK
  simp [hother, haud, hiss, ht0, h1, h2]

/-- **Expiry**: a minted token is rejected from `t0 + maxAge` on. -/
theorem C16_expired (c : Codec) (t0 now : Int) (a : AssertionA) (hne : t0 + c.maxAge ≠ 0)
    (h : t0 + c.maxAge ≤ now) :
    ∀ cl, decodeSession c now (encodeSession c (newSession c t0 a)) ≠ .ok cl := by
  intro cl hd
  have := (C16_sound _ _ _ _ hd)
  have hs := this.same
  have he := this.exp
  rw [hs] at he
  simp only [encodeSession, newSession] at he
  rcases he with he | he
  · exact hne he
  · omega

/-- **Codec separation**: a request-tracking token — minted by *any* tracker codec, even one with
    the same key, issuer and audience — is never a session. -/
theorem C16_separation (c c' : Codec) (now t0 : Int) (tr : MW.TrackedRequest) :
    ∀ cl, decodeSession c now (encodeTracker c' t0 tr) ≠ .ok cl := by
  intro cl hd
  have h := C16_sound _ _ _ _ hd
  have hs := h.same
  have hm := h.marker
  rw [hs] at hm
  simp [encodeTracker] at hm

/-- and conversely a session token is never a tracking token -/
theorem C16_separation' (c c' : Codec) (now : Int) (cl0 : Claims) (h0 : cl0.samlAuthnRequest = false) :
    ∀ tr, decodeTracker c now (encodeSession c' cl0) ≠ .ok tr := by
  intro tr hd
  unfold decodeTracker at hd
  split at hd
  · rename_i cl' hp
    obtain ⟨_, _, _, h4, _⟩ := parse_ok c now _ cl' hp
    split at hd
    · simp at hd
    · split at hd
      · simp at hd
      · split at hd
        · simp at hd
        · rename_i hm
          rw [h4] at hm
          simp [encodeSession, h0] at hm
  · simp at hd
  · simp at hd

/-- **Algorithm substitution**: any algorithm other than the codec's ('none', HS256 keyed with the
    public key, RS↔ES) yields no session, whatever the signature. -/
theorem C16_alg (c : Codec) (now : Int) (t : Token) (h : t.alg ≠ c.alg) :
    ∀ cl, decodeSession c now t ≠ .ok cl := by
  intro cl hd
  exact h (C16_sound _ _ _ _ hd).alg

/-- **Other key / altered / truncated**: without a signature by this codec's key over exactly these
    claims there is no session. -/
theorem C16_mac (c : Codec) (now : Int) (t : Token) (h : t.mac ≠ .by c.keyId c.alg ∨ t.wellFormed = false) :
    ∀ cl, decodeSession c now t ≠ .ok cl := by
  intro cl hd
  have hs := C16_sound _ _ _ _ hd
  rcases h with h | h
  · exact h hs.mac
  · rw [hs.wf] at h; simp at h

/-- **Cross-deployment**: a token for another audience or issuer yields no session even when it is
    signed with the same key. -/
theorem C16_audience_issuer (c : Codec) (now : Int) (t : Token)
    (h : t.claims.aud ≠ c.audience ∨ t.claims.iss ≠ c.issuer) : ∀ cl, decodeSession c now t ≠ .ok cl := by
  intro cl hd
  have hs := C16_sound _ _ _ _ hd
  have := hs.same
  rcases h with h | h
  · exact h (this ▸ hs.aud.1)
  · exact h (this ▸ hs.iss.1)

/-! ### attributes -/

theorem valuesOf_addValue (m : List (String × List String)) (k k' v : String) :
    valuesOf (addValue m k v) k' = if k' = k then valuesOf m k' ++ [v] else valuesOf m k' := by
  induction m with
  | nil =>
    unfold addValue valuesOf
    by_cases h : k' = k
    · simp [h]
    · have : (k' == k) = false := by simpa using h
      simp [List.lookup, h, this]
  | cons p rest ih =>
    obtain ⟨k0, vs⟩ := p
    unfold addValue
    by_cases h0 : k0 = k
    · simp only [h0, if_true]
      unfold valuesOf
      by_cases h : k' = k
      · simp [h, List.lookup]
      · have : (k' == k) = false := by simpa using h
        simp [List.lookup, h, this]
    · simp only [h0, if_false]
      unfold valuesOf at ih ⊢
      by_cases h1 : k' = k0
      · have hne : k' ≠ k := by rw [h1]; exact h0
        simp [List.lookup, h1, hne, h0]
      · have : (k' == k0) = false := by simpa using h1
        simp only [List.lookup, this]
        exact ih

theorem valuesOf_addAttr (m : List (String × List String)) (a : Attr) (k : String) :
    valuesOf (addAttr m a) k = valuesOf m k ++ (if k = claimName a then a.values else []) := by
  unfold addAttr
  generalize a.values = vs
  induction vs generalizing m with
  | nil => simp
  | cons v rest ih =>
    simp only [List.foldl_cons]
    rw [ih, valuesOf_addValue]
    by_cases h : k = claimName a <;> simp [h]

theorem valuesOf_foldl_addAttr (m : List (String × List String)) (as : List Attr) (k : String) :
    valuesOf (as.foldl addAttr m) k =
      valuesOf m k ++ (as.filter (fun a => claimName a = k)).flatMap (·.values) := by
  induction as generalizing m with
  | nil => simp
  | cons a rest ih =>
    simp only [List.foldl_cons]
    rw [ih, valuesOf_addAttr]
    by_cases h : k = claimName a
    · simp [h, List.filter_cons]
    · have : ¬ (claimName a = k) := fun hh => h hh.symm
      simp [h, this, List.filter_cons]

theorem valuesOf_foldl_addValue (m : List (String × List String)) (k0 : String) (vs : List String) (k : String) :
    valuesOf (vs.foldl (fun m v => addValue m k0 v) m) k = valuesOf m k ++ (if k = k0 then vs else []) := by
  induction vs generalizing m with
  | nil => simp
  | cons v rest ih =>
    simp only [List.foldl_cons]
    rw [ih, valuesOf_addValue]
    by_cases h : k = k0 <;> simp [h]

/-- **Attribute exactness**: under claim name `k` the session exposes exactly the values — in document
    order, repeated attributes appended — of the assertion's attributes whose friendly name (else
    name) is `k`, followed by the session indexes when `k = "SessionIndex"`; nothing else. -/
theorem C16_attrs (a : AssertionA) (k : String) :
    valuesOf (attributesOf a) k =
      (a.statements.flatten.filter (fun x => claimName x = k)).flatMap (·.values) ++
      (if k = "SessionIndex" then a.sessionIndexes else []) := by
  unfold attributesOf
  simp only
  rw [valuesOf_foldl_addValue, valuesOf_foldl_addAttr]
  simp [valuesOf]

/-- the subject exposed is the assertion's NameID, or empty when Subject/NameID is absent -/
theorem C16_subject (c : Codec) (t0 : Int) (a : AssertionA) :
    (newSession c t0 a).sub = a.nameID.getD "" := rfl

/-- **Gate**: the application handler runs only with an authentic session, and an attribute-gated one
    exactly when the named attribute carries the required value. -/
theorem C16_gate (c : Codec) (now : Int) (cookie : Option Token) (gate : Option (String × String)) :
    admits c now cookie gate = true ↔
      ∃ t cl, cookie = some t ∧ decodeSession c now t = .ok cl ∧
        ∀ n v, gate = some (n, v) → v ∈ valuesOf cl.attrs n := by
  unfold admits getSession
  constructor
  · intro h
    cases cookie with
    | none => simp at h
    | some t =>
      cases hd : decodeSession c now t with
      | ok cl =>
        simp only [hd] at h
        refine ⟨t, cl, rfl, hd, ?_⟩
        intro n v hg
        rw [hg] at h
        simpa using h
      | err e => simp [hd] at h
      | panic w => simp [hd] at h
  · rintro ⟨t, cl, rfl, hd, hg⟩
    simp only [hd]
    cases gate with
    | none => rfl
    | some p =>
      obtain ⟨n, v⟩ := p
      simpa using hg n v rfl

theorem C16_no_cookie (c : Codec) (now : Int) (gate : Option (String × String)) :
    admits c now none gate = false := rfl

/-! Non-vacuity -/
def exCodec : Codec := ⟨.rs256, 1, "https://sp/", "https://sp/", 3600⟩
def exAssertion : AssertionA :=
  ⟨some "alice", [[⟨"uid", "urn:oid:0.9", ["alice"]⟩, ⟨"", "groups", ["a", "b"]⟩], [⟨"", "groups", ["c"]⟩]], ["idx"]⟩

example : decodeSession exCodec 1000 (encodeSession exCodec (newSession exCodec 500 exAssertion)) =
    .ok (newSession exCodec 500 exAssertion) := by decide
example : valuesOf (attributesOf exAssertion) "groups" = ["a", "b", "c"] := by decide
example : admits exCodec 1000 (some (encodeSession exCodec (newSession exCodec 500 exAssertion)))
    (some ("groups", "c")) = true := by decide
example : admits exCodec 1000 (some (encodeTracker exCodec 500 ⟨"i", "id", "/"⟩)) none = false := by decide

end SamlVerif.Jwt
