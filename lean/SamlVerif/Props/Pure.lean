/-
  The models' reading of "for all sequences of message creations / validations".

  Every model of a ServiceProvider, IdentityProvider or middleware method is a *function* of the
  configuration value and the message: a sequence of calls is then nothing more than the single call
  repeated, and the per-call theorems (C01 soundness, C12 round trips, C13 signatures, C18 verdicts, …)
  hold for every call of every sequence.  That reading is right for the code only while the
  configuration types carry no hidden state, no method writes through its receiver, and the packages
  keep no mutable package-level state beyond the documented knobs the harness pins (`TimeNow`, `Clock`,
  `RandReader`, `MaxIssueDelay`, `MaxClockSkew`, `StatusSuccess`) and the read-only tables.

  These are obligations at the regenerated facts.  A cache added to `ServiceProvider`, a buffer pool at
  package level, a memoised certificate list — all break one of them, whatever the generators happen
  to reach (the harness's stateful sequences are the search for the failing history).
-/
import SamlVerif.Generated.Facts

namespace SamlVerif.Pure

/-- the configuration types have exported fields only: what a deployment sets is all there is -/
theorem Pure_no_hidden_fields : Facts.configUnexportedFields = [] := by decide

/-- no method of a configuration type assigns through its pointer receiver -/
theorem Pure_no_receiver_writes : Facts.configReceiverWrites = [] := by decide

/-- package-level variables: the documented knobs, compiled templates / regular expressions and the
    xmlenc algorithm tables (written only by `init`-time registration) — and nothing else -/
def expectedPackageState : List String :=
  ["saml.Clock (declared <*ast.StarExpr>)", "saml.MaxClockSkew (expr)", "saml.MaxIssueDelay (expr)",
   "saml.Metadata (literal <*ast.StructType>)", "saml.RandReader (expr)", "saml.StatusSuccess (constant)",
   "saml.TimeNow (func)", "saml.defaultResponseFormTemplate (call template.Must)",
   "saml.durationRegexp (call regexp.MustCompile)", "saml.durationTimeRegexp (call regexp.MustCompile)",
   "saml.xmlWriteSettings (literal etree.WriteSettings)", "samlidp.defaultLoginFormTemplate (call template.Must)",
   "samlidp.sessionMaxAge (expr)", "xmlenc.AES128CBC (literal CBC)", "xmlenc.AES128GCM (literal GCM)",
   "xmlenc.AES192CBC (literal CBC)", "xmlenc.AES256CBC (literal CBC)", "xmlenc.RIPEMD160 (literal digestMethod)",
   "xmlenc.RandReader (expr)", "xmlenc.SHA1 (literal digestMethod)", "xmlenc.SHA256 (literal digestMethod)",
   "xmlenc.SHA512 (literal digestMethod)", "xmlenc.TripleDES (literal CBC)",
   "xmlenc.decrypters (literal <*ast.MapType>)", "xmlenc.digestMethods (literal <*ast.MapType>)",
   "xmlenc.testKey (call <*ast.FuncLit>)"]

theorem Pure_package_state : Facts.packageState = expectedPackageState := by decide

end SamlVerif.Pure
