/-
  Props/TransCBC — the framing of CBC decryption (xmlenc/cbc.go `CBC.Decrypt` from the statement `blockSize := block.BlockSize()`
  to the end; `Generated/TransXmlenc.lean`, `TransX.cbcFraming`): the block size of the cipher that was set up just before and
  crypto/cipher's `NewCBCDecrypter(block, iv)` + `CryptBlocks` are unknowns of the range (`env.blockSize`, `env.cbcDecrypt iv src`);
  `stripPadding` is the translated one.

  crypto/cipher panics when the IV is not one block long or the input is not a whole number of blocks.  `CipherContract` says
  that and nothing more: on an IV of one block and an input of whole blocks the decrypter returns as many bytes as it was given.

  * `cbcFraming_total` (C11): under that contract, with a positive block size, *no* cipher value makes the range panic —
    too short, not block-aligned, empty: each gets an error; this is what the `fix:` commit's two length checks buy;
  * `cbcFraming_sound` (C10 / C11): a plaintext is returned only for a value of at least one block and whole blocks, and it is
    the unpadded decryption of everything after the first block under that block as IV;
  * `cbcFraming_rejects`: shorter than a block, or not a multiple of the block size ⇒ an error, whatever the cipher does.
-/
import SamlVerif.Props.TransPad
open SamlVerif SamlVerif.GoSem
namespace SamlVerif.TransPad

/-- what crypto/cipher guarantees: no panic on a one-block IV and whole blocks of input, and as many bytes out as in -/
def CipherContract (env : TransX.Env) : Prop :=
  0 < env.blockSize ∧
  ∀ iv src : List UInt8, (iv.length : Int) = env.blockSize → (src.length : Int) % env.blockSize = 0 →
    ∃ out, env.cbcDecrypt iv src = .ok out ∧ out.length = src.length

theorem cbcFraming_cases (env : TransX.Env) (e : TransX.CBC) (err0 : GoError) (ct : List UInt8) (hc : CipherContract env) :
    (((ct.length : Int) < env.blockSize ∨ (ct.length : Int) % env.blockSize ≠ 0) ∧ ∃ m, TransX.cbcFraming env e err0 ct = .ok ([], some m)) ∨
    (env.blockSize ≤ (ct.length : Int) ∧ (ct.length : Int) % env.blockSize = 0 ∧
      ∃ out, env.cbcDecrypt (ct.take env.blockSize.toNat) (ct.drop env.blockSize.toNat) = .ok out ∧
        TransX.cbcFraming env e err0 ct =
          (match TransX.stripPadding env out with
           | .ok (p, none) => .ok (p, none)
           | .ok (_, some m) => .ok ([], some m)
           | .err x => .err x
           | .panic x => .panic x)) := by
  obtain ⟨hpos, hcipher⟩ := hc
  unfold TransX.cbcFraming
  simp only [Outcome.ok_bind', Outcome.pure_eq_ok]
  by_cases hshort : (ct.length : Int) < env.blockSize
  · left
    exact ⟨Or.inl hshort, "ciphertext too short", by simp [hshort]⟩
  · have hne : ¬ (env.blockSize = 0) := by omega
    have hmodeq : (ct.length : Int).tmod env.blockSize = (ct.length : Int) % env.blockSize := by
      rw [Int.tmod_eq_emod_of_nonneg (by omega)]
    simp only [hshort, if_false, goMod, hne, Outcome.ok_bind', hmodeq]
    by_cases hal : (ct.length : Int) % env.blockSize = 0
    · right
      refine ⟨by omega, hal, ?_⟩
      have hnotneg : ¬ (env.blockSize < 0 ∨ env.blockSize > (ct.length : Int)) := by omega
      simp only [hal, bne_self_eq_false, Bool.false_eq_true, if_false, sliceTo, sliceFrom, hnotneg, Outcome.ok_bind']
      have hivlen : ((ct.take env.blockSize.toNat).length : Int) = env.blockSize := by
        rw [List.length_take]; omega
      have hsrclen : ((ct.drop env.blockSize.toNat).length : Int) % env.blockSize = 0 := by
        rw [List.length_drop]
        have : ((ct.length - env.blockSize.toNat : Nat) : Int) = (ct.length : Int) - env.blockSize := by omega
        rw [this, Int.sub_emod, hal]; simp
      obtain ⟨out, hout, _⟩ := hcipher _ _ hivlen hsrclen
      refine ⟨out, hout, ?_⟩
      have hmk : ¬ (((ct.drop env.blockSize.toNat).length : Int) < 0) := by omega
      simp only [makeSlice, hmk, if_false, Outcome.ok_bind', hout]
      cases hs : TransX.stripPadding env out with
      | err x => simp [hs]
      | panic x => simp [hs]
      | ok res =>
        obtain ⟨p, pe⟩ := res
        cases pe <;> simp [hs]
    · left
      refine ⟨Or.inr hal, "ciphertext is not a multiple of the block size", ?_⟩
      have : ((ct.length : Int) % env.blockSize != 0) = true := by simpa using hal
      simp [this]

/-- C11: no cipher value makes the CBC framing panic -/
theorem cbcFraming_total (env : TransX.Env) (e : TransX.CBC) (err0 : GoError) (ct : List UInt8) (hc : CipherContract env) :
    ∃ p m, TransX.cbcFraming env e err0 ct = .ok (p, m) := by
  rcases cbcFraming_cases env e err0 ct hc with ⟨_, m, h⟩ | ⟨_, _, out, _, h⟩
  · exact ⟨[], some m, h⟩
  · rw [h]
    rcases Trans_stripPadding_total env out with ⟨m, hs⟩ | ⟨p, hs, _⟩
    · exact ⟨[], some m, by simp [hs]⟩
    · exact ⟨p, none, by simp [hs]⟩

/-- C10 / C11: what a returned plaintext is -/
theorem cbcFraming_sound (env : TransX.Env) (e : TransX.CBC) (err0 : GoError) (ct p : List UInt8) (hc : CipherContract env)
    (h : TransX.cbcFraming env e err0 ct = .ok (p, none)) :
    env.blockSize ≤ (ct.length : Int) ∧ (ct.length : Int) % env.blockSize = 0 ∧
    ∃ out, env.cbcDecrypt (ct.take env.blockSize.toNat) (ct.drop env.blockSize.toNat) = .ok out ∧
      TransX.stripPadding env out = .ok (p, none) := by
  rcases cbcFraming_cases env e err0 ct hc with ⟨_, m, h'⟩ | ⟨h1, h2, out, hout, h'⟩
  · rw [h] at h'; simp at h'
  · refine ⟨h1, h2, out, hout, ?_⟩
    rw [h] at h'
    cases hs : TransX.stripPadding env out with
    | err x => simp [hs] at h'
    | panic x => simp [hs] at h'
    | ok res =>
      obtain ⟨q, qe⟩ := res
      cases qe with
      | some m => simp [hs] at h'
      | none => simp [hs] at h'; rw [h']

/-- truncated and non-block-aligned cipher values are errors, whatever the cipher -/
theorem cbcFraming_rejects (env : TransX.Env) (e : TransX.CBC) (err0 : GoError) (ct : List UInt8) (hc : CipherContract env)
    (hbad : (ct.length : Int) < env.blockSize ∨ (ct.length : Int) % env.blockSize ≠ 0) :
    ∃ m, TransX.cbcFraming env e err0 ct = .ok ([], some m) := by
  rcases cbcFraming_cases env e err0 ct hc with ⟨_, m, h⟩ | ⟨h1, h2, _⟩
  · exact ⟨m, h⟩
  · rcases hbad with hb | hb
    · omega
    · exact absurd h2 hb

/-! the contract is satisfiable (a "cipher" that returns its input), and the checks are needed: without the contract's premises
    crypto/cipher panics, e.g. on a three-byte input for an eight-byte block -/
def exCipherEnv : TransX.Env :=
  { (default : TransX.Env) with blockSize := 8, cbcDecrypt := fun iv src => if iv.length = 8 ∧ src.length % 8 = 0 then .ok src else .panic "crypto/cipher: input not full blocks" }
example : CipherContract exCipherEnv := by
  refine ⟨by decide, ?_⟩
  intro iv src h1 h2
  have a : iv.length = 8 := by
    have : (iv.length : Int) = 8 := by simpa [exCipherEnv] using h1
    omega
  have b : src.length % 8 = 0 := by
    have : (src.length : Int) % 8 = 0 := by simpa [exCipherEnv] using h2
    omega
  exact ⟨src, by simp [exCipherEnv, a, b], rfl⟩
example : TransX.cbcFraming exCipherEnv default none [1, 2, 3] = .ok ([], some "ciphertext too short") := by decide
example : TransX.cbcFraming exCipherEnv default none (List.replicate 8 0 ++ [7, 7, 7, 7, 7, 7, 7, 2]) = .ok ([7, 7, 7, 7, 7, 7], none) := by decide

end SamlVerif.TransPad
