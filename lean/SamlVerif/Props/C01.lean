/-
  C01 — the SP returns an assertion only if a trusted IdP key signed its content.

  Model: `Tree.parseT` (Model/SPTree.lean) — ParseXMLResponse over the parsed document with symbolic
  cryptography (ledger).  What is proved, for every document tree, every ledger, every configuration
  and every struct view:

  * `C01_sound`: a returned assertion is the struct view of an Assertion child of the root (or of the
    decrypted content of an EncryptedAssertion child of the root) such that that element itself, or the
    root Response, passed `validateSignature`;
  * `C01_valid_is_signed`: passing `validateSignature` means: a certificate from the SP's configured
    roots signed (ledger) the canonical SignedInfo of a ds:Signature element inside the element, that
    Signature is the element's only ds:Signature child or precedes it in document order, one of its
    references points at the element, and the digest token of the reference used stands (ledger) for
    the canonical form of the element with that Signature removed;
  * `C01_roots_from_configuration`: the roots are certificates of the IdP metadata with use "signing"
    or none, or the pinned certificate, or the certificate whose fingerprint is configured — never a
    certificate taken from the message alone, never an encryption-use certificate;
  * `C01_no_forgery`: if trusted keys only ever signed references to honest contents `H`, the canonical
    form of what was verified is in `H`.

  Not proved here (trusted base, exercised by the correspondence and the direct oracle): that the
  struct view of an element is a function of its canonical form without the removed Signature
  (encoding/xml and elementToBytes), XML tokenisation, and the cryptographic primitives.
-/
import SamlVerif.Model.SPTree
import SamlVerif.Proofs.SPStruct
import SamlVerif.Proofs.Tree
import SamlVerif.Generated.Facts

namespace SamlVerif.Tree
open SamlVerif

/-! ### trust roots -/

/-- certificates the configuration names as IdP signing certificates -/
def configured (t : Trust) (k : String) : Prop :=
  match t with
  | .metadata kds => ∃ kd ∈ kds, (kd.1 = "" ∨ kd.1 = "signing") ∧ k ∈ kd.2
  | .pinned c => k = c
  | .fingerprint c => k = c
  | .misconfigured => False

theorem C01_roots_from_configuration (t : Trust) (el : Node) (roots : List String) (k : String)
    (h : trustRoots t el = some roots) (hk : k ∈ roots) : configured t k ∧ k ≠ badCert := by
  cases t with
  | metadata kds =>
    simp only [trustRoots, metadataRoots] at h
    split at h
    · simp at h
    · split at h
      · simp at h
      · rename_i hne hbad
        simp only [Option.some.injEq] at h
        subst h
        simp only [List.mem_flatMap, List.mem_filter, decide_eq_true_eq] at hk
        obtain ⟨kd, ⟨hkd, huse⟩, hmem⟩ := hk
        refine ⟨⟨kd, hkd, huse, hmem⟩, ?_⟩
        intro hb
        apply hbad
        simp only [List.any_eq_true, decide_eq_true_eq]
        exact ⟨k, by
          simp only [List.mem_flatMap, List.mem_filter, decide_eq_true_eq]
          exact ⟨kd, ⟨hkd, huse⟩, hmem⟩, hb⟩
  | pinned c =>
    simp only [trustRoots] at h
    split at h
    · simp at h
    · rename_i hc
      simp only [Option.some.injEq] at h
      subst h
      simp only [List.mem_singleton] at hk
      subst hk
      exact ⟨rfl, hc⟩
  | fingerprint c =>
    simp only [trustRoots, fingerprintRoots] at h
    split at h
    · simp at h
    · split at h
      · split at h
        · rename_i hs
          simp only [Option.some.injEq] at h
          subst h
          simp only [List.mem_singleton] at hk
          subst hk
          exact ⟨hs.2, hs.1⟩
        · simp at h
      · simp at h
  | misconfigured => simp [trustRoots] at h

/-- an encryption-use certificate is never a root on its own account -/
theorem C01_encryption_use_not_trusted (kds : List (String × List String)) (el : Node) (roots : List String)
    (k : String) (h : trustRoots (.metadata kds) el = some roots) (hk : k ∈ roots) :
    ∃ kd ∈ kds, kd.1 ≠ "encryption" ∧ k ∈ kd.2 := by
  obtain ⟨⟨kd, hkd, huse, hmem⟩, _⟩ := C01_roots_from_configuration _ _ _ _ h hk
  refine ⟨kd, hkd, ?_, hmem⟩
  rcases huse with h | h <;> simp [h]

/-! ### what "valid" establishes -/

theorem chooseCert_mem (roots : List String) (v : SigView) (k : String) (h : chooseCert roots v = some k) :
    k ∈ roots := by
  unfold chooseCert at h
  simp only at h
  split at h
  · split at h
    · rename_i hc; simp only [Option.some.injEq] at h; subst h; simpa using hc
    · simp at h
  · simp at h

theorem pickRef_mem (idAttr : String) (refs : List RefView) (r : RefView) (h : pickRef idAttr refs = some r) :
    r ∈ refs ∧ ∃ r' ∈ refs, refMatches idAttr r' = true := by
  unfold pickRef at h
  split at h
  · rename_i hany
    refine ⟨List.mem_of_getLast? h, ?_⟩
    simpa using hany
  · simp at h

theorem checkPicked_sound (inp : Input) (roots : List String) (ctx : NSCtx) (el : Node) (nid : Nat) (v : SigView)
    (c : NSCtx) (ev : Evidence) (h : checkPicked inp roots ctx el nid v c = some ev) :
    ev.cert ∈ roots ∧
    (ev.sigTok, ev.cert, ev.siCanon) ∈ inp.ledger.sigs ∧
    (ev.ref.digestTok, ev.content) ∈ inp.ledger.digests ∧
    canonNode ctx (removeNid ev.sigNid el) = some ev.content ∧
    ev.ref ∈ ev.view.refs ∧
    (∃ r ∈ ev.view.refs, refMatches ((el.selectAttr "ID").getD "") r = true) ∧
    ev.ref.transforms = [envelopedAlg, excC14n] ∧
    (∃ sigEl ∈ elems el, sigEl.nid = ev.sigNid) := by
  unfold checkPicked at h
  split at h
  · simp at h
  · rename_i cert hcert
    split at h
    · simp at h
    · rename_i ref href
      split at h
      · rename_i ht hc
        split at h
        · rename_i content st hcanon hst
          split at h
          · simp at h
          · rename_i sigEl hsig
            split at h
            · simp at h
            · rename_i si hsi
              split at h
              · rename_i hd hs
                simp only [Option.some.injEq] at h
                subst h
                obtain ⟨hr1, hr2⟩ := pickRef_mem _ _ _ href
                refine ⟨chooseCert_mem _ _ _ hcert, by simpa using hs, by simpa using hd, hcanon, hr1, hr2, by simpa using ht, ?_⟩
                have hm := List.mem_of_find?_eq_some hsig
                have hp := List.find?_some hsig
                exact ⟨sigEl, hm, by simpa using hp⟩
              · simp at h
        · simp at h
      · simp at h

/-- **what goxmldsig establishes**: a root certificate signed the canonical SignedInfo of the chosen
    Signature; the reference used carries a digest token that stands for the canonical form of the
    element without that Signature; some reference of that SignedInfo points at the element. -/
theorem dsigValidate_sound (inp : Input) (roots : List String) (ctx : NSCtx) (el : Node) (stripped : Option Nat)
    (ev : Evidence) (h : dsigValidate inp roots ctx el stripped = some ev) :
    ev.cert ∈ roots ∧
    (ev.sigTok, ev.cert, ev.siCanon) ∈ inp.ledger.sigs ∧
    (ev.ref.digestTok, ev.content) ∈ inp.ledger.digests ∧
    canonNode ctx (removeNid ev.sigNid el) = some ev.content ∧
    ev.ref ∈ ev.view.refs ∧
    (∃ r ∈ ev.view.refs, refMatches ((el.selectAttr "ID").getD "") r = true) ∧
    ev.ref.transforms = [envelopedAlg, excC14n] ∧
    (∃ sigEl ∈ elems el, sigEl.nid = ev.sigNid) := by
  unfold dsigValidate at h
  split at h
  · exact checkPicked_sound _ _ _ _ _ _ _ _ h
  · simp at h

/-- the element has exactly one ds:Signature child (service_provider.go's own requirement) -/
def HasUniqueDirectSignature (ctx : NSCtx) (el : Node) : Prop :=
  ∃ cin s, subContext ctx el.attrs = some cin ∧ findChildren cin dsigNS "Signature" el.children = some [s]

/-- **C01 (valid is signed)** -/
theorem C01_valid_is_signed (inp : Input) (ctx : NSCtx) (el : Node) (h : sigStateT inp ctx el = .valid) :
    HasUniqueDirectSignature ctx el ∧
    ∃ roots ev, trustRoots inp.trust el = some roots ∧
      dsigValidate inp roots ctx (stripKeyInfo el).1 (stripKeyInfo el).2 = some ev := by
  unfold sigStateT at h
  split at h
  · simp at h
  · rename_i cin hcin
    split at h
    · simp at h
    · simp at h
    · rename_i s hfc
      split at h
      · simp at h
      · rename_i roots hroots
        simp only at h
        split at h
        · rename_i ev hev
          exact ⟨⟨cin, s, hcin, hfc⟩, roots, ev, hroots, hev⟩
        · simp at h
    · simp at h

/-- "a trusted key signed a commitment to this content" -/
def SignedByTrusted (inp : Input) (el : Node) (content : String) : Prop :=
  ∃ k st si d, configured inp.trust k ∧ (st, k, si) ∈ inp.ledger.sigs ∧ (d, content) ∈ inp.ledger.digests

theorem C01_valid_content_signed (inp : Input) (ctx : NSCtx) (el : Node) (h : sigStateT inp ctx el = .valid) :
    ∃ ev : Evidence,
      configured inp.trust ev.cert ∧
      (ev.sigTok, ev.cert, ev.siCanon) ∈ inp.ledger.sigs ∧
      (ev.ref.digestTok, ev.content) ∈ inp.ledger.digests ∧
      ev.ref ∈ ev.view.refs ∧
      canonNode ctx (removeNid ev.sigNid (stripKeyInfo el).1) = some ev.content := by
  obtain ⟨_, roots, ev, hroots, hev⟩ := C01_valid_is_signed inp ctx el h
  obtain ⟨h1, h2, h3, h4, h5, _, _, _⟩ := dsigValidate_sound _ _ _ _ _ _ hev
  exact ⟨ev, (C01_roots_from_configuration _ _ _ _ hroots h1).1, h2, h3, h5, h4⟩

/-! ### soundness of the parse -/

/-- the assertion-bearing children of the root as the parse sees them -/
def entriesOf (inp : Input) (cin : NSCtx) (encs plains : List Node) : List SP.Entry :=
  encs.map (encEntry inp) ++ plains.map (plainEntry inp cin)

theorem findChildren_sub (ctx : NSCtx) (ns tag : String) (l out : List Node)
    (h : findChildren ctx ns tag l = some out) : ∀ x ∈ out, x ∈ l ∧ x.isElem = true ∧ x.tag = tag := by
  induction l generalizing out with
  | nil => simp [findChildren] at h; subst h; simp
  | cons c rest ih =>
    unfold findChildren at h
    split at h
    · rename_i hc
      split at h
      · simp at h
      · rename_i cctx cns hres
        split at h
        · simp at h
        · rename_i l' hl'
          simp only [Option.some.injEq] at h
          subst h
          intro x hx
          split at hx
          · simp only [List.mem_cons] at hx
            rcases hx with rfl | hx
            · exact ⟨by simp, hc.1, hc.2⟩
            · have := ih l' hl' x hx; exact ⟨by simp [this.1], this.2⟩
          · have := ih l' hl' x hx; exact ⟨by simp [this.1], this.2⟩
    · intro x hx
      have := ih out h x hx
      exact ⟨by simp [this.1], this.2⟩

theorem entriesT_some (inp : Input) (ctx : NSCtx) (resp : Node) (es : List SP.Entry)
    (h : entriesT inp ctx resp = some es) :
    ∃ cin encs plains, subContext ctx resp.attrs = some cin ∧
      findChildren cin samlNS "EncryptedAssertion" resp.children = some encs ∧
      findChildren cin samlNS "Assertion" resp.children = some plains ∧
      es = encs.map (encEntry inp) ++ plains.map (plainEntry inp cin) := by
  unfold entriesT at h
  split at h
  · simp at h
  · rename_i cin hcin
    split at h
    · rename_i encs plains he hp
      simp only [Option.some.injEq] at h
      exact ⟨cin, encs, plains, hcin, he, hp, h.symm⟩
    · simp at h

/-- where a returned assertion can come from, relative to the Response element `resp` -/
def FromResponse (inp : Input) (ctx : NSCtx) (resp : Node) (a : SP.AssertionS) (outerValid : Prop) : Prop :=
  ∃ cin, subContext ctx resp.attrs = some cin ∧
    ((∃ el ∈ resp.children, el.tag = "Assertion" ∧ inp.aview el.nid = some a ∧
        (sigStateT inp cin el = .valid ∨ outerValid)) ∨
     (∃ enc ∈ resp.children, enc.tag = "EncryptedAssertion" ∧ ∃ p, inp.plain enc.nid = some p ∧
        inp.aview p.nid = some a ∧ (sigStateT inp defaultCtx p = .valid ∨ outerValid)))

/-- the struct-level validator over the entries of a Response element: an accepted assertion is the
    view of an assertion child (or decrypted child), signed itself unless the requirement was lifted -/
theorem response_sound (inp : Input) (ctx : NSCtx) (resp : Node) (es : List SP.Entry) (hdr : SP.ResponseS)
    (need : SP.Need) (respSig : SP.SigState) (a : SP.AssertionS)
    (hes : entriesT inp ctx resp = some es)
    (h : SP.parseResponse inp.cfg inp.now inp.ids inp.url need respSig { hdr with entries := es } = .ok a) :
    FromResponse inp ctx resp a (SP.needAfter need respSig = .notRequired) := by
  obtain ⟨cin, encs, plains, hcin, henc, hpl, rfl⟩ := entriesT_some inp ctx resp es hes
  refine ⟨cin, hcin, ?_⟩
  rw [SP.accept_iff] at h
  obtain ⟨_, pre, e, post, hl, hg, ha, _⟩ := h
  have hmem : e ∈ encs.map (encEntry inp) ++ plains.map (plainEntry inp cin) := by
    have : e ∈ SP.ordered (encs.map (encEntry inp) ++ plains.map (plainEntry inp cin)) := by
      rw [hl]; simp
    unfold SP.ordered at this
    simp only [List.mem_append, List.mem_filter] at this
    rcases this with h | h <;> simpa using h.1
  have hsig : e.sig = .valid ∨ SP.needAfter need respSig = .notRequired := by
    cases hn : SP.needAfter need respSig with
    | notRequired => exact Or.inr rfl
    | required => exact Or.inl (hg.signed hn)
  simp only [List.mem_append, List.mem_map] at hmem
  rcases hmem with ⟨enc, henc', rfl⟩ | ⟨el, hel, rfl⟩
  · right
    obtain ⟨hm, _, ht⟩ := findChildren_sub _ _ _ _ _ henc enc henc'
    refine ⟨enc, hm, ht, ?_⟩
    cases hp : inp.plain enc.nid with
    | none => have := hg.decrypts; simp [encEntry, hp] at this
    | some p =>
      cases hav : inp.aview p.nid with
      | none => have := hg.decrypts; simp [encEntry, hp, hav] at this
      | some a' =>
        simp only [encEntry, hp, hav] at ha hsig
        exact ⟨p, rfl, by rw [← ha]; exact hav, hsig⟩
  · left
    obtain ⟨hm, _, ht⟩ := findChildren_sub _ _ _ _ _ hpl el hel
    refine ⟨el, hm, ht, ?_⟩
    cases hav : inp.aview el.nid with
    | none => have := hg.decrypts; simp [plainEntry, hav] at this
    | some a' =>
      simp only [plainEntry, hav] at ha hsig
      exact ⟨by rw [← ha], hsig⟩

theorem needAfter_required_iff (s : SP.SigState) : SP.needAfter .required s = .notRequired ↔ s = .valid := by
  unfold SP.needAfter
  cases s <;> simp

/-- **C01 (soundness)**: if the SP returns `a`, then `a` is the struct view of an element `E` that is
    a `saml:Assertion` child of the root or the decrypted content of a `saml:EncryptedAssertion` child of
    the root, and `validateSignature` passed on `E` itself or on the root. -/
theorem C01_sound (inp : Input) (a : SP.AssertionS) (h : parseT inp = .ok a) :
    inp.wellFormed = true ∧
    ∃ cin, subContext defaultCtx inp.root.attrs = some cin ∧
    ((∃ el ∈ inp.root.children, el.tag = "Assertion" ∧ inp.aview el.nid = some a ∧
        (sigStateT inp cin el = .valid ∨ sigStateT inp defaultCtx inp.root = .valid)) ∨
     (∃ enc ∈ inp.root.children, enc.tag = "EncryptedAssertion" ∧ ∃ p, inp.plain enc.nid = some p ∧
        inp.aview p.nid = some a ∧
        (sigStateT inp defaultCtx p = .valid ∨ sigStateT inp defaultCtx inp.root = .valid))) := by
  unfold parseT at h
  split at h
  · simp at h
  · rename_i hwf
    split at h
    · simp at h
    · simp only at h
      split at h
      · simp at h
      · rename_i hdr hhdr
        split at h
        · rename_i es hes
          obtain ⟨cin, hcin, hcase⟩ := response_sound inp defaultCtx inp.root es hdr .required _ a hes h
          refine ⟨by simpa using hwf, cin, hcin, ?_⟩
          simp only [needAfter_required_iff] at hcase
          exact hcase
        · simp at h

/-- **C01 (soundness, artifact binding)**: an assertion returned by `ParseXMLArtifactResponse` is the
    view of an assertion child (or decrypted child) of the one `samlp:Response` child of the one
    `samlp:ArtifactResponse` in the one SOAP `Body`, and `validateSignature` passed on the assertion, on
    that Response, or on that ArtifactResponse. -/
theorem C01_sound_artifact (inp : Input) (resolveId : String) (a : SP.AssertionS)
    (h : parseArtifactT inp resolveId = .ok a) :
    ∃ cRoot body cBody art cArt resp,
      subContext defaultCtx inp.root.attrs = some cRoot ∧
      findChildren cRoot soapNS "Body" inp.root.children = some [body] ∧
      subContext cRoot body.attrs = some cBody ∧
      findChildren cBody samlpNS "ArtifactResponse" body.children = some [art] ∧
      subContext cBody art.attrs = some cArt ∧
      findChildren cArt samlpNS "Response" art.children = some [resp] ∧
      FromResponse inp cArt resp a (sigStateT inp cArt resp = .valid ∨ sigStateT inp cBody art = .valid) := by
  unfold parseArtifactT at h
  split at h
  · simp at h
  · split at h
    · simp at h
    · split at h
      · simp at h
      · split at h
        · simp at h
        · rename_i cRoot hcRoot
          split at h
          · simp at h
          · rename_i body hbody
            split at h
            · simp at h
            · rename_i cBody hcBody
              split at h
              · simp at h
              · rename_i art hart
                split at h
                · simp at h
                · rename_i irt ii iss st harv
                  simp only at h
                  rw [SP.artifact_accept_iff] at h
                  obtain ⟨_, _, _, _, _, rs, r, hresp, hparse⟩ := h
                  -- unpack the Response lookup
                  split at hresp
                  · simp at hresp
                  · rename_i cArt hcArt
                    split at hresp
                    · simp at hresp
                    · rename_i resp hone
                      split at hresp
                      · rename_i hdr es hrv hes
                        simp only [Option.some.injEq, Prod.mk.injEq] at hresp
                        obtain ⟨hrs, hr⟩ := hresp
                        subst hrs; subst hr
                        have hb : findChildren cRoot soapNS "Body" inp.root.children = some [body] := by
                          unfold exactlyOne at hbody; split at hbody <;> simp_all
                        have ha' : findChildren cBody samlpNS "ArtifactResponse" body.children = some [art] := by
                          unfold exactlyOne at hart; split at hart <;> simp_all
                        have hr' : findChildren cArt samlpNS "Response" art.children = some [resp] := by
                          unfold exactlyOne at hone; split at hone <;> simp_all
                        refine ⟨cRoot, body, cBody, art, cArt, resp, hcRoot, hb, hcBody, ha', hcArt, hr', ?_⟩
                        obtain ⟨cin, hcin, hcase⟩ := response_sound inp cArt resp es hdr _ _ a hes hparse
                        refine ⟨cin, hcin, ?_⟩
                        have hlift : SP.needAfter (if sigStateT inp cBody art = .valid then .notRequired else .required)
                            (sigStateT inp cArt resp) = .notRequired →
                            (sigStateT inp cArt resp = .valid ∨ sigStateT inp cBody art = .valid) := by
                          intro hn
                          by_cases hv : sigStateT inp cBody art = .valid
                          · exact Or.inr hv
                          · simp only [hv, if_false] at hn
                            exact Or.inl ((needAfter_required_iff _).mp hn)
                        rcases hcase with ⟨el, hm, ht, hav, hs | hs⟩ | ⟨enc, hm, ht, p, hp, hav, hs | hs⟩
                        · exact Or.inl ⟨el, hm, ht, hav, Or.inl hs⟩
                        · exact Or.inl ⟨el, hm, ht, hav, Or.inr (hlift hs)⟩
                        · exact Or.inr ⟨enc, hm, ht, p, hp, hav, Or.inl hs⟩
                        · exact Or.inr ⟨enc, hm, ht, p, hp, hav, Or.inr (hlift hs)⟩
                      · simp at hresp

/-! ### no forgery -/

/-- the ledger is honest for this configuration: whenever a configured certificate's key signed a
    SignedInfo and a digest token stands for some content, and that SignedInfo refers to that token
    (the view of the Signature is what the SignedInfo says), the content is one of the honest ones.
    This is unforgeability of the signature scheme plus collision resistance of the digest, stated on
    the symbolic ledger. -/
def HonestLedger (inp : Input) (H : String → Prop) : Prop :=
  ∀ ev : Evidence, configured inp.trust ev.cert → (ev.sigTok, ev.cert, ev.siCanon) ∈ inp.ledger.sigs →
    (ev.ref.digestTok, ev.content) ∈ inp.ledger.digests → ev.ref ∈ ev.view.refs → H ev.content

/-- **C01 (no forgery)**: whatever passes `validateSignature` is, in canonical form and without the
    Signature that vouches for it, one of the honest contents. -/
theorem C01_verified_is_honest (inp : Input) (H : String → Prop) (hh : HonestLedger inp H) (ctx : NSCtx) (el : Node)
    (h : sigStateT inp ctx el = .valid) :
    ∃ nid content, canonNode ctx (removeNid nid (stripKeyInfo el).1) = some content ∧ H content := by
  obtain ⟨ev, h1, h2, h3, h4, h5⟩ := C01_valid_content_signed inp ctx el h
  exact ⟨ev.sigNid, ev.content, h5, hh ev h1 h2 h3 h4⟩

/-- **C01**: a returned assertion is the view of an element that is honest content itself, or a child
    (or decrypted child) of a root that is honest content. -/
theorem C01_no_forgery (inp : Input) (H : String → Prop) (hh : HonestLedger inp H) (a : SP.AssertionS)
    (h : parseT inp = .ok a) :
    ∃ cin V ctxV, subContext defaultCtx inp.root.attrs = some cin ∧
      (∃ nid content, canonNode ctxV (removeNid nid (stripKeyInfo V).1) = some content ∧ H content) ∧
      ((inp.aview V.nid = some a ∧ (V ∈ inp.root.children ∨ ∃ enc ∈ inp.root.children, inp.plain enc.nid = some V)) ∨
       (V = inp.root ∧ ((∃ el ∈ inp.root.children, el.tag = "Assertion" ∧ inp.aview el.nid = some a) ∨
                        (∃ enc ∈ inp.root.children, enc.tag = "EncryptedAssertion" ∧ ∃ p, inp.plain enc.nid = some p ∧ inp.aview p.nid = some a)))) := by
  obtain ⟨_, cin, hcin, hcase⟩ := C01_sound inp a h
  rcases hcase with ⟨el, hm, ht, hav, hs | hs⟩ | ⟨enc, hm, ht, p, hp, hav, hs | hs⟩
  · exact ⟨cin, el, cin, hcin, C01_verified_is_honest inp H hh cin el hs, Or.inl ⟨hav, Or.inl hm⟩⟩
  · exact ⟨cin, inp.root, defaultCtx, hcin, C01_verified_is_honest inp H hh _ _ hs, Or.inr ⟨rfl, Or.inl ⟨el, hm, ht, hav⟩⟩⟩
  · exact ⟨cin, p, defaultCtx, hcin, C01_verified_is_honest inp H hh _ _ hs, Or.inl ⟨hav, Or.inr ⟨enc, hm, hp⟩⟩⟩
  · exact ⟨cin, inp.root, defaultCtx, hcin, C01_verified_is_honest inp H hh _ _ hs, Or.inr ⟨rfl, Or.inr ⟨enc, hm, ht, p, hp, hav⟩⟩⟩

/-! ### structural facts the attacks of the property text run into -/

/-- an unsigned or badly signed Response never lends its authority: with no valid Response signature
    every accepted assertion carries its own -/
theorem C01_unsigned_response_needs_signed_assertion (inp : Input) (a : SP.AssertionS) (h : parseT inp = .ok a)
    (hr : sigStateT inp defaultCtx inp.root ≠ .valid) :
    ∃ cin, subContext defaultCtx inp.root.attrs = some cin ∧
      ((∃ el ∈ inp.root.children, inp.aview el.nid = some a ∧ sigStateT inp cin el = .valid) ∨
       (∃ enc ∈ inp.root.children, ∃ p, inp.plain enc.nid = some p ∧ inp.aview p.nid = some a ∧
          sigStateT inp defaultCtx p = .valid)) := by
  obtain ⟨_, cin, hcin, hcase⟩ := C01_sound inp a h
  refine ⟨cin, hcin, ?_⟩
  rcases hcase with ⟨el, hm, _, hav, hs | hs⟩ | ⟨enc, hm, _, p, hp, hav, hs | hs⟩
  · exact Or.inl ⟨el, hm, hav, hs⟩
  · exact absurd hs hr
  · exact Or.inr ⟨enc, hm, p, hp, hav, hs⟩
  · exact absurd hs hr

/-- two ds:Signature children, or none, are never "valid" -/
theorem C01_signature_child_unique (inp : Input) (ctx cin : NSCtx) (el : Node) (l : List Node)
    (hc : subContext ctx el.attrs = some cin) (hf : findChildren cin dsigNS "Signature" el.children = some l)
    (hl : l.length ≠ 1) : sigStateT inp ctx el ≠ .valid := by
  unfold sigStateT
  rw [hc]
  simp only [hf]
  match l, hl with
  | [], _ => simp
  | [_], hl => simp at hl
  | _ :: _ :: _, _ => simp

/-- a look-alike in a foreign namespace is not a signature: only children resolving to the dsig
    namespace count -/
theorem C01_foreign_signature_ignored (ctx : NSCtx) (c : Node) (rest out : List Node) (cctx : NSCtx) (cns : String)
    (he : c.isElem = true) (ht : c.tag = "Signature") (hr : resolveElem ctx c = some (cctx, cns)) (hns : cns ≠ dsigNS)
    (hrest : findChildren ctx dsigNS "Signature" rest = some out) :
    findChildren ctx dsigNS "Signature" (c :: rest) = some out := by
  unfold findChildren
  simp [he, ht, hr, hrest, hns]

/-! ### what can be edited without the key

The canonical form — and with it every digest — is blind to comments and to how character data is
divided.  An attacker may therefore insert comments into signed content at will; the signature stays
valid (`C01_comment_free`, `C01_text_split_free`).  Soundness of the whole then rests on the reader
extracting the same values from the edited tree: encoding/xml concatenates character data across
comments (tested by the `comment-in-nameid` operation and the forgery oracle; not proved). -/

theorem C01_comment_free (ctx : NSCtx) (pending : String) (pre post : List Node) (s : String) :
    canonList ctx pending (pre ++ .other "comment" s :: post) = canonList ctx pending (pre ++ post) :=
  canon_comment_insensitive ctx pending pre post s

theorem C01_text_split_free (ctx : NSCtx) (pending : String) (pre post : List Node) (a b : String) :
    canonList ctx pending (pre ++ .text false (a ++ b) :: post) =
      canonList ctx pending (pre ++ .text false a :: .text false b :: post) :=
  canon_text_split ctx pending pre post a b

/-! ### KeyInfo removal does not touch what the digest covers (when the vouching Signature is the stripped one) -/

theorem removeNidList_strip (nid : Nat) (cs : List Node)
    (h : ∀ c ∈ cs, c.isElem = true → c.tag = "Signature" → c.nid = nid) :
    removeNidList nid (stripInFirstSignature cs) = removeNidList nid cs := by
  induction cs with
  | nil => simp [stripInFirstSignature]
  | cons c rest ih =>
    cases c with
    | elem n s t a ccs =>
      unfold stripInFirstSignature
      by_cases ht : t = "Signature"
      · have hn : n = nid := h (.elem n s t a ccs) (by simp) rfl ht
        subst hn
        simp only [ht, if_true]
        simp [removeNidList, Node.isElem, Node.nid]
      · simp only [ht, if_false]
        have := ih (fun c hc => h c (by simp [hc]))
        simp only [removeNidList, this]
    | text c s =>
      unfold stripInFirstSignature
      have := ih (fun c hc => h c (by simp [hc]))
      simp only [removeNidList, this]
    | other k s =>
      unfold stripInFirstSignature
      have := ih (fun c hc => h c (by simp [hc]))
      simp only [removeNidList, this]

/-- when every Signature-named child of `el` is the Signature `nid` (the usual case: one Signature child),
    what the digest is computed over is `el` without that Signature, KeyInfo removal or not -/
theorem removeNid_stripKeyInfo (nid : Nat) (el : Node)
    (h : ∀ c ∈ el.children, c.isElem = true → c.tag = "Signature" → c.nid = nid) :
    removeNid nid (stripKeyInfo el).1 = removeNid nid el := by
  unfold stripKeyInfo
  split
  · cases el with
    | elem n s t a cs =>
      simp only [removeNid]
      rw [removeNidList_strip nid cs h]
    | text c s => rfl
    | other k s => rfl
  · rfl

/-! ### obligations on the current source (regenerated facts): the structure the model assumes -/

/-- only descriptors with use "" or "signing" feed the signing roots (`metadataRoots`) -/
theorem C01_signing_uses : Facts.signingCertUses = ["", "signing"] := by decide

/-- `findChildren` skips on the tag, fails on an unresolvable prefix, skips on the namespace — and
    nothing else (in particular it does not match on the local name alone) -/
theorem C01_find_children_shape : Facts.findChildrenConds =
    ["childEl.Tag != childTag", "err != nil", "err != nil", "err != nil", "ns != childNS"] := by decide

/-- the element whose signature is validated is the element that is unmarshalled -/
theorem C01_same_element : Facts.parseAssertionCalls =
    ["sp.validateSignature(assertionEl)", "unmarshalElement(assertionEl)", "sp.validateAssertion(&assertion)"] := by decide

/-- the Response verdict: valid lifts the requirement, absent keeps it, anything else rejects -/
theorem C01_response_verdict : Facts.responseSignatureSwitch =
    ["nil => signatureRequirement = signatureNotRequired",
     "errSignatureElementNotPresent => signatureRequirement = signatureRequired",
     "<default> => return nil, responseSignatureErr"] := by decide

/-- the Signature is looked up as a ds:Signature *child*, and goxmldsig is handed the detached element -/
theorem C01_signature_lookup : Facts.validateSignatureCalls =
    ["findChild(el, \"http://www.w3.org/2000/09/xmldsig#\", \"Signature\")", "etreeutils.NSDetatch(ctx, el)",
     "validationContext.Validate(el)"] := by decide

/-- every entry point that parses bytes, and the decrypted plaintext, goes through the round-trip validator -/
theorem C01_round_trip_validation :
    ["ParseXMLArtifactResponse", "ParseXMLResponse", "decryptElement"].all (Facts.xrvCallSites.contains ·) = true := by decide

theorem C01_extraction_clean : Facts.extractionFailures = [] := by decide

/-! ### non-vacuity: a signed assertion in an unsigned Response is accepted; its unsigned twin is not -/

def exSI : Node := .elem 12 "ds" "SignedInfo" []
  [.elem 13 "ds" "CanonicalizationMethod" [⟨"", "Algorithm", excC14n⟩] [],
   .elem 14 "ds" "Reference" [⟨"", "URI", "#a1"⟩] [.elem 15 "ds" "DigestValue" [] [.text false "D1"]]]

def exSig : Node := .elem 11 "ds" "Signature" [⟨"xmlns", "ds", dsigNS⟩]
  [exSI, .elem 16 "ds" "SignatureValue" [] [.text false "S1"]]

def exBody : List Node := [.elem 20 "saml" "Issuer" [] [.text false "idp"], .elem 21 "saml" "Subject" [] [.text false "alice"]]

def exAssertion : Node := .elem 10 "saml" "Assertion" [⟨"xmlns", "saml", samlNS⟩, ⟨"", "ID", "a1"⟩] (exSig :: exBody)
def exUnsigned : Node := .elem 30 "saml" "Assertion" [⟨"xmlns", "saml", samlNS⟩, ⟨"", "ID", "a2"⟩] exBody

def exRoot (a : Node) : Node := .elem 1 "samlp" "Response" [⟨"xmlns", "samlp", "urn:oasis:names:tc:SAML:2.0:protocol"⟩] [a]

def exView : SP.AssertionS := ⟨0, "idp", some [⟨some ⟨"r1", "https://sp/acs", 100⟩⟩], some ⟨0, 100, []⟩, "alice"⟩

def exCfg : SP.Cfg :=
  { idpEntityID := "idp", acsURL := "https://sp/acs", entityID := "sp", metadataURL := "", allowIdP := false,
    reqIdValidator := none, audValidator := none, delay := 90, skew := 0, statusSuccess := "ok" }

def exInput (a : Node) : Input :=
  { cfg := exCfg, trust := .metadata [("signing", ["K1"])],
    ledger := ⟨[("S1", "K1", (canonNode [("ds", dsigNS), ("saml", samlNS)] exSI).getD "")],
               [("D1", (canonNode defaultCtx (removeNid 11 exAssertion)).getD "")]⟩,
    now := 10, ids := ["r1"], url := "https://sp/acs", wellFormed := true, root := exRoot a,
    header := some ⟨"https://sp/acs", "r1", 5, some "idp", "ok", []⟩,
    aview := fun n => if n = 10 ∨ n = 30 then some exView else none,
    sview := fun n => if n = 11 then some ⟨excC14n, [⟨"#a1", [envelopedAlg, excC14n], "D1"⟩], some "S1", none⟩ else none,
    plain := fun _ => none }

example : (parseT (exInput exAssertion)).isOk = true := by decide +kernel
example : (parseT (exInput exUnsigned)).isOk = false := by decide +kernel

end SamlVerif.Tree
