/-
  C15 — Durations, instants and metadata round-trip through their XML text forms.

  "Every Duration marshals to xsd:duration text that unmarshals to the identical duration; every
   instant marshals to xsd:dateTime text that unmarshals to the same instant rounded to the
   millisecond in UTC; and unmarshalling accepts the documented lexical forms (RFC 3339 with or
   without zone or fraction) and rejects others with an error. …"
-/
import SamlVerif.Proofs.Duration
import SamlVerif.Proofs.Time
import SamlVerif.Model.Metadata

namespace SamlVerif.Duration

theorem marshal_eq (d : Int) (hd : d ≠ 0) :
    marshal d = (if d < 0 then ['-'] else []) ++
      ('P' :: 'T' :: timeText (d.natAbs / hourNs) (d.natAbs % hourNs / minNs)
        (d.natAbs % minNs / secNs) (d.natAbs % secNs)) := by
  unfold marshal timeText hourText minText secText
  rw [if_neg hd]
  simp only [List.append_assoc, List.cons_append, List.nil_append]

theorem parse_PT (neg : Bool) (h m s ns : Nat) (hh : (h : Int) < two63) (hm : m < 60) (hs : s < 60)
    (hns : ns < 1000000000) (hpos : h > 0 ∨ m > 0 ∨ s > 0 ∨ ns > 0) :
    parse ((if neg then ['-'] else []) ++ ('P' :: 'T' :: timeText h m s ns)) =
      .ok (wrap64 (if neg then -((h * hourNs + m * minNs + (s * secNs + ns) : Nat) : Int)
                   else ((h * hourNs + m * minNs + (s * secNs + ns) : Nat) : Int))) := by
  have hne := timeText_ne_nil h m s ns hpos
  have hnl := timeText_no_nl h m s ns
  have hpt := parseTime_timeText h m s ns hh hm hs hns hne
  have hc : (timeText h m s ns).contains '\n' = false := by
    simpa using hnl
  have htp : tPart ('T' :: timeText h m s ns) = (some (timeText h m s ns), true) := by
    unfold tPart
    simp [hne, hnl]
  have body : ∀ b : Bool, parseP b ('T' :: timeText h m s ns) =
      .ok (wrap64 (if b then -((h * hourNs + m * minNs + (s * secNs + ns) : Nat) : Int)
                   else ((h * hourNs + m * minNs + (s * secNs + ns) : Nat) : Int))) := by
    intro b
    unfold parseP
    simp only [optField_nondigit 'Y' 'T' (by decide), optField_nondigit 'M' 'T' (by decide),
      optField_nondigit 'D' 'T' (by decide), htp]
    simp only [field_none, timeField, hpt, Outcome.bind_ok]
    simp
  cases neg
  · exact body false
  · exact body true

theorem wrap64_id (x : Int) (h1 : -two63 ≤ x) (h2 : x < two63) : wrap64 x = x := by
  unfold wrap64 two64
  unfold two63 at *
  omega

/-- **C15 (durations)**: every int64 nanosecond duration — zero, negative, sub-second, the extremes
    `MinInt64`/`MaxInt64` included — marshals to text that unmarshals to the identical duration. -/
theorem C15_duration_roundtrip (d : Int) (h1 : -two63 ≤ d) (h2 : d < two63) :
    roundTrip d = .ok d := by
  unfold roundTrip
  by_cases hd : d = 0
  · simp [hd]
  · rw [if_neg hd, marshal_eq d hd]
    have hu : (d.natAbs : Int) ≤ two63 := by unfold two63 at *; omega
    have key := parse_PT (decide (d < 0)) (d.natAbs / hourNs) (d.natAbs % hourNs / minNs)
      (d.natAbs % minNs / secNs) (d.natAbs % secNs)
      (by unfold two63 hourNs minNs secNs at *; omega)
      (by unfold hourNs minNs secNs; omega) (by unfold minNs secNs; omega)
      (by unfold secNs; omega)
      (by unfold hourNs minNs secNs; omega)
    have hsum : d.natAbs / hourNs * hourNs + d.natAbs % hourNs / minNs * minNs +
        (d.natAbs % minNs / secNs * secNs + d.natAbs % secNs) = d.natAbs := by
      unfold hourNs minNs secNs; omega
    rw [hsum] at key
    by_cases hneg : d < 0
    · simp only [hneg, decide_true, if_true] at key ⊢
      rw [key]
      have : -(d.natAbs : Int) = d := by omega
      rw [this, wrap64_id d h1 h2]
    · simp only [hneg, decide_false, Bool.false_eq_true, if_false] at key ⊢
      rw [key]
      have : (d.natAbs : Int) = d := by omega
      rw [this, wrap64_id d h1 h2]

/-- The marshalled text is never the unparseable `-PT`/`PT` (the pinned tree's MinInt64 defect). -/
theorem C15_marshal_has_field (d : Int) (hd : d ≠ 0) :
    timeText (d.natAbs / hourNs) (d.natAbs % hourNs / minNs) (d.natAbs % minNs / secNs)
      (d.natAbs % secNs) ≠ [] := by
  apply timeText_ne_nil
  unfold hourNs minNs secNs
  omega

/-! Non-vacuity / witnesses (these are tests, labelled as such) -/
example : roundTrip (-9223372036854775808) = .ok (-9223372036854775808) :=
  C15_duration_roundtrip _ (by decide) (by decide)
example : String.ofList (marshal 90061000000001) = "PT25H1M1.000000001S" := by decide
example : parse "PT0.1234567899S".toList = .ok 123456789 := by decide
example : parse "PT".toList = .err "syntax" := by decide
example : parse "P".toList = .err "empty" := by decide
example : parse "P1Y2M3DT4H5M6.5S".toList = .ok 36993906500000000 := by decide

end SamlVerif.Duration

namespace SamlVerif.TimeM

/-- the year of an instant given in nanoseconds since the epoch, after rounding to the millisecond -/
def yearOf (ns : Int) : Int := (civilFromDays (roundMs ns / 86400000)).year

/-- **C15 (instants)**: every instant whose rounded value lies in a year of at most four digits is
    written as text that reads back as that instant rounded to the millisecond -/
theorem C15_instant_roundtrip (ns : Int) (hy : 0 ≤ yearOf ns ∧ yearOf ns ≤ 9999) :
    unmarshal (marshal ns) = some (roundMs ns) := unmarshal_marshal ns hy

/-- rounding is to the nearest millisecond, halves up -/
theorem C15_round_nearest (ns : Int) :
    roundMs ns * 1000000 - 500000 ≤ ns ∧ ns < roundMs ns * 1000000 + 500000 ∧
    (ns % 1000000 = 500000 → roundMs ns * 1000000 = ns + 500000) := by
  have hdef : roundMs ns = if 2 * (ns % 1000000) < 1000000 then (ns - ns % 1000000) / 1000000
      else (ns - ns % 1000000) / 1000000 + 1 := rfl
  by_cases h : 2 * (ns % 1000000) < 1000000
  · have e : roundMs ns = (ns - ns % 1000000) / 1000000 := by rw [hdef, if_pos h]
    rw [e]
    refine ⟨by omega, by omega, fun h5 => by omega⟩
  · have e : roundMs ns = (ns - ns % 1000000) / 1000000 + 1 := by rw [hdef, if_neg h]
    rw [e]
    refine ⟨by omega, by omega, fun h5 => by omega⟩

/-- rounding a whole number of milliseconds changes nothing (so a second round trip is the identity) -/
theorem C15_round_idempotent (ns : Int) : roundMs (roundMs ns * 1000000) = roundMs ns := roundMs_exact _

/-- the text is in UTC: it ends in `Z` -/
theorem C15_written_in_utc (ms : Int) : (marshalMs ms).getLast? = some 'Z' := by
  unfold marshalMs
  simp only [List.getLast?_append, List.getLast?_singleton, Option.some_or]

/-- the civil date written is a real one and determines the day (calendar is inverted exactly) -/
theorem C15_calendar (z : Int) :
    daysFromCivil (civilFromDays z) = z ∧ 1 ≤ (civilFromDays z).month ∧ (civilFromDays z).month ≤ 12 ∧
    1 ≤ (civilFromDays z).day ∧ (civilFromDays z).day ≤ daysIn (civilFromDays z).year (civilFromDays z).month :=
  calendar_roundtrip z

/-- the one place in years 1..9999 where the full statement fails: the last half millisecond of 9999
    rounds into year 10000, whose five-digit year is not read back (known finding) -/
theorem C15_year_10000_counterexample :
    yearOf (253402300799 * 1000000000 + 999500000) = 10000 ∧
    unmarshal (marshal (253402300799 * 1000000000 + 999500000)) = none := by
  constructor <;> decide +kernel

/-! accepted and rejected lexical forms (tests of the reader on the documented forms; the reader is tied
    to `UnmarshalText` by the correspondence on generated and mutated strings) -/
example : unmarshal "2006-01-02T15:04:05Z".toList = some 1136214245000 := by decide +kernel
example : unmarshal "2006-01-02T15:04:05.5+07:00".toList = some 1136189045500 := by decide +kernel
example : unmarshal "2006-01-02T15:04:05".toList = some 1136214245000 := by decide +kernel
example : unmarshal "2006-01-02T15:04:05.0004999Z".toList = some 1136214245000 := by decide +kernel
example : unmarshal "2006-01-02T15:04:05.0005Z".toList = some 1136214245001 := by decide +kernel
example : unmarshal "".toList = some zeroTimeMs := by decide
example : unmarshal "2006-02-30T00:00:00Z".toList = none := by decide +kernel
example : unmarshal "1900-02-29T00:00:00Z".toList = none := by decide +kernel
example : unmarshal "2006-01-02T24:00:00Z".toList = none := by decide +kernel
example : unmarshal "2006-01-02 15:04:05Z".toList = none := by decide +kernel
example : unmarshal "2006-01-02T15:04:05+0700".toList = none := by decide +kernel
example : 0 ≤ yearOf 1136214245000000000 ∧ yearOf 1136214245000000000 ≤ 9999 := by decide +kernel

end SamlVerif.TimeM

/-! ### metadata: one marshal/unmarshal generation reaches the normal form, which is a fixed point -/

namespace SamlVerif.Metadata
open SamlVerif

theorem check_unknown (b : String) (l : Bytes) (h : Html.knownBindings.contains b = false) :
    Html.checkEndpointLocation b l = .ok [] := by
  unfold Html.checkEndpointLocation
  rw [h]
  rfl

theorem normEndpoint_known (e : Endpoint) (h : Html.knownBindings.contains e.binding = true) : normEndpoint e = e := by
  unfold normEndpoint; rw [h]; rfl

theorem normEndpoint_unknown (e : Endpoint) (h : Html.knownBindings.contains e.binding = false) :
    normEndpoint e = { e with location := [], response := none } := by
  unfold normEndpoint; rw [h]; rfl

theorem readEndpoint_norm (e : Endpoint) (h : Acceptable e) : readEndpoint e = .ok (normEndpoint e) := by
  obtain ⟨hne, hk⟩ := h
  cases hb : Html.knownBindings.contains e.binding with
  | true =>
    obtain ⟨hl, hr⟩ := hk hb
    rw [normEndpoint_known e hb]
    obtain ⟨idx, bnd, loc, resp⟩ := e
    simp only at hl hr hne hb
    have hl' : Html.checkEndpointLocation bnd loc = .ok loc := hl
    cases idx with
    | true =>
      cases resp with
      | none => simp [readEndpoint, Html.unmarshalIndexedEndpoint, hl']
      | some r =>
        have hrr : Html.checkEndpointLocation bnd r = .ok r := hr r rfl
        have hr0 : r ≠ [] := fun h0 => hne (by rw [h0])
        simp [readEndpoint, Html.unmarshalIndexedEndpoint, hl', hrr, hr0]
    | false =>
      cases resp with
      | none => simp [readEndpoint, Html.unmarshalEndpoint, hl']
      | some r =>
        have hrr : Html.checkEndpointLocation bnd r = .ok r := hr r rfl
        have hr0 : r ≠ [] := fun h0 => hne (by rw [h0])
        simp [readEndpoint, Html.unmarshalEndpoint, hl', hrr, hr0]
  | false =>
    rw [normEndpoint_unknown e hb]
    obtain ⟨idx, bnd, loc, resp⟩ := e
    simp only at hb
    cases idx with
    | true =>
      cases resp with
      | none => simp [readEndpoint, Html.unmarshalIndexedEndpoint, check_unknown _ _ hb]
      | some r => simp [readEndpoint, Html.unmarshalIndexedEndpoint, check_unknown _ _ hb]
    | false =>
      cases resp with
      | none => simp [readEndpoint, Html.unmarshalEndpoint, check_unknown _ _ hb]
      | some r =>
        by_cases hr0 : r = []
        · simp [readEndpoint, Html.unmarshalEndpoint, check_unknown _ _ hb, hr0]
        · simp [readEndpoint, Html.unmarshalEndpoint, check_unknown _ _ hb, hr0]

theorem readEndpoints_norm (es : List Endpoint) (h : ∀ e ∈ es, Acceptable e) :
    readEndpoints es = .ok (es.map normEndpoint) := by
  induction es with
  | nil => rfl
  | cons e es ih =>
    unfold readEndpoints
    rw [readEndpoint_norm e (h e (by simp)), ih (fun x hx => h x (by simp [hx]))]
    rfl

/-- the value is one the text forms can carry: the rounded validity instant lies in a year of at most
    four digits, the cache duration is an int64, endpoints of standard bindings are http(s) URLs -/
structure WellFormed (v : MD) : Prop where
  year : 0 ≤ TimeM.yearOf v.validUntil ∧ TimeM.yearOf v.validUntil ≤ 9999
  dur : -Duration.two63 ≤ v.cacheDuration ∧ v.cacheDuration < Duration.two63
  eps : ∀ e ∈ v.endpoints, Acceptable e

/-- **C15 (metadata), one generation**: what is read back from what was written is the normal form of
    the value — instant rounded to the millisecond, endpoints of unknown bindings blanked, everything
    else (entity ID, key descriptors, cache duration, http(s) endpoints) as it was -/
theorem C15_metadata_generation (v : MD) (h : WellFormed v) : read (write v) = .ok (norm v) := by
  unfold read write
  simp only
  rw [TimeM.C15_instant_roundtrip v.validUntil h.year]
  have hd : readDuration (if v.cacheDuration = 0 then none else some (Duration.marshal v.cacheDuration)) = .ok v.cacheDuration := by
    by_cases h0 : v.cacheDuration = 0
    · simp [h0, readDuration]
    · have := Duration.C15_duration_roundtrip v.cacheDuration h.dur.1 h.dur.2
      unfold Duration.roundTrip at this
      rw [if_neg h0] at this
      simp [h0, readDuration, this]
  simp only [hd, readEndpoints_norm v.endpoints h.eps]
  rfl

theorem normEndpoint_idem (e : Endpoint) : normEndpoint (normEndpoint e) = normEndpoint e := by
  cases hb : Html.knownBindings.contains e.binding with
  | true => rw [normEndpoint_known e hb, normEndpoint_known e hb]
  | false =>
    rw [normEndpoint_unknown e hb]
    exact normEndpoint_unknown _ hb

/-- the normal form is a fixed point of normalisation … -/
theorem C15_metadata_norm_idempotent (v : MD) : norm (norm v) = norm v := by
  unfold norm
  simp only [List.map_map]
  congr 1
  · rw [TimeM.C15_round_idempotent]
  · apply List.map_congr_left
    intro e _
    exact normEndpoint_idem e

theorem acceptable_norm (e : Endpoint) (h : Acceptable e) : Acceptable (normEndpoint e) := by
  cases hb : Html.knownBindings.contains e.binding with
  | true => rw [normEndpoint_known e hb]; exact h
  | false =>
    rw [normEndpoint_unknown e hb]
    refine ⟨by simp, ?_⟩
    intro hk
    simp only at hk
    rw [hb] at hk
    exact absurd hk (by simp)

theorem yearOf_norm (ns : Int) : TimeM.yearOf (TimeM.roundMs ns * 1000000) = TimeM.yearOf ns := by
  unfold TimeM.yearOf
  rw [TimeM.C15_round_idempotent]

theorem wellFormed_norm (v : MD) (h : WellFormed v) : WellFormed (norm v) where
  year := by
    show 0 ≤ TimeM.yearOf (TimeM.roundMs v.validUntil * 1000000) ∧ TimeM.yearOf (TimeM.roundMs v.validUntil * 1000000) ≤ 9999
    rw [yearOf_norm]; exact h.year
  dur := h.dur
  eps := by
    intro e he
    obtain ⟨e0, he0, rfl⟩ := List.mem_map.mp he
    exact acceptable_norm e0 (h.eps e0 he0)

/-- … **and of a further marshal/unmarshal generation**: after one generation the value no longer changes -/
theorem C15_metadata_fixed_point (v : MD) (h : WellFormed v) : read (write (norm v)) = .ok (norm v) := by
  rw [C15_metadata_generation (norm v) (wellFormed_norm v h), C15_metadata_norm_idempotent]

/-- what the generation preserves, spelled out -/
theorem C15_metadata_preserves (v : MD) :
    (norm v).entityID = v.entityID ∧ (norm v).keys = v.keys ∧ (norm v).cacheDuration = v.cacheDuration ∧
    (norm v).validUntil = TimeM.roundMs v.validUntil * 1000000 ∧
    (norm v).endpoints.length = v.endpoints.length ∧
    (∀ e ∈ v.endpoints, Html.knownBindings.contains e.binding = true → normEndpoint e = e) := by
  refine ⟨rfl, rfl, rfl, rfl, by simp [norm], ?_⟩
  intro e _ hb
  exact normEndpoint_known e hb

/-- non-vacuity: a descriptor with a non-millisecond validity instant in a zone-free representation, a sub-second
    cache duration, an http endpoint, an endpoint of an unknown binding and a key descriptor is well-formed -/
def bs (s : String) : Bytes := s.toList.map (fun c => UInt8.ofNat c.toNat)

def sampleMD : MD :=
  { entityID := "https://sp.example.com/metadata", validUntil := 1715949045123456789, cacheDuration := 5400000000001,
    endpoints := [⟨true, "urn:oasis:names:tc:SAML:2.0:bindings:HTTP-POST", bs "https://sp.example.com/acs", none⟩,
                  ⟨false, "urn:unknown:binding", bs "javascript:alert(1)", some (bs "x")⟩],
    keys := [⟨"signing", ["MIIB"]⟩] }

example : read (write sampleMD) = .ok (norm sampleMD) := by decide +kernel
example : (norm sampleMD).validUntil = 1715949045123000000 ∧ (norm sampleMD).endpoints.map (·.location) =
    [bs "https://sp.example.com/acs", []] := by decide +kernel

end SamlVerif.Metadata
