/-
  C15 — Durations, instants and metadata round-trip through their XML text forms.

  "Every Duration marshals to xsd:duration text that unmarshals to the identical duration; every
   instant marshals to xsd:dateTime text that unmarshals to the same instant rounded to the
   millisecond in UTC; and unmarshalling accepts the documented lexical forms (RFC 3339 with or
   without zone or fraction) and rejects others with an error. …"
-/
import SamlVerif.Proofs.Duration
import SamlVerif.Proofs.Time

namespace SamlVerif.Duration

theorem marshal_eq (d : Int) (hd : d ≠ 0) :
    marshal d = (if d < 0 then ['-'] else []) ++
      ('P' :: 'T' :: timeText (d.natAbs / hourNs) (d.natAbs % hourNs / minNs)
        (d.natAbs % minNs / secNs) (d.natAbs % secNs)) := by
  unfold marshal timeText hourText minText secText
  rw [if_neg hd]
  simp only [List.append_assoc, List.cons_append, List.nil_append]

theorem parse_PT (neg : Bool) (h m s ns : Nat) (hh : (h : Int) < two63) (hm : m < 60) (hs : s < 60)
    (hns : ns < 1000000000) (hpos : h > 0 ∨ m > 0 ∨ s > 0 ∨ ns > 0) :
    parse ((if neg then ['-'] else []) ++ ('P' :: 'T' :: timeText h m s ns)) =
      .ok (wrap64 (if neg then -((h * hourNs + m * minNs + (s * secNs + ns) : Nat) : Int)
                   else ((h * hourNs + m * minNs + (s * secNs + ns) : Nat) : Int))) := by
  have hne := timeText_ne_nil h m s ns hpos
  have hnl := timeText_no_nl h m s ns
  have hpt := parseTime_timeText h m s ns hh hm hs hns hne
  have hc : (timeText h m s ns).contains '\n' = false := by
    simpa using hnl
  have htp : tPart ('T' :: timeText h m s ns) = (some (timeText h m s ns), true) := by
    unfold tPart
    simp [hne, hnl]
  have body : ∀ b : Bool, parseP b ('T' :: timeText h m s ns) =
      .ok (wrap64 (if b then -((h * hourNs + m * minNs + (s * secNs + ns) : Nat) : Int)
                   else ((h * hourNs + m * minNs + (s * secNs + ns) : Nat) : Int))) := by
    intro b
    unfold parseP
    simp only [optField_nondigit 'Y' 'T' (by decide), optField_nondigit 'M' 'T' (by decide),
      optField_nondigit 'D' 'T' (by decide), htp]
    simp only [field_none, timeField, hpt, Outcome.bind_ok]
    simp
  cases neg
  · exact body false
  · exact body true

theorem wrap64_id (x : Int) (h1 : -two63 ≤ x) (h2 : x < two63) : wrap64 x = x := by
  unfold wrap64 two64
  unfold two63 at *
  omega

/-- **C15 (durations)**: every int64 nanosecond duration — zero, negative, sub-second, the extremes
    `MinInt64`/`MaxInt64` included — marshals to text that unmarshals to the identical duration. -/
theorem C15_duration_roundtrip (d : Int) (h1 : -two63 ≤ d) (h2 : d < two63) :
    roundTrip d = .ok d := by
  unfold roundTrip
  by_cases hd : d = 0
  · simp [hd]
  · rw [if_neg hd, marshal_eq d hd]
    have hu : (d.natAbs : Int) ≤ two63 := by unfold two63 at *; omega
    have key := parse_PT (decide (d < 0)) (d.natAbs / hourNs) (d.natAbs % hourNs / minNs)
      (d.natAbs % minNs / secNs) (d.natAbs % secNs)
      (by unfold two63 hourNs minNs secNs at *; omega)
      (by unfold hourNs minNs secNs; omega) (by unfold minNs secNs; omega)
      (by unfold secNs; omega)
      (by unfold hourNs minNs secNs; omega)
    have hsum : d.natAbs / hourNs * hourNs + d.natAbs % hourNs / minNs * minNs +
        (d.natAbs % minNs / secNs * secNs + d.natAbs % secNs) = d.natAbs := by
      unfold hourNs minNs secNs; omega
    rw [hsum] at key
    by_cases hneg : d < 0
    · simp only [hneg, decide_true, if_true] at key ⊢
      rw [key]
      have : -(d.natAbs : Int) = d := by omega
      rw [this, wrap64_id d h1 h2]
    · simp only [hneg, decide_false, Bool.false_eq_true, if_false] at key ⊢
      rw [key]
      have : (d.natAbs : Int) = d := by omega
      rw [this, wrap64_id d h1 h2]

/-- The marshalled text is never the unparseable `-PT`/`PT` (the pinned tree's MinInt64 defect). -/
theorem C15_marshal_has_field (d : Int) (hd : d ≠ 0) :
    timeText (d.natAbs / hourNs) (d.natAbs % hourNs / minNs) (d.natAbs % minNs / secNs)
      (d.natAbs % secNs) ≠ [] := by
  apply timeText_ne_nil
  unfold hourNs minNs secNs
  omega

/-! Non-vacuity / witnesses (these are tests, labelled as such) -/
example : roundTrip (-9223372036854775808) = .ok (-9223372036854775808) :=
  C15_duration_roundtrip _ (by decide) (by decide)
example : String.ofList (marshal 90061000000001) = "PT25H1M1.000000001S" := by decide
example : parse "PT0.1234567899S".toList = .ok 123456789 := by decide
example : parse "PT".toList = .err "syntax" := by decide
example : parse "P".toList = .err "empty" := by decide
example : parse "P1Y2M3DT4H5M6.5S".toList = .ok 36993906500000000 := by decide

end SamlVerif.Duration

namespace SamlVerif.TimeM

/-- the year of an instant given in nanoseconds since the epoch, after rounding to the millisecond -/
def yearOf (ns : Int) : Int := (civilFromDays (roundMs ns / 86400000)).year

/-- **C15 (instants)**: every instant whose rounded value lies in a year of at most four digits is
    written as text that reads back as that instant rounded to the millisecond -/
theorem C15_instant_roundtrip (ns : Int) (hy : 0 ≤ yearOf ns ∧ yearOf ns ≤ 9999) :
    unmarshal (marshal ns) = some (roundMs ns) := unmarshal_marshal ns hy

/-- rounding is to the nearest millisecond, halves up -/
theorem C15_round_nearest (ns : Int) :
    roundMs ns * 1000000 - 500000 ≤ ns ∧ ns < roundMs ns * 1000000 + 500000 ∧
    (ns % 1000000 = 500000 → roundMs ns * 1000000 = ns + 500000) := by
  have hdef : roundMs ns = if 2 * (ns % 1000000) < 1000000 then (ns - ns % 1000000) / 1000000
      else (ns - ns % 1000000) / 1000000 + 1 := rfl
  by_cases h : 2 * (ns % 1000000) < 1000000
  · have e : roundMs ns = (ns - ns % 1000000) / 1000000 := by rw [hdef, if_pos h]
    rw [e]
    refine ⟨by omega, by omega, fun h5 => by omega⟩
  · have e : roundMs ns = (ns - ns % 1000000) / 1000000 + 1 := by rw [hdef, if_neg h]
    rw [e]
    refine ⟨by omega, by omega, fun h5 => by omega⟩

/-- rounding a whole number of milliseconds changes nothing (so a second round trip is the identity) -/
theorem C15_round_idempotent (ns : Int) : roundMs (roundMs ns * 1000000) = roundMs ns := roundMs_exact _

/-- the text is in UTC: it ends in `Z` -/
theorem C15_written_in_utc (ms : Int) : (marshalMs ms).getLast? = some 'Z' := by
  unfold marshalMs
  simp only [List.getLast?_append, List.getLast?_singleton, Option.some_or]

/-- the civil date written is a real one and determines the day (calendar is inverted exactly) -/
theorem C15_calendar (z : Int) :
    daysFromCivil (civilFromDays z) = z ∧ 1 ≤ (civilFromDays z).month ∧ (civilFromDays z).month ≤ 12 ∧
    1 ≤ (civilFromDays z).day ∧ (civilFromDays z).day ≤ daysIn (civilFromDays z).year (civilFromDays z).month :=
  calendar_roundtrip z

/-- the one place in years 1..9999 where the full statement fails: the last half millisecond of 9999
    rounds into year 10000, whose five-digit year is not read back (known finding) -/
theorem C15_year_10000_counterexample :
    yearOf (253402300799 * 1000000000 + 999500000) = 10000 ∧
    unmarshal (marshal (253402300799 * 1000000000 + 999500000)) = none := by
  constructor <;> decide +kernel

/-! accepted and rejected lexical forms (tests of the reader on the documented forms; the reader is tied
    to `UnmarshalText` by the correspondence on generated and mutated strings) -/
example : unmarshal "2006-01-02T15:04:05Z".toList = some 1136214245000 := by decide +kernel
example : unmarshal "2006-01-02T15:04:05.5+07:00".toList = some 1136189045500 := by decide +kernel
example : unmarshal "2006-01-02T15:04:05".toList = some 1136214245000 := by decide +kernel
example : unmarshal "2006-01-02T15:04:05.0004999Z".toList = some 1136214245000 := by decide +kernel
example : unmarshal "2006-01-02T15:04:05.0005Z".toList = some 1136214245001 := by decide +kernel
example : unmarshal "".toList = some zeroTimeMs := by decide
example : unmarshal "2006-02-30T00:00:00Z".toList = none := by decide +kernel
example : unmarshal "1900-02-29T00:00:00Z".toList = none := by decide +kernel
example : unmarshal "2006-01-02T24:00:00Z".toList = none := by decide +kernel
example : unmarshal "2006-01-02 15:04:05Z".toList = none := by decide +kernel
example : unmarshal "2006-01-02T15:04:05+0700".toList = none := by decide +kernel
example : 0 ≤ yearOf 1136214245000000000 ∧ yearOf 1136214245000000000 ≤ 9999 := by decide +kernel

end SamlVerif.TimeM
