/-
  C15 — Durations, instants and metadata round-trip through their XML text forms.

  "Every Duration marshals to xsd:duration text that unmarshals to the identical duration; every
   instant marshals to xsd:dateTime text that unmarshals to the same instant rounded to the
   millisecond in UTC; and unmarshalling accepts the documented lexical forms (RFC 3339 with or
   without zone or fraction) and rejects others with an error. …"
-/
import SamlVerif.Proofs.Duration

namespace SamlVerif.Duration

theorem marshal_eq (d : Int) (hd : d ≠ 0) :
    marshal d = (if d < 0 then ['-'] else []) ++
      ('P' :: 'T' :: timeText (d.natAbs / hourNs) (d.natAbs % hourNs / minNs)
        (d.natAbs % minNs / secNs) (d.natAbs % secNs)) := by
  unfold marshal timeText hourText minText secText
  rw [if_neg hd]
  simp only [List.append_assoc, List.cons_append, List.nil_append]

theorem parse_PT (neg : Bool) (h m s ns : Nat) (hh : (h : Int) < two63) (hm : m < 60) (hs : s < 60)
    (hns : ns < 1000000000) (hpos : h > 0 ∨ m > 0 ∨ s > 0 ∨ ns > 0) :
    parse ((if neg then ['-'] else []) ++ ('P' :: 'T' :: timeText h m s ns)) =
      .ok (wrap64 (if neg then -((h * hourNs + m * minNs + (s * secNs + ns) : Nat) : Int)
                   else ((h * hourNs + m * minNs + (s * secNs + ns) : Nat) : Int))) := by
  have hne := timeText_ne_nil h m s ns hpos
  have hnl := timeText_no_nl h m s ns
  have hpt := parseTime_timeText h m s ns hh hm hs hns hne
  have hc : (timeText h m s ns).contains '\n' = false := by
    simpa using hnl
  have htp : tPart ('T' :: timeText h m s ns) = (some (timeText h m s ns), true) := by
    unfold tPart
    simp [hne, hnl]
  have body : ∀ b : Bool, parseP b ('T' :: timeText h m s ns) =
      .ok (wrap64 (if b then -((h * hourNs + m * minNs + (s * secNs + ns) : Nat) : Int)
                   else ((h * hourNs + m * minNs + (s * secNs + ns) : Nat) : Int))) := by
    intro b
    unfold parseP
    simp only [optField_nondigit 'Y' 'T' (by decide), optField_nondigit 'M' 'T' (by decide),
      optField_nondigit 'D' 'T' (by decide), htp]
    simp only [field_none, timeField, hpt, Outcome.bind_ok]
    simp
  cases neg
  · exact body false
  · exact body true

theorem wrap64_id (x : Int) (h1 : -two63 ≤ x) (h2 : x < two63) : wrap64 x = x := by
  unfold wrap64 two64
  unfold two63 at *
  omega

/-- **C15 (durations)**: every int64 nanosecond duration — zero, negative, sub-second, the extremes
    `MinInt64`/`MaxInt64` included — marshals to text that unmarshals to the identical duration. -/
theorem C15_duration_roundtrip (d : Int) (h1 : -two63 ≤ d) (h2 : d < two63) :
    roundTrip d = .ok d := by
  unfold roundTrip
  by_cases hd : d = 0
  · simp [hd]
  · rw [if_neg hd, marshal_eq d hd]
    have hu : (d.natAbs : Int) ≤ two63 := by unfold two63 at *; omega
    have key := parse_PT (decide (d < 0)) (d.natAbs / hourNs) (d.natAbs % hourNs / minNs)
      (d.natAbs % minNs / secNs) (d.natAbs % secNs)
      (by unfold two63 hourNs minNs secNs at *; omega)
      (by unfold hourNs minNs secNs; omega) (by unfold minNs secNs; omega)
      (by unfold secNs; omega)
      (by unfold hourNs minNs secNs; omega)
    have hsum : d.natAbs / hourNs * hourNs + d.natAbs % hourNs / minNs * minNs +
        (d.natAbs % minNs / secNs * secNs + d.natAbs % secNs) = d.natAbs := by
      unfold hourNs minNs secNs; omega
    rw [hsum] at key
    by_cases hneg : d < 0
    · simp only [hneg, decide_true, if_true] at key ⊢
      rw [key]
      have : -(d.natAbs : Int) = d := by omega
      rw [this, wrap64_id d h1 h2]
    · simp only [hneg, decide_false, Bool.false_eq_true, if_false] at key ⊢
      rw [key]
      have : (d.natAbs : Int) = d := by omega
      rw [this, wrap64_id d h1 h2]

/-- The marshalled text is never the unparseable `-PT`/`PT` (the pinned tree's MinInt64 defect). -/
theorem C15_marshal_has_field (d : Int) (hd : d ≠ 0) :
    timeText (d.natAbs / hourNs) (d.natAbs % hourNs / minNs) (d.natAbs % minNs / secNs)
      (d.natAbs % secNs) ≠ [] := by
  apply timeText_ne_nil
  unfold hourNs minNs secNs
  omega

/-! Non-vacuity / witnesses (these are tests, labelled as such) -/
example : roundTrip (-9223372036854775808) = .ok (-9223372036854775808) :=
  C15_duration_roundtrip _ (by decide) (by decide)
example : String.ofList (marshal 90061000000001) = "PT25H1M1.000000001S" := by decide
example : parse "PT0.1234567899S".toList = .ok 123456789 := by decide
example : parse "PT".toList = .err "syntax" := by decide
example : parse "P".toList = .err "empty" := by decide
example : parse "P1Y2M3DT4H5M6.5S".toList = .ok 36993906500000000 := by decide

end SamlVerif.Duration
