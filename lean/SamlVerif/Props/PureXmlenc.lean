/-
  The models' reading of "for all sequences of message creations / validations" — package xmlenc.

  Every model of a Decrypt / Encrypt method is a *function* of the configuration value and the message, so a
  sequence of calls is the single call repeated and the per-call theorems hold for every call of every
  sequence.  That is the code's behaviour only while the code keeps no state between calls.  These are
  obligations at the regenerated hidden-state facts (extract/state.go): the package-level variables are the algorithm tables (written only by `init`-time registration), `RandReader`, and the fuzz key.
  A cache on the configuration value, a buffer pool or memo table at package level, break one of them
  whatever the generators happen to reach (the harness's stateful sequences are the search for the
  failing history).
-/
import SamlVerif.Generated.Facts

namespace SamlVerif.Pure

theorem Pure_xmlenc_package_state : Facts.packageState_xmlenc =
    ["xmlenc.AES128CBC (literal CBC)", "xmlenc.AES128GCM (literal GCM)", "xmlenc.AES192CBC (literal CBC)",
     "xmlenc.AES256CBC (literal CBC)", "xmlenc.RIPEMD160 (literal digestMethod)", "xmlenc.RandReader (expr)",
     "xmlenc.SHA1 (literal digestMethod)", "xmlenc.SHA256 (literal digestMethod)", "xmlenc.SHA512 (literal digestMethod)",
     "xmlenc.TripleDES (literal CBC)", "xmlenc.decrypters (literal <*ast.MapType>)",
     "xmlenc.digestMethods (literal <*ast.MapType>)", "xmlenc.testKey (call <*ast.FuncLit>)"] := by decide

end SamlVerif.Pure
