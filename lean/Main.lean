import SamlVerif.Driver.Proto
import SamlVerif.Driver.SPStruct
import SamlVerif.Driver.Codec
import SamlVerif.Driver.Xmlenc
import SamlVerif.Driver.IdP
import SamlVerif.Driver.Logout
import SamlVerif.Driver.Bindings
import SamlVerif.Driver.Html
import SamlVerif.Driver.Jwt
import SamlVerif.Driver.Mw
import SamlVerif.Driver.IdpServer
import SamlVerif.Driver.Locks
import SamlVerif.Driver.IdPOut
import SamlVerif.Driver.SPTree
import SamlVerif.Driver.Metadata

open SamlVerif

def allHandlers : List (String × Proto.P String) :=
  Driver.SPStruct.handlers ++ Driver.Codec.handlers ++ Driver.XmlencD.handlers ++ Driver.IdPD.handlers ++ Driver.LogoutD.handlers ++ Driver.BindingsD.handlers ++ Driver.HtmlD.handlers ++ Driver.JwtD.handlers ++ Driver.MwD.handlers ++ Driver.IdpServerD.handlers ++ Driver.LocksD.handlers ++ Driver.IdPOutD.handlers ++ Driver.SPTreeD.handlers ++ Driver.MetadataD.handlers

def answer (line : String) : String :=
  match (line.splitOn " ").filter (· ≠ "") with
  | id :: "oneway" :: op :: args =>
    (match allHandlers.lookup op with
     | some p =>
       (match Proto.runAll p args with
        | some out => id ++ " oneway " ++ out
        | none => id ++ " bad-op parse")
     | none => id ++ " oneway none")
  | id :: op :: args =>
    match allHandlers.lookup op with
    | some p =>
      match Proto.runAll p args with
      | some out => id ++ " " ++ out
      | none => id ++ " bad-op parse"
    | none => id ++ " bad-op unknown"
  | _ => "? bad-op empty"

partial def loop (h : IO.FS.Stream) (out : IO.FS.Stream) : IO Unit := do
  let line ← h.getLine
  if line.isEmpty then return ()
  let l := (line.dropEndWhile (fun c => c = '\n' || c = '\r')).toString
  if l.isEmpty then loop h out else
  out.putStrLn (answer l)
  loop h out

def main : IO Unit := do
  let out ← IO.getStdout
  loop (← IO.getStdin) out
  out.flush
