#!/bin/bash
# run every claimed check at one tier; prints one line per property: the verdict lines first, then the number of known findings
tier=${1:-quick}
cd "$(dirname "$0")"
for p in $(python3 -c "import json;print(' '.join(c['property_id'] for c in json.load(open('MANIFEST.json'))['checks']))"); do
  all=$(./check $p $tier 2>&1)
  out=$(echo "$all" | grep -E "^(OK|VIOLATION)" | cut -c1-160 | tr '\n' '|')
  kf=$(echo "$all" | grep -c "^KNOWN-FINDING")
  echo "$p: $out known-findings=$kf"
done
