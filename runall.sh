#!/bin/bash
# run every claimed check at one tier; prints one line per property
tier=${1:-quick}
cd "$(dirname "$0")"
for p in $(python3 -c "import json;print(' '.join(c['property_id'] for c in json.load(open('MANIFEST.json'))['checks']))"); do
  out=$(./check $p $tier 2>&1 | grep -E "^(OK|VIOLATION|KNOWN-FINDING)" | cut -c1-160 | tr '\n' '|')
  echo "$p: $out"
done
