#!/bin/sh
# Build the framework from files on disk only (offline).
set -e
cd "$(dirname "$0")"
export GOFLAGS=-mod=mod GOPROXY=off GOSUMDB=off GOTOOLCHAIN=local
mkdir -p .work evidence replays
(cd lean && lake build 2>&1 | tail -5)
cp /repo/go.sum harness/go.sum
(cd harness && go build -tags verif -o ../.work/harness . )
if [ -d extract ]; then (cd extract && go build -o ../.work/extract . ); fi
echo setup done
