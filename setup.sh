#!/bin/sh
# Build the framework from files on disk only (offline).
set -e
cd "$(dirname "$0")"
export GOFLAGS=-mod=mod GOPROXY=off GOSUMDB=off GOTOOLCHAIN=local
mkdir -p .work evidence replays
(cd extract && go run . --repo /repo --out ../lean/SamlVerif/Generated/Facts.lean --trans ../lean/SamlVerif/Generated/Trans.lean)
(cd lean && lake build 2>&1 | tail -5)
[ -f harness/go.sum ] || cp /repo/go.sum harness/go.sum
(cd harness && go build -tags verif -o ../.work/harness . )
echo setup done
