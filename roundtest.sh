#!/bin/sh
# usage: roundtest.sh <name> <prop> [demo-subdir] [more props…]  — confirm a seeded change in its scratch worktree, then run the check(s) against it
N=$1; P=$2; SUB=${3:-.}; shift; shift; shift
echo "== $N ($P)"; ./confirm_mut.sh $N $SUB 2>&1 | tail -3
for Q in $P "$@"; do ./seedtest.sh $Q /tmp/mut/out/$N quick 2>&1 | grep -E "^(OK|VIOLATION|seedtest)" | cut -c1-180; done
