#!/bin/bash
# Regression over every kept seeded change: applies each to /repo in turn, runs the check of its property (quick),
# undoes it, and writes one line per change to seeded/REGRESSION.txt. /repo must be clean; nothing else may run meanwhile.
cd "$(dirname "$0")"
out=seeded/REGRESSION.txt
: > $out.tmp
for d in seeded/*/; do
  n=$(basename $d)
  [ -f $d/patch.diff ] || continue
  p=$(python3 -c "import json;print(json.load(open('$d/meta.json'))['property'])")
  r=$(./seedtest.sh $p "$(pwd)/seeded/$n" quick 2>&1 | grep -E "^(OK|VIOLATION|/.* dirty|patch does not apply)" | head -1 | cut -c1-150)
  case "$r" in
    VIOLATION*no-failing-input-found) s="caught (obligation/correspondence, no input)";;
    VIOLATION*) s="caught (replay)";;
    OK*) s="MISSED";;
    *) s="ERROR: $r";;
  esac
  echo "$n $p $s" | tee -a $out.tmp
done
mv $out.tmp $out
