package main

// C18: logout response validation, POST and redirect encodings.

import (
	"bytes"
	"compress/flate"
	"crypto/sha256"
	"encoding/base64"
	"fmt"
	"net/http"
	"net/url"
	"strings"
	"time"

	"github.com/beevik/etree"
	"github.com/crewjam/saml"
	dsig "github.com/russellhaering/goxmldsig"
)

func init() { gens["C18"] = (*Ctx).genC18 }

const sloURL = "https://sp.example.com/saml/slo"

type lresp struct {
	Dest         string
	II           int64
	Issuer       *string
	IssuerFormat string
	Status       string
	Nested       []string // StatusCode elements nested below the top-level one, outermost first (must not matter)
	Sig          string   // none | idp | attacker | idp-then-edit | moved
	Kind         string   // ok | garbage-b64 | garbage-xml | noroot | other-root | inflate-bomb
}

func (c *Ctx) logoutXML(l lresp) []byte {
	switch l.Kind {
	case "garbage-xml":
		return []byte("<samlp:LogoutResponse><unclosed>")
	case "noroot":
		return []byte("<!-- nothing here -->")
	case "xrv":
		return []byte(`<samlp:LogoutResponse xmlns:samlp="urn:oasis:names:tc:SAML:2.0:protocol" :="v"/>`)
	}
	r := saml.LogoutResponse{ID: fmt.Sprintf("id-lr%d", c.n), InResponseTo: "id-lreq", Version: "2.0", IssueInstant: time.UnixMilli(l.II).UTC(), Destination: l.Dest,
		Status: saml.Status{StatusCode: saml.StatusCode{Value: l.Status}}}
	inner := &r.Status.StatusCode
	for _, v := range l.Nested {
		inner.StatusCode = &saml.StatusCode{Value: v}
		inner = inner.StatusCode
	}
	if l.Issuer != nil {
		r.Issuer = &saml.Issuer{Value: *l.Issuer, Format: l.IssuerFormat}
	}
	el := r.Element()
	// the instant in one of its legal lexical forms (fraction digits, a zone offset, no zone at all — which reads as UTC on any host)
	if l.II != zeroTimeMs && el.SelectAttr("IssueInstant") != nil {
		el.CreateAttr("IssueInstant", lexTime(l.II, c.n))
		c.count("c18-issue-instant-form", fmt.Sprint(c.n%6))
	}
	if l.Kind == "other-root" {
		el.Tag = "LogoutRequest"
	}
	b := &builder{c: c}
	switch l.Sig {
	case "idp", "attacker", "idp2":
		s, err := b.signCtx(l.Sig, "").SignEnveloped(el)
		must(err)
		el = s
	case "idp-nokeyinfo", "attacker-nokeyinfo":
		// the KeyInfo is not signed: anybody can remove it, and the verifier then has to find the key among the trusted ones
		s, err := b.signCtx(strings.TrimSuffix(l.Sig, "-nokeyinfo"), "").SignEnveloped(el)
		must(err)
		el = s
		if sg := el.FindElement("./Signature"); sg != nil {
			if ki := sg.FindElement("./KeyInfo"); ki != nil {
				sg.RemoveChild(ki)
			}
		}
	case "idp-then-edit":
		s, err := b.signCtx("idp", "").SignEnveloped(el)
		must(err)
		el = s
		el.CreateAttr("Destination", l.Dest+"")
		el.CreateAttr("Consent", "urn:edited-after-signing")
	case "moved":
		// genuine signature relocated below Status: not a direct child of the root any more
		s, err := b.signCtx("idp", "").SignEnveloped(el)
		must(err)
		el = s
		sig := el.FindElement("./Signature")
		el.RemoveChild(sig)
		el.FindElement("./Status").AddChild(sig)
	case "attacker+idpcert", "idp+attackercert":
		// KeyInfo lists two certificates: the signer's own first (goxmldsig verifies with the first), then another
		signer, other := "attacker", "idp"
		if l.Sig == "idp+attackercert" {
			signer, other = "idp", "attacker"
		}
		s, err := b.signCtx(signer, "").SignEnveloped(el)
		must(err)
		el = s
		if x := el.FindElement("./Signature/KeyInfo/X509Data"); x != nil {
			x.CreateElement("ds:X509Certificate").SetText(base64.StdEncoding.EncodeToString(c.key(other).Cert.Raw))
		}
	case "two":
		s, err := b.signCtx("idp", "").SignEnveloped(el)
		must(err)
		el = s
		el.AddChild(el.FindElement("./Signature").Copy())
	}
	return elBytes(el)
}

func deflate(b []byte) []byte {
	var zb bytes.Buffer
	w, _ := flate.NewWriter(&zb, 9)
	w.Write(b)
	w.Close()
	return zb.Bytes()
}

// a ServiceProvider value kept across validations (nil: a fresh one per case) and the IdP keys its metadata names now
var (
	logoutShared *saml.ServiceProvider
	logoutTrust  []string
	// the SP pins the IdP by certificate fingerprint instead of taking certificates from metadata
	logoutFingerprint bool
	// an incomplete or contradictory pin (fingerprint without algorithm, algorithm without fingerprint, either with a pinned
	// certificate as well): the SP has no usable trust configuration, so no signature verifies
	logoutPartialPin string
	// the instant the certificate validity is judged at (nil: now); freshness of the response is judged at the real clock
	logoutCertClock *time.Time
	// the configured IdP entity ID (default: idpEntity): URN-style and query-distinguished identifiers
	logoutIDPEntity string
)

func tp(t time.Time) *time.Time { return &t }

// logoutRequestURL: the request target of the following request-* cases ("" = the SP's logout URL). Where a message was
// delivered says nothing about whom it is addressed to: the Destination must be the SP's logout URL all the same.
var logoutRequestURL string

func logoutReqURL() string {
	if logoutRequestURL != "" {
		return logoutRequestURL
	}
	return sloURL
}

func (c *Ctx) runLogout(l lresp, encoding string, delay int64) {
	cfg := baseCfg()
	cfg.Delay = delay
	if logoutIDPEntity != "" {
		cfg.IDPEntity = logoutIDPEntity
	}
	if logoutTrust != nil {
		cfg.Trust = logoutTrust
	}
	now := time.Now().UnixMilli()
	setGlobals(cfg, now)
	s := c.realSP(cfg)
	if logoutFingerprint {
		s.IDPMetadata.IDPSSODescriptors[0].KeyDescriptors = nil
		sum := sha256.Sum256(c.key("idp").Cert.Raw)
		var parts []string
		for _, b := range sum {
			parts = append(parts, fmt.Sprintf("%02X", b))
		}
		fp, alg := strings.Join(parts, ":"), "http://www.w3.org/2001/04/xmlenc#sha256"
		s.IDPCertificateFingerprint, s.IDPCertificateFingerprintAlgorithm = &fp, &alg
	}
	if logoutCertClock != nil {
		saml.Clock = dsig.NewFakeClockAt(*logoutCertClock)
	}
	if logoutPartialPin != "" {
		sum := sha256.Sum256(c.key("idp2").Cert.Raw) // the pin names a certificate the metadata does not list first
		var parts []string
		for _, b := range sum {
			parts = append(parts, fmt.Sprintf("%02X", b))
		}
		fp, alg := strings.Join(parts, ":"), "http://www.w3.org/2001/04/xmlenc#sha256"
		pem := base64.StdEncoding.EncodeToString(c.key("idp").Cert.Raw)
		if strings.Contains(logoutPartialPin, "fp") {
			s.IDPCertificateFingerprint = &fp
		}
		if strings.Contains(logoutPartialPin, "alg") {
			s.IDPCertificateFingerprintAlgorithm = &alg
		}
		if strings.Contains(logoutPartialPin, "cert") {
			s.IDPCertificate = &pem
		}
	}
	if logoutShared != nil {
		// the deployment refreshes the IdP's metadata (same entity, possibly new keys) on the value it keeps
		logoutShared.IDPMetadata = s.IDPMetadata
		s = logoutShared
	}
	s.SloURL = mustURL(sloURL)
	xmlb := c.logoutXML(l)
	var payload string
	switch encoding {
	case "post", "request-post":
		payload = base64.StdEncoding.EncodeToString(xmlb)
	default:
		payload = base64.StdEncoding.EncodeToString(deflate(xmlb))
	}
	if l.Kind == "garbage-b64" {
		payload = "@@@not-base64@@@"
	}
	if l.Kind == "inflate-garbage" && encoding != "post" && encoding != "request-post" {
		payload = base64.StdEncoding.EncodeToString([]byte("this is not deflate data at all"))
	}
	impl := safely(func() string {
		var err error
		switch encoding {
		case "post":
			err = s.ValidateLogoutResponseForm(payload)
		case "redirect":
			err = s.ValidateLogoutResponseRedirect(payload)
		case "request-post":
			form := url.Values{"SAMLResponse": {payload}}
			r, _ := http.NewRequest("POST", logoutReqURL(), strings.NewReader(form.Encode()))
			r.Header.Set("Content-Type", "application/x-www-form-urlencoded")
			err = s.ValidateLogoutResponseRequest(r)
		default:
			r, _ := http.NewRequest("GET", logoutReqURL()+"?"+url.Values{"SAMLResponse": {payload}}.Encode(), nil)
			err = s.ValidateLogoutResponseRequest(r)
		}
		if err != nil {
			return "err"
		}
		return "ok"
	})
	// abstract document
	var dtoks []string
	sigst := map[string]string{"idp-nokeyinfo": "?", "attacker-nokeyinfo": "i", "none": "a", "idp": "v", "attacker": "i", "idp2": "i", "idp-then-edit": "i", "moved": "a", "two": "i", "attacker+idpcert": "i", "idp+attackercert": "v"}[l.Sig]
	if l.Sig == "idp" || l.Sig == "idp2" || l.Sig == "attacker" {
		sigst = "i"
		for _, t := range cfg.Trust {
			if t == l.Sig {
				sigst = "v"
			}
		}
	}
	if l.Sig == "idp-nokeyinfo" {
		// without KeyInfo goxmldsig can only fall back to the trusted certificate when there is exactly one
		sigst = "i"
		if len(cfg.Trust) == 1 && cfg.Trust[0] == "idp" {
			sigst = "v"
		}
	}
	if (logoutPartialPin != "" || logoutCertClock != nil) && sigst == "v" {
		sigst = "i" // no usable trust configuration / no trusted certificate valid at the moment: nothing verifies
	}
	switch {
	case l.Kind == "garbage-b64" || l.Kind == "garbage-xml" || l.Kind == "xrv" || (l.Kind == "inflate-garbage" && strings.Contains(encoding, "redirect")):
		dtoks = []string{"u"}
	case l.Kind == "noroot":
		dtoks = []string{"n"}
	case l.Kind == "other-root":
		dtoks = []string{"r", sigst, "-"}
	default:
		dtoks = joinToks([]string{"r", sigst, "+", encStr(l.Dest), encInt(l.II)}, encOptStr(l.Issuer), []string{encStr(l.Status)})
	}
	// direct oracle
	valid := l.Kind == "ok" || l.Kind == "inflate-garbage" && !strings.Contains(encoding, "redirect")
	valid = valid && sigst == "v" && l.Dest == sloURL && now <= l.II+delay && l.Issuer != nil && *l.Issuer == cfg.IDPEntity && l.Status == cfg.Success
	orc := ""
	if strings.HasPrefix(impl, "panic") {
		kind := l.Kind
		if l.Issuer == nil {
			kind += "+no-issuer"
		}
		orc = "key=logout-panic:" + kind + " logout validation panicked: " + impl
	} else if valid != (impl == "ok") {
		orc = fmt.Sprintf("key=logout-verdict property reading says valid=%v, implementation returned %s", valid, impl)
	}
	c.count("c18-encoding", encoding)
	c.count("c18-kind", l.Kind+"/"+l.Sig)
	c.emit("logout", joinToks([]string{encStr(cfg.IDPEntity), encStr(sloURL), encInt(delay), encStr(cfg.Success), encInt(now)}, dtoks), impl, orc)
}

func (c *Ctx) genC18() {
	delay := int64(90000)
	encs := []string{"post", "redirect", "request-post", "request-redirect"}
	sigs := []string{"idp", "none", "attacker", "idp-then-edit", "moved", "two", "idp2"}
	base := func() lresp {
		return lresp{Dest: sloURL, II: time.Now().UnixMilli() - 1000, Issuer: sp(idpEntity), Status: successSt, Sig: "idp", Kind: "ok"}
	}
	// responses addressed elsewhere, delivered to a request target that equals their Destination (an absolute-form target naming
	// another SP; the bare path of the logout URL): the request target is the sender's choice and proves nothing
	for _, e := range []string{"request-post", "request-redirect"} {
		for _, tgt := range []string{"https://other-sp.example.com/saml/slo", "/saml/slo", "https://sp.example.com/saml/slo2"} {
			for _, dest := range []string{tgt, sloURL} {
				l := base()
				l.Dest = dest
				logoutRequestURL = tgt
				c.count("c18-request-target", map[bool]string{true: "target=destination", false: "target-other"}[dest == tgt])
				c.runLogout(l, e, delay)
				logoutRequestURL = ""
			}
		}
	}
	for _, e := range encs {
		for _, sg := range sigs {
			l := base()
			l.Sig = sg
			c.runLogout(l, e, delay)
		}
		for _, k := range []string{"garbage-b64", "garbage-xml", "noroot", "other-root", "xrv", "inflate-garbage"} {
			for _, sg := range []string{"idp", "none"} {
				l := base()
				l.Kind, l.Sig = k, sg
				c.runLogout(l, e, delay)
			}
		}
		// {correct, wrong, absent} x Destination, Issuer, Status, IssueInstant (guard band: the validator reads the wall clock)
		// (the SP's own other URLs are wrong destinations for a logout response too)
		dests := []string{sloURL, "https://evil.example.org/slo", "", sloURL + "/", strings.ToUpper(sloURL), baseCfg().Acs, baseCfg().MetadataURL, sloURL + "?x=1", strings.TrimSuffix(sloURL, "o")}
		issuers := []*string{sp(idpEntity), sp("https://evil.example.org/idp"), nil, sp(""), sp(idpEntity + "x"),
			// entity IDs are compared as strings: what a URL library would call "the same URL" is another issuer
			sp(idpEntity + "?x=1"), sp(idpEntity + "#frag"), sp(idpEntity + "/"), sp("https://IDP.example.com/saml/metadata"), sp("HTTPS://idp.example.com/saml/metadata"),
			sp("https://idp.example.com:443/saml/metadata"), sp("https://user@idp.example.com/saml/metadata"), sp("https://idp.example.com/saml/%6Detadata")}
		stats := []string{successSt, "urn:oasis:names:tc:SAML:2.0:status:Responder", "", successSt + "x"}
		iis := []int64{-1000, -(delay - 5000), -(delay + 5000), -3600000, 3600000, -(delay - 20000)}
		// single-dimension perturbations, always all of them (every other field correct)
		for _, d := range dests {
			l := base()
			l.Dest = d
			c.runLogout(l, e, delay)
		}
		for _, is := range issuers {
			l := base()
			l.Issuer = is
			c.runLogout(l, e, delay)
		}
		for _, st := range stats {
			l := base()
			l.Status = st
			c.runLogout(l, e, delay)
		}
		// the Issuer's optional Format attribute says nothing about who issued the message
		for _, format := range []string{"urn:oasis:names:tc:SAML:2.0:nameid-format:entity", "urn:oasis:names:tc:SAML:1.1:nameid-format:unspecified", "urn:oasis:names:tc:SAML:2.0:nameid-format:transient", "urn:example:custom-format"} {
			for _, is := range issuers {
				if is == nil {
					continue
				}
				l := base()
				l.Issuer, l.IssuerFormat = is, format
				c.count("c18-issuer-format", format[strings.LastIndex(format, ":")+1:])
				c.runLogout(l, e, delay)
			}
		}
		// nested status codes refine the top-level one and must not change the verdict
		responder := "urn:oasis:names:tc:SAML:2.0:status:Responder"
		for _, ns := range []struct {
			top  string
			nest []string
		}{{responder, []string{successSt}}, {responder, []string{"urn:oasis:names:tc:SAML:2.0:status:PartialLogout", successSt}}, {successSt, []string{responder}},
			{successSt, []string{successSt}}, {"", []string{successSt}}, {responder, []string{responder}}} {
			l := base()
			l.Status, l.Nested = ns.top, ns.nest
			c.count("c18-nested-status", ns.top[strings.LastIndex(ns.top, ":")+1:]+"/"+fmt.Sprint(len(ns.nest)))
			c.runLogout(l, e, delay)
		}
		for _, dl := range []int64{90000, 30000, 600000} {
			for _, ii := range []int64{-1000, -(dl - 5000), -(dl + 5000), -(dl + 60000), -(2*dl - 5000), -(2*dl + 5000), -3600000, 3600000, -(dl / 2)} {
				l := base()
				l.II = time.Now().UnixMilli() + ii
				c.runLogout(l, e, dl)
			}
		}
		// combinations, sampled in the quick tier
		for _, d := range dests {
			for _, is := range issuers {
				for _, st := range stats {
					for _, ii := range iis {
						if c.quick() && c.chance(0.7) {
							continue
						}
						l := base()
						l.Dest, l.Issuer, l.Status = d, is, st
						l.II = time.Now().UnixMilli() + ii
						if c.chance(0.15) {
							l.Sig = sigs[1+c.rng.Intn(len(sigs)-1)]
						}
						c.runLogout(l, e, delay)
					}
				}
			}
		}
	}
	// one ServiceProvider value across an IdP key rotation: each response is judged against the certificates the
	// metadata names at that moment (retired key refused, current key accepted)
	logoutShared = c.realSP(baseCfg())
	for round, trust := range [][]string{{"idp"}, {"idp2"}, {"idp"}, {"idp", "idp2"}, {"idp2"}, {"attacker"}, {"idp"}} {
		logoutTrust = trust
		for _, sg := range []string{"idp", "idp2", "attacker", "none"} {
			for _, e := range encs {
				l := base()
				l.Sig = sg
				c.count("c18-rotation-round", fmt.Sprint(round))
				c.runLogout(l, e, delay)
			}
		}
	}
	logoutShared, logoutTrust = nil, nil
	// certificate lists in KeyInfo, under metadata trust and under fingerprint pinning: only the certificate that verifies
	// the signature counts, and it has to be the trusted / pinned one
	for _, fpMode := range []bool{false, true} {
		logoutFingerprint = fpMode
		for _, sg := range []string{"idp", "attacker", "none", "attacker+idpcert", "idp+attackercert", "idp2", "idp-then-edit"} {
			for _, e := range encs {
				l := base()
				l.Sig = sg
				c.count("c18-keyinfo-certificates", fmt.Sprintf("fingerprint=%v/%s", fpMode, sg))
				c.runLogout(l, e, delay)
			}
		}
	}
	logoutFingerprint = false
	// unusable pins: nothing is trusted, whoever signed
	for _, pin := range []string{"fp", "alg", "fp+cert", "alg+cert", "fp+alg+cert"} {
		logoutPartialPin = pin
		for _, sg := range []string{"idp", "idp2", "attacker", "none", "idp+attackercert"} {
			for _, e := range encs {
				l := base()
				l.Sig = sg
				c.count("c18-partial-pin", pin+"/"+sg)
				c.runLogout(l, e, delay)
			}
		}
	}
	logoutPartialPin = ""
	// signatures without KeyInfo, and trusted certificates that are all outside their validity period (judged at a far-away
	// instant): an expired or not-yet-valid certificate verifies nothing, whoever signed and whatever the KeyInfo says
	for _, trust := range [][]string{{"idp"}, {"idp", "idp2"}} {
		logoutTrust = trust
		for _, when := range []*time.Time{nil, tp(time.Date(2190, 1, 1, 0, 0, 0, 0, time.UTC)), tp(time.Date(1990, 1, 1, 0, 0, 0, 0, time.UTC))} {
			logoutCertClock = when
			for _, sg := range []string{"idp", "idp-nokeyinfo", "attacker", "attacker-nokeyinfo", "none"} {
				for _, e := range encs {
					l := base()
					l.Sig = sg
					c.count("c18-certificate-validity", fmt.Sprintf("trust=%d clock=%v sig=%s", len(trust), when != nil, sg))
					c.runLogout(l, e, delay)
				}
			}
		}
	}
	logoutCertClock, logoutTrust = nil, nil
	// IdP entity IDs that are not plain https URLs: URNs, identifiers distinguished by their query or fragment only
	for _, pair := range [][2]string{{"urn:example:idp:one", "urn:example:idp:two"}, {"urn:example:idp:one", "urn:example:idp:one"},
		{"https://accounts.example.com/o/saml2?idpid=C01", "https://accounts.example.com/o/saml2?idpid=C02"}, {"https://accounts.example.com/o/saml2?idpid=C01", "https://accounts.example.com/o/saml2"},
		{"https://idp.example.com/md#a", "https://idp.example.com/md#b"}, {"https://accounts.example.com/o/saml2?idpid=C01", "https://accounts.example.com/o/saml2?idpid=C01"}} {
		logoutIDPEntity = pair[0]
		for _, e := range encs {
			l := base()
			l.Issuer = sp(pair[1])
			c.count("c18-entity-id-shape", map[bool]string{true: "same", false: "other"}[pair[0] == pair[1]])
			c.runLogout(l, e, delay)
		}
	}
	logoutIDPEntity = ""
	_ = etree.NewDocument
}
