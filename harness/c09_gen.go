package main

// C09: consuming APIs are total. Part 1: schema-valid responses with every subset of optional
// elements removed and a valid IdP signature re-applied (struct-level model `spstruct`).

import (
	"fmt"
	"strings"
)

func init() { gens["C09"] = (*Ctx).genC09 }

func panicOracle(impl string, where string) string {
	if strings.HasPrefix(impl, "panic") {
		return "key=panic:" + where + " the consuming API panicked: " + impl
	}
	for _, bad := range []string{"ok-nil", "err-untyped", "err-with-assertion", "err-message"} {
		if strings.HasPrefix(impl, bad) {
			return "key=error-shape:" + where + " " + impl
		}
	}
	return ""
}

func (c *Ctx) genC09() {
	now := ms(baseTime)
	// subsets of {response issuer, assertion issuer, subject, confirmation data, conditions, audiences, destination, inResponseTo}
	for mask := 0; mask < 256; mask++ {
		for _, layout := range []string{"assn-signed", "resp-signed", "both", "encrypted"} {
			cfg := baseCfg()
			r := baseResp(cfg, now)
			a := &r.Entries[0]
			var removed []string
			if mask&1 != 0 {
				r.Issuer = nil
				removed = append(removed, "RespIssuer")
			}
			if mask&2 != 0 {
				a.Issuer = nil
				removed = append(removed, "AssnIssuer")
			}
			if mask&4 != 0 {
				a.Subject = nil
				removed = append(removed, "Subject")
			}
			if mask&8 != 0 && a.Subject != nil {
				(*a.Subject)[0].Data = nil
				removed = append(removed, "SubjectConfirmationData")
			}
			if mask&16 != 0 {
				a.Cond = nil
				removed = append(removed, "Conditions")
			}
			if mask&32 != 0 && a.Cond != nil {
				a.Cond.Auds = nil
				removed = append(removed, "AudienceRestriction")
			}
			if mask&64 != 0 {
				r.Dest = ""
				removed = append(removed, "Destination")
			}
			if mask&128 != 0 {
				r.IRT = ""
				removed = append(removed, "InResponseTo")
			}
			switch layout {
			case "resp-signed":
				r.Sig, a.Sig = "idp", "none"
			case "both":
				r.Sig = "idp"
			case "encrypted":
				a.Wrap = "e"
			}
			ids := []string{"id-req1"}
			if mask&128 != 0 {
				ids = []string{"id-req1", ""}
			}
			k := spCase{cfg: cfg, now: now, ids: ids, url: cfg.Acs, r: r, lex: 0, entry: "xml"}
			id := c.runSP(k)
			_ = id
			c.count("c09-removed", fmt.Sprint(len(removed)))
		}
	}
}
