package main

// C09: consuming APIs are total. Part 1: schema-valid responses with every subset of optional
// elements removed and a valid IdP signature re-applied (struct-level model `spstruct`).

import (
	"context"
	"bytes"
	"crypto/sha256"
	"encoding/base64"
	"encoding/xml"
	"errors"
	"fmt"
	"io"
	"net/http"
	"net/http/httptest"
	"net/url"
	"os"
	"path/filepath"
	"runtime"
	"strings"
	"time"

	"github.com/beevik/etree"
	"github.com/crewjam/saml"
	"github.com/crewjam/saml/logger"
	"github.com/crewjam/saml/samlidp"
	"github.com/crewjam/saml/samlsp"
)

func init() { gens["C09"] = (*Ctx).genC09 }

func panicOracle(impl string, where string) string {
	if impl == "timeout" {
		// "never hangs": the call was abandoned after its time limit
		return "key=hang:" + where + " the call did not return within its time limit"
	}
	if strings.HasPrefix(impl, "panic") {
		return "key=panic:" + where + " the consuming API panicked: " + impl
	}
	for _, bad := range []string{"ok-nil", "err-untyped", "err-with-assertion", "err-message"} {
		if strings.HasPrefix(impl, bad) {
			return "key=error-shape:" + where + " " + impl
		}
	}
	return ""
}

func (c *Ctx) genC09() {
	now := ms(baseTime)
	// subsets of {response issuer, assertion issuer, subject, confirmation data, conditions, audiences, destination, inResponseTo}
	for mask := 0; mask < 256; mask++ {
		for _, layout := range []string{"assn-signed", "resp-signed", "both", "encrypted"} {
			cfg := baseCfg()
			r := baseResp(cfg, now)
			a := &r.Entries[0]
			var removed []string
			if mask&1 != 0 {
				r.Issuer = nil
				removed = append(removed, "RespIssuer")
			}
			if mask&2 != 0 {
				a.Issuer = nil
				removed = append(removed, "AssnIssuer")
			}
			if mask&4 != 0 {
				a.Subject = nil
				removed = append(removed, "Subject")
			}
			if mask&8 != 0 && a.Subject != nil {
				(*a.Subject)[0].Data = nil
				removed = append(removed, "SubjectConfirmationData")
			}
			if mask&16 != 0 {
				a.Cond = nil
				removed = append(removed, "Conditions")
			}
			if mask&32 != 0 && a.Cond != nil {
				a.Cond.Auds = nil
				removed = append(removed, "AudienceRestriction")
			}
			if mask&64 != 0 {
				r.Dest = ""
				removed = append(removed, "Destination")
			}
			if mask&128 != 0 {
				r.IRT = ""
				removed = append(removed, "InResponseTo")
			}
			switch layout {
			case "resp-signed":
				r.Sig, a.Sig = "idp", "none"
			case "both":
				r.Sig = "idp"
			case "encrypted":
				a.Wrap = "e"
			}
			ids := []string{"id-req1"}
			if mask&128 != 0 {
				ids = []string{"id-req1", ""}
			}
			k := spCase{cfg: cfg, now: now, ids: ids, url: cfg.Acs, r: r, lex: 0, entry: "xml"}
			id := c.runSP(k)
			_ = id
			c.count("c09-removed", fmt.Sprint(len(removed)))
		}
	}
	// ciphertexts that do not yield an assertion element: undecryptable in six ways, or decryptable to a plaintext
	// without any element — under a signed and an unsigned Response, through both entry points
	for _, wrap := range []string{"b", "b-empty", "b-blank", "b-ivonly", "b-truncated", "b-flipped", "b-nokey", "b-noroot-empty", "b-noroot-space", "b-noroot-comment", "b-noroot-pi", "b-key-empty", "b-key-truncated"} {
		for _, rsig := range []string{"none", "idp"} {
			for _, entry := range []string{"xml", "post"} {
				cfg := baseCfg()
				r := baseResp(cfg, now)
				r.Sig = rsig
				r.Entries[0].Wrap = wrap
				c.count("c09-no-assertion-ciphertext", wrap)
				c.runSP(spCase{cfg: cfg, now: now, ids: []string{"id-req1"}, url: cfg.Acs, r: r, lex: 0, entry: entry})
			}
		}
	}
	// well-formed, validly encrypted assertions that omit the optional DigestMethod (rsa-oaep-mgf1p on its default digest) or use
	// rsa-1_5 key transport, which has none: accepted like any other (signed / unsigned Response, both entry points)
	for _, wrap := range []string{"e", "e-nodigest", "e-pkcs15"} {
		for _, rsig := range []string{"none", "idp"} {
			for _, entry := range []string{"xml", "post"} {
				cfg := baseCfg()
				r := baseResp(cfg, now)
				r.Sig = rsig
				r.Entries[0].Wrap = wrap
				c.count("c09-encrypted-key-shape", wrap)
				c.runSP(spCase{cfg: cfg, now: now, ids: []string{"id-req1"}, url: cfg.Acs, r: r, lex: 0, entry: entry})
			}
		}
	}
	// a Response whose only assertion-like children are not SAML assertions (foreign, empty or protocol namespace), or that has
	// none at all: nothing to return, so an error — never (nil, nil)
	for _, foreign := range [][]string{{}, {"assn-defaultns"}, {"assn-prefixed"}, {"assn-emptyns"}, {"enc-defaultns"}, {"enc-prefixed"}, {"assn-protocolns"}, {"assn-defaultns", "enc-defaultns"}} {
		for _, rsig := range []string{"none", "idp"} {
			for _, entry := range []string{"xml", "post"} {
				cfg := baseCfg()
				r := baseResp(cfg, now)
				r.Sig = rsig
				r.Entries = nil
				r.Foreign = foreign
				c.count("c09-no-saml-assertion", strings.Join(foreign, "+"))
				c.runSP(spCase{cfg: cfg, now: now, ids: []string{"id-req1"}, url: cfg.Acs, r: r, lex: 0, entry: entry})
			}
		}
	}
	// one 3DES block whose padding byte is out of range for its 8-byte block, and a correctly encrypted assertion delivered
	// to an SP whose own key is not RSA (or is absent): nothing to decrypt with — an error, never a panic
	for _, rsig := range []string{"none", "idp"} {
		for _, entry := range []string{"xml", "post"} {
			for _, wrap := range []string{"b-3des-pad00", "b-3des-pad08", "b-3des-pad09", "b-3des-pad10", "b-3des-pad12", "b-3des-pad16"} {
				cfg := baseCfg()
				r := baseResp(cfg, now)
				r.Sig = rsig
				r.Entries[0].Wrap = wrap
				c.count("c09-no-assertion-ciphertext", wrap)
				c.runSP(spCase{cfg: cfg, now: now, ids: []string{"id-req1"}, url: cfg.Acs, r: r, lex: 0, entry: entry})
			}
			for _, spKey := range []string{"ec", "none"} {
				cfg := baseCfg()
				r := baseResp(cfg, now)
				r.Sig = rsig
				r.Entries[0].Wrap = "b-spkey"
				c.count("c09-no-assertion-ciphertext", "sp-key-"+spKey)
				c.runSP(spCase{cfg: cfg, now: now, ids: []string{"id-req1"}, url: cfg.Acs, r: r, lex: 0, entry: entry, spKey: spKey})
			}
		}
	}
	c.c09Fuzz()
	c.c09Bombs()
	c.c09Metadata()
	c.c09Fingerprint()
	c.c09Resolver()
	c.c09KeyDescriptors()
	// artifact resolution over HTTP that *succeeds* while the transport misbehaves at the very end (the reply body reads to EOF,
	// then fails to close): still a result or an error, the assertion nil exactly when the error is not
	artifactCloseFail = true
	for _, asig := range []string{"idp", "none"} {
		for _, rsig := range []string{"idp", "none"} {
			cfg := baseCfg()
			r := baseResp(cfg, now)
			r.Sig = rsig
			k := artCase{cfg: cfg, now: now, ids: []string{"id-req1"}, irtMode: "match", ii: now - 500, issuer: sp(cfg.IDPEntity), status: cfg.Success, sig: asig, resp: &r, respCount: 1}
			c.count("c09-artifact-close-fails", asig+"/"+rsig)
			c.runArtifact(k, true)
		}
	}
	artifactCloseFail = false
}

// withTimeout runs f and reports a hang
func withTimeout(f func() string, d time.Duration) string {
	ch := make(chan string, 1)
	go func() { ch <- safely(f) }()
	select {
	case r := <-ch:
		return r
	case <-time.After(d):
		return "timeout"
	}
}

func (c *Ctx) mutate(b []byte) []byte {
	out := append([]byte{}, b...)
	for k := 1 + c.rng.Intn(4); k > 0 && len(out) > 0; k-- {
		p := c.rng.Intn(len(out))
		switch c.rng.Intn(8) {
		case 0:
			out[p] ^= 1 << uint(c.rng.Intn(8))
		case 1:
			q := p + 1 + c.rng.Intn(40)
			if q > len(out) {
				q = len(out)
			}
			out = append(out[:p], out[q:]...)
		case 2:
			q := c.rng.Intn(len(out))
			if q < p {
				p, q = q, p
			}
			out = append(out[:q], append(append([]byte{}, out[p:q]...), out[q:]...)...)
		case 3:
			out = out[:p]
		case 4:
			tok := []string{"<", ">", "</", "/>", "\"", "'", "&", "&#x0;", "<!--", "-->", "<![CDATA[", "]]>", "<?xml?>", "<!DOCTYPE x [<!ENTITY a \"b\">]>", "xmlns:x=\"y\"", "\x00", "=", ":", " "}[c.rng.Intn(19)]
			out = append(out[:p], append([]byte(tok), out[p:]...)...)
		case 5:
			out[p] = byte(c.rng.Intn(256))
		case 6: // drop a whole element-looking span
			if j := bytes.IndexByte(out[p:], '>'); j >= 0 {
				if i := bytes.LastIndexByte(out[:p+1], '<'); i >= 0 {
					out = append(out[:i], out[p+j+1:]...)
				}
			}
		default: // duplicate an element-looking span
			if j := bytes.IndexByte(out[p:], '>'); j >= 0 {
				if i := bytes.LastIndexByte(out[:p+1], '<'); i >= 0 {
					span := append([]byte{}, out[i:p+j+1]...)
					out = append(out[:p+j+1], append(span, out[p+j+1:]...)...)
				}
			}
		}
	}
	return out
}

func readFixture(name string) []byte {
	repo := os.Getenv("VERIF_REPO")
	if repo == "" {
		repo = "/repo"
	}
	b, err := os.ReadFile(filepath.Join(repo, name))
	if err != nil {
		return nil
	}
	return b
}

func (c *Ctx) c09Fuzz() {
	n := 400
	if !c.quick() {
		n = 20000
	}
	now := baseTime
	saml.TimeNow = func() time.Time { return now }
	responses := []string{"testdata/SP_SamlResponse", "testdata/TestSPCanHandleOneloginResponse_response", "testdata/TestSPCanHandlePlaintextResponse_response",
		"testdata/TestSPCanHandleOktaResponseEncryptedSignedAssertion_response", "testdata/TestXswPermutationOneIsRejected_response", "testdata/TestSPMultipleAssertions",
		"testdata/TestSPRejectsInjectedComment_response", "testdata/TestSPRealWorldKeyInfoHasRSAPublicKeyNotX509Cert_response"}
	metas := []string{"testdata/SP_IDPMetadata", "testdata/TestCanParseMetadata_metadata.xml", "samlsp/testdata/testshib_metadata.xml", "samlidp/testdata/sp_metadata.xml", "samlsp/testdata/idp_metadata.xml"}
	requests := []string{"testdata/idp_authn_request.xml", "testdata/TestIDPCanHandleRequestWithExistingSession_decodedRequest", "testdata/TestIDPMakeResponse_request_buffer"}
	artifacts := []string{"testdata/TestParseXMLArtifactResponse_response"}
	cfg := baseCfg()
	s := c.realSP(cfg)
	setGlobals(cfg, ms(now))
	idp := c.newIDP(registry{})
	srv, _ := samlidp.New(samlidp.Options{URL: mustURL(idpRoot), Key: c.key("idp").Key, Certificate: c.key("idp").Cert, Store: &samlidp.MemoryStore{}, Logger: logger.DefaultLogger})
	decode := func(b []byte) []byte {
		if d, err := base64.StdEncoding.DecodeString(strings.TrimSpace(string(b))); err == nil && len(d) > 0 {
			return d
		}
		return b
	}
	type target struct {
		name string
		pool []string
		run  func(b []byte) string
	}
	targets := []target{
		{"ParseXMLResponse", responses, func(b []byte) string { return canonParse(s.ParseXMLResponse(b, []string{"id-req1"}, mustURL(acsURL))) }},
		{"ParseResponse/POST", responses, func(b []byte) string {
			req, _ := http.NewRequest("POST", acsURL, nil)
			req.PostForm = url.Values{"SAMLResponse": {base64.StdEncoding.EncodeToString(b)}}
			req.Form = req.PostForm
			return canonParse(s.ParseResponse(req, []string{"id-req1"}))
		}},
		{"ParseXMLArtifactResponse", append(artifacts, responses[:2]...), func(b []byte) string {
			return canonParse(s.ParseXMLArtifactResponse(b, []string{"id-req1"}, "id-resolve", mustURL(acsURL)))
		}},
		{"ValidateLogoutResponseForm", responses, func(b []byte) string {
			if err := s.ValidateLogoutResponseForm(base64.StdEncoding.EncodeToString(b)); err != nil {
				return "err"
			}
			return "ok"
		}},
		{"ValidateLogoutResponseRedirect", responses, func(b []byte) string {
			if err := s.ValidateLogoutResponseRedirect(base64.StdEncoding.EncodeToString(deflate(b))); err != nil {
				return "err"
			}
			return "ok"
		}},
		{"NewIdpAuthnRequest+Validate", requests, func(b []byte) string {
			q := url.Values{"SAMLRequest": {base64.StdEncoding.EncodeToString(deflate(b))}}
			r, _ := http.NewRequest("GET", idpSSOURL+"?"+q.Encode(), nil)
			req, err := saml.NewIdpAuthnRequest(idp, r)
			if err != nil {
				return "err"
			}
			if err := req.Validate(); err != nil {
				return "err"
			}
			return "ok"
		}},
		{"samlsp.ParseMetadata", metas, func(b []byte) string {
			if _, err := samlsp.ParseMetadata(b); err != nil {
				return "err"
			}
			return "ok"
		}},
		{"samlidp PUT /services", metas, func(b []byte) string {
			rec := httptest.NewRecorder()
			r := httptest.NewRequest("PUT", "/services/x", bytes.NewReader(b))
			srv.ServeHTTP(rec, r)
			return fmt.Sprint(rec.Code)
		}},
	}
	for _, t := range targets {
		for i := 0; i < n; i++ {
			raw := readFixture(t.pool[c.rng.Intn(len(t.pool))])
			if raw == nil {
				continue
			}
			in := decode(raw)
			if i > 0 { // i == 0: the unmutated fixture
				in = c.mutate(in)
			}
			res := withTimeout(func() string { return t.run(in) }, 10*time.Second)
			orc := panicOracle(res, t.name)
			if res == "timeout" {
				orc = "key=hang:" + t.name + " the call did not return within 10 s"
			}
			c.count("c09-fuzz-target", t.name)
			c.count("c09-fuzz-result:"+t.name, strings.SplitN(res, " ", 2)[0])
			if orc != "" {
				c.emitOneWay("fuzz", []string{encStr(t.name), encBytes(in)}, res, orc)
			}
		}
		c.emitOneWay("fuzz", []string{encStr(t.name)}, "done", "")
	}
}

// c09Metadata: metadata documents assembled from parts — aggregates (EntitiesDescriptor, possibly nested) and single entities with
// every subset of their optional attributes (good and malformed values) and optional children — through every metadata-consuming entry point.
func (c *Ctx) c09Metadata() {
	srv, err := samlidp.New(samlidp.Options{URL: mustURL("https://idp.example.com"), Key: c.key("idp").Key, Certificate: c.key("idp").Cert, Store: &samlidp.MemoryStore{}, Logger: logger.DefaultLogger})
	must(err)
	attrVals := map[string][]string{
		"validUntil":    {"2030-01-01T00:00:00Z", "2030-01-01T00:00:00.123Z", "not-a-time", ""},
		"cacheDuration": {"PT1H", "P1D", "PT0.5S", "nonsense", ""},
		"ID":            {"_abc", ""},
		"Name":          {"urn:federation", ""},
		"entityID":      {"https://sp.example.com/metadata", ""},
	}
	optAttrs := func(names []string, mask int, variant int) string {
		out := ""
		for i, n := range names {
			if mask&(1<<uint(i)) != 0 {
				vs := attrVals[n]
				v := vs[0]
				if variant > 0 {
					v = vs[(variant+i)%len(vs)]
				}
				out += fmt.Sprintf(` %s="%s"`, n, v)
			}
		}
		return out
	}
	cert := base64.StdEncoding.EncodeToString(c.key("sp").Cert.Raw)
	roles := []string{
		``,
		`<SPSSODescriptor protocolSupportEnumeration="urn:oasis:names:tc:SAML:2.0:protocol"><AssertionConsumerService Binding="urn:oasis:names:tc:SAML:2.0:bindings:HTTP-POST" Location="https://sp.example.com/acs" index="1"/></SPSSODescriptor>`,
		`<SPSSODescriptor protocolSupportEnumeration="urn:oasis:names:tc:SAML:2.0:protocol" validUntil="2030-01-01T00:00:00Z"><KeyDescriptor use="encryption"><KeyInfo xmlns="http://www.w3.org/2000/09/xmldsig#"><X509Data><X509Certificate>` + cert + `</X509Certificate></X509Data></KeyInfo></KeyDescriptor><AssertionConsumerService Binding="urn:oasis:names:tc:SAML:2.0:bindings:HTTP-POST" Location="https://sp.example.com/acs" index="1"/></SPSSODescriptor>`,
		`<IDPSSODescriptor protocolSupportEnumeration="urn:oasis:names:tc:SAML:2.0:protocol" cacheDuration="PT1H"><KeyDescriptor><KeyInfo xmlns="http://www.w3.org/2000/09/xmldsig#"></KeyInfo></KeyDescriptor><SingleSignOnService Binding="urn:oasis:names:tc:SAML:2.0:bindings:HTTP-Redirect" Location="https://idp.example.com/sso"/></IDPSSODescriptor>`,
		`<SPSSODescriptor><AssertionConsumerService/></SPSSODescriptor><Organization/><ContactPerson/>`,
	}
	const ns = ` xmlns="urn:oasis:names:tc:SAML:2.0:metadata"`
	entity := func(mask, variant, role int) string {
		return `<EntityDescriptor` + ns + optAttrs([]string{"entityID", "validUntil", "cacheDuration", "ID"}, mask, variant) + `>` + roles[role%len(roles)] + `</EntityDescriptor>`
	}
	var docs []string
	for mask := 0; mask < 16; mask++ {
		for variant := 0; variant < 4; variant++ {
			for role := range roles {
				docs = append(docs, entity(mask, variant, role))
			}
			// aggregates: the same attribute subsets on EntitiesDescriptor, flat and nested
			a := optAttrs([]string{"validUntil", "cacheDuration", "ID", "Name"}, mask, variant)
			inner := entity(15, 0, 1)
			docs = append(docs, `<EntitiesDescriptor`+ns+a+`>`+inner+`</EntitiesDescriptor>`)
			docs = append(docs, `<EntitiesDescriptor`+ns+a+`></EntitiesDescriptor>`)
			docs = append(docs, `<EntitiesDescriptor`+ns+`><EntitiesDescriptor`+a+`>`+inner+`</EntitiesDescriptor>`+entity(mask, variant, 2)+`</EntitiesDescriptor>`)
		}
	}
	type entry struct {
		name string
		run  func([]byte) string
	}
	entries := []entry{
		{"samlsp.ParseMetadata", func(b []byte) string {
			if _, err := samlsp.ParseMetadata(b); err != nil {
				return "err"
			}
			return "ok"
		}},
		{"xml.Unmarshal(EntitiesDescriptor)", func(b []byte) string {
			var v saml.EntitiesDescriptor
			if err := xml.Unmarshal(b, &v); err != nil {
				return "err"
			}
			return "ok"
		}},
		{"xml.Unmarshal(EntityDescriptor)", func(b []byte) string {
			var v saml.EntityDescriptor
			if err := xml.Unmarshal(b, &v); err != nil {
				return "err"
			}
			return "ok"
		}},
		{"samlidp PUT /services", func(b []byte) string {
			rec := httptest.NewRecorder()
			srv.ServeHTTP(rec, httptest.NewRequest("PUT", "/services/x", bytes.NewReader(b)))
			return fmt.Sprint(rec.Code)
		}},
	}
	hangs := 0
	for _, d := range docs {
		for _, e := range entries {
			if hangs >= 3 {
				continue // (each abandoned call keeps spinning in its goroutine: three reports are enough)
			}
			res := withTimeout(func() string { return safely(func() string { return e.run([]byte(d)) }) }, 10*time.Second)
			if res == "timeout" {
				hangs++
			}
			orc := panicOracle(res, e.name)
			c.count("c09-metadata:"+e.name, strings.SplitN(res, " ", 2)[0])
			c.units++
			if orc != "" {
				c.emitOneWay("fuzz", []string{encStr(e.name), encBytes([]byte(d))}, res, orc)
			}
		}
	}
	c.emitOneWay("fuzz", []string{encStr("metadata-parts")}, "done", "")
}

// c09Fingerprint: the certificate-fingerprint configuration reads the certificate out of the message before any signature check;
// every shape of that element (absent, empty, comment inside, element inside, two text nodes, garbage) must end in an error, on every
// entry point that validates a signature.
func (c *Ctx) c09Fingerprint() {
	cfg := baseCfg()
	now := ms(baseTime)
	trust := "fingerprint"
	mkSP := func() *saml.ServiceProvider {
		s := c.realSP(cfg)
		if trust != "fingerprint" {
			// IdP metadata whose signing certificates are (partly) placeholders: empty or blank X509Certificate elements
			idpCert := base64.StdEncoding.EncodeToString(c.key("idp").Cert.Raw)
			certs := map[string][]string{"md-empty": {""}, "md-blank": {" \n\t"}, "md-two-empty": {"", ""}, "md-empty+idp": {"", idpCert}, "md-idp+empty": {idpCert, " "}}[trust]
			kd := saml.KeyDescriptor{Use: "signing"}
			for _, cs := range certs {
				kd.KeyInfo.X509Data.X509Certificates = append(kd.KeyInfo.X509Data.X509Certificates, saml.X509Certificate{Data: cs})
			}
			s.IDPMetadata.IDPSSODescriptors[0].KeyDescriptors = []saml.KeyDescriptor{kd}
			return s
		}
		s.IDPMetadata.IDPSSODescriptors[0].KeyDescriptors = nil
		sum := sha256.Sum256(c.key("idp").Cert.Raw)
		var parts []string
		for _, b := range sum {
			parts = append(parts, fmt.Sprintf("%02X", b))
		}
		fp, alg := strings.Join(parts, ":"), "http://www.w3.org/2001/04/xmlenc#sha256"
		s.IDPCertificateFingerprint, s.IDPCertificateFingerprintAlgorithm = &fp, &alg
		return s
	}
	shapes := []string{"intact", "empty", "comment-only", "text+comment", "element-inside", "garbage", "no-x509data", "no-keyinfo", "two-certificates", "foreign-namespace-signature-first"}
	b := &builder{c: c, spCert: c.key("sp").Cert, badCert: c.key("sp2").Cert}
	for _, trust = range []string{"fingerprint", "md-empty", "md-blank", "md-two-empty", "md-empty+idp", "md-idp+empty"} {
	for _, layout := range []string{"resp-signed", "assn-signed"} {
		for _, shape := range shapes {
			r := baseResp(cfg, now)
			if layout == "resp-signed" {
				r.Sig, r.Entries[0].Sig = "idp", "none"
			}
			el := b.responseEl(r).Copy() // Copy re-parents the appended Signature
			for _, x := range el.FindElements(".//X509Certificate") {
				switch shape {
				case "empty":
					for len(x.Child) > 0 {
						x.RemoveChildAt(0)
					}
				case "comment-only":
					for len(x.Child) > 0 {
						x.RemoveChildAt(0)
					}
					x.AddChild(etree.NewComment("c"))
				case "text+comment":
					x.AddChild(etree.NewComment("c"))
				case "element-inside":
					t := x.Text()
					for len(x.Child) > 0 {
						x.RemoveChildAt(0)
					}
					x.CreateElement("ds:X").SetText(t)
				case "garbage":
					x.SetText("!!!")
				case "no-x509data":
					x.Parent().Parent().RemoveChild(x.Parent())
				case "no-keyinfo":
					ki := x.Parent().Parent()
					ki.Parent().RemoveChild(ki)
				case "two-certificates":
					x.Parent().AddChild(x.Copy())
				case "foreign-namespace-signature-first":
					e := etree.NewElement("evil:Signature")
					e.CreateAttr("xmlns:evil", "urn:evil")
					e.CreateElement("evil:KeyInfo").CreateElement("evil:X509Data").CreateElement("evil:X509Certificate")
					sig := x.Parent().Parent().Parent()
					sig.Parent().InsertChildAt(0, e)
				}
				break
			}
			xmlb := elBytes(el)
			setGlobals(cfg, now)
			s := mkSP()
			res := withTimeout(func() string {
				return safely(func() string { return canonParse(s.ParseXMLResponse(xmlb, []string{"id-req1"}, mustURL(cfg.Acs))) })
			}, 10*time.Second)
			orc := panicOracle(res, "ParseXMLResponse/"+trust)
			c.count("c09-"+trust, layout+"/"+shape+"/"+strings.SplitN(res, " ", 2)[0])
			c.units++
			c.emitOneWay("fuzz", []string{encStr("ParseXMLResponse/" + trust + ":" + layout + "/" + shape)}, strings.SplitN(res, " ", 2)[0], orc)
		}
	}
	}
}

func (c *Ctx) c09Bombs() {
	idp := c.newIDP(registry{})
	cfg := baseCfg()
	s := c.realSP(cfg)
	limit := 10 * 1024 * 1024
	for _, size := range []int{1 << 10, 1 << 20, limit - 100000, limit, limit + 1, limit + 100000, 100 << 20} {
		pad := bytes.Repeat([]byte("A"), size)
		payload := base64.StdEncoding.EncodeToString(deflate(append([]byte("<x>"), append(pad, []byte("</x>")...)...)))
		for _, entry := range []string{"NewIdpAuthnRequest", "ValidateLogoutResponseRedirect", "NewIdpAuthnRequest/POST", "ValidateLogoutResponseForm"} {
			var m0, m1 runtime.MemStats
			held := 0
			runtime.GC()
			runtime.ReadMemStats(&m0)
			res := withTimeout(func() string {
				if entry == "NewIdpAuthnRequest" {
					r, _ := http.NewRequest("GET", idpSSOURL+"?"+url.Values{"SAMLRequest": {payload}}.Encode(), nil)
					if _, err := saml.NewIdpAuthnRequest(idp, r); err != nil {
						return "err"
					}
					return "ok"
				}
				if entry == "NewIdpAuthnRequest/POST" {
					// the POST binding carries the message base64-encoded, not deflated: a deflated payload is not a message, and
					// whatever the IdP makes of it, it must not end up holding more than the limit
					r, _ := http.NewRequest("POST", idpSSOURL, strings.NewReader(url.Values{"SAMLRequest": {payload}}.Encode()))
					r.Header.Set("Content-Type", "application/x-www-form-urlencoded")
					req, err := saml.NewIdpAuthnRequest(idp, r)
					if err != nil {
						return "err"
					}
					held = len(req.RequestBuffer)
					if req.Validate() != nil {
						return "err"
					}
					return "ok"
				}
				if entry == "ValidateLogoutResponseForm" {
					if err := s.ValidateLogoutResponseForm(payload); err != nil {
						return "err"
					}
					return "ok"
				}
				if err := s.ValidateLogoutResponseRedirect(payload); err != nil {
					if strings.Contains(err.Error(), "uncompress limit") {
						return "err-limit"
					}
					return "err"
				}
				return "ok"
			}, 60*time.Second)
			runtime.ReadMemStats(&m1)
			grown := int64(m1.TotalAlloc-m0.TotalAlloc) >> 20
			orc := panicOracle(res, entry)
			if size+7 > limit && res == "ok" {
				orc = fmt.Sprintf("key=inflate-bound:%s an input inflating to %d bytes (> 10 MB) was accepted", entry, size+7)
			}
			if grown > 400 {
				orc = fmt.Sprintf("key=inflate-alloc:%s %d MB allocated while handling a %d-byte (inflated) input", entry, grown, size)
			}
			if held > limit {
				orc = fmt.Sprintf("key=inflate-bound:%s the request buffer holds %d bytes (> 10 MB) inflated from a %d-byte payload", entry, held, len(payload))
			}
			c.count("c09-bomb", fmt.Sprintf("%s/%dMB/%s", entry, size>>20, res))
			c.emitOneWay("bomb", []string{encStr(entry), fmt.Sprint(size)}, res, orc)
		}
	}
}

type faultRT struct {
	mode string
	clen int64
}

type errReader struct{ n int }

func (e *errReader) Read(p []byte) (int, error) {
	if e.n <= 0 {
		return 0, errors.New("connection reset by peer")
	}
	e.n--
	copy(p, "<soap")
	return 5, nil
}

// stallReader: a body that delivers a few bytes and then blocks until the exchange is abandoned
type stallReader struct {
	ctx context.Context
	n   int
}

func (e *stallReader) Read(p []byte) (int, error) {
	if e.n <= 0 {
		<-e.ctx.Done()
		return 0, e.ctx.Err()
	}
	e.n--
	copy(p, "<soap")
	return 5, nil
}

// ctxErrReader: a body whose read fails with a context error after a few bytes
type ctxErrReader struct {
	n   int
	err error
}

func (e *ctxErrReader) Read(p []byte) (int, error) {
	if e.n <= 0 {
		return 0, e.err
	}
	e.n--
	copy(p, "<soap")
	return 5, nil
}

func (f faultRT) RoundTrip(req *http.Request) (*http.Response, error) {
	mk := func(code int, body io.Reader) *http.Response {
		// how the transport framed the body: Content-Length unknown (chunked / close-delimited: -1), absent from a hand-made
		// response (0), smaller than the body, or absurdly large
		return &http.Response{StatusCode: code, Status: fmt.Sprint(code), Body: io.NopCloser(body), Header: http.Header{}, Request: req, ContentLength: f.clen}
	}
	switch f.mode {
	case "conn-error":
		return nil, errors.New("dial tcp: connection refused")
	case "deadline-error":
		// what net/http reports when the request context's deadline passes while the exchange is in flight
		return nil, context.DeadlineExceeded
	case "cancel-error":
		return nil, context.Canceled
	case "stall-headers":
		// the resolver never answers: only the client's Timeout (or the request context) ends the exchange
		<-req.Context().Done()
		return nil, req.Context().Err()
	case "stall-body":
		return mk(200, &stallReader{ctx: req.Context(), n: 2}), nil
	case "deadline-body":
		return mk(200, &ctxErrReader{n: 2, err: context.DeadlineExceeded}), nil
	case "cancel-body":
		return mk(200, &ctxErrReader{n: 2, err: context.Canceled}), nil
	case "500":
		return mk(500, strings.NewReader("oops")), nil
	case "404-html":
		return mk(404, strings.NewReader("<html>not found</html>")), nil
	case "truncated":
		return mk(200, &errReader{n: 2}), nil
	case "empty":
		return mk(200, strings.NewReader("")), nil
	case "garbage":
		return mk(200, strings.NewReader("\x00\xff\xfe not xml")), nil
	case "soap-fault":
		return mk(200, strings.NewReader(`<soap-env:Envelope xmlns:soap-env="http://schemas.xmlsoap.org/soap/envelope/"><soap-env:Body><soap-env:Fault><faultcode>x</faultcode></soap-env:Fault></soap-env:Body></soap-env:Envelope>`)), nil
	case "wrong-envelope":
		return mk(200, strings.NewReader(`<Envelope xmlns="urn:other"><Body/></Envelope>`)), nil
	case "no-body":
		return mk(200, strings.NewReader(`<soap-env:Envelope xmlns:soap-env="http://schemas.xmlsoap.org/soap/envelope/"/>`)), nil
	case "comment-only":
		return mk(200, strings.NewReader(`<!-- nothing -->`)), nil
	default: // two bodies
		return mk(200, strings.NewReader(`<soap-env:Envelope xmlns:soap-env="http://schemas.xmlsoap.org/soap/envelope/"><soap-env:Body/><soap-env:Body/></soap-env:Envelope>`)), nil
	}
}

func (c *Ctx) c09Resolver() {
	cfg := baseCfg()
	setGlobals(cfg, ms(baseTime))
	modes := []string{"conn-error", "500", "404-html", "truncated", "empty", "garbage", "soap-fault", "wrong-envelope", "no-body", "comment-only", "two-bodies",
		"deadline-error", "cancel-error", "stall-headers", "stall-body", "deadline-body", "cancel-body"}
	clens := []int64{0, -1, 3, 1 << 31}
	for i := 0; i < len(modes)*len(clens); i++ {
		mode, clen := modes[i%len(modes)], clens[i/len(modes)]
		s := c.realSP(cfg)
		s.IDPMetadata.IDPSSODescriptors[0].ArtifactResolutionServices = []saml.Endpoint{{Binding: saml.SOAPBinding, Location: "https://idp.example.com/saml/artifact"}}
		s.HTTPClient = &http.Client{Transport: faultRT{mode: mode, clen: clen}}
		var reqCtx context.Context = context.Background()
		if strings.HasPrefix(mode, "stall-") {
			// abandoned exchanges: by the client's own Timeout, by a deadline on the incoming request, or by the browser going away
			switch i / len(modes) {
			case 0, 3:
				s.HTTPClient.Timeout = 30 * time.Millisecond
			case 1:
				var cancel context.CancelFunc
				reqCtx, cancel = context.WithTimeout(reqCtx, 30*time.Millisecond)
				defer cancel()
			default:
				var cancel context.CancelFunc
				reqCtx, cancel = context.WithCancel(reqCtx)
				time.AfterFunc(30*time.Millisecond, cancel)
			}
		}
		saml.RandReader = &detReader{c: c}
		res := withTimeout(func() string {
			req, _ := http.NewRequestWithContext(reqCtx, "POST", cfg.Acs, nil)
			req.Form = url.Values{"SAMLart": {"AAQAAMFbLinlXaCM+FIxiDwGOLAy2T71gbpO7ZhNzAgEANlB90ECfpNEVLg="}}
			req.PostForm = req.Form
			return canonParse(s.ParseResponse(req, []string{"id-req1"}))
		}, 10*time.Second)
		orc := panicOracle(res, "ParseResponse/artifact:"+mode)
		if orc == "" && !strings.HasPrefix(res, "err") {
			orc = "key=artifact-fault:" + mode + " a failing artifact resolution did not yield an InvalidResponseError: " + res
		}
		c.count("c09-resolver", mode+"/"+res)
		c.count("c09-resolver-content-length", fmt.Sprint(clen))
		c.emitOneWay("resolver", []string{encStr(mode), fmt.Sprint(clen)}, res, orc)
	}
}

// key-descriptor layouts through the real IdP (getSPEncryptionCert is unexported: reached via MakeAssertionEl)
func (c *Ctx) c09KeyDescriptors() {
	spCert := base64.StdEncoding.EncodeToString(c.key("sp").Cert.Raw)
	layouts := [][]mdKey{
		nil,
		{{Use: "encryption", Certs: []string{spCert}}},
		{{Use: "encryption", Certs: nil}},
		{{Use: "encryption", Certs: []string{""}}},
		{{Use: "encryption", Certs: []string{"", spCert}}},
		{{Use: "", Certs: []string{spCert}}},
		{{Use: "", Certs: nil}},
		{{Use: "", Certs: []string{""}}},
		{{Use: "signing", Certs: []string{spCert}}},
		{{Use: "signing", Certs: []string{spCert}}, {Use: "encryption", Certs: nil}},
		{{Use: "signing", Certs: []string{spCert}}, {Use: "", Certs: []string{spCert}}},
		{{Use: "encryption", Certs: []string{"@@not base64@@"}}},
		{{Use: "encryption", Certs: []string{"Z2FyYmFnZQ=="}}},
		{{Use: "", Certs: []string{"Z2FyYmFnZQ=="}}},
		{{Use: "encryption", Certs: []string{" " + spCert[:40] + "\n" + spCert[40:] + " "}}},
		{{Use: "ENCRYPTION", Certs: []string{spCert}}},
		{{Use: "encryption", Certs: []string{""}}, {Use: "", Certs: []string{spCert}}},
	}
	for li, keys := range layouts {
		md := mdEntity{EntityID: spEntity, Descs: []mdDesc{{ACS: []mdEndpoint{{Binding: saml.HTTPPostBinding, Location: acsURL, Index: 1}}, Keys: keys}}}
		reg := registry{spEntity: {kind: "f", md: md}}
		now := baseTime
		saml.TimeNow = func() time.Time { return now }
		saml.RandReader = &detReader{c: c}
		idp := c.newIDP(reg)
		res := withTimeout(func() string {
			w := httptest.NewRecorder()
			r, _ := http.NewRequest("GET", "https://idp.example.com/login/sp", nil)
			idp.ServeIDPInitiated(w, r, spEntity, "relay")
			if w.Code != 200 {
				return "err"
			}
			body := w.Body.String()
			o, _ := observeForm([]byte(body))
			v, _ := inputVal(o, "SAMLResponse")
			x, _ := base64.StdEncoding.DecodeString(v)
			switch {
			case bytes.Contains(x, []byte("EncryptedAssertion")):
				return "ok cert"
			case bytes.Contains(x, []byte("<saml:Assertion")):
				return "ok none"
			}
			return "ok-unknown"
		}, 10*time.Second)
		// model tokens
		toks := []string{fmt.Sprint(len(keys))}
		for _, k := range keys {
			toks = append(toks, encStr(k.Use))
			toks = append(toks, encStrList(k.Certs)...)
		}
		orc := panicOracle(res, "ServeIDPInitiated/key-descriptors")
		c.count("c09-keydesc", fmt.Sprintf("layout%d/%s", li, res))
		// the model's `ok cert <data>` still has to decode; garbage certificates are errors of the decoding step
		c.emitOneWay("enccert-layout", toks, res, orc)
	}
}

func min(a, b int) int {
	if a < b {
		return a
	}
	return b
}

func max(a, b int) int {
	if a > b {
		return a
	}
	return b
}

// ---- part 2: byte-level mutation of the repository's fixtures, inflate bombs, resolver faults, key descriptors ----
