package main

func facts(args []string) {}
